// h_contour: contour (line) integrals through the real post-processor classes.
//   h_contour e <file.res>   ElectrostaticsPostProcessor::lineIntegral   (cfemm/epproc)
//   h_contour h <file.anh>   HPProc::lineIntegral                        (cfemm/hpproc)
//   h_contour m <file.ans>   FPProc::LineIntegral                        (cfemm/fpproc)
// After OpenDocument the mesh as the post-processor holds it is dumped (every line of this harness starts
// with a tag and a blank; anything else on stdout is chatter of the library; numbers %.17g):
//   P axi LengthConv Depth unit d_LineIntegralPoints Frequency
//   n x y                                 per mesh node
//   e p0 p1 p2 lbl ctr.re ctr.im rsqr     per element
//   c e0 e1 ...                           per mesh node: ConList[node][0..NumList[node]-1]
//   d x y                                 per input node (nodelist)
//   D
// then commands are read from stdin:
//   N n          d_LineIntegralPoints = n
//   z            clear the contour                         (clearContour / contour.clear() as mo_clearcontour)
//   a x y        addContourPoint                           (FPProc: the statements of femmcli's mo_addcontour)
//   p x y        addContourPointFromNode                   (e, h only)
//   b ang step   bendContour / BendContour; prints "b n sn e0.re e0.im  e1.re e1.im ..." = the libm values of the
//                call, computed with the expressions of bendContour
//   C            -> "C x0 y0 x1 y1 ..."                     the contour
//   r            InTriangle at the centroid of element 0 (puts the function-local static k of InTriangle into a
//                known state) -> "r idx"
//   V            getPointValues(x,y,u) at contour[0] and contour[size-1]: "V f0 v0.. f1 v1.." (e: V, h: T, m: A.re A.im)
//   R shift      replay of the sampling loop of lineIntegral with the REAL InTriangle / InTriangleTest / ConList /
//                getPointValues(x,y,elm,v): per sample "q k i pt.re pt.im elm <point values>"
//                (e: D.re D.im E.re E.im; h: F.re F.im T; m: B1 B2 H1 H2 as re im pairs); shift=0: no pt+=n*1e-6
//   L t          -> "L t r0 r1" (e, h) / "L t z0.re z0.im ... z3.re z3.im" (m): the real lineIntegral(t)
#include <cstdio>
#include <cstdlib>
#include <cstring>
#include <string>
#include <vector>
#include <sstream>
#include <iostream>
#include <cmath>
#include <memory>
#include <map>
#include <set>
#include <list>
#include <algorithm>
#include <fstream>
#include <functional>
#define private public
#define protected public
#include "femmcomplex.h"
#include "femmconstants.h"
#include "PostProcessor.h"
#include "epproc.h"
#include "hpproc.h"
#include "fpproc.h"
#undef private
#undef protected

static void pv(double x) { printf(" %.17g", x); }
static void pc(CComplex z) { pv(z.re); pv(z.im); }

int main(int argc, char **argv)
{
    if (argc < 3) { fprintf(stderr, "usage: h_contour e|h|m file\n"); return 2; }
    char kind = argv[1][0];
    std::string file = argv[2];
    ElectrostaticsPostProcessor *ep = nullptr;
    HPProc *hp = nullptr;
    FPProc *fp = nullptr;
    bool ok = false;
    if (kind == 'e') { ep = new ElectrostaticsPostProcessor; ok = ep->OpenDocument(file); }
    else if (kind == 'h') { hp = new HPProc; ok = hp->OpenDocument(file); }
    else if (kind == 'm') { fp = new FPProc; ok = fp->OpenDocument(file); }
    printf("\nO %d\n", ok ? 1 : 0);
    if (!ok) return 3;
    femm::PostProcessor *pp = ep ? (femm::PostProcessor *)ep : (femm::PostProcessor *)hp;

    int nnodes = 0, nelems = 0;
    if (pp) {
        auto &prob = *pp->problem;
        printf("P %d", prob.problemType == femm::AXISYMMETRIC ? 1 : 0);
        pv(pp->LengthConv[prob.LengthUnits]); pv(prob.Depth); printf(" %d %d 0\n", (int)prob.LengthUnits, pp->d_LineIntegralPoints);
        nnodes = (int)pp->meshnodes.size(); nelems = (int)pp->meshelems.size();
        for (auto &n : pp->meshnodes) { printf("n"); pv(n->x); pv(n->y); printf("\n"); }
        for (auto &e : pp->meshelems) { printf("e %d %d %d %d", e->p[0], e->p[1], e->p[2], e->lbl); pv(e->ctr.re); pv(e->ctr.im); pv(e->rsqr); printf("\n"); }
        for (int i = 0; i < nnodes; i++) { printf("c"); for (int m = 0; m < pp->NumList[i]; m++) printf(" %d", pp->ConList[i][m]); printf("\n"); }
        for (auto &n : prob.nodelist) { printf("d"); pv(n->x); pv(n->y); printf("\n"); }
    } else {
        printf("P %d", fp->problemType == femm::AXISYMMETRIC ? 1 : 0);
        pv(fp->LengthConv[fp->LengthUnits]); pv(fp->Depth); printf(" %d %d", (int)fp->LengthUnits, fp->d_LineIntegralPoints); pv(fp->Frequency); printf("\n");
        nnodes = (int)fp->meshnode.size(); nelems = (int)fp->meshelem.size();
        for (auto &n : fp->meshnode) { printf("n"); pv(n.x); pv(n.y); printf("\n"); }
        for (auto &e : fp->meshelem) { printf("e %d %d %d %d", e.p[0], e.p[1], e.p[2], e.lbl); pv(e.ctr.re); pv(e.ctr.im); pv(e.rsqr); printf("\n"); }
        for (int i = 0; i < nnodes; i++) { printf("c"); for (int m = 0; m < fp->NumList[i]; m++) printf(" %d", fp->ConList[i][m]); printf("\n"); }
        for (auto &n : fp->nodelist) { printf("d"); pv(n.x); pv(n.y); printf("\n"); }
    }
    printf("D\n");
    fflush(stdout);

    std::vector<CComplex> &contour = pp ? pp->contour : fp->contour;
    auto intri = [&](double x, double y) { return pp ? pp->InTriangle(x, y) : fp->InTriangle(x, y); };
    auto tritest = [&](double x, double y, int i) { return ep ? ep->InTriangleTest(x, y, i) : (hp ? hp->InTriangleTest(x, y, i) : fp->InTriangleTest(x, y, i)); };
    auto enode = [&](int elm, int j) { return pp ? pp->meshelems[elm]->p[j] : fp->meshelem[elm].p[j]; };
    int *NumList = pp ? pp->NumList : fp->NumList;
    int **ConList = pp ? pp->ConList : fp->ConList;

    std::string line;
    while (std::getline(std::cin, line)) {
        std::istringstream is(line);
        std::string cmd;
        if (!(is >> cmd)) continue;
        std::vector<std::string> a;
        std::string t;
        while (is >> t) a.push_back(t);
        if (cmd == "N") { int n = atoi(a[0].c_str()); if (pp) pp->d_LineIntegralPoints = n; else fp->d_LineIntegralPoints = n; continue; }
        if (cmd == "z") { if (pp) pp->clearContour(); else fp->contour.clear(); continue; }
        if (cmd == "a") {
            CComplex z(strtod(a[0].c_str(), 0), strtod(a[1].c_str(), 0));
            if (pp) pp->addContourPoint(z);
            else {
                // femmcli LuaMagneticsCommands::luaAddContourPoint
                if (!fp->contour.empty()) { if (z != fp->contour.back()) fp->contour.push_back(z); }
                else fp->contour.push_back(z);
            }
            continue;
        }
        if (cmd == "p" && pp) { pp->addContourPointFromNode(strtod(a[0].c_str(), 0), strtod(a[1].c_str(), 0)); continue; }
        if (cmd == "b") {
            double angle = strtod(a[0].c_str(), 0), anglestep = strtod(a[1].c_str(), 0);
            // the libm values of this call, with the expressions of bendContour
            {
                double as = anglestep; if (as == 0) as = 1;
                int n = (int) ceil(fabs(angle/as));
                double tta = angle*PI/180.;
                double dtta = tta/((double) n);
                printf("b %d", n); pv(sin(fabs(tta/2.)));
                if (tta > 0) pc(exp(I*(PI-tta)/2.)); else pc(exp(-I*(PI+tta)/2.));
                for (int k = 1; k <= n && k < 100000; k++) pc(exp(k * I * dtta));
                printf("\n");
            }
            if (pp) pp->bendContour(angle, anglestep); else fp->BendContour(angle, anglestep);
            continue;
        }
        if (cmd == "C") { printf("C"); for (auto &z : contour) pc(z); printf("\n"); continue; }
        if (cmd == "r") {
            CComplex c = pp ? pp->meshelems[0]->ctr : fp->meshelem[0].ctr;
            printf("r %d\n", intri(c.re, c.im));
            continue;
        }
        if (cmd == "V") {
            printf("V");
            int k = (int)contour.size();
            for (int w = 0; w < 2; w++) {
                CComplex z = contour[w == 0 ? 0 : k - 1];
                if (ep) { CSPointVals u; u.V = 0; bool f = ep->getPointValues(z.re, z.im, u); printf(" %d", f ? 1 : 0); pv(u.V); pv(0); }
                else if (hp) { CHPointVals u; u.T = 0; bool f = hp->getPointValues(z.re, z.im, u); printf(" %d", f ? 1 : 0); pv(u.T); pv(0); }
                else { CMPointVals u; u.A = 0; bool f = fp->GetPointValues(z.re, z.im, u); printf(" %d", f ? 1 : 0); pc(u.A); }
            }
            printf("\n");
            continue;
        }
        if (cmd == "R") {
            bool shift = atoi(a[0].c_str()) != 0;
            int NumPlotPoints = pp ? pp->d_LineIntegralPoints : fp->d_LineIntegralPoints;
            for (int k = 1; k < (int)contour.size(); k++) {
                int elm = -1;
                for (int i = 0; i < NumPlotPoints; i++) {
                    double u = (((double) i) + 0.5) / ((double) NumPlotPoints);
                    CComplex pt = contour[k-1] + u*(contour[k] - contour[k-1]);
                    if (shift) {
                        CComplex t = contour[k] - contour[k-1];
                        t /= abs(t);
                        CComplex n = I*t;
                        pt += n*1.e-06;
                    }
                    bool flag;
                    if (elm < 0) elm = intri(pt.re, pt.im);
                    else if (!tritest(pt.re, pt.im, elm)) {
                        flag = false;
                        for (int j = 0; j < 3; j++)
                            for (int m = 0; j < 3 && m < NumList[enode(elm, j)]; m++) {
                                elm = ConList[enode(elm, j)][m];
                                if (tritest(pt.re, pt.im, elm)) { flag = true; m = 100; j = 3; }
                            }
                        if (!flag) elm = intri(pt.re, pt.im);
                    }
                    printf("q %d %d", k, i); pc(pt); printf(" %d", elm);
                    if (elm >= 0) {
                        if (ep) { CSPointVals v; ep->getPointValues(pt.re, pt.im, elm, v); pc(v.D); pc(v.E); }
                        else if (hp) { CHPointVals v; hp->getPointValues(pt.re, pt.im, elm, v); pc(v.F); pv(v.T); }
                        else { CMPointVals v; fp->GetPointValues(pt.re, pt.im, elm, v); pc(v.B1); pc(v.B2); pc(v.H1); pc(v.H2); }
                    } else {
                        int cnt = ep ? 4 : (hp ? 3 : 8);
                        for (int w = 0; w < cnt; w++) pv(0);
                    }
                    printf("\n");
                }
            }
            printf("Q\n");
            continue;
        }
        if (cmd == "L") {
            int ty = atoi(a[0].c_str());
            printf("L %d", ty);
            if (ep) { double z[2] = {0, 0}; ep->lineIntegral(ty, z); pv(z[0]); pv(z[1]); }
            else if (hp) { double z[2] = {0, 0}; hp->lineIntegral(ty, z); pv(z[0]); pv(z[1]); }
            else { CComplex z[4]; fp->LineIntegral(ty, z); for (int w = 0; w < 4; w++) pc(z[w]); }
            printf("\n");
            fflush(stdout);
            continue;
        }
        printf("? %s\n", cmd.c_str());
    }
    fflush(stdout);
    return 0;
}
