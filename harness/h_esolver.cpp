// h_esolver: run the real ESolver pipeline (LoadProblemFile, LoadMesh, Cuthill, Create,
// AnalyzeProblem) on <path-without-extension> and dump the solver's input data (after
// renumbering) and the assembled system, solution and conductor charges.
#include <cstdio>
#include <cstdlib>
#include <cstring>
#include <string>
#include <vector>
#include <unistd.h>
#include <fcntl.h>
#define private public
#define protected public
#include "femmcomplex.h"
#include "femmconstants.h"
#include "spars.h"
#include "esolver.h"
#undef private
#undef protected

static FILE *out;
static void pv(double x) { fprintf(out, " %.17g", x); }

int main(int argc, char **argv)
{
    if (argc < 3) { fprintf(stderr, "usage: h_esolver <path-noext> <dumpfile>\n"); return 9; }
    out = fopen(argv[2], "w");
    ESolver S;
    S.PathName = argv[1];
    if (!S.LoadProblemFile()) { fprintf(out, "FAIL loadproblem\n"); fclose(out); return 1; }
    if (S.LoadMesh(false) != 0) { fprintf(out, "FAIL loadmesh\n"); fclose(out); return 2; }
    if (!S.Cuthill(false)) { fprintf(out, "FAIL cuthill\n"); fclose(out); return 3; }
    fprintf(out, "PROB %d", S.ProblemType == femm::AXISYMMETRIC ? 1 : 0);
    pv(S.Depth); fprintf(out, " %d", (int)S.LengthUnits); pv(S.extRo); pv(S.extRi); pv(S.extZo); pv(eo); pv(S.Precision);
    fprintf(out, " %d %d %d %d\n", S.BandWidth, S.NumNodes, S.NumEls, S.NumCircProps);
    for (int i = 0; i < S.NumNodes; i++) {
        fprintf(out, "NODE"); pv(S.meshnode[i].x); pv(S.meshnode[i].y);
        fprintf(out, " %d %d\n", S.meshnode[i].BoundaryMarker, S.meshnode[i].InConductor);
    }
    for (int i = 0; i < S.NumEls; i++) {
        auto &e = S.meshele[i];
        fprintf(out, "ELEM %d %d %d %d %d %d %d %d\n", e.p[0], e.p[1], e.p[2], e.e[0], e.e[1], e.e[2], e.blk, e.lbl);
    }
    for (auto &b : S.blockproplist) { fprintf(out, "BLOCK"); pv(b.ex); pv(b.ey); pv(b.qv); fprintf(out, "\n"); }
    for (auto &l : S.lineproplist) { fprintf(out, "LINE %d", l.BdryFormat); pv(l.V); pv(l.c0); pv(l.c1); pv(l.qs); fprintf(out, "\n"); }
    for (auto &p : S.nodeproplist) { fprintf(out, "POINT"); pv(p.V); pv(p.qp); fprintf(out, "\n"); }
    for (auto &c : S.circproplist) { fprintf(out, "CIRC %d", c.CircType); pv(c.V); pv(c.q); fprintf(out, "\n"); }
    for (auto &l : S.labellist) fprintf(out, "LABEL %d\n", l.IsExternal ? 1 : 0);
    for (int k = 0; k < S.NumPBCs; k++) fprintf(out, "PBC %d %d %d\n", S.pbclist[k].x, S.pbclist[k].y, S.pbclist[k].t);

    CBigLinProb L;
    L.Precision = S.Precision;
    L.Create(S.NumNodes + S.NumCircProps, S.BandWidth);
    fflush(stdout);
    int save = dup(1); int nul = open("/dev/null", O_WRONLY); dup2(nul, 1);
    int ok = S.AnalyzeProblem(L);
    fflush(stdout); dup2(save, 1); close(save); close(nul);
    fprintf(out, "SOLVED %d", ok); pv(S.Depth); fprintf(out, "\n");
    for (int i = 0; i < L.n; i++) {
        int cnt = 0;
        for (CEntry *e = L.M[i]; e != NULL; e = e->next) cnt++;
        fprintf(out, "ROW %d %d", i, cnt);
        for (CEntry *e = L.M[i]; e != NULL; e = e->next) { fprintf(out, " %d", e->c); pv(e->x); }
        fprintf(out, "\n");
    }
    fprintf(out, "B"); for (int i = 0; i < L.n; i++) pv(L.b[i]); fprintf(out, "\n");
    fprintf(out, "V"); for (int i = 0; i < L.n; i++) pv(L.V[i]); fprintf(out, "\n");
    fprintf(out, "Q"); for (int i = 0; i < L.n; i++) fprintf(out, " %d", L.Q[i]); fprintf(out, "\n");
    fprintf(out, "CHARGE"); for (auto &c : S.circproplist) pv(c.q); fprintf(out, "\n");
    // conductor charges recomputed for every conductor (also the floating ones)
    fprintf(out, "CHARGEALL"); for (int i = 0; i < S.NumCircProps; i++) pv(S.ChargeOnConductor(i, L)); fprintf(out, "\n");
    fclose(out);
    return ok ? 0 : 4;
}
