// h_drawing: drive the geometry editing core of femm::FemmProblem (cfemm/libfemm/FemmProblem.cpp)
// with op sequences read from stdin, exactly as the Lua commands of
// cfemm/femmcli/LuaCommonCommands.cpp call it (same tolerance computations, same call order),
// and dump the drawing after every op.
//
// input  : one op per line; numbers are read with strtod (hex floats are exact)
//   case <id>                       start a new (empty) electrostatics problem
//   addnode x y                     luaAddNode
//   addsegment x0 y0 x1 y1          luaAddLine
//   addlabel x y                    luaAddBlocklabel
//   addarc x0 y0 x1 y1 angle maxseg luaAddArc            (skipped when there is no node)
//   selectnode|selectsegment|selectlabel|selectarc x y   luaSelect*
//   selectgroup g | setgroup g | clearselected
//   setnodeprop k g | setsegprop k g | setlabelprop k g  luaSet*Property on the selected entities
//   deleteselected | deleteselectednodes | deleteselectedsegments | deleteselectedlabels | deleteselectedarcs
//   movetranslate dx dy mode | moverotate cx cy angle mode | scale bx by sf mode
//   copytranslate dx dy n mode | copyrotate cx cy angle n mode | mirror x0 y0 x1 y1 mode
//   createradius x y r              luaCreateRadius
//   end                             end of case
// After an op that leaves a segment or arc with a missing end node or with n0 == n1 the harness
// prints "halted" and ignores the remaining ops of the case (they would index out of range).
// output : per op   "op <k> <name> [z re im ...]" then the dump
//   N <count> / n x y sel grp prop / S <count> / s n0 n1 sel grp prop / A <count> /
//   a n0 n1 sel grp arclength maxside prop / L <count> / l x y sel grp maxarea prop / .
#include <cstdio>
#include <cstdlib>
#include <cstring>
#include <string>
#include <vector>
#include <sstream>
#include <iostream>
#include <cmath>
#include <memory>
#include "femmcomplex.h"
#include "femmconstants.h"
#include "femmenums.h"
#include "FemmProblem.h"
#include "CNode.h"
#include "CSegment.h"
#include "CArcSegment.h"
#include "CBlockLabel.h"

using namespace femm;

static std::unique_ptr<FemmProblem> doc;

// the tolerance computed by luaAddNode / luaAddBlocklabel
static double lua_tol()
{
    double d;
    if ((int)doc->nodelist.size() < 2) {
        d = 1.e-08;
    } else {
        CComplex p0, p1, p2;
        p0 = doc->nodelist[0]->CC();
        p1 = p0;
        for (int i = 1; i < (int)doc->nodelist.size(); i++) {
            p2 = doc->nodelist[i]->CC();
            if (p2.re < p0.re) p0.re = p2.re;
            if (p2.re > p1.re) p1.re = p2.re;
            if (p2.im < p0.im) p0.im = p2.im;
            if (p2.im > p1.im) p1.im = p2.im;
        }
        d = abs(p1 - p0) * CLOSE_ENOUGH;
    }
    return d;
}

static std::string nodeprop(const CNode &n)
{
    std::ostringstream o;
    o << n.BoundaryMarkerName << "|" << n.InConductorName << "|" << n.BoundaryMarker << "|" << n.InConductor;
    return o.str();
}
static std::string segprop(const CSegment &s)
{
    char b[64];
    snprintf(b, sizeof b, "%.17g", s.MaxSideLength);
    std::ostringstream o;
    o << b << "|" << (s.Hidden ? 1 : 0) << "|" << s.BoundaryMarkerName << "|" << s.InConductorName << "|"
      << s.BoundaryMarker << "|" << s.InConductor;
    return o.str();
}
static std::string labelprop(const CBlockLabel &l)
{
    std::ostringstream o;
    o << l.BlockTypeName << "|" << l.InCircuitName << "|" << l.BlockType << "|" << l.InCircuit << "|"
      << (l.IsExternal ? 1 : 0) << "|" << (l.IsDefault ? 1 : 0);
    return o.str();
}

static void dump()
{
    printf("N %d\n", (int)doc->nodelist.size());
    for (auto &n : doc->nodelist)
        printf("n %.17g %.17g %d %d %s\n", n->x, n->y, n->IsSelected ? 1 : 0, n->InGroup, nodeprop(*n).c_str());
    printf("S %d\n", (int)doc->linelist.size());
    for (auto &s : doc->linelist)
        printf("s %d %d %d %d %s\n", s->n0, s->n1, s->IsSelected ? 1 : 0, s->InGroup, segprop(*s).c_str());
    printf("A %d\n", (int)doc->arclist.size());
    for (auto &a : doc->arclist)
        printf("a %d %d %d %d %.17g %.17g %s\n", a->n0, a->n1, a->IsSelected ? 1 : 0, a->InGroup, a->ArcLength,
               a->MaxSideLength, segprop(*a).c_str());
    printf("L %d\n", (int)doc->labellist.size());
    for (auto &l : doc->labellist)
        printf("l %.17g %.17g %d %d %.17g %s\n", l->x, l->y, l->IsSelected ? 1 : 0, l->InGroup, l->MaxArea,
               labelprop(*l).c_str());
    printf(".\n");
}

int main()
{
    std::string line;
    int opno = 0;
    bool halted = false;   // a segment/arc refers to a missing node or has n0 == n1: later ops would be UB
    while (std::getline(std::cin, line)) {
        std::istringstream is(line);
        std::string cmd;
        if (!(is >> cmd)) continue;
        std::vector<std::string> a;
        std::string t;
        while (is >> t) a.push_back(t);
        auto D = [&](size_t i) { return i < a.size() ? strtod(a[i].c_str(), nullptr) : 0.0; };
        auto IA = [&](size_t i) { return i < a.size() ? atoi(a[i].c_str()) : 0; };
        if (cmd == "case") {
            doc.reset(new FemmProblem(FileType::ElectrostaticsFile));
            opno = 0;
            halted = false;
            printf("case %s\n", a.empty() ? "0" : a[0].c_str());
            continue;
        }
        if (cmd == "end") { printf("end\n"); fflush(stdout); continue; }
        if (!doc) doc.reset(new FemmProblem(FileType::ElectrostaticsFile));
        if (halted) continue;
        printf("op %d %s", opno++, cmd.c_str());
        if (cmd == "addnode") {
            double d = lua_tol();
            doc->addNode(D(0), D(1), d);
        }
        else if (cmd == "addsegment") {
            doc->addSegment(doc->closestNode(D(0), D(1)), doc->closestNode(D(2), D(3)));
        }
        else if (cmd == "addlabel") {
            double d = lua_tol();
            doc->addBlockLabel(D(0), D(1), d);
        }
        else if (cmd == "addarc") {
            // luaAddArc dereferences nodelist[closestNode(..)] without a check; with no node
            // that is nodelist[-1]: not driven (reported separately by the check)
            if (!doc->nodelist.empty()) {
                CArcSegment asegm;
                asegm.n0 = doc->closestNode(D(0), D(1));
                asegm.n1 = doc->closestNode(D(2), D(3));
                doc->nodelist[asegm.n1]->ToggleSelect();
                asegm.MaxSideLength = D(5);
                asegm.ArcLength = D(4);
                doc->addArcSegment(asegm);
                doc->unselectAll();
            } else printf(" skipped");
        }
        else if (cmd == "selectnode") {
            if (doc->nodelist.size() != 0) doc->nodelist[doc->closestNode(D(0), D(1))]->ToggleSelect();
        }
        else if (cmd == "selectsegment") {
            if (!doc->linelist.empty()) doc->linelist[doc->closestSegment(D(0), D(1))]->ToggleSelect();
        }
        else if (cmd == "selectlabel") {
            if (!doc->labellist.empty()) doc->labellist[doc->closestBlockLabel(D(0), D(1))]->ToggleSelect();
        }
        else if (cmd == "selectarc") {
            if (!doc->arclist.empty()) doc->arclist[doc->closestArcSegment(D(0), D(1))]->ToggleSelect();
        }
        else if (cmd == "selectgroup") {
            int group = IA(0);
            for (auto &n : doc->nodelist) if (n->InGroup == group) n->IsSelected = true;
            for (auto &s : doc->linelist) if (s->InGroup == group) s->IsSelected = true;
            for (auto &s : doc->arclist) if (s->InGroup == group) s->IsSelected = true;
            for (auto &l : doc->labellist) if (l->InGroup == group) l->IsSelected = true;
            doc->setDefaultEditMode(EditMode::EditGroup);
        }
        else if (cmd == "setgroup") {
            int grp = IA(0);
            for (auto &n : doc->nodelist) if (n->IsSelected) n->InGroup = grp;
            for (auto &s : doc->linelist) if (s->IsSelected) s->InGroup = grp;
            for (auto &s : doc->arclist) if (s->IsSelected) s->InGroup = grp;
            for (auto &l : doc->labellist) if (l->IsSelected) l->InGroup = grp;
            doc->unselectAll();
        }
        else if (cmd == "clearselected") doc->unselectAll();
        else if (cmd == "setnodeprop") {
            int k = IA(0), g = IA(1);
            for (auto &n : doc->nodelist) if (n->IsSelected) {
                n->InGroup = g;
                n->BoundaryMarker = k - 1;
                n->BoundaryMarkerName = k ? "np" + std::to_string(k) : "<None>";
                n->InConductor = k - 1;
                n->InConductorName = k ? "nc" + std::to_string(k) : "<None>";
            }
        }
        else if (cmd == "setsegprop") {
            int k = IA(0), g = IA(1);
            for (auto &s : doc->linelist) if (s->IsSelected) {
                s->MaxSideLength = k ? 0.5 * k : -1;
                s->BoundaryMarker = k - 1;
                s->BoundaryMarkerName = k ? "sp" + std::to_string(k) : "<None>";
                s->Hidden = (k % 2) != 0;
                s->InGroup = g;
                s->InConductor = k - 1;
                s->InConductorName = k ? "sc" + std::to_string(k) : "<None>";
            }
        }
        else if (cmd == "setlabelprop") {
            int k = IA(0), g = IA(1);
            for (auto &l : doc->labellist) if (l->IsSelected) {
                l->MaxArea = (double)k;
                l->BlockTypeName = k ? "bp" + std::to_string(k) : "<No Mesh>";
                l->BlockType = k - 1;
                l->InGroup = g;
            }
        }
        else if (cmd == "deleteselected") {
            doc->deleteSelectedSegments();
            doc->deleteSelectedArcSegments();
            doc->deleteSelectedNodes();
            doc->deleteSelectedBlockLabels();
        }
        else if (cmd == "deleteselectednodes") doc->deleteSelectedNodes();
        else if (cmd == "deleteselectedsegments") doc->deleteSelectedSegments();
        else if (cmd == "deleteselectedlabels") doc->deleteSelectedBlockLabels();
        else if (cmd == "deleteselectedarcs") doc->deleteSelectedArcSegments();
        else if (cmd == "movetranslate") {
            EditMode m = intToEditMode(IA(2));
            if (m != EditMode::Invalid) { doc->updateUndo(); doc->translateMove(D(0), D(1), m); }
        }
        else if (cmd == "moverotate") {
            EditMode m = intToEditMode(IA(3));
            if (m != EditMode::Invalid) {
                double tt = D(2);
                CComplex z = exp(I * tt * PI / 180);
                printf(" z %.17g %.17g", z.re, z.im);
                doc->updateUndo();
                doc->rotateMove(CComplex(D(0), D(1)), tt, m);
            }
        }
        else if (cmd == "scale") {
            EditMode m = intToEditMode(IA(3));
            if (m != EditMode::Invalid) { doc->updateUndo(); doc->scaleMove(D(0), D(1), D(2), m); }
        }
        else if (cmd == "copytranslate") {
            EditMode m = intToEditMode(IA(3));
            if (m != EditMode::Invalid) { doc->updateUndo(); doc->translateCopy(D(0), D(1), IA(2), m); }
        }
        else if (cmd == "copyrotate") {
            EditMode m = intToEditMode(IA(4));
            if (m != EditMode::Invalid) {
                double dt = D(2);
                int nc = IA(3);
                for (int c = 0; c < nc; c++) {
                    double tt = ((double)(c + 1)) * dt;
                    CComplex z = exp(I * tt * PI / 180);
                    printf(" z %.17g %.17g", z.re, z.im);
                }
                doc->rotateCopy(CComplex(D(0), D(1)), dt, nc, m);
            }
        }
        else if (cmd == "mirror") {
            EditMode m = intToEditMode(IA(4));
            if (m != EditMode::Invalid) { doc->updateUndo(); doc->mirrorCopy(D(0), D(1), D(2), D(3), m); }
        }
        else if (cmd == "createradius") {
            double r = fabs(D(2));
            int node = doc->closestNode(D(0), D(1));
            if (node >= 0 && doc->canCreateRadius(node)) {
                bool ok = doc->createRadius(node, r);
                printf(" %s", ok ? "done" : "refused");
            } else printf(" unsuitable");
        }
        else printf(" ?");
        printf("\n");
        dump();
        {
            int nn = (int)doc->nodelist.size();
            for (auto &sg : doc->linelist)
                if (sg->n0 < 0 || sg->n1 < 0 || sg->n0 >= nn || sg->n1 >= nn || sg->n0 == sg->n1) halted = true;
            for (auto &sg : doc->arclist)
                if (sg->n0 < 0 || sg->n1 < 0 || sg->n0 >= nn || sg->n1 >= nn || sg->n0 == sg->n1) halted = true;
            if (halted) printf("halted\n");
        }
        fflush(stdout);
    }
    return 0;
}
