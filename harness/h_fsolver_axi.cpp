// h_fsolver_axi: copy of h_fsolver.cpp for AXISYMMETRIC problems: run the real FSolver pipeline of
// runSolver() (LoadProblemFile, LoadMesh(false), Cuthill(false), Create, StaticAxisymmetric /
// HarmonicAxisymmetric) on <path-without-extension> and dump (in addition to what h_fsolver dumps:
// extRo/extRi/extZo as read, IsExternal per label, and per element the six logarithms of
// staticaxi.cpp:231-260 / harmonicaxi.cpp:299-328 recomputed with the solver's expressions)
//   * the solver's in-memory input data after renumbering (nodes, elements, block / line /
//     point / circuit properties after the series-circuit expansion, labels, PBCs),
//   * the libm values the assembly uses (cos/sin of the magnetisation direction per element,
//     cos(phi*DEG) / exp(I*phi*DEG) per boundary property, exp / tanh of the complex
//     permeability per block), recomputed here with the very expressions of staticaxi.cpp /
//     harmonicaxi.cpp,
//   * the assembled matrix and right-hand side, the solution and the per-label circuit lines
//     exactly as WriteStatic2D / WriteHarmonic2D print them.
// StaticAxisymmetric / HarmonicAxisymmetric overwrite L.b with the flux after the solve, so the assembled right-hand
// side is captured at the moment the linear solver announces itself on stdout
// ("Conjugate Gradient Solver" / "Initializing Solver"): stdout is replaced by an unbuffered
// cookie stream whose write callback copies L.b.  The matrix is not modified by the solve.
#ifndef _GNU_SOURCE
#define _GNU_SOURCE
#endif
#include <cstdio>
#include <cstdlib>
#include <cstring>
#include <cmath>
#include <string>
#include <vector>
#include <unistd.h>
#include <fcntl.h>
#define private public
#define protected public
#include "femmcomplex.h"
#include "femmconstants.h"
#include "spars.h"
#include "cspars.h"
#include "fsolver.h"
#include "lua.h"
#include "LuaInstance.h"
#undef private
#undef protected

static FILE *out;
static void pv(double x) { fprintf(out, " %.17g", x); }
static void pc(CComplex z) { pv(z.re); pv(z.im); }

static CBigLinProb *gL = NULL;
static CBigComplexLinProb *gLc = NULL;
static std::vector<double> capB;
static std::vector<CComplex> capBc;
static bool captured = false;

static ssize_t cookie_write(void *, const char *buf, size_t n)
{
    if (!captured && (memmem(buf, n, "Conjugate Gradient Solver", 25) || memmem(buf, n, "Initializing Solver", 19))) {
        if (gL) { capB.assign(gL->b, gL->b + gL->n); captured = true; }
        if (gLc) { capBc.assign(gLc->b, gLc->b + gLc->n); captured = true; }
    }
    return (ssize_t)n;
}

// magnetisation direction of element i exactly as StaticAxisymmetric evaluates it (staticaxi.cpp:353-414)
static bool magdir(FSolver &S, int i, double &t)
{
    double units[] = {2.54, 0.1, 1., 100., 0.00254, 1.e-04};
    femmsolver::CMElement *El = &S.meshele[i];
    int n[3], j;
    for (j = 0; j < 3; j++) n[j] = El->p[j];
    t = S.labellist[El->lbl].MagDir;
    if (!S.labellist[El->lbl].MagDirFctn.empty()) {
        char magbuff[4096];
        std::string str;
        CComplex X;
        int top1, top2, lua_error_code;
        for (j = 0, X = 0; j < 3; j++) X += (CComplex)(S.meshnode[n[j]].x + I * S.meshnode[n[j]].y);
        X = X / units[S.LengthUnits] / 3.;
        snprintf(magbuff, sizeof magbuff, "r=%.17g\nz=%.17g\nx=r\ny=z\ntheta=%.17g\nR=%.17g\nreturn %s",
                 (X.re), (X.im), (arg(X) * 180 / PI), (abs(X)), (S.labellist[El->lbl].MagDirFctn.c_str()));
        str = magbuff;
        lua_State *lua = S.theLua->getLuaState();
        top1 = lua_gettop(lua);
        lua_error_code = S.theLua->doString(str, femm::LuaInstance::LuaStackMode::Unsafe);
        if (lua_error_code != 0) return false;
        top2 = lua_gettop(lua);
        if (top2 != top1) {
            str = lua_tostring(lua, -1);
            if (str.length() == 0) return false;
            t = Re(lua_tonumber(lua, -1));
            lua_pop(lua, 1);
        }
    }
    return true;
}

int main(int argc, char **argv)
{
    if (argc < 3) { fprintf(stderr, "usage: h_fsolver_axi <path-noext> <dumpfile>\n"); return 9; }
    out = fopen(argv[2], "w");
    FSolver S;
    S.PathName = argv[1];
    fflush(stdout);
    int save = dup(1); int nul = open("/dev/null", O_WRONLY); dup2(nul, 1);
    int save2 = dup(2); dup2(nul, 2);
    if (!S.LoadProblemFile()) { fprintf(out, "FAIL loadproblem\n"); fclose(out); return 1; }
    if (S.LoadMesh(false) != 0) { fprintf(out, "FAIL loadmesh\n"); fclose(out); return 2; }
    if (!S.Cuthill(false)) { fprintf(out, "FAIL cuthill\n"); fclose(out); return 3; }
    const bool harmonic = (S.Frequency != 0);
    fprintf(out, "PROB"); pv(S.Frequency); pv(S.Precision);
    fprintf(out, " %d %d %d %d %d %d %d %d %d %d %d\n", (int)S.LengthUnits, (int)S.Coords, S.ProblemType == femm::AXISYMMETRIC ? 1 : 0,
            S.BandWidth, S.NumNodes, S.NumEls, S.NumCircProps, S.NumCircPropsOrig, S.NumBlockLabels, S.NumAirGapElems, S.ACSolver);
    if (S.ProblemType != femm::AXISYMMETRIC) { fprintf(out, "FAIL planar\n"); fclose(out); return 5; }
    fprintf(out, "EXT"); pv(S.extRo); pv(S.extRi); pv(S.extZo); fprintf(out, "\n");
    for (int i = 0; i < S.NumNodes; i++) {
        fprintf(out, "NODE"); pv(S.meshnode[i].x); pv(S.meshnode[i].y); fprintf(out, " %d\n", S.meshnode[i].BoundaryMarker);
    }
    const double w = S.Frequency * 2. * PI;
    const CComplex deg45 = 1 + I;
    for (auto &b : S.blockproplist) {
        fprintf(out, "BLOCK"); pv(b.mu_x); pv(b.mu_y); pv(b.H_c); pv(b.J.re); pv(b.J.im); pv(b.Cduct); pv(b.Lam_d);
        pv(b.Theta_hn); pv(b.Theta_hx); pv(b.Theta_hy); fprintf(out, " %d", b.LamType); pv(b.LamFill); fprintf(out, " %d", b.BHpoints);
        // libm values of harmonicaxi.cpp:169-186, same expressions
        CComplex ex = exp(-I * b.Theta_hx * PI / 180.), ey = exp(-I * b.Theta_hy * PI / 180.);
        CComplex hx = exp(-I * b.Theta_hx * PI / 360.), hy = exp(-I * b.Theta_hy * PI / 360.);
        CComplex tx = 0, ty = 0;
        if (harmonic && b.LamType == 0 && b.Lam_d != 0 && b.Cduct != 0) {
            double ds; CComplex K;
            ds = sqrt(2. / (0.4 * PI * w * b.Cduct * b.mu_x));
            K = hx * deg45 * b.Lam_d * 0.001 / (2. * ds);
            tx = tanh(K);
            ds = sqrt(2. / (0.4 * PI * w * b.Cduct * b.mu_y));
            K = hy * deg45 * b.Lam_d * 0.001 / (2. * ds);
            ty = tanh(K);
        }
        pc(ex); pc(ey); pc(hx); pc(hy); pc(tx); pc(ty);
        fprintf(out, "\n");
    }
    for (auto &l : S.lineproplist) {
        fprintf(out, "LINE %d", l.BdryFormat); pv(l.A0); pv(l.A1); pv(l.A2); pv(l.phi); pc(l.c0); pc(l.c1); pv(l.Mu); pv(l.Sig);
        pv(cos(l.phi * DEG)); pc(exp(I * l.phi * DEG));
        fprintf(out, "\n");
    }
    for (auto &p : S.nodeproplist) { fprintf(out, "POINT"); pc(p.J); pc(p.A); fprintf(out, "\n"); }
    for (int k = 0; k < S.NumCircProps; k++) {
        auto &c = S.circproplist[k];
        fprintf(out, "CIRC %d", c.CircType); pc(c.Amps); pc(c.dVolts); fprintf(out, " %d\n", k < S.NumCircPropsOrig ? -1 : c.OrigCirc);
    }
    for (int k = 0; k < S.NumPBCs; k++) fprintf(out, "PBC %d %d %d\n", S.pbclist[k].x, S.pbclist[k].y, S.pbclist[k].t);
    for (int i = 0; i < S.NumEls; i++) {
        auto &e = S.meshele[i];
        double t = 0;
        if (!magdir(S, i, t)) { fprintf(out, "FAIL lua\n"); fclose(out); return 6; }
        fprintf(out, "ELEM %d %d %d %d %d %d %d %d", e.p[0], e.p[1], e.p[2], e.e[0], e.e[1], e.e[2], e.blk, e.lbl);
        pv(t); pv(cos(t * PI / 180.)); pv(sin(t * PI / 180.));
        {
            double rn[3];
            for (int k = 0; k < 3; k++) rn[k] = S.meshnode[e.p[k]].x;
            pv(log(rn[0])); pv(log(rn[1])); pv(log(rn[2]));
            pv(log(rn[0] / rn[2])); pv(log(rn[1] / rn[0])); pv(log(rn[2] / rn[1]));
        }
        fprintf(out, "\n");
    }

    int ok;
    cookie_io_functions_t io = {NULL, cookie_write, NULL, NULL};
    FILE *ck = fopencookie(NULL, "w", io);
    setvbuf(ck, NULL, _IONBF, 0);
    FILE *old = stdout;
    if (!harmonic) {
        CBigLinProb L;
        L.Precision = S.Precision;
        L.Create(S.NumNodes, S.BandWidth);
        gL = &L;
        stdout = ck;
        ok = S.StaticAxisymmetric(L);
        fflush(ck); stdout = old;
        // labels after GetFillFactor
        for (auto &l : S.labellist) {
            fprintf(out, "LABEL %d %d", l.BlockType, l.InCircuit); pv(l.MagDir); fprintf(out, " %d %d", l.Turns, l.bIsWound ? 1 : 0);
            pc(l.ProximityMu); fprintf(out, " %d %d\n", l.MagDirFctn.empty() ? 0 : 1, l.IsExternal ? 1 : 0);
        }
        for (int k = 0; k < S.NumCircProps; k++) {
            auto &c = S.circproplist[k];
            fprintf(out, "CIRCRES %d", c.Case); pc(c.J); pc(c.dV); fprintf(out, "\n");
        }
        fprintf(out, "SOLVED %d %d\n", ok, captured ? 1 : 0);
        for (int i = 0; i < L.n; i++) {
            int cnt = 0;
            for (CEntry *e = L.M[i]; e != NULL; e = e->next) cnt++;
            fprintf(out, "ROW %d %d", i, cnt);
            for (CEntry *e = L.M[i]; e != NULL; e = e->next) { fprintf(out, " %d", e->c); pv(e->x); }
            fprintf(out, "\n");
        }
        fprintf(out, "B0"); for (size_t i = 0; i < capB.size(); i++) pv(capB[i]); fprintf(out, "\n");
        fprintf(out, "V"); for (int i = 0; i < L.n; i++) pv(L.V[i]); fprintf(out, "\n");
        fprintf(out, "BFINAL"); for (int i = 0; i < L.n; i++) pv(L.b[i]); fprintf(out, "\n");
        for (int i = 0; i < S.NumEls; i++) { fprintf(out, "EMU %d", i); pc(S.meshele[i].mu1); pc(S.meshele[i].mu2); fprintf(out, "\n"); }
        // the per-label lines of WriteStatic2D (static2d.cpp:1123-1148)
        for (int k = 0; k < S.NumBlockLabels; k++) {
            int i = S.labellist[k].InCircuit;
            if (i < 0) fprintf(out, "WLABEL 1 0\n");
            else {
                if (S.circproplist[i].Case == 0) { fprintf(out, "WLABEL 0"); pv(S.circproplist[i].dV.Re()); fprintf(out, "\n"); }
                if (S.circproplist[i].Case == 1) { fprintf(out, "WLABEL 1"); pv(S.circproplist[i].J.Re()); fprintf(out, "\n"); }
            }
        }
    } else {
        CBigComplexLinProb L;
        L.Precision = S.Precision;
        L.Create(S.NumNodes + S.NumCircProps, S.BandWidth, S.NumNodes);
        gLc = &L;
        stdout = ck;
        ok = S.HarmonicAxisymmetric(L, true);
        fflush(ck); stdout = old;
        for (auto &l : S.labellist) {
            fprintf(out, "LABEL %d %d", l.BlockType, l.InCircuit); pv(l.MagDir); fprintf(out, " %d %d", l.Turns, l.bIsWound ? 1 : 0);
            pc(l.ProximityMu); fprintf(out, " %d %d\n", l.MagDirFctn.empty() ? 0 : 1, l.IsExternal ? 1 : 0);
        }
        for (int k = 0; k < S.NumCircProps; k++) {
            auto &c = S.circproplist[k];
            fprintf(out, "CIRCRES %d", c.Case); pc(c.J); pc(c.dV); fprintf(out, "\n");
        }
        fprintf(out, "SOLVED %d %d\n", ok, captured ? 1 : 0);
        if (ok) {
            for (int i = 0; i < L.n; i++) {
                int cnt = 0;
                for (CComplexEntry *e = L.M[i]; e != NULL; e = e->next) cnt++;
                fprintf(out, "ROW %d %d", i, cnt);
                for (CComplexEntry *e = L.M[i]; e != NULL; e = e->next) { fprintf(out, " %d", e->c); pc(e->x); }
                fprintf(out, "\n");
            }
            fprintf(out, "B0"); for (size_t i = 0; i < capBc.size(); i++) pc(capBc[i]); fprintf(out, "\n");
            fprintf(out, "V"); for (int i = 0; i < L.n; i++) pc(L.V[i]); fprintf(out, "\n");
            fprintf(out, "BFINAL"); for (int i = 0; i < L.n; i++) pc(L.b[i]); fprintf(out, "\n");
            for (int i = 0; i < S.NumEls; i++) { fprintf(out, "EMU %d", i); pc(S.meshele[i].mu1); pc(S.meshele[i].mu2); fprintf(out, "\n"); }
            // the per-label lines of WriteHarmonic2D (harmonic2d.cpp:968-992)
            for (int k = 0; k < S.NumBlockLabels; k++) {
                int i = S.labellist[k].InCircuit;
                if (i < 0) fprintf(out, "WLABEL 1 0 0\n");
                else {
                    if (S.circproplist[i].Case == 0) { fprintf(out, "WLABEL 0"); pv(S.circproplist[i].dV.Re()); pv(S.circproplist[i].dV.Im()); fprintf(out, "\n"); }
                    if (S.circproplist[i].Case == 1) { fprintf(out, "WLABEL 1"); pv(S.circproplist[i].J.Re()); pv(S.circproplist[i].J.Im()); fprintf(out, "\n"); }
                    if (S.circproplist[i].Case == 2) { fprintf(out, "WLABEL 0"); pv(L.b[S.NumNodes + i].Re()); pv(L.b[S.NumNodes + i].Im()); fprintf(out, "\n"); }
                }
            }
        }
    }
    fflush(stdout); dup2(save, 1); close(save); dup2(save2, 2); close(save2); close(nul);
    fclose(out);
    return ok ? 0 : 4;
}
