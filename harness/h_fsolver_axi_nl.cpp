// h_fsolver_axi_nl: h_fsolver_nl.cpp (per-pass capture) combined with h_fsolver_axi.cpp (axisymmetric dump: EXT, the six
// logarithms per element, IsExternal per label) for the NONLINEAR (B-H curve) branch of FSolver::StaticAxisymmetric.
// StaticAxisymmetric prints "Newton Iteration(k) Relax=..." with printf (not PrintMessage), so the POST hook sits in the
// stdout cookie as well.  After the loop L.b holds the flux 2 pi r A (BFINAL) and L.V the last iterate (VFINAL).
// Otherwise as h_fsolver_nl:  Runs the real
// LoadProblemFile (incl. GetSlopes), LoadMesh(false), Cuthill(false), Create, StaticAxisymmetric and dumps
//   * the solver's in-memory input data after renumbering (as h_fsolver) and, per block property, the
//     table GetSlopes left: Bdata, Hdata, slope (BH lines) and the constant muo,
//   * PER PASS of the loop  do { ... } while(LinearFlag==false):
//       PASS k        at the moment PCGSolve announces itself on stdout ("Conjugate Gradient Solver"),
//                     i.e. after the assembly and the boundary conditions and before the solve:
//       EMU i ...     the element permeabilities mu1, mu2,
//       ROW / B       the assembled matrix and right-hand side,
//       VOLD          L.V (the previous, relaxed iterate = the initial guess of the solve),
//       VSOL          the vector the solve is going to produce: obtained by running the REAL
//                     CBigLinProb::PCGSolve(k) on the same object right there (PCGSolve is deterministic and
//                     only writes V and scratch vectors; V is restored afterwards, so the solver's own call
//                     repeats the computation bit for bit -- VSOL is checked against L.V at the next hook
//                     whenever no relaxation happened),
//       RES x y res   sum (V-V_old)^2, sum V^2 and sqrt(x/y) recomputed here with the statements of
//                     static2d.cpp:956-969 (res itself is a local variable of Static2D),
//       POST k Relax  at the message "Newton Iteration(k) Relax=..." (FSolver::PrintMessage is pointed to a
//                     function of this file): the member Relax and L.V after the relaxation,
//   * after the loop: the number of passes, the final L.V, L.b = V*c, the per-label lines of WriteStatic2D.
// A run that needs more than MAXPASS passes is cut off (NOTERM) -- the C++ loop has no cap.
#ifndef _GNU_SOURCE
#define _GNU_SOURCE
#endif
#include <cstdio>
#include <cstdlib>
#include <cstring>
#include <cmath>
#include <string>
#include <vector>
#include <unistd.h>
#include <fcntl.h>
#define private public
#define protected public
#include "femmcomplex.h"
#include "femmconstants.h"
#include "spars.h"
#include "cspars.h"
#include "fsolver.h"
#include "lua.h"
#include "LuaInstance.h"
#undef private
#undef protected

static FILE *out;
static void pv(double x) { fprintf(out, " %.17g", x); }
static void pc(CComplex z) { pv(z.re); pv(z.im); }

static CBigLinProb *gL = NULL;
static CBigComplexLinProb *gLc = NULL;
static std::vector<double> capB;
static std::vector<CComplex> capBc;
static bool captured = false;
static FSolver *gS = NULL;
static int npass = 0, nposted = 0, maxpass = 60;
static bool nested = false;
static FILE *devnull = NULL;
static std::vector<double> vold, vsol;

// labels after GetFillFactor and the circuit results of the pre-pass (also written when the run is cut off)
static void dump_labels_circres()
{
    FSolver &S = *gS;
    for (auto &l : S.labellist) {
        fprintf(out, "LABEL %d %d", l.BlockType, l.InCircuit); pv(l.MagDir); fprintf(out, " %d %d", l.Turns, l.bIsWound ? 1 : 0);
        pc(l.ProximityMu); fprintf(out, " %d %d\n", l.MagDirFctn.empty() ? 0 : 1, l.IsExternal ? 1 : 0);
    }
    for (int k = 0; k < S.NumCircProps; k++) {
        auto &c = S.circproplist[k];
        fprintf(out, "CIRCRES %d", c.Case); pc(c.J); pc(c.dV); fprintf(out, "\n");
    }
}

static void dump_pass()
{
    CBigLinProb &L = *gL; FSolver &S = *gS;
    fprintf(out, "PASS %d", npass); pv(S.Relax); fprintf(out, "\n");
    for (int i = 0; i < S.NumEls; i++) { fprintf(out, "EMU %d", i); pc(S.meshele[i].mu1); pc(S.meshele[i].mu2); pc(S.meshele[i].v12); fprintf(out, "\n"); }
    for (int i = 0; i < L.n; i++) {
        int cnt = 0;
        for (CEntry *e = L.M[i]; e != NULL; e = e->next) cnt++;
        fprintf(out, "ROW %d %d", i, cnt);
        for (CEntry *e = L.M[i]; e != NULL; e = e->next) { fprintf(out, " %d", e->c); pv(e->x); }
        fprintf(out, "\n");
    }
    fprintf(out, "B"); for (int i = 0; i < L.n; i++) pv(L.b[i]); fprintf(out, "\n");
    fprintf(out, "VOLD"); for (int i = 0; i < L.n; i++) pv(L.V[i]); fprintf(out, "\n");
    vold.assign(L.V, L.V + L.n);
    // the real PCGSolve on the same object; stdout goes to /dev/null meanwhile
    nested = true;
    FILE *cur = stdout; stdout = devnull;
    bool ok = L.PCGSolve(npass);
    fflush(devnull); stdout = cur;
    nested = false;
    vsol.assign(L.V, L.V + L.n);
    for (int i = 0; i < L.n; i++) L.V[i] = vold[i];
    fprintf(out, "VSOL %d", ok ? 1 : 0); for (int i = 0; i < L.n; i++) pv(vsol[i]); fprintf(out, "\n");
    // static2d.cpp:956-969
    double x = 0, y = 0; int j;
    for (j = 0, x = 0, y = 0; j < L.n; j++) {
        x += (vsol[j] - vold[j]) * (vsol[j] - vold[j]);
        y += (vsol[j] * vsol[j]);
    }
    fprintf(out, "RES"); pv(x); pv(y); pv(y == 0 ? 0. : sqrt(x / y)); fprintf(out, "\n");
    fflush(out);
    npass++;
    if (npass > maxpass) { fprintf(out, "NOTERM %d\n", npass); dump_labels_circres(); fclose(out); _exit(7); }
}

static void dump_post()
{
    CBigLinProb &L = *gL; FSolver &S = *gS;
    fprintf(out, "POST %d", nposted); pv(S.Relax); fprintf(out, "\n");
    fprintf(out, "VPOST"); for (int i = 0; i < L.n; i++) pv(L.V[i]); fprintf(out, "\n");
    nposted++;
}

static int my_print(const char *msg, ...)
{
    if (gL && strncmp(msg, "Newton Iteration", 16) == 0) dump_post();
    return 0;
}

static ssize_t cookie_write(void *, const char *buf, size_t n)
{
    if (!nested && gL && memmem(buf, n, "Conjugate Gradient Solver", 25)) { captured = true; dump_pass(); }
    if (!nested && gL && memmem(buf, n, "Newton Iteration", 16)) dump_post();
    return (ssize_t)n;
}

// magnetisation direction of element i exactly as StaticAxisymmetric evaluates it (staticaxi.cpp:353-414)
static bool magdir(FSolver &S, int i, double &t)
{
    double units[] = {2.54, 0.1, 1., 100., 0.00254, 1.e-04};
    femmsolver::CMElement *El = &S.meshele[i];
    int n[3], j;
    for (j = 0; j < 3; j++) n[j] = El->p[j];
    t = S.labellist[El->lbl].MagDir;
    if (!S.labellist[El->lbl].MagDirFctn.empty()) {
        char magbuff[4096];
        std::string str;
        CComplex X;
        int top1, top2, lua_error_code;
        for (j = 0, X = 0; j < 3; j++) X += (CComplex)(S.meshnode[n[j]].x + I * S.meshnode[n[j]].y);
        X = X / units[S.LengthUnits] / 3.;
        snprintf(magbuff, sizeof magbuff, "r=%.17g\nz=%.17g\nx=r\ny=z\ntheta=%.17g\nR=%.17g\nreturn %s",
                 (X.re), (X.im), (arg(X) * 180 / PI), (abs(X)), (S.labellist[El->lbl].MagDirFctn.c_str()));
        str = magbuff;
        lua_State *lua = S.theLua->getLuaState();
        top1 = lua_gettop(lua);
        lua_error_code = S.theLua->doString(str, femm::LuaInstance::LuaStackMode::Unsafe);
        if (lua_error_code != 0) return false;
        top2 = lua_gettop(lua);
        if (top2 != top1) {
            str = lua_tostring(lua, -1);
            if (str.length() == 0) return false;
            t = Re(lua_tonumber(lua, -1));
            lua_pop(lua, 1);
        }
    }
    return true;
}

int main(int argc, char **argv)
{
    if (argc < 3) { fprintf(stderr, "usage: h_fsolver_axi_nl <path-noext> <dumpfile> [maxpass]\n"); return 9; }
    out = fopen(argv[2], "w");
    if (argc > 3) maxpass = atoi(argv[3]);
    devnull = fopen("/dev/null", "w");
    FSolver S;
    gS = &S;
    S.PathName = argv[1];
    fflush(stdout);
    int save = dup(1); int nul = open("/dev/null", O_WRONLY); dup2(nul, 1);
    int save2 = dup(2); dup2(nul, 2);
    if (!S.LoadProblemFile()) { fprintf(out, "FAIL loadproblem\n"); fclose(out); return 1; }
    if (S.LoadMesh(false) != 0) { fprintf(out, "FAIL loadmesh\n"); fclose(out); return 2; }
    if (!S.Cuthill(false)) { fprintf(out, "FAIL cuthill\n"); fclose(out); return 3; }
    const bool harmonic = (S.Frequency != 0);
    fprintf(out, "PROB"); pv(S.Frequency); pv(S.Precision);
    fprintf(out, " %d %d %d %d %d %d %d %d %d %d %d\n", (int)S.LengthUnits, (int)S.Coords, S.ProblemType == femm::AXISYMMETRIC ? 1 : 0,
            S.BandWidth, S.NumNodes, S.NumEls, S.NumCircProps, S.NumCircPropsOrig, S.NumBlockLabels, S.NumAirGapElems, S.ACSolver);
    if (S.ProblemType != femm::AXISYMMETRIC) { fprintf(out, "FAIL planar\n"); fclose(out); return 5; }
    fprintf(out, "EXT"); pv(S.extRo); pv(S.extRi); pv(S.extZo); fprintf(out, "\n");
    for (int i = 0; i < S.NumNodes; i++) {
        fprintf(out, "NODE"); pv(S.meshnode[i].x); pv(S.meshnode[i].y); fprintf(out, " %d\n", S.meshnode[i].BoundaryMarker);
    }
    const double w = S.Frequency * 2. * PI;
    const CComplex deg45 = 1 + I;
    for (auto &b : S.blockproplist) {
        fprintf(out, "BLOCK"); pv(b.mu_x); pv(b.mu_y); pv(b.H_c); pv(b.J.re); pv(b.J.im); pv(b.Cduct); pv(b.Lam_d);
        pv(b.Theta_hn); pv(b.Theta_hx); pv(b.Theta_hy); fprintf(out, " %d", b.LamType); pv(b.LamFill); fprintf(out, " %d", b.BHpoints);
        // libm values of harmonic2d.cpp:179-206, same expressions
        CComplex ex = exp(-I * b.Theta_hx * DEG), ey = exp(-I * b.Theta_hy * DEG);
        CComplex hx = exp(-I * b.Theta_hx * DEG / 2.), hy = exp(-I * b.Theta_hy * DEG / 2.);
        CComplex tx = 0, ty = 0;
        if (harmonic && b.LamType == 0 && b.Lam_d != 0 && b.Cduct != 0) {
            double ds; CComplex K;
            ds = sqrt(2. / (0.4 * PI * w * b.Cduct * b.mu_x));
            K = hx * deg45 * b.Lam_d * 0.001 / (2. * ds);
            tx = tanh(K);
            ds = sqrt(2. / (0.4 * PI * w * b.Cduct * b.mu_y));
            K = hy * deg45 * b.Lam_d * 0.001 / (2. * ds);
            ty = tanh(K);
        }
        pc(ex); pc(ey); pc(hx); pc(hy); pc(tx); pc(ty);
        fprintf(out, "\n");
    }
    fprintf(out, "MUO"); pv(muo); fprintf(out, "\n");
    for (size_t k = 0; k < S.blockproplist.size(); k++) {
        auto &b = S.blockproplist[k];
        fprintf(out, "BH %d %d %d %d", (int)k, b.BHpoints, (int)b.Bdata.size(), (int)b.slope.size());
        for (int i = 0; i < b.BHpoints; i++) { pv(b.Bdata[i]); pc(b.Hdata[i]); pc(i < (int)b.slope.size() ? b.slope[i] : CComplex(0, 0)); }
        fprintf(out, "\n");
    }
    fprintf(out, "PREV %d %d\n", S.previousSolutionFile.empty() ? 0 : 1, S.PrevType);
    for (auto &l : S.lineproplist) {
        fprintf(out, "LINE %d", l.BdryFormat); pv(l.A0); pv(l.A1); pv(l.A2); pv(l.phi); pc(l.c0); pc(l.c1); pv(l.Mu); pv(l.Sig);
        pv(cos(l.phi * DEG)); pc(exp(I * l.phi * DEG));
        fprintf(out, "\n");
    }
    for (auto &p : S.nodeproplist) { fprintf(out, "POINT"); pc(p.J); pc(p.A); fprintf(out, "\n"); }
    for (int k = 0; k < S.NumCircProps; k++) {
        auto &c = S.circproplist[k];
        fprintf(out, "CIRC %d", c.CircType); pc(c.Amps); pc(c.dVolts); fprintf(out, " %d\n", k < S.NumCircPropsOrig ? -1 : c.OrigCirc);
    }
    for (int k = 0; k < S.NumPBCs; k++) fprintf(out, "PBC %d %d %d\n", S.pbclist[k].x, S.pbclist[k].y, S.pbclist[k].t);
    for (int i = 0; i < S.NumEls; i++) {
        auto &e = S.meshele[i];
        double t = 0;
        if (!magdir(S, i, t)) { fprintf(out, "FAIL lua\n"); fclose(out); return 6; }
        fprintf(out, "ELEM %d %d %d %d %d %d %d %d", e.p[0], e.p[1], e.p[2], e.e[0], e.e[1], e.e[2], e.blk, e.lbl);
        pv(t); pv(cos(t * PI / 180.)); pv(sin(t * PI / 180.));
        {
            double rn[3];
            for (int k = 0; k < 3; k++) rn[k] = S.meshnode[e.p[k]].x;
            pv(log(rn[0])); pv(log(rn[1])); pv(log(rn[2]));
            pv(log(rn[0] / rn[2])); pv(log(rn[1] / rn[0])); pv(log(rn[2] / rn[1]));
        }
        fprintf(out, "\n");
    }

    int ok;
    cookie_io_functions_t io = {NULL, cookie_write, NULL, NULL};
    FILE *ck = fopencookie(NULL, "w", io);
    setvbuf(ck, NULL, _IONBF, 0);
    FILE *old = stdout;
    if (harmonic) { fprintf(out, "FAIL harmonic\n"); fclose(out); return 5; }
    {
        CBigLinProb L;
        L.Precision = S.Precision;
        L.Create(S.NumNodes, S.BandWidth);
        gL = &L;
        S.PrintMessage = &my_print;
        fprintf(out, "RELAX0"); pv(S.Relax); fprintf(out, "\n");
        stdout = ck;
        ok = S.StaticAxisymmetric(L);
        fflush(ck); stdout = old;
        fprintf(out, "DONE %d %d %d\n", ok, npass, nposted);
        dump_labels_circres();
        fprintf(out, "SOLVED %d %d\n", ok, captured ? 1 : 0);
        fprintf(out, "VFINAL"); for (int i = 0; i < L.n; i++) pv(L.V[i]); fprintf(out, "\n");
        fprintf(out, "BFINAL"); for (int i = 0; i < L.n; i++) pv(L.b[i]); fprintf(out, "\n");
        for (int k = 0; k < S.NumBlockLabels; k++) {
            int i = S.labellist[k].InCircuit;
            if (i < 0) fprintf(out, "WLABEL 1 0\n");
            else {
                if (S.circproplist[i].Case == 0) { fprintf(out, "WLABEL 0"); pv(S.circproplist[i].dV.Re()); fprintf(out, "\n"); }
                if (S.circproplist[i].Case == 1) { fprintf(out, "WLABEL 1"); pv(S.circproplist[i].J.Re()); fprintf(out, "\n"); }
            }
        }
    }
    fflush(stdout); dup2(save, 1); close(save); dup2(save2, 2); close(save2); close(nul);
    fclose(out);
    return ok ? 0 : 4;
}
