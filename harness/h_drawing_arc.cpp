// h_drawing_arc: h_drawing.cpp extended to arc segments (property C16, temporary check id XARC).
// Drives the geometry editing core of femm::FemmProblem (cfemm/libfemm/FemmProblem.cpp) with op
// sequences read from stdin, exactly as the Lua commands of cfemm/femmcli/LuaCommonCommands.cpp
// call it, dumps the drawing after every op, and records every libm value (sin, tan, atan2) that the
// real code obtained while it executed the op: these are the inputs of the extended oracle record
// of coq/theories/DrawingArc.v (libmT), everything else is recomputed by the model.
//
// input  : one op per line; numbers are read with strtod (hex floats are exact)
//   case <id>                       start a new (empty) electrostatics problem
//   addnode x y | addsegment x0 y0 x1 y1 | addlabel x y
//   addarc x0 y0 x1 y1 angle maxseg luaAddArc
//   selectnode|selectsegment|selectlabel|selectarc x y   luaSelect*
//   selectgroup g | setgroup g | clearselected
//   setnodeprop k g | setsegprop k g | setlabelprop k g | setarcprop k g maxseg
//   deleteselected | deleteselectednodes | deleteselectedsegments | deleteselectedlabels | deleteselectedarcs
//   movetranslate dx dy mode | moverotate cx cy angle mode | scale bx by sf mode
//   copytranslate dx dy n mode | copyrotate cx cy angle n mode | mirror x0 y0 x1 y1 mode
//   createradius x y r              luaCreateRadius
//   end                             end of case
// output : per op   "op <k> <name> [z re im ...] [note]" then the libm values first seen in this case
//   "m s <x> <sin x>" / "m t <x> <tan x>" / "m a <y> <x> <atan2(y,x)>" (C99 hex floats), then the dump
//   (an op that dies with SIGSEGV prints "op <k> <name> crashed" and its libm values, no dump)
//   N <count> / n x y sel grp prop / S <count> / s n0 n1 sel grp prop / A <count> /
//   a n0 n1 sel grp arclength maxside prop / L <count> / l x y sel grp maxarea prop / .
#include <cstdio>
#include <cstdlib>
#include <cstring>
#include <string>
#include <vector>
#include <set>
#include <utility>
#include <sstream>
#include <iostream>
#include <cmath>
#include <memory>
#include <dlfcn.h>
#include <signal.h>
#include <unistd.h>
#include "femmcomplex.h"
#include "femmconstants.h"
#include "femmenums.h"
#include "FemmProblem.h"
#include "CNode.h"
#include "CSegment.h"
#include "CArcSegment.h"
#include "CBlockLabel.h"

// ---- libm interposition: the executable's definitions win over libm.so for every caller -------
static bool g_log = false;
static std::vector<std::string> g_lines;
static std::set<std::pair<int, std::pair<unsigned long long, unsigned long long>>> g_seen;
static unsigned long long bits(double x) { unsigned long long u; memcpy(&u, &x, 8); return u; }
static void logm(int kind, double a, double b, double r)
{
    if (!g_log) return;
    g_log = false;            // nothing below may re-enter
    auto key = std::make_pair(kind, std::make_pair(bits(a), bits(b)));
    if (g_seen.insert(key).second) {
        char buf[160];
        if (kind == 'a') snprintf(buf, sizeof buf, "m a %a %a %a", a, b, r);
        else snprintf(buf, sizeof buf, "m %c %a %a", kind, a, r);
        g_lines.push_back(buf);
    }
    g_log = true;
}
extern "C" {
typedef double (*fn1)(double);
typedef double (*fn2)(double, double);
double sin(double x) noexcept
{
    static fn1 real = (fn1)dlsym(RTLD_NEXT, "sin");
    double r = real(x);
    logm('s', x, 0., r);
    return r;
}
double tan(double x) noexcept
{
    static fn1 real = (fn1)dlsym(RTLD_NEXT, "tan");
    double r = real(x);
    logm('t', x, 0., r);
    return r;
}
double atan2(double y, double x) noexcept
{
    static fn2 real = (fn2)dlsym(RTLD_NEXT, "atan2");
    double r = real(y, x);
    logm('a', y, x, r);
    return r;
}
}

using namespace femm;

static std::unique_ptr<FemmProblem> doc;

// An op that overflows the stack (unbounded recursion of addArcSegment) kills the process: print what the op
// has obtained from libm so far, so that the model can be run on the same op, then die with the signal's status.
static int g_opno = 0;
static std::string g_cmd;
static void on_segv(int sig)
{
    g_log = false;
    printf("op %d %s crashed\n", g_opno, g_cmd.c_str());
    for (auto &l : g_lines) printf("%s\n", l.c_str());
    fflush(stdout);
    signal(sig, SIG_DFL);
    raise(sig);
    _exit(128 + sig);
}
static void install_segv_handler()
{
#if !defined(__SANITIZE_ADDRESS__)
    static char altstack[1 << 16];
    stack_t ss;
    ss.ss_sp = altstack;
    ss.ss_size = sizeof altstack;
    ss.ss_flags = 0;
    sigaltstack(&ss, nullptr);
    struct sigaction sa;
    memset(&sa, 0, sizeof sa);
    sa.sa_handler = on_segv;
    sa.sa_flags = SA_ONSTACK | SA_NODEFER;
    sigaction(SIGSEGV, &sa, nullptr);
#endif
}

// the tolerance computed by luaAddNode / luaAddBlocklabel
static double lua_tol()
{
    double d;
    if ((int)doc->nodelist.size() < 2) {
        d = 1.e-08;
    } else {
        CComplex p0, p1, p2;
        p0 = doc->nodelist[0]->CC();
        p1 = p0;
        for (int i = 1; i < (int)doc->nodelist.size(); i++) {
            p2 = doc->nodelist[i]->CC();
            if (p2.re < p0.re) p0.re = p2.re;
            if (p2.re > p1.re) p1.re = p2.re;
            if (p2.im < p0.im) p0.im = p2.im;
            if (p2.im > p1.im) p1.im = p2.im;
        }
        d = abs(p1 - p0) * CLOSE_ENOUGH;
    }
    return d;
}

static std::string nodeprop(const CNode &n)
{
    std::ostringstream o;
    o << n.BoundaryMarkerName << "|" << n.InConductorName << "|" << n.BoundaryMarker << "|" << n.InConductor;
    return o.str();
}
static std::string segprop(const CSegment &s)
{
    char b[64];
    snprintf(b, sizeof b, "%.17g", s.MaxSideLength);
    std::ostringstream o;
    o << b << "|" << (s.Hidden ? 1 : 0) << "|" << s.BoundaryMarkerName << "|" << s.InConductorName << "|"
      << s.BoundaryMarker << "|" << s.InConductor;
    return o.str();
}
// arcs: MaxSideLength is dumped as a number of its own
static std::string arcprop(const CArcSegment &s)
{
    std::ostringstream o;
    o << s.BoundaryMarkerName << "|" << (s.Hidden ? 1 : 0) << "|" << s.InConductorName << "|"
      << s.BoundaryMarker << "|" << s.InConductor;
    return o.str();
}
static std::string labelprop(const CBlockLabel &l)
{
    std::ostringstream o;
    o << l.BlockTypeName << "|" << l.InCircuitName << "|" << l.BlockType << "|" << l.InCircuit << "|"
      << (l.IsExternal ? 1 : 0) << "|" << (l.IsDefault ? 1 : 0);
    return o.str();
}

static void dump()
{
    printf("N %d\n", (int)doc->nodelist.size());
    for (auto &n : doc->nodelist)
        printf("n %.17g %.17g %d %d %s\n", n->x, n->y, n->IsSelected ? 1 : 0, n->InGroup, nodeprop(*n).c_str());
    printf("S %d\n", (int)doc->linelist.size());
    for (auto &s : doc->linelist)
        printf("s %d %d %d %d %s\n", s->n0, s->n1, s->IsSelected ? 1 : 0, s->InGroup, segprop(*s).c_str());
    printf("A %d\n", (int)doc->arclist.size());
    for (auto &a : doc->arclist)
        printf("a %d %d %d %d %.17g %.17g %s\n", a->n0, a->n1, a->IsSelected ? 1 : 0, a->InGroup, a->ArcLength,
               a->MaxSideLength, arcprop(*a).c_str());
    printf("L %d\n", (int)doc->labellist.size());
    for (auto &l : doc->labellist)
        printf("l %.17g %.17g %d %d %.17g %s\n", l->x, l->y, l->IsSelected ? 1 : 0, l->InGroup, l->MaxArea,
               labelprop(*l).c_str());
    printf(".\n");
}

int main()
{
    std::string line;
    int opno = 0;
    install_segv_handler();
    bool halted = false;   // a segment/arc refers to a missing node or has n0 == n1: later ops would be UB
    while (std::getline(std::cin, line)) {
        std::istringstream is(line);
        std::string cmd;
        if (!(is >> cmd)) continue;
        std::vector<std::string> a;
        std::string t;
        while (is >> t) a.push_back(t);
        auto D = [&](size_t i) { return i < a.size() ? strtod(a[i].c_str(), nullptr) : 0.0; };
        auto IA = [&](size_t i) { return i < a.size() ? atoi(a[i].c_str()) : 0; };
        if (cmd == "case") {
            doc.reset(new FemmProblem(FileType::ElectrostaticsFile));
            opno = 0;
            halted = false;
            g_seen.clear();
            printf("case %s\n", a.empty() ? "0" : a[0].c_str());
            continue;
        }
        if (cmd == "end") { printf("end\n"); fflush(stdout); continue; }
        if (!doc) doc.reset(new FemmProblem(FileType::ElectrostaticsFile));
        if (halted) continue;
        std::string note;
        std::vector<std::pair<double, double>> zs;
        g_lines.clear();
        g_opno = opno;
        g_cmd = cmd;
        g_log = true;
        if (cmd == "addnode") {
            double d = lua_tol();
            doc->addNode(D(0), D(1), d);
        }
        else if (cmd == "addsegment") {
            doc->addSegment(doc->closestNode(D(0), D(1)), doc->closestNode(D(2), D(3)));
        }
        else if (cmd == "addlabel") {
            double d = lua_tol();
            doc->addBlockLabel(D(0), D(1), d);
        }
        else if (cmd == "addarc") {
            // luaAddArc
            if (!doc->nodelist.empty()) {
                CArcSegment asegm;
                asegm.n0 = doc->closestNode(D(0), D(1));
                asegm.n1 = doc->closestNode(D(2), D(3));
                doc->nodelist[asegm.n1]->ToggleSelect();
                asegm.MaxSideLength = D(5);
                asegm.ArcLength = D(4);
                doc->addArcSegment(asegm);
                doc->unselectAll();
            } else note = "skipped";
        }
        else if (cmd == "selectnode") {
            if (doc->nodelist.size() != 0) doc->nodelist[doc->closestNode(D(0), D(1))]->ToggleSelect();
        }
        else if (cmd == "selectsegment") {
            if (!doc->linelist.empty()) doc->linelist[doc->closestSegment(D(0), D(1))]->ToggleSelect();
        }
        else if (cmd == "selectlabel") {
            if (!doc->labellist.empty()) doc->labellist[doc->closestBlockLabel(D(0), D(1))]->ToggleSelect();
        }
        else if (cmd == "selectarc") {
            if (!doc->arclist.empty()) doc->arclist[doc->closestArcSegment(D(0), D(1))]->ToggleSelect();
        }
        else if (cmd == "selectgroup") {
            int group = IA(0);
            for (auto &n : doc->nodelist) if (n->InGroup == group) n->IsSelected = true;
            for (auto &s : doc->linelist) if (s->InGroup == group) s->IsSelected = true;
            for (auto &s : doc->arclist) if (s->InGroup == group) s->IsSelected = true;
            for (auto &l : doc->labellist) if (l->InGroup == group) l->IsSelected = true;
            doc->setDefaultEditMode(EditMode::EditGroup);
        }
        else if (cmd == "setgroup") {
            int grp = IA(0);
            for (auto &n : doc->nodelist) if (n->IsSelected) n->InGroup = grp;
            for (auto &s : doc->linelist) if (s->IsSelected) s->InGroup = grp;
            for (auto &s : doc->arclist) if (s->IsSelected) s->InGroup = grp;
            for (auto &l : doc->labellist) if (l->IsSelected) l->InGroup = grp;
            doc->unselectAll();
        }
        else if (cmd == "clearselected") doc->unselectAll();
        else if (cmd == "setnodeprop") {
            int k = IA(0), g = IA(1);
            for (auto &n : doc->nodelist) if (n->IsSelected) {
                n->InGroup = g;
                n->BoundaryMarker = k - 1;
                n->BoundaryMarkerName = k ? "np" + std::to_string(k) : "<None>";
                n->InConductor = k - 1;
                n->InConductorName = k ? "nc" + std::to_string(k) : "<None>";
            }
        }
        else if (cmd == "setsegprop") {
            int k = IA(0), g = IA(1);
            for (auto &s : doc->linelist) if (s->IsSelected) {
                s->MaxSideLength = k ? 0.5 * k : -1;
                s->BoundaryMarker = k - 1;
                s->BoundaryMarkerName = k ? "sp" + std::to_string(k) : "<None>";
                s->Hidden = (k % 2) != 0;
                s->InGroup = g;
                s->InConductor = k - 1;
                s->InConductorName = k ? "sc" + std::to_string(k) : "<None>";
            }
        }
        else if (cmd == "setarcprop") {
            // same naming of the boundary property as setsegprop: createRadius hands a line's name to an arc
            int k = IA(0), g = IA(1);
            double ms = D(2);
            for (auto &s : doc->arclist) if (s->IsSelected) {
                s->MaxSideLength = ms;
                s->BoundaryMarker = k - 1;
                s->BoundaryMarkerName = k ? "sp" + std::to_string(k) : "<None>";
                s->Hidden = (k % 2) != 0;
                s->InGroup = g;
                s->InConductor = k - 1;
                s->InConductorName = k ? "sc" + std::to_string(k) : "<None>";
            }
        }
        else if (cmd == "setlabelprop") {
            int k = IA(0), g = IA(1);
            for (auto &l : doc->labellist) if (l->IsSelected) {
                l->MaxArea = (double)k;
                l->BlockTypeName = k ? "bp" + std::to_string(k) : "<No Mesh>";
                l->BlockType = k - 1;
                l->InGroup = g;
            }
        }
        else if (cmd == "deleteselected") {
            doc->deleteSelectedSegments();
            doc->deleteSelectedArcSegments();
            doc->deleteSelectedNodes();
            doc->deleteSelectedBlockLabels();
        }
        else if (cmd == "deleteselectednodes") doc->deleteSelectedNodes();
        else if (cmd == "deleteselectedsegments") doc->deleteSelectedSegments();
        else if (cmd == "deleteselectedlabels") doc->deleteSelectedBlockLabels();
        else if (cmd == "deleteselectedarcs") doc->deleteSelectedArcSegments();
        else if (cmd == "movetranslate") {
            EditMode m = intToEditMode(IA(2));
            if (m != EditMode::Invalid) { doc->updateUndo(); doc->translateMove(D(0), D(1), m); }
        }
        else if (cmd == "moverotate") {
            EditMode m = intToEditMode(IA(3));
            if (m != EditMode::Invalid) {
                double tt = D(2);
                CComplex z = exp(I * tt * PI / 180);
                zs.push_back(std::make_pair(z.re, z.im));
                doc->updateUndo();
                doc->rotateMove(CComplex(D(0), D(1)), tt, m);
            }
        }
        else if (cmd == "scale") {
            EditMode m = intToEditMode(IA(3));
            if (m != EditMode::Invalid) { doc->updateUndo(); doc->scaleMove(D(0), D(1), D(2), m); }
        }
        else if (cmd == "copytranslate") {
            EditMode m = intToEditMode(IA(3));
            if (m != EditMode::Invalid) { doc->updateUndo(); doc->translateCopy(D(0), D(1), IA(2), m); }
        }
        else if (cmd == "copyrotate") {
            EditMode m = intToEditMode(IA(4));
            if (m != EditMode::Invalid) {
                double dt = D(2);
                int nc = IA(3);
                for (int c = 0; c < nc; c++) {
                    double tt = ((double)(c + 1)) * dt;
                    CComplex z = exp(I * tt * PI / 180);
                    zs.push_back(std::make_pair(z.re, z.im));
                }
                doc->rotateCopy(CComplex(D(0), D(1)), dt, nc, m);
            }
        }
        else if (cmd == "mirror") {
            EditMode m = intToEditMode(IA(4));
            if (m != EditMode::Invalid) { doc->updateUndo(); doc->mirrorCopy(D(0), D(1), D(2), D(3), m); }
        }
        else if (cmd == "createradius") {
            // luaCreateRadius
            double r = fabs(D(2));
            int node = doc->closestNode(D(0), D(1));
            if (node >= 0 && doc->canCreateRadius(node)) {
                bool ok = doc->createRadius(node, r);
                note = ok ? "done" : "refused";
            } else note = "unsuitable";
        }
        else note = "?";
        g_log = false;
        printf("op %d %s", opno++, cmd.c_str());
        for (auto &z : zs) printf(" z %.17g %.17g", z.first, z.second);
        if (!note.empty()) printf(" %s", note.c_str());
        printf("\n");
        for (auto &l : g_lines) printf("%s\n", l.c_str());
        dump();
        {
            int nn = (int)doc->nodelist.size();
            for (auto &sg : doc->linelist)
                if (sg->n0 < 0 || sg->n1 < 0 || sg->n0 >= nn || sg->n1 >= nn || sg->n0 == sg->n1) halted = true;
            for (auto &sg : doc->arclist)
                if (sg->n0 < 0 || sg->n1 < 0 || sg->n0 >= nn || sg->n1 >= nn || sg->n0 == sg->n1) halted = true;
            if (halted) printf("halted\n");
        }
        fflush(stdout);
    }
    return 0;
}
