// h_spars: drive CBigLinProb (cfemm/libfemm/spars.cpp) with op scripts read from stdin.
// One script = lines up to "end"; one output line per op ("-" when the op prints nothing).
// Numbers are read with strtod (hex floats, exact) and printed with %.17g.
#include <cstdio>
#include <cstdlib>
#include <cstring>
#include <string>
#include <vector>
#include <sstream>
#include <iostream>
#include <cmath>
#include <unistd.h>
#include <fcntl.h>
#include "femmcomplex.h"
#include "spars.h"
#include "fullmatrix.h"

static void pv(double x) { printf(" %.17g", x); }

int main()
{
    std::string line;
    CBigLinProb *L = nullptr;
    // silence the solver's chatter on stdout: it prints "Conjugate Gradient Solver"
    while (std::getline(std::cin, line)) {
        std::istringstream is(line);
        std::string cmd;
        if (!(is >> cmd)) continue;
        std::vector<std::string> a;
        std::string t;
        while (is >> t) a.push_back(t);
        auto D = [&](size_t i) { return strtod(a[i].c_str(), nullptr); };
        auto IA = [&](size_t i) { return atoi(a[i].c_str()); };
        if (cmd == "case") { printf("case %s\n", a[0].c_str()); continue; }
        if (cmd == "create") {
            delete L;
            L = new CBigLinProb;
            L->Create(IA(0), IA(1));
            L->Precision = D(2);
            L->Lambda = D(3);
            continue;
        }
        if (cmd == "end") { printf("end\n"); fflush(stdout); continue; }
        printf("r");
        if (cmd == "put") L->Put(D(0), IA(1), IA(2));
        else if (cmd == "addto") L->AddTo(D(0), IA(1), IA(2));
        else if (cmd == "get") pv(L->Get(IA(0), IA(1)));
        else if (cmd == "setb") L->b[IA(0)] = D(1);
        else if (cmd == "setv") L->V[IA(0)] = D(1);
        else if (cmd == "setvalue") L->SetValue(IA(0), D(1));
        else if (cmd == "periodic") L->Periodicity(IA(0), IA(1));
        else if (cmd == "antiperiodic") L->AntiPeriodicity(IA(0), IA(1));
        else if (cmd == "multa" || cmd == "multpc") {
            std::vector<double> X(L->n), Y(L->n);
            for (int i = 0; i < L->n; i++) X[i] = D(i);
            if (cmd == "multa") L->MultA(X.data(), Y.data()); else L->MultPC(X.data(), Y.data());
            for (int i = 0; i < L->n; i++) pv(Y[i]);
        }
        else if (cmd == "wipe") L->Wipe();
        else if (cmd == "solve") {
            // suppress "Conjugate Gradient Solver\n" by redirecting stdout temporarily
            fflush(stdout);
            int save = dup(1);
            int nul = open("/dev/null", O_WRONLY);
            dup2(nul, 1);
            bool ok = L->PCGSolve(IA(0));
            fflush(stdout);
            dup2(save, 1);
            close(save); close(nul);
            // status as the model reports it: 0 singular flag, 1 returned true
            pv(ok ? 1 : 0);
            for (int i = 0; i < L->n; i++) pv(L->V[i]);
        }
        else if (cmd == "dump") {
            for (int i = 0; i < L->n; i++)
            {
                int cnt = 0;
                for (CEntry *e = L->M[i]; e != NULL; e = e->next) cnt++;
                pv(cnt);
                for (CEntry *e = L->M[i]; e != NULL; e = e->next) { pv(e->c); pv(e->x); }
            }
            for (int i = 0; i < L->n; i++) pv(L->b[i]);
        }
        else if (cmd == "dense") {
            // oracle: dense direct solve (long double Gaussian elimination with partial
            // pivoting) of the current system; prints x
            int n = L->n;
            std::vector<long double> Aa(n * n), bb(n);
            for (int i = 0; i < n; i++) { bb[i] = L->b[i]; for (int j = 0; j < n; j++) Aa[i * n + j] = L->Get(i, j); }
            bool sing = false;
            for (int c = 0; c < n && !sing; c++) {
                int p = c;
                for (int r = c + 1; r < n; r++) if (fabsl(Aa[r * n + c]) > fabsl(Aa[p * n + c])) p = r;
                if (Aa[p * n + c] == 0) { sing = true; break; }
                if (p != c) { for (int j = 0; j < n; j++) std::swap(Aa[p * n + j], Aa[c * n + j]); std::swap(bb[p], bb[c]); }
                for (int r = c + 1; r < n; r++) {
                    long double f = Aa[r * n + c] / Aa[c * n + c];
                    if (f == 0) continue;
                    for (int j = c; j < n; j++) Aa[r * n + j] -= f * Aa[c * n + j];
                    bb[r] -= f * bb[c];
                }
            }
            if (sing) printf(" singular");
            else {
                for (int i = n - 1; i >= 0; i--) {
                    long double s = bb[i];
                    for (int j = i + 1; j < n; j++) s -= Aa[i * n + j] * bb[j];
                    bb[i] = s / Aa[i * n + i];
                }
                for (int i = 0; i < n; i++) pv((double)bb[i]);
            }
        }
        else printf(" ?%s", cmd.c_str());
        printf("\n");
    }
    return 0;
}
