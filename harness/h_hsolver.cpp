// h_hsolver: run the real HSolver pipeline (LoadProblemFile, LoadMesh, LoadPrev, Cuthill, Create,
// AnalyzeProblem) on <path-without-extension> and dump the solver's input data (after
// renumbering), the solution, the conductor heat flows and the assembled systems.
//
// Three calls of the unmodified HSolver::AnalyzeProblem are made (no hook needed):
//   RUN1  the genuine run: fresh CBigLinProb, the problem's Precision; gives the written
//         temperatures V1, the flags Q, the conductor heat flows, the number of outer
//         iterations (counted from the "Iteration(k)" lines the solver prints) and the system
//         left in L by the last outer iteration.
//   RUN2  one single pass at a KNOWN previous iterate: fresh CBigLinProb whose V is preset to
//         V1 and the member HSolver::Precision (used only by the outer convergence test;
//         the linear solver uses L.Precision) set to 1e300, so that the do-while exits after
//         the first pass.  The system left in L is the one assembled with Vo = V1 exactly: the
//         conductivities and the radiation linearisation are evaluated at the written temperatures.
//   RUN3  as RUN2 with the problem's Precision: the outer loop exits after its first pass iff
//         the convergence test sqrt(e1/e2) < 100*Precision accepts (V1 -> V2); the number of
//         passes is dumped so that the model's convergence test can be compared.
// AnalyzeProblem rescales Depth/extRo/extRi/extZo at entry; they are restored between runs.
#include <cstdio>
#include <cstdlib>
#include <cstring>
#include <cmath>
#include <string>
#include <vector>
#include <unistd.h>
#include <fcntl.h>
#define private public
#define protected public
#include "femmcomplex.h"
#include "femmconstants.h"
#include "spars.h"
#include "hsolver.h"
#undef private
#undef protected

static FILE *out;
static void pv(double x) { fprintf(out, " %.17g", x); }

// run AnalyzeProblem with stdout captured; returns ok, sets niter = number of "Iteration(" lines
static int analyze(HSolver &S, CBigLinProb &L, const char *capfile, int &niter)
{
    fflush(stdout);
    int save = dup(1);
    int cap = open(capfile, O_WRONLY | O_CREAT | O_TRUNC, 0600);
    dup2(cap, 1);
    int ok = S.AnalyzeProblem(L);
    fflush(stdout);
    dup2(save, 1); close(save); close(cap);
    niter = 0;
    FILE *f = fopen(capfile, "r");
    if (f) {
        std::string txt; char buf[4096]; size_t n;
        while ((n = fread(buf, 1, sizeof buf, f)) > 0) txt.append(buf, n);
        fclose(f);
        size_t pos = 0;
        while ((pos = txt.find("Iteration(", pos)) != std::string::npos) { niter++; pos += 10; }
    }
    remove(capfile);
    return ok;
}

static void dump_system(const char *tag, CBigLinProb &L)
{
    for (int i = 0; i < L.n; i++) {
        int cnt = 0;
        for (CEntry *e = L.M[i]; e != NULL; e = e->next) cnt++;
        fprintf(out, "ROW%s %d %d", tag, i, cnt);
        for (CEntry *e = L.M[i]; e != NULL; e = e->next) { fprintf(out, " %d", e->c); pv(e->x); }
        fprintf(out, "\n");
    }
    fprintf(out, "B%s", tag); for (int i = 0; i < L.n; i++) pv(L.b[i]); fprintf(out, "\n");
    fprintf(out, "V%s", tag); for (int i = 0; i < L.n; i++) pv(L.V[i]); fprintf(out, "\n");
    fprintf(out, "Q%s", tag); for (int i = 0; i < L.n; i++) fprintf(out, " %d", L.Q[i]); fprintf(out, "\n");
}

int main(int argc, char **argv)
{
    if (argc < 3) { fprintf(stderr, "usage: h_hsolver <path-noext> <dumpfile>\n"); return 9; }
    out = fopen(argv[2], "w");
    std::string capfile = std::string(argv[2]) + ".stdout";
    HSolver S;
    S.PathName = argv[1];
    S.dT = 0;   // the constructor leaves dT unset; a file without [dT] means steady state
    if (!S.LoadProblemFile()) { fprintf(out, "FAIL loadproblem\n"); fclose(out); return 1; }
    if (S.LoadMesh(false) != 0) { fprintf(out, "FAIL loadmesh\n"); fclose(out); return 2; }
    int lp = S.LoadPrev();
    if (S.dT != 0 && S.Tprev == NULL) { fprintf(out, "FAIL loadprev %d\n", lp); fclose(out); return 5; }
    if (!S.Cuthill(false)) { fprintf(out, "FAIL cuthill\n"); fclose(out); return 3; }
    fprintf(out, "PROB %d", S.ProblemType == femm::AXISYMMETRIC ? 1 : 0);
    pv(S.Depth); fprintf(out, " %d", (int)S.LengthUnits); pv(S.extRo); pv(S.extRi); pv(S.extZo); pv(S.dT); pv(S.Precision);
    fprintf(out, " %d %d %d %d\n", S.BandWidth, S.NumNodes, S.NumEls, S.NumCircProps);
    for (int i = 0; i < S.NumNodes; i++) {
        fprintf(out, "NODE"); pv(S.meshnode[i].x); pv(S.meshnode[i].y);
        fprintf(out, " %d %d\n", S.meshnode[i].BoundaryMarker, S.meshnode[i].InConductor);
    }
    for (int i = 0; i < S.NumEls; i++) {
        auto &e = S.meshele[i];
        fprintf(out, "ELEM %d %d %d %d %d %d %d %d\n", e.p[0], e.p[1], e.p[2], e.e[0], e.e[1], e.e[2], e.blk, e.lbl);
    }
    for (auto &b : S.blockproplist) {
        fprintf(out, "BLOCK"); pv(b.Kx); pv(b.Ky); pv(b.Kt); pv(b.qv); fprintf(out, " %d", b.npts);
        for (int i = 0; i < b.npts; i++) { pv(b.Kn[i].re); pv(b.Kn[i].im); }
        fprintf(out, "\n");
    }
    for (auto &l : S.lineproplist) { fprintf(out, "LINE %d", l.BdryFormat); pv(l.Tset); pv(l.Tinf); pv(l.qs); pv(l.beta); pv(l.h); fprintf(out, "\n"); }
    for (auto &p : S.nodeproplist) { fprintf(out, "POINT"); pv(p.V); pv(p.qp); fprintf(out, "\n"); }
    for (auto &c : S.circproplist) { fprintf(out, "CIRC %d", c.CircType); pv(c.V); pv(c.q); fprintf(out, "\n"); }
    for (auto &l : S.labellist) fprintf(out, "LABEL %d\n", l.IsExternal ? 1 : 0);
    for (int k = 0; k < S.NumPBCs; k++) fprintf(out, "PBC %d %d %d\n", S.pbclist[k].x, S.pbclist[k].y, S.pbclist[k].t);
    if (S.Tprev != NULL) { fprintf(out, "TPREV"); for (int i = 0; i < S.NumNodes; i++) pv(S.Tprev[i]); fprintf(out, "\n"); }
    fprintf(out, "KSB"); pv(Ksb); fprintf(out, "\n");

    const double Depth0 = S.Depth, extRo0 = S.extRo, extRi0 = S.extRi, extZo0 = S.extZo, Prec0 = S.Precision;
    const int n = S.NumNodes + S.NumCircProps;
    int niter = 0;

    // ---- RUN1: the genuine run
    std::vector<double> V1(n, 0.);
    {
        CBigLinProb L;
        L.Precision = Prec0;
        L.Create(n, S.BandWidth);
        int ok = analyze(S, L, capfile.c_str(), niter);
        fprintf(out, "SOLVED1 %d %d", ok, niter); pv(S.Depth); fprintf(out, "\n");
        if (!ok) { fclose(out); return 4; }
        dump_system("1", L);
        for (int i = 0; i < n; i++) V1[i] = L.V[i];
        fprintf(out, "CHARGE"); for (auto &c : S.circproplist) pv(c.q); fprintf(out, "\n");
        // conductor heat flows recomputed for every conductor (also the floating ones)
        fprintf(out, "CHARGEALL"); for (int i = 0; i < S.NumCircProps; i++) pv(S.ChargeOnConductor(i, L)); fprintf(out, "\n");
    }
    // libm values the model takes as inputs: pow(Tlast,3.), pow(Tinf,4.), pow(Tlast,4.) for
    // every radiation edge of the single pass at Vo = V1, in the order the element loop meets them
    fprintf(out, "POWS");
    for (int i = 0; i < S.NumEls; i++)
        for (int j = 0; j < 3; j++) {
            auto &e = S.meshele[i];
            if (e.e[j] >= 0 && S.lineproplist[e.e[j]].BdryFormat == 3) {
                int k = j + 1; if (k == 3) k = 0;
                double Tlast = (V1[e.p[j]] + V1[e.p[k]]) / 2.;
                pv(pow(Tlast, 3.)); pv(pow(S.lineproplist[e.e[j]].Tinf, 4.)); pv(pow(Tlast, 4.));
            }
        }
    fprintf(out, "\n");

    // ---- RUN2: one pass with Vo = V1
    S.Depth = Depth0; S.extRo = extRo0; S.extRi = extRi0; S.extZo = extZo0;
    {
        CBigLinProb L;
        L.Precision = Prec0;
        L.Create(n, S.BandWidth);
        for (int i = 0; i < n; i++) L.V[i] = V1[i];
        S.Precision = 1e300;
        int ok = analyze(S, L, capfile.c_str(), niter);
        S.Precision = Prec0;
        fprintf(out, "SOLVED2 %d %d", ok, niter); pv(S.Depth); fprintf(out, "\n");
        if (!ok) { fclose(out); return 4; }
        dump_system("2", L);
    }
    // ---- RUN3: the convergence decision on (V1 -> V2)
    S.Depth = Depth0; S.extRo = extRo0; S.extRi = extRi0; S.extZo = extZo0;
    {
        CBigLinProb L;
        L.Precision = Prec0;
        L.Create(n, S.BandWidth);
        for (int i = 0; i < n; i++) L.V[i] = V1[i];
        int ok = analyze(S, L, capfile.c_str(), niter);
        fprintf(out, "SOLVED3 %d %d\n", ok, niter);
    }
    fclose(out);
    return 0;
}
