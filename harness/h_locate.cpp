// h_locate: point location and interpolation through the real post-processor classes.
//   h_locate e <file.res>   ElectrostaticsPostProcessor (cfemm/epproc, InTriangle of libfemm/PostProcessor.cpp)
//   h_locate h <file.anh>   HPProc                      (cfemm/hpproc, its own InTriangleTest)
//   h_locate m <file.ans>   FPProc                      (cfemm/fpproc, its own InTriangle/InTriangleTest)
// After OpenDocument the loaded mesh is dumped (every line of this harness starts with a tag
// and a blank; anything else on stdout is chatter of the library), then commands are read
// from stdin (numbers as hex floats, exact):
//   q x y      -> "r idx v0 .. v7"   InTriangle + getPointValues(x,y,idx,u)   ("r -1" if not found)
//   t x y i    -> "t 0|1"            InTriangleTest(x,y,i)
//   s 0|1      -> smoothing off/on   (initially off)
// One process per solution file: the search state is a function-local static.
#include <cstdio>
#include <cstdlib>
#include <cstring>
#include <string>
#include <vector>
#include <sstream>
#include <iostream>
#include <cmath>
#include <memory>
#include <map>
#include <set>
#include <list>
#include <algorithm>
#include <fstream>
#include <functional>
#define private public
#define protected public
#include "femmcomplex.h"
#include "femmconstants.h"
#include "PostProcessor.h"
#include "epproc.h"
#include "hpproc.h"
#include "fpproc.h"
#undef private
#undef protected

static void pv(double x) { printf(" %.17g", x); }

template <class PP> static void dump_common(PP &pp, const char *kind)
{
    // femm::PostProcessor based classes (epproc, hpproc)
    auto &prob = *pp.problem;
    printf("P"); pv(pp.LengthConv[prob.LengthUnits]); pv(eo); printf(" %d %s\n", (int)prob.problemType, kind);
    printf("N %d\n", (int)pp.meshnodes.size());
}

int main(int argc, char **argv)
{
    if (argc < 3) { fprintf(stderr, "usage: h_locate e|h|m file\n"); return 2; }
    char kind = argv[1][0];
    std::string file = argv[2];
    ElectrostaticsPostProcessor *ep = nullptr;
    HPProc *hp = nullptr;
    FPProc *fp = nullptr;
    bool ok = false;
    if (kind == 'e') { ep = new ElectrostaticsPostProcessor; ok = ep->OpenDocument(file); }
    else if (kind == 'h') { hp = new HPProc; ok = hp->OpenDocument(file); }
    else if (kind == 'm') { fp = new FPProc; ok = fp->OpenDocument(file); }
    printf("\nO %d\n", ok ? 1 : 0);
    if (!ok) return 3;

    if (ep) {
        dump_common(*ep, "e");
        for (auto &n : ep->meshnodes) { auto s = reinterpret_cast<femmsolver::CSMeshNode*>(n.get()); printf("n"); pv(s->x); pv(s->y); pv(s->V); printf("\n"); }
        printf("E %d\n", (int)ep->meshelems.size());
        for (auto &e : ep->meshelems) {
            auto s = reinterpret_cast<femmsolver::CHSElement*>(e.get());
            printf("e %d %d %d %d %d", s->p[0], s->p[1], s->p[2], s->lbl, s->blk);
            pv(s->ctr.re); pv(s->ctr.im); pv(s->rsqr); pv(s->D.re); pv(s->D.im); printf("\n");
        }
        auto &prob = *ep->problem;
        printf("L %d\n", (int)prob.labellist.size());
        for (auto &l : prob.labellist) { printf("l"); pv(l->x); pv(l->y); printf(" %d %d\n", l->BlockType, l->IsExternal ? 1 : 0); }
        printf("M %d\n", (int)prob.blockproplist.size());
        for (auto &m : prob.blockproplist) { auto s = dynamic_cast<femm::CSMaterialProp*>(m.get()); printf("m"); pv(s->ex); pv(s->ey); printf("\n"); }
        ep->setSmoothing(false);
    }
    if (hp) {
        dump_common(*hp, "h");
        for (auto &n : hp->meshnodes) { auto s = reinterpret_cast<femmsolver::CHMeshNode*>(n.get()); printf("n"); pv(s->x); pv(s->y); pv(s->T); printf("\n"); }
        printf("E %d\n", (int)hp->meshelems.size());
        for (auto &e : hp->meshelems) {
            auto s = reinterpret_cast<femmsolver::CHSElement*>(e.get());
            printf("e %d %d %d %d %d", s->p[0], s->p[1], s->p[2], s->lbl, s->blk);
            pv(s->ctr.re); pv(s->ctr.im); pv(s->rsqr); pv(s->D.re); pv(s->D.im); printf("\n");
        }
        auto &prob = *hp->problem;
        printf("L %d\n", (int)prob.labellist.size());
        for (auto &l : prob.labellist) { printf("l"); pv(l->x); pv(l->y); printf(" %d %d\n", l->BlockType, l->IsExternal ? 1 : 0); }
        printf("M %d\n", (int)prob.blockproplist.size());
        for (auto &m : prob.blockproplist) { auto s = dynamic_cast<femm::CHMaterialProp*>(m.get()); printf("m"); pv(s->Kx); pv(s->Ky); printf("\n"); }
        hp->setSmoothing(false);
    }
    if (fp) {
        printf("P"); pv(fp->LengthConv[fp->LengthUnits]); pv(muo); printf(" %d m\n", (int)fp->problemType);
        printf("N %d\n", (int)fp->meshnode.size());
        for (auto &n : fp->meshnode) { printf("n"); pv(n.x); pv(n.y); pv(n.A.re); printf("\n"); }
        printf("E %d\n", (int)fp->meshelem.size());
        for (auto &e : fp->meshelem) {
            printf("e %d %d %d %d %d", e.p[0], e.p[1], e.p[2], e.lbl, e.blk);
            pv(e.ctr.re); pv(e.ctr.im); pv(e.rsqr); pv(e.B1.re); pv(e.B2.re); printf("\n");
        }
        printf("L %d\n", (int)fp->blocklist.size());
        for (auto &l : fp->blocklist) { printf("l"); pv(l.x); pv(l.y); printf(" %d %d\n", l.BlockType, l.IsExternal ? 1 : 0); }
        printf("M %d\n", (int)fp->blockproplist.size());
        for (auto &m : fp->blockproplist) { printf("m"); pv(m.mu_x); pv(m.mu_y); printf("\n"); }
        fp->Smooth = false;
    }
    printf("D\n");
    fflush(stdout);

    std::string line;
    while (std::getline(std::cin, line)) {
        std::istringstream is(line);
        std::string cmd;
        if (!(is >> cmd)) continue;
        std::vector<std::string> a;
        std::string t;
        while (is >> t) a.push_back(t);
        auto D = [&](size_t i) { return strtod(a[i].c_str(), nullptr); };
        if (cmd == "s") {
            bool v = atoi(a[0].c_str()) != 0;
            if (ep) ep->setSmoothing(v);
            if (hp) hp->setSmoothing(v);
            if (fp) fp->Smooth = v;
            continue;
        }
        if (cmd == "t") {
            int i = atoi(a[2].c_str());
            bool r = ep ? ep->InTriangleTest(D(0), D(1), i) : hp ? hp->InTriangleTest(D(0), D(1), i) : fp->InTriangleTest(D(0), D(1), i);
            printf("t %d\n", r ? 1 : 0);
            continue;
        }
        if (cmd == "q") {
            double x = D(0), y = D(1);
            int k = ep ? ep->InTriangle(x, y) : hp ? hp->InTriangle(x, y) : fp->InTriangle(x, y);
            printf("r %d", k);
            if (k >= 0) {
                if (ep) {
                    CSPointVals u;
                    ep->getPointValues(x, y, k, u);
                    pv(u.V); pv(u.D.re); pv(u.D.im); pv(u.E.re); pv(u.E.im); pv(u.e.re); pv(u.e.im); pv(u.nrg);
                } else if (hp) {
                    CHPointVals u;
                    hp->getPointValues(x, y, k, u);
                    pv(u.T); pv(u.F.re); pv(u.F.im); pv(u.G.re); pv(u.G.im); pv(u.K.re); pv(u.K.im); pv(0);
                } else {
                    CMPointVals u;
                    fp->GetPointValues(x, y, k, u);
                    pv(u.A.re); pv(u.B1.re); pv(u.B2.re); pv(u.H1.re); pv(u.H2.re); pv(u.mu1.re); pv(u.mu2.re); pv(u.E);
                }
            }
            printf("\n");
            continue;
        }
        printf("? %s\n", cmd.c_str());
    }
    fflush(stdout);
    return 0;
}
