// h_polywrite — runs the REAL FMesher::DoNonPeriodicBCTriangulation (writepoly.cpp is compiled into this
// harness so that nothing of it is pulled from libfmesher.a) with Triangle replaced by a stub: the stub
// records the switch string and the complete in-memory triangulateio input it is handed, and answers with
// output tables chosen by the test (so that writeTriangulationFiles runs on known arrays).
//
// stdin:  RUN <problem file> <verbose 0|1> <status to return from triangulate>
//         NP <n>            then n lines  x y marker
//         NE <n>            then n lines  a b marker
//         NT <n> <corners> <nattr>   then n lines  corner... attr...
//         GO
// stdout: SWITCHES <string> / IN ... lines (see dump_in) / RET <return value>
#include <cstdio>
#include <cstdlib>
#include <cstring>
#include <string>
#include <vector>
#include <iostream>
#include <sstream>
#include <fstream>
#include <memory>
#include <cmath>

#include "writepoly.cpp"
#include "FemmReader.h"

static int g_status = 0;
static std::vector<double> g_pl, g_ta;
static std::vector<int> g_pm, g_el, g_em, g_tl;
static int g_np = 0, g_ne = 0, g_nt = 0, g_corners = 3, g_nattr = 1;

template <class T> static T *dup(const std::vector<T> &v)
{
    T *p = (T *)malloc((v.size() + 1) * sizeof(T));
    for (size_t i = 0; i < v.size(); i++) p[i] = v[i];
    return p;
}

extern "C" int triangulate(char *sw, struct triangulateio *in, struct triangulateio *out,
                           struct triangulateio *vor, int (*msg)(const char *format, ...))
{
    printf("SWITCHES %s\n", sw);
    printf("INPOINTS %d\n", in->numberofpoints);
    for (int i = 0; i < in->numberofpoints; i++)
        printf("P %d %.17g %.17g %d\n", i, in->pointlist[2 * i], in->pointlist[2 * i + 1], in->pointmarkerlist[i]);
    printf("INSEGS %d\n", in->numberofsegments);
    for (int i = 0; i < in->numberofsegments; i++)
        printf("S %d %d %d %d\n", i, in->segmentlist[2 * i], in->segmentlist[2 * i + 1], in->segmentmarkerlist[i]);
    printf("INHOLES %d\n", in->numberofholes);
    for (int i = 0; i < in->numberofholes; i++)
        printf("H %d %.17g %.17g\n", i, in->holelist[2 * i], in->holelist[2 * i + 1]);
    printf("INREGIONS %d\n", in->numberofregions);
    for (int i = 0; i < in->numberofregions; i++)
        printf("R %d %.17g %.17g %.17g %.17g\n", i, in->regionlist[4 * i], in->regionlist[4 * i + 1],
               in->regionlist[4 * i + 2], in->regionlist[4 * i + 3]);
    printf("INATTRS %d %p\n", in->numberofpointattributes, (void *)in->pointattributelist);
    if (g_status != 0)
        return g_status;
    out->numberofpoints = g_np;
    out->pointlist = dup(g_pl);
    out->pointmarkerlist = dup(g_pm);
    out->numberofedges = g_ne;
    out->edgelist = dup(g_el);
    out->edgemarkerlist = dup(g_em);
    out->numberoftriangles = g_nt;
    out->numberofcorners = g_corners;
    out->numberoftriangleattributes = g_nattr;
    out->trianglelist = dup(g_tl);
    out->triangleattributelist = dup(g_ta);
    return 0;
}
extern "C" void trifree(void *p) { free(p); }

int main()
{
    std::string line, path;
    int verbose = 0;
    while (std::getline(std::cin, line))
    {
        std::istringstream ss(line);
        std::string cmd;
        ss >> cmd;
        if (cmd == "RUN") { ss >> path >> verbose >> g_status; }
        else if (cmd == "NP")
        {
            ss >> g_np;
            for (int i = 0; i < g_np; i++)
            {
                std::getline(std::cin, line);
                double x, y; int m;
                sscanf(line.c_str(), "%lf %lf %d", &x, &y, &m);
                g_pl.push_back(x); g_pl.push_back(y); g_pm.push_back(m);
            }
        }
        else if (cmd == "NE")
        {
            ss >> g_ne;
            for (int i = 0; i < g_ne; i++)
            {
                std::getline(std::cin, line);
                int a, b, m;
                sscanf(line.c_str(), "%d %d %d", &a, &b, &m);
                g_el.push_back(a); g_el.push_back(b); g_em.push_back(m);
            }
        }
        else if (cmd == "NT")
        {
            ss >> g_nt >> g_corners >> g_nattr;
            for (int i = 0; i < g_nt; i++)
            {
                std::getline(std::cin, line);
                std::istringstream ls(line);
                for (int j = 0; j < g_corners; j++) { int c; ls >> c; g_tl.push_back(c); }
                for (int j = 0; j < g_nattr; j++) { double a; ls >> a; g_ta.push_back(a); }
            }
        }
        else if (cmd == "GO")
            break;
    }
    FMesher MeshObj;
    MeshObj.writePolyFiles = true;
    MeshObj.Verbose = (verbose != 0);
    MeshObj.problem->filetype = FMesher::GetFileType(path);
    ParserResult status = F_FILE_UNKNOWN_TYPE;
    if (MeshObj.problem->filetype == FileType::MagneticsFile)
    {
        MagneticsReader r(MeshObj.problem, std::cerr);
        status = r.parse(path);
    }
    else if (MeshObj.problem->filetype == FileType::HeatFlowFile)
    {
        HeatFlowReader r(MeshObj.problem, std::cerr);
        status = r.parse(path);
    }
    else if (MeshObj.problem->filetype == FileType::ElectrostaticsFile)
    {
        ElectrostaticsReader r(MeshObj.problem, std::cerr);
        status = r.parse(path);
    }
    if (status != F_FILE_OK)
    {
        printf("LOADFAIL %d\n", (int)status);
        return 3;
    }
    printf("PERIODIC %d\n", MeshObj.HasPeriodicBC() ? 1 : 0);
    fflush(stdout);
    int rc = MeshObj.DoNonPeriodicBCTriangulation(path);
    printf("RET %d\n", rc);
    return 0;
}
