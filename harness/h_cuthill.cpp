// h_cuthill <e|h|m> <path-without-extension> <dumpfile>
// Loads a real problem with the real solver class (LoadProblemFile, LoadMesh(false): the mesh files
// are kept), dumps nodes / elements / pbcs / air-gap quad nodes BEFORE, calls the real
// Cuthill(false) (which calls SortNodes and SortElements) and dumps BandWidth, nodes, elements, pbcs,
// air-gap quad nodes AFTER.
// Every node is tagged with its old index (CNode::InGroup, unused by the solvers) and every element
// with its old position (CElement::n[0], unused by the solvers) before the call, so that the dump
// shows where each record went:  newnum[old] = position of the node whose tag is old.
#include <cstdio>
#include <cstdlib>
#include <cstring>
#include <string>
#include <vector>
#define private public
#define protected public
#include "femmcomplex.h"
#include "spars.h"
#include "esolver.h"
#include "hsolver.h"
#include "fsolver.h"
#undef private
#undef protected

static void pv(FILE *out, double x) { fprintf(out, " %.17g", x); }

template <class S> static void dump(FILE *out, S &s, const char *tag, bool hasCond)
{
    fprintf(out, "%s %d %d %d %d\n", tag, s.NumNodes, s.NumEls, s.NumPBCs, s.NumAirGapElems);
    for (int i = 0; i < s.NumNodes; i++) {
        femm::CNode &n = s.meshnode[i];
        fprintf(out, "NODE %d", n.InGroup); pv(out, n.x); pv(out, n.y);
        fprintf(out, " %d %d\n", n.BoundaryMarker, hasCond ? n.InConductor : -1);
    }
    for (int i = 0; i < s.NumEls; i++) {
        auto &e = s.meshele[i];
        fprintf(out, "ELEM %d %d %d %d %d %d %d %d %d\n", e.n[0], e.p[0], e.p[1], e.p[2], e.e[0], e.e[1], e.e[2], e.blk, e.lbl);
    }
    for (int k = 0; k < s.NumPBCs; k++) fprintf(out, "PBC %d %d %d\n", s.pbclist[k].x, s.pbclist[k].y, s.pbclist[k].t);
    for (int i = 0; i < s.NumAirGapElems; i++)
        for (int k = 0; k <= s.agelist[i].totalArcElements; k++) {
            auto &q = s.agelist[i].quadNode[k];
            fprintf(out, "AGE %d %d %d %d %d %d", i, k, q.n0, q.n1, q.n2, q.n3);
            pv(out, q.w0); pv(out, q.w1); pv(out, q.w2); pv(out, q.w3); fprintf(out, "\n");
        }
}

template <class S> static int run(S &s, const char *path, const char *dumpf, bool hasCond)
{
    FILE *out = fopen(dumpf, "w");
    if (!out) return 8;
    s.PathName = path;
    if (!s.LoadProblemFile()) { fprintf(out, "FAIL loadproblem\n"); fclose(out); return 1; }
    int err = s.LoadMesh(false);
    if (err != 0) { fprintf(out, "FAIL loadmesh %d\n", err); fclose(out); return 2; }
    for (int i = 0; i < s.NumNodes; i++) s.meshnode[i].InGroup = i;
    for (int i = 0; i < s.NumEls; i++) { s.meshele[i].n[0] = i; s.meshele[i].n[1] = 0; s.meshele[i].n[2] = 0; }
    dump(out, s, "BEFORE", hasCond);
    fflush(out);
    int ok = s.Cuthill(false);
    if (!ok) { fprintf(out, "FAIL cuthill\n"); fclose(out); return 3; }
    fprintf(out, "BW %d\n", s.BandWidth);
    dump(out, s, "AFTER", hasCond);
    fprintf(out, "DONE\n");
    fclose(out);
    return 0;
}

int main(int argc, char **argv)
{
    if (argc < 4) { fprintf(stderr, "usage: h_cuthill <e|h|m> <path-noext> <dumpfile>\n"); return 9; }
    if (argv[1][0] == 'e') { ESolver s; return run(s, argv[2], argv[3], true); }
    if (argv[1][0] == 'h') { HSolver s; return run(s, argv[2], argv[3], true); }
    FSolver s; return run(s, argv[2], argv[3], false);
}
