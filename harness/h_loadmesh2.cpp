// h_loadmesh2 <e|h|m> <path-without-extension> <dumpfile> <deleteFiles 0|1>
// Runs the REAL LoadProblemFile + LoadMesh(deleteFiles) of the chosen solver class and dumps
//   - the tables of the problem that LoadMesh consults (LengthUnits, labellist[].IsDefault/BlockType,
//     lineproplist[].BdryFormat), as the solver holds them after LoadProblemFile,
//   - the error code LoadMesh returned,
//   - the complete in-memory mesh: nodes (x, y, BoundaryMarker, InConductor), elements (p[], e[], blk, lbl),
//     pbclist (x, y, t), air-gap quad nodes (fsolver),
//   - which of the five mesh files still exist afterwards.
// (props/xload.py; model coq/theories/LoadMesh.v)
#include <cstdio>
#include <cstdlib>
#include <cstring>
#include <string>
#include <vector>
#include <unistd.h>
#define private public
#define protected public
#include "femmcomplex.h"
#include "spars.h"
#include "esolver.h"
#include "hsolver.h"
#include "fsolver.h"
#undef private
#undef protected

static void files(FILE *out, const char *path)
{
    const char *ext[5] = {".ele", ".node", ".pbc", ".poly", ".edge"};
    fprintf(out, "FILES");
    for (int k = 0; k < 5; k++) {
        std::string f = std::string(path) + ext[k];
        fprintf(out, " %d", access(f.c_str(), F_OK) == 0 ? 1 : 0);
    }
    fprintf(out, "\n");
}

template <class S> static void ages(FILE *out, S &s) {}
template <> void ages<FSolver>(FILE *out, FSolver &s)
{
    for (size_t i = 0; i < s.agelist.size(); i++)
        for (size_t k = 0; k < s.agelist[i].quadNode.size(); k++) {
            auto &q = s.agelist[i].quadNode[k];
            fprintf(out, "AGE %d %d %d %d %d %d\n", (int)i, (int)k, q.n0, q.n1, q.n2, q.n3);
        }
}

template <class S> static int run(S &s, const char *path, const char *dumpf, bool del)
{
    FILE *out = fopen(dumpf, "w");
    if (!out) return 8;
    s.PathName = path;
    if (!s.LoadProblemFile()) { fprintf(out, "FAIL loadproblem\n"); fclose(out); return 1; }
    fprintf(out, "UNITS %d\n", (int)s.LengthUnits);
    fprintf(out, "NLABELS %d %d\n", s.NumBlockLabels, (int)s.labellist.size());
    for (size_t i = 0; i < s.labellist.size(); i++)
        fprintf(out, "LABEL %d %d\n", s.labellist[i].IsDefault ? 1 : 0, s.labellist[i].BlockType);
    for (size_t i = 0; i < s.lineproplist.size(); i++)
        fprintf(out, "BDRY %d\n", s.lineproplist[i].BdryFormat);
    fflush(out);
    int err = s.LoadMesh(del);
    fprintf(out, "RC %d\n", err);
    files(out, path);
    if (err != 0) { fprintf(out, "DONE\n"); fclose(out); return 0; }
    fprintf(out, "COUNTS %d %d %d\n", s.NumNodes, s.NumEls, s.NumPBCs);
    for (int i = 0; i < s.NumNodes; i++) {
        femm::CNode &n = s.meshnode[i];
        fprintf(out, "NODE %.17g %.17g %d %d\n", n.x, n.y, n.BoundaryMarker, n.InConductor);
    }
    for (int i = 0; i < s.NumEls; i++) {
        auto &e = s.meshele[i];
        fprintf(out, "ELEM %d %d %d %d %d %d %d %d\n", e.p[0], e.p[1], e.p[2], e.e[0], e.e[1], e.e[2], e.blk, e.lbl);
    }
    for (size_t k = 0; k < s.pbclist.size(); k++) fprintf(out, "PBC %d %d %d\n", s.pbclist[k].x, s.pbclist[k].y, s.pbclist[k].t);
    ages(out, s);
    fprintf(out, "DONE\n");
    fclose(out);
    return 0;
}

int main(int argc, char **argv)
{
    if (argc < 5) return 9;
    bool del = argv[4][0] == '1';
    if (argv[1][0] == 'e') { ESolver s; return run(s, argv[2], argv[3], del); }
    if (argv[1][0] == 'h') { HSolver s; return run(s, argv[2], argv[3], del); }
    FSolver s; return run(s, argv[2], argv[3], del);
}
