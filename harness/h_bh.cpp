// h_bh: build CMSolverMaterialProp objects (cfemm/libfemm/CMaterialProp.cpp) from B-H tables
// read on stdin, call GetSlopes(0), print the (possibly smoothed) table, the slopes and samples
// of GetH / GetdHdB / GetEnergy / GetCoEnergy / GetBHProps.
// Input, one case:
//   case <id>
//   lam <LamType> <LamFill>
//   B <b0> <b1> ...            (hex floats, read exactly by strtod)
//   H <h0> <h1> ...
//   sample <x0> <x1> ...       (may be repeated)
//   end
// Output: "case id", "B ...", "H re im ...", "S re im ...", "mux v", one "s ..." line per
// sample (8 numbers), "end".  A case whose GetSlopes does not return within the time limit
// prints "TIMEOUT" and the harness exits with status 3.
#include <cstdio>
#include <cstdlib>
#include <cstring>
#include <string>
#include <vector>
#include <sstream>
#include <iostream>
#include <cmath>
#include <csignal>
#include <unistd.h>
#include "femmcomplex.h"
#include "fullmatrix.h"
#include "CMaterialProp.h"

using namespace femm;

static void pv(double x) { printf(" %.17g", x); }

static void on_alarm(int)
{
    const char msg[] = "TIMEOUT\n";
    fflush(stdout);
    (void)!write(1, msg, sizeof msg - 1);
    _exit(3);
}

int main(int argc, char **argv)
{
    int limit = argc > 1 ? atoi(argv[1]) : 20;
    signal(SIGALRM, on_alarm);
    std::string line;
    std::vector<double> B, H, X, D;
    int lamtype = 0;
    double lamfill = 1.;
    while (std::getline(std::cin, line)) {
        std::istringstream is(line);
        std::string cmd, t;
        if (!(is >> cmd)) continue;
        std::vector<double> a;
        while (is >> t) a.push_back(strtod(t.c_str(), nullptr));
        if (cmd == "case") {
            printf("case %d\n", (int)a[0]);
            B.clear(); H.clear(); X.clear(); D.clear(); lamtype = 0; lamfill = 1.;
        }
        else if (cmd == "lam") { lamtype = (int)a[0]; lamfill = a[1]; }
        else if (cmd == "B") B = a;
        else if (cmd == "H") H = a;
        else if (cmd == "sample") X.insert(X.end(), a.begin(), a.end());
        else if (cmd == "dsample") D.insert(D.end(), a.begin(), a.end());      // pairs b1 b2
        else if (cmd == "end") {
            CMSolverMaterialProp m;
            m.BHpoints = (int)B.size();
            m.Bdata = B;
            m.Hdata.clear();
            for (double h : H) m.Hdata.push_back(CComplex(h));
            m.LamType = lamtype;
            m.LamFill = lamfill;
            m.Theta_hn = 0.;
            m.Cduct = 0.;
            m.Lam_d = 0.;
            fflush(stdout);
            alarm(limit);
            m.GetSlopes(0);
            alarm(0);
            printf("B");
            for (double b : m.Bdata) pv(b);
            printf("\nH");
            for (auto &h : m.Hdata) { pv(h.re); pv(h.im); }
            printf("\nS");
            for (auto &s : m.slope) { pv(s.re); pv(s.im); }
            printf("\nmux");
            pv(m.mu_x);
            printf("\n");
            for (double x : X) {
                CComplex h = m.GetH(x);              // CMSolverMaterialProp::GetH(double)
                CComplex d = m.GetdHdB(x);
                double e = m.GetEnergy(x);
                double ce = m.GetCoEnergy(x);
                double v = 0, dv = 0;
                m.GetBHProps(x, v, dv);
                printf("s");
                pv(h.re); pv(h.im); pv(d.re); pv(d.im); pv(e); pv(ce); pv(v); pv(dv);
                printf("\n");
            }
            // the post-processor's energy densities: CMMaterialProp::DoEnergy / DoCoEnergy(double,double)
            for (size_t k = 0; k + 1 < D.size(); k += 2) {
                printf("d");
                pv(m.DoEnergy(D[k], D[k + 1])); pv(m.DoCoEnergy(D[k], D[k + 1]));
                printf("\n");
            }
            printf("end\n");
            fflush(stdout);
        }
    }
    return 0;
}
