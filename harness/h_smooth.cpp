// h_smooth: nodal smoothing of the post-processors' field values (extension XSMOOTH of C12); h_smooth.cpp extended by
// the connection lists, the stored nodal fields, getNodalD / GetNodalB on demand and a dump of the walk around a node
// (the walk LOOP of PostProcessor::getNodalD copied, on the class's own private data; no field value is recomputed here).
//   h_smooth e <file.res>   ElectrostaticsPostProcessor::getPointValues   (cfemm/epproc)
//   h_smooth h <file.anh>   HPProc::getPointValues                       (cfemm/hpproc)
//   h_smooth m <file.ans>   FPProc::GetPointValues                       (cfemm/fpproc)
// After OpenDocument everything the model needs is dumped as the post-processor holds it (every line of this
// harness starts with a tag and a blank; anything else on stdout is chatter of the library; numbers %.17g),
// then commands are read from stdin (numbers as hex floats, exact):
//   q x y      -> "r k v..."    k = InTriangle(x,y) (the real, stateful search), then getPointValues(x,y,k,u) on a
//                               freshly constructed point-value object ("r -1" if not found)
//   Q x y k    -> "r k v..."    getPointValues(x,y,k,u) for a given element (the other side of a shared edge)
//   s 0|1      smoothing off/on (initially the class default, printed as "S v")
//   g k        -> "g k ..."     electrostatics / heat: getNodalD of element k (d[0..2], re im each)
//   w k        -> "w k i j eos lf rt ang nq q.. nc ccw.. nw cw.." for i = 0..2: the walk of getNodalD around corner i of element k
//   b k        -> "b k ..."     magnetics: GetNodalB of element k (b1[0..2], b2[0..2], re im each)
#include <cstdio>
#include <cstdlib>
#include <cstring>
#include <string>
#include <vector>
#include <sstream>
#include <iostream>
#include <cmath>
#include <memory>
#include <map>
#include <set>
#include <list>
#include <algorithm>
#include <fstream>
#include <functional>
#define private public
#define protected public
#include "femmcomplex.h"
#include "femmconstants.h"
#include "PostProcessor.h"
#include "epproc.h"
#include "hpproc.h"
#include "fpproc.h"
#undef private
#undef protected

static void pv(double x) { printf(" %.17g", x); }

int main(int argc, char **argv)
{
    if (argc < 3) { fprintf(stderr, "usage: h_smooth e|h|m file\n"); return 2; }
    char kind = argv[1][0];
    std::string file = argv[2];
    ElectrostaticsPostProcessor *ep = nullptr;
    HPProc *hp = nullptr;
    FPProc *fp = nullptr;
    bool ok = false;
    if (kind == 'e') { ep = new ElectrostaticsPostProcessor; ok = ep->OpenDocument(file); }
    else if (kind == 'h') { hp = new HPProc; ok = hp->OpenDocument(file); }
    else if (kind == 'm') { fp = new FPProc; ok = fp->OpenDocument(file); }
    printf("\nO %d\n", ok ? 1 : 0);
    if (!ok) return 3;
    femm::PostProcessor *pp = ep ? (femm::PostProcessor *)ep : (femm::PostProcessor *)hp;

    if (ep || hp) {
        auto &prob = *pp->problem;
        // axi  LengthConv  Depth(after OpenDocument)  extZo extRo extRi  eo  unit index
        printf("P %d", prob.problemType == femm::AXISYMMETRIC ? 1 : 0);
        pv(pp->LengthConv[prob.LengthUnits]); pv(prob.Depth); pv(prob.extZo); pv(prob.extRo); pv(prob.extRi); pv(eo);
        printf(" %d\n", (int)prob.LengthUnits);
        printf("N %d\n", (int)pp->meshnodes.size());
        for (auto &n : pp->meshnodes) {
            if (ep) { auto s = reinterpret_cast<femmsolver::CSMeshNode*>(n.get()); printf("n"); pv(s->x); pv(s->y); pv(s->V); printf(" %d\n", (int)s->Q); }
            else    { auto s = reinterpret_cast<femmsolver::CHMeshNode*>(n.get()); printf("n"); pv(s->x); pv(s->y); pv(s->T); printf(" %d\n", (int)s->Q); }
        }
        printf("E %d\n", (int)pp->meshelems.size());
        for (auto &e : pp->meshelems) {
            auto s = reinterpret_cast<femmsolver::CHSElement*>(e.get());
            printf("e %d %d %d %d %d", s->p[0], s->p[1], s->p[2], s->lbl, s->blk);
            pv(s->ctr.re); pv(s->ctr.im); pv(s->D.re); pv(s->D.im);
            CComplex E = ep ? ep->E(s) : hp->E(s);
            pv(E.re); pv(E.im); pv(pp->AECF(s));
            printf("\n");
        }
        printf("L %d\n", (int)prob.labellist.size());
        for (auto &l : prob.labellist) { printf("l"); pv(l->x); pv(l->y); printf(" %d %d %d\n", l->BlockType, l->IsExternal ? 1 : 0, l->InGroup); }
        printf("M %d\n", (int)prob.blockproplist.size());
        for (auto &m : prob.blockproplist) {
            if (ep) { auto s = dynamic_cast<femm::CSMaterialProp*>(m.get()); printf("m"); pv(s->ex); pv(s->ey); printf(" 0\n"); }
            else {
                auto s = dynamic_cast<femm::CHMaterialProp*>(m.get());
                printf("m"); pv(s->Kx); pv(s->Ky); printf(" %d", s->npts);
                for (int i = 0; i < s->npts; i++) { pv(s->Kn[i].re); pv(s->Kn[i].im); }
                printf("\n");
            }
        }
        printf("C %d\n", (int)prob.circproplist.size());
        for (auto &c : prob.circproplist) {
            if (ep) { auto s = dynamic_cast<femm::CSCircuit*>(c.get()); printf("c"); pv(s->V); pv(s->q); printf("\n"); }
            else    { auto s = dynamic_cast<femm::CHConductor*>(c.get()); printf("c"); pv(s->V); pv(s->q); printf("\n"); }
        }
    }
    if (fp) {
        // axi  LengthConv  Depth(after OpenDocument)  extZo extRo extRi  muo  unit index  Frequency
        printf("P %d", fp->problemType == femm::AXISYMMETRIC ? 1 : 0);
        pv(fp->LengthConv[fp->LengthUnits]); pv(fp->Depth); pv(fp->extZo); pv(fp->extRo); pv(fp->extRi); pv(muo);
        printf(" %d", (int)fp->LengthUnits); pv(fp->Frequency); printf(" %d %d\n", (int)fp->bIncremental, fp->d_ShiftH ? 1 : 0);
        printf("N %d\n", (int)fp->meshnode.size());
        for (auto &n : fp->meshnode) { printf("n"); pv(n.x); pv(n.y); pv(n.A.re); pv(n.A.im); printf("\n"); }
        printf("E %d\n", (int)fp->meshelem.size());
        for (int i = 0; i < (int)fp->meshelem.size(); i++) {
            auto &e = fp->meshelem[i];
            printf("e %d %d %d %d %d", e.p[0], e.p[1], e.p[2], e.lbl, e.blk);
            pv(e.ctr.re); pv(e.ctr.im); pv(e.B1.re); pv(e.B1.im); pv(e.B2.re); pv(e.B2.im);
            // the libm part of the permanent-magnet correction, exactly the expression of BlockIntegral(2)
            CComplex Hc = fp->blockproplist[e.blk].H_c * exp(I * PI * e.magdir / 180.);
            pv(Hc.re); pv(Hc.im); pv(fp->AECF(i)); pv(e.magdir);
            printf("\n");
        }
        printf("L %d\n", (int)fp->blocklist.size());
        for (auto &l : fp->blocklist) {
            printf("l"); pv(l.x); pv(l.y); printf(" %d %d %d %d %d", l.BlockType, l.IsExternal ? 1 : 0, l.InGroup, l.InCircuit, l.Case);
            pv(l.dVolts.re); pv(l.dVolts.im); pv(l.J.re); pv(l.J.im); pv(l.FillFactor); pv(l.o.re); pv(l.o.im); printf(" %d", l.Turns); pv(l.mu.re); pv(l.mu.im); printf("\n");
        }
        printf("M %d\n", (int)fp->blockproplist.size());
        for (auto &m : fp->blockproplist) {
            printf("m"); pv(m.mu_x); pv(m.mu_y); pv(m.H_c); pv(m.J.re); pv(m.J.im); pv(m.Cduct); pv(m.Lam_d);
            printf(" %d", m.LamType); pv(m.LamFill); printf(" %d", m.BHpoints);
            pv(m.mu_fdx.re); pv(m.mu_fdx.im); pv(m.mu_fdy.re); pv(m.mu_fdy.im); pv(m.Theta_hx); pv(m.Theta_hy); pv(m.MuMax); printf("\n");
        }
        printf("C %d\n", (int)fp->circproplist.size());
        for (auto &c : fp->circproplist) { printf("c"); pv(c.Amps.re); pv(c.Amps.im); printf(" %d\n", c.CircType); }
    }
    // the classes' default smoothing state (left as it is)
    printf("S %d\n", (ep || hp) ? (pp->Smooth ? 1 : 0) : (fp->Smooth ? 1 : 0));
    {
        int nn = (ep || hp) ? (int)pp->meshnodes.size() : (int)fp->meshnode.size();
        int *NL = (ep || hp) ? pp->NumList : fp->NumList;
        int **CL = (ep || hp) ? pp->ConList : fp->ConList;
        for (int i = 0; i < nn; i++) { printf("K %d %d", i, NL[i]); for (int j = 0; j < NL[i]; j++) printf(" %d", CL[i][j]); printf("\n"); }
    }
    if (ep || hp) {
        // the nodal fields OpenDocument stored (elem->d), and isSameMaterialAs on all pairs of materials
        for (int k = 0; k < (int)pp->meshelems.size(); k++) {
            auto s = reinterpret_cast<femmsolver::CHSElement*>(pp->meshelems[k].get());
            printf("d %d", k); for (int i = 0; i < 3; i++) { pv(s->d[i].re); pv(s->d[i].im); } printf("\n");
        }
        auto &bl = pp->problem->blockproplist;
        for (int i = 0; i < (int)bl.size(); i++) { printf("I %d", i); for (int j = 0; j < (int)bl.size(); j++) printf(" %d", bl[i]->isSameMaterialAs(bl[j].get()) ? 1 : 0); printf("\n"); }
    }
    if (fp) {
        for (int k = 0; k < (int)fp->meshelem.size(); k++) {
            auto &e = fp->meshelem[k];
            printf("d %d", k); for (int i = 0; i < 3; i++) { pv(e.b1[i].re); pv(e.b1[i].im); } for (int i = 0; i < 3; i++) { pv(e.b2[i].re); pv(e.b2[i].im); } printf("\n");
        }
        printf("J %d %d\n", (int)fp->nodeproplist.size(), (int)fp->nodelist.size());
    }
    printf("D\n");
    fflush(stdout);

    std::string line;
    while (std::getline(std::cin, line)) {
        std::istringstream is(line);
        std::string cmd;
        if (!(is >> cmd)) continue;
        std::vector<std::string> a;
        std::string t;
        while (is >> t) a.push_back(t);
        auto D = [&](size_t i) { return strtod(a[i].c_str(), nullptr); };
        if (cmd == "s") {
            bool v = atoi(a[0].c_str()) != 0;
            if (ep) ep->setSmoothing(v);
            if (hp) hp->setSmoothing(v);
            if (fp) fp->Smooth = v;
            continue;
        }
        if (cmd == "q" || cmd == "Q") {
            double x = D(0), y = D(1);
            int k;
            if (cmd == "Q") k = atoi(a[2].c_str());
            else k = ep ? ep->InTriangle(x, y) : hp ? hp->InTriangle(x, y) : fp->InTriangle(x, y);
            printf("r %d", k);
            if (k >= 0) {
                if (ep) {
                    CSPointVals u;
                    ep->getPointValues(x, y, k, u);
                    pv(u.V); pv(u.D.re); pv(u.D.im); pv(u.E.re); pv(u.E.im); pv(u.e.re); pv(u.e.im); pv(u.nrg);
                } else if (hp) {
                    CHPointVals u;
                    hp->getPointValues(x, y, k, u);
                    pv(u.T); pv(u.F.re); pv(u.F.im); pv(u.G.re); pv(u.G.im); pv(u.K.re); pv(u.K.im);
                } else {
                    CMPointVals u;
                    fp->GetPointValues(x, y, k, u);
                    pv(u.A.re); pv(u.A.im); pv(u.B1.re); pv(u.B1.im); pv(u.B2.re); pv(u.B2.im);
                    pv(u.mu1.re); pv(u.mu1.im); pv(u.mu2.re); pv(u.mu2.im);
                    pv(u.H1.re); pv(u.H1.im); pv(u.H2.re); pv(u.H2.im);
                    pv(u.Je.re); pv(u.Je.im); pv(u.Js.re); pv(u.Js.im);
                    pv(u.c); pv(u.E); pv(u.Ph); pv(u.Pe); pv(u.Hc.re); pv(u.Hc.im); pv(u.ff);
                }
            }
            printf("\n");
            continue;
        }
        if (cmd == "b" && fp) {
            int k = atoi(a[0].c_str());
            CComplex b1[3], b2[3];
            fp->GetNodalB(b1, b2, fp->meshelem[k]);
            printf("b %d", k);
            for (int i = 0; i < 3; i++) { pv(b1[i].re); pv(b1[i].im); }
            for (int i = 0; i < 3; i++) { pv(b2[i].re); pv(b2[i].im); }
            printf("\n");
            continue;
        }
        if (cmd == "g" && (ep || hp)) {
            int k = atoi(a[0].c_str());
            CComplex d[3];
            pp->getNodalD(d, k);
            printf("g %d", k);
            for (int i = 0; i < 3; i++) { pv(d[i].re); pv(d[i].im); }
            printf("\n");
            continue;
        }
        if (cmd == "w" && (ep || hp)) {
            // the walk loops of PostProcessor::getNodalD, copied; only indices are produced, plus the libm value arg(x/y)
            int N = atoi(a[0].c_str());
            int *NumList = pp->NumList; int **ConList = pp->ConList;
            auto &meshnodes = pp->meshnodes;
            const auto *elem = reinterpret_cast<const femmsolver::CHSElement*>(pp->meshelems[N].get());
            for (int i = 0; i < 3; i++) {
                int j = elem->p[i], lf = -1, rt = -1, eos, k, m, n, nos, p, qn;
                std::vector<int> q, vc, vw;
                for (eos = 0; eos < NumList[j]; eos++) if (ConList[j][eos] == N) break;
                for (k = 0, m = eos, qn = 0; k < NumList[j]; k++) {
                    n = ConList[j][m];
                    const auto &conElem = pp->getMeshElement(n);
                    if (!pp->isSameMaterial(*elem, *conElem)) break;
                    for (nos = 0; nos < 3; nos++) if (conElem->p[nos] == j) break;
                    if (nos == 3) break;
                    nos--; if (nos < 0) nos = 2;
                    p = conElem->p[nos];
                    vc.push_back(n);
                    if (qn < 20) { q.push_back(p); qn++; }
                    if ((meshnodes[j]->Q != -2) && (meshnodes[p]->Q != -2)) { rt = p; break; }
                    m++; if (m == NumList[j]) m = 0;
                }
                for (k = 0, m = eos; k < NumList[j]; k++) {
                    n = ConList[j][m];
                    const auto &conElem = pp->getMeshElement(n);
                    if (!pp->isSameMaterial(*elem, *conElem)) break;
                    for (nos = 0; nos < 3; nos++) if (conElem->p[nos] == j) break;
                    if (nos == 3) break;
                    nos++; if (nos > 2) nos = 0;
                    p = conElem->p[nos];
                    vw.push_back(n);
                    if (qn < 20) { q.push_back(p); qn++; }
                    if ((meshnodes[j]->Q != -2) && (meshnodes[p]->Q != -2)) { lf = p; break; }
                    m--; if (m < 0) m = NumList[j] - 1;
                }
                double ang = 0;
                if ((lf != -1) && (rt != -1)) {
                    CComplex x, y;
                    x = meshnodes[lf]->CC() - meshnodes[j]->CC(); x /= abs(x);
                    y = meshnodes[j]->CC() - meshnodes[rt]->CC(); y /= abs(y);
                    ang = arg(x / y);
                }
                printf("w %d %d %d %d %d %d", N, i, j, eos, lf, rt); pv(ang);
                printf(" %d", (int)q.size()); for (int v : q) printf(" %d", v);
                printf(" %d", (int)vc.size()); for (int v : vc) printf(" %d", v);
                printf(" %d", (int)vw.size()); for (int v : vw) printf(" %d", v);
                printf("\n");
            }
            continue;
        }
        printf("? %s\n", cmd.c_str());
    }
    fflush(stdout);
    return 0;
}
