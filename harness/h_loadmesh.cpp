// h_loadmesh <e|h|m> <path-without-extension> <dumpfile>: run the real LoadProblemFile + LoadMesh of
// the chosen solver (mesh files are kept) and dump what the markers decoded to.
#include <cstdio>
#include <cstdlib>
#include <cstring>
#include <string>
#include <vector>
#define private public
#define protected public
#include "femmcomplex.h"
#include "spars.h"
#include "esolver.h"
#include "hsolver.h"
#include "fsolver.h"
#undef private
#undef protected

template <class S, class N> static int run(S &s, const char *path, const char *dump, N nodes_of, bool hasCond)
{
    FILE *out = fopen(dump, "w");
    s.PathName = path;
    if (!s.LoadProblemFile()) { fprintf(out, "FAIL loadproblem\n"); fclose(out); return 1; }
    int err = s.LoadMesh(false);
    if (err != 0) { fprintf(out, "FAIL loadmesh %d\n", err); fclose(out); return 2; }
    fprintf(out, "OK %d %d\n", s.NumNodes, s.NumEls);
    for (int i = 0; i < s.NumNodes; i++) {
        auto &n = nodes_of(s, i);
        fprintf(out, "NODE %d %d\n", n.BoundaryMarker, hasCond ? n.InConductor : -1);
    }
    for (int i = 0; i < s.NumEls; i++) {
        auto &e = s.meshele[i];
        fprintf(out, "ELEM %d %d %d %d %d %d %d %d\n", e.p[0], e.p[1], e.p[2], e.e[0], e.e[1], e.e[2], e.blk, e.lbl);
    }
    fclose(out);
    return 0;
}

int main(int argc, char **argv)
{
    if (argc < 4) return 9;
    if (argv[1][0] == 'e') { ESolver s; return run(s, argv[2], argv[3], [](ESolver &s, int i) -> femm::CNode & { return s.meshnode[i]; }, true); }
    if (argv[1][0] == 'h') { HSolver s; return run(s, argv[2], argv[3], [](HSolver &s, int i) -> femm::CNode & { return s.meshnode[i]; }, true); }
    FSolver s; return run(s, argv[2], argv[3], [](FSolver &s, int i) -> femm::CNode & { return s.meshnode[i]; }, false);
}
