// h_solread: what the real post-processors hold after OpenDocument, and (for the magnetics cases the
// existing h_fsolver does not cover) what the real solver holds when it writes.
//   h_solread e <file.res>   ElectrostaticsPostProcessor::OpenDocument (cfemm/epproc, FemmReader + parseSolution)
//   h_solread h <file.anh>   HPProc::OpenDocument                       (cfemm/hpproc, FemmReader + parseSolution)
//   h_solread m <file.ans>   FPProc::OpenDocument                       (cfemm/fpproc, its own legacy reader)
//   h_solread S <path-without-extension> <dumpfile>
//        FSolver pipeline of runSolver() up to (not including) the writer: LoadProblemFile, LoadMesh(false),
//        Cuthill(false) unless a previous solution is used, Static2D / StaticAxisymmetric / Harmonic2D /
//        HarmonicAxisymmetric; then every value WriteStatic2D / WriteHarmonic2D print is dumped from memory
//        (planar AND axisymmetric, air-gap elements, Aprev / Jprev of incremental problems).
// Reader modes print to stdout; every line of this harness starts with a tag and a blank, anything else
// on stdout is chatter of the library.  Numbers with %.17g.
//   O ok | U unit | F frequency incremental      (m only: Frequency, bIncremental)
//   N count / n x y pot Q            (e, h)      n x y A.re A.im Aprev            (m)
//   E count / e p0 p1 p2 lbl         (e, h)      e p0 p1 p2 lbl Jprev             (m)
//   C count / c V q                  (e, h: conductors)
//   B count / b Case dVolts.re dVolts.im J.re J.im                                 (m: block labels)
//   G count / g format innerangle outerangle ri ro arclength agc.re agc.im arcelements innershift outershift nquad
//             a <name>   q n0 w0 n1 w1 n2 w2 n3 w3                                 (m: air-gap elements)
#include <cstdio>
#include <cstdlib>
#include <cstring>
#include <string>
#include <vector>
#include <sstream>
#include <iostream>
#include <cmath>
#include <memory>
#include <map>
#include <set>
#include <list>
#include <algorithm>
#include <fstream>
#include <functional>
#include <unistd.h>
#include <fcntl.h>
#define private public
#define protected public
#include "femmcomplex.h"
#include "femmconstants.h"
#include "PostProcessor.h"
#include "epproc.h"
#include "hpproc.h"
#include "fpproc.h"
#include "spars.h"
#include "cspars.h"
#include "fsolver.h"
#undef private
#undef protected

static FILE *out;
static void pv(double x) { fprintf(out, " %.17g", x); }

template <class PP, class NodeT, class CircT> static void dump_scalar(PP &pp)
{
    auto &prob = *pp.problem;
    fprintf(out, "U %d\n", (int)prob.LengthUnits);
    fprintf(out, "N %d\n", (int)pp.meshnodes.size());
    for (auto &n : pp.meshnodes) {
        auto s = reinterpret_cast<NodeT *>(n.get());
        fprintf(out, "n"); pv(s->x); pv(s->y); pv(s->getV()); fprintf(out, " %d\n", s->Q);
    }
    fprintf(out, "E %d\n", (int)pp.meshelems.size());
    for (auto &e : pp.meshelems) fprintf(out, "e %d %d %d %d\n", e->p[0], e->p[1], e->p[2], e->lbl);
    fprintf(out, "C %d\n", (int)prob.circproplist.size());
    for (auto &c : prob.circproplist) {
        auto s = reinterpret_cast<CircT *>(c.get());
        fprintf(out, "c"); pv(s->V); pv(s->q); fprintf(out, "\n");
    }
}

struct SNode : femmsolver::CSMeshNode { double getV() const { return V; } };
struct HNode : femmsolver::CHMeshNode { double getV() const { return T; } };

static int solver_dump(const char *path, const char *dumpfile)
{
    out = fopen(dumpfile, "w");
    FSolver S;
    S.PathName = path;
    fflush(stdout);
    int save = dup(1); int nul = open("/dev/null", O_WRONLY); dup2(nul, 1);
    int save2 = dup(2); dup2(nul, 2);
    int rc = 0;
    bool ok = false;
    do {
        if (!S.LoadProblemFile()) { fprintf(out, "FAIL loadproblem\n"); rc = 1; break; }
        if (S.LoadMesh(false) != 0) { fprintf(out, "FAIL loadmesh\n"); rc = 2; break; }
        if (S.previousSolutionFile.empty()) {
            if (!S.Cuthill(false)) { fprintf(out, "FAIL cuthill\n"); rc = 3; break; }
        }
        const bool harmonic = (S.Frequency != 0);
        const bool axi = (S.ProblemType == femm::AXISYMMETRIC);
        fprintf(out, "PROB"); pv(S.Frequency);
        fprintf(out, " %d %d %d %d %d %d %d %d\n", (int)S.LengthUnits, axi ? 1 : 0, S.NumNodes, S.NumEls, S.NumBlockLabels,
                S.NumPBCs, S.NumAirGapElems, S.Aprev.empty() ? 0 : 1);
        std::vector<double> bre, bim;
        if (!harmonic) {
            if (!S.previousSolutionFile.empty() && S.PrevType != 0) { fprintf(out, "FAIL incremental-static\n"); rc = 5; break; }
            CBigLinProb L;
            L.Precision = S.Precision;
            if (!L.Create(S.NumNodes, S.BandWidth)) { fprintf(out, "FAIL create\n"); rc = 6; break; }
            ok = axi ? S.StaticAxisymmetric(L) : S.Static2D(L);
            for (int i = 0; i < S.NumNodes; i++) { bre.push_back(L.b[i]); bim.push_back(0); }
            fprintf(out, "SOLVED %d\n", ok ? 1 : 0);
            if (!ok) { rc = 4; break; }
            for (int k = 0; k < S.NumBlockLabels; k++) {
                int i = S.labellist[k].InCircuit;
                if (i < 0) fprintf(out, "WLABEL 1 0\n");
                else {
                    if (S.circproplist[i].Case == 0) { fprintf(out, "WLABEL 0"); pv(S.circproplist[i].dV.Re()); fprintf(out, "\n"); }
                    if (S.circproplist[i].Case == 1) { fprintf(out, "WLABEL 1"); pv(S.circproplist[i].J.Re()); fprintf(out, "\n"); }
                }
            }
        } else {
            if (axi && !S.previousSolutionFile.empty()) { fprintf(out, "FAIL incremental-harmonic-axisymmetric\n"); rc = 5; break; }
            CBigComplexLinProb L;
            L.Precision = S.Precision;
            if (!L.Create(S.NumNodes + S.NumCircProps, S.BandWidth, S.NumNodes)) { fprintf(out, "FAIL create\n"); rc = 6; break; }
            ok = axi ? S.HarmonicAxisymmetric(L, false) : S.Harmonic2D(L, false);
            for (int i = 0; i < S.NumNodes; i++) { bre.push_back(L.b[i].re); bim.push_back(L.b[i].im); }
            fprintf(out, "SOLVED %d\n", ok ? 1 : 0);
            if (!ok) { rc = 4; break; }
            for (int k = 0; k < S.NumBlockLabels; k++) {
                int i = S.labellist[k].InCircuit;
                if (i < 0) fprintf(out, "WLABEL 1 0 0\n");
                else {
                    if (S.circproplist[i].Case == 0) { fprintf(out, "WLABEL 0"); pv(S.circproplist[i].dV.Re()); pv(S.circproplist[i].dV.Im()); fprintf(out, "\n"); }
                    if (S.circproplist[i].Case == 1) { fprintf(out, "WLABEL 1"); pv(S.circproplist[i].J.Re()); pv(S.circproplist[i].J.Im()); fprintf(out, "\n"); }
                    if (S.circproplist[i].Case == 2) { fprintf(out, "WLABEL 0"); pv(L.b[S.NumNodes + i].Re()); pv(L.b[S.NumNodes + i].Im()); fprintf(out, "\n"); }
                }
            }
        }
        for (int i = 0; i < S.NumNodes; i++) {
            fprintf(out, "NODE"); pv(S.meshnode[i].x); pv(S.meshnode[i].y); pv(bre[i]); pv(bim[i]);
            fprintf(out, " %d", S.meshnode[i].BoundaryMarker);
            if (!S.Aprev.empty()) pv(S.Aprev[i]);
            fprintf(out, "\n");
        }
        for (int i = 0; i < S.NumEls; i++) {
            auto &e = S.meshele[i];
            fprintf(out, "ELEM %d %d %d %d %d %d %d", e.p[0], e.p[1], e.p[2], e.lbl, e.e[0], e.e[1], e.e[2]); pv(e.Jprev); fprintf(out, "\n");
        }
        for (int k = 0; k < S.NumPBCs; k++) fprintf(out, "PBC %d %d %d\n", S.pbclist[k].x, S.pbclist[k].y, S.pbclist[k].t);
        for (int i = 0; i < S.NumAirGapElems; i++) {
            auto &a = S.agelist[i];
            fprintf(out, "AGE %d", a.BdryFormat); pv(a.InnerAngle); pv(a.OuterAngle); pv(a.ri); pv(a.ro); pv(a.totalArcLength);
            pv(a.agc.re); pv(a.agc.im); fprintf(out, " %d", a.totalArcElements); pv(a.InnerShift); pv(a.OuterShift);
            fprintf(out, " %d\n", (int)a.quadNode.size());
            std::string nm = a.BdryName;
            for (auto &ch : nm) if (ch == '\n' || ch == '\r') ch = '|';
            fprintf(out, "AGENAME %s\n", nm.c_str());
            for (auto &q : a.quadNode) {
                fprintf(out, "QUAD %d", q.n0); pv(q.w0); fprintf(out, " %d", q.n1); pv(q.w1);
                fprintf(out, " %d", q.n2); pv(q.w2); fprintf(out, " %d", q.n3); pv(q.w3); fprintf(out, "\n");
            }
        }
    } while (0);
    fflush(stdout); dup2(save, 1); close(save); dup2(save2, 2); close(save2); close(nul);
    fclose(out);
    return rc;
}

int main(int argc, char **argv)
{
    if (argc < 3) { fprintf(stderr, "usage: h_solread e|h|m file | S path-noext dumpfile\n"); return 2; }
    char kind = argv[1][0];
    if (kind == 'S') {
        if (argc < 4) { fprintf(stderr, "usage: h_solread S path-noext dumpfile\n"); return 2; }
        return solver_dump(argv[2], argv[3]);
    }
    out = stdout;
    std::string file = argv[2];
    ElectrostaticsPostProcessor *ep = nullptr;
    HPProc *hp = nullptr;
    FPProc *fp = nullptr;
    bool ok = false;
    if (kind == 'e') { ep = new ElectrostaticsPostProcessor; ok = ep->OpenDocument(file); }
    else if (kind == 'h') { hp = new HPProc; ok = hp->OpenDocument(file); }
    else if (kind == 'm') { fp = new FPProc; ok = fp->OpenDocument(file); }
    printf("\nO %d\n", ok ? 1 : 0);
    if (!ok) return 3;
    if (ep) dump_scalar<ElectrostaticsPostProcessor, SNode, femm::CSCircuit>(*ep);
    if (hp) dump_scalar<HPProc, HNode, femm::CHConductor>(*hp);
    if (fp) {
        printf("U %d\n", (int)fp->LengthUnits);
        printf("F"); pv(fp->Frequency); printf(" %d\n", (int)fp->bIncremental);
        printf("N %d\n", (int)fp->meshnode.size());
        for (auto &n : fp->meshnode) { printf("n"); pv(n.x); pv(n.y); pv(n.A.re); pv(n.A.im); pv(n.Aprev); printf("\n"); }
        printf("E %d\n", (int)fp->meshelem.size());
        for (auto &e : fp->meshelem) { printf("e %d %d %d %d", e.p[0], e.p[1], e.p[2], e.lbl); pv(e.Jprev); printf("\n"); }
        printf("B %d\n", (int)fp->blocklist.size());
        for (auto &b : fp->blocklist) { printf("b %d", b.Case); pv(b.dVolts.re); pv(b.dVolts.im); pv(b.J.re); pv(b.J.im); printf("\n"); }
        printf("G %d\n", (int)fp->agelist.size());
        for (auto &a : fp->agelist) {
            printf("g %d", a.BdryFormat); pv(a.InnerAngle); pv(a.OuterAngle); pv(a.ri); pv(a.ro); pv(a.totalArcLength);
            pv(a.agc.re); pv(a.agc.im); printf(" %d", a.totalArcElements); pv(a.InnerShift); pv(a.OuterShift);
            printf(" %d\n", (int)a.quadNode.size());
            printf("a %s\n", a.BdryName.c_str());
            for (auto &q : a.quadNode) {
                printf("q %d", q.n0); pv(q.w0); printf(" %d", q.n1); pv(q.w1); printf(" %d", q.n2); pv(q.w2);
                printf(" %d", q.n3); pv(q.w3); printf("\n");
            }
        }
    }
    printf("D\n");
    fflush(stdout);
    return 0;
}
