// h_blockint: block integrals through the real post-processor classes.
//   h_blockint e <file.res>   ElectrostaticsPostProcessor::blockIntegral   (cfemm/epproc)
//   h_blockint h <file.anh>   HPProc::blockIntegral                       (cfemm/hpproc)
//   h_blockint m <file.ans>   FPProc::BlockIntegral                       (cfemm/fpproc)
// After OpenDocument everything the model needs is dumped as the post-processor holds it (every
// line of this harness starts with a tag and a blank; anything else on stdout is chatter of the
// library; numbers %.17g), then commands are read from stdin:
//   c          clear the block selection           (PostProcessor::clearSelection / FPProc loop)
//   s L        toggle label L through the real point-selection code: selectBlocklabel at the
//              centroid of the first element carrying label L (FPProc: InTriangle + ToggleSelect,
//              as femmcli's mo_selectblock does)
//   g G        toggle the labels of group G        (toggleSelectionForGroup)
//   S          -> "S f0 f1 ..."                    the IsSelected flags
//   i t        -> "i t re im"                      blockIntegral(t)
//   k n        -> "k n re im re im"                magnetics: GetFluxLinkage(n), GetVoltageDrop(n)
//   a i        -> "a i ..."                        magnetics: GetJA(i) and AxiInt / PlnInt of element i (diagnostics)
#include <cstdio>
#include <cstdlib>
#include <cstring>
#include <string>
#include <vector>
#include <sstream>
#include <iostream>
#include <cmath>
#include <memory>
#include <map>
#include <set>
#include <list>
#include <algorithm>
#include <fstream>
#include <functional>
#define private public
#define protected public
#include "femmcomplex.h"
#include "femmconstants.h"
#include "PostProcessor.h"
#include "epproc.h"
#include "hpproc.h"
#include "fpproc.h"
#undef private
#undef protected

static void pv(double x) { printf(" %.17g", x); }

int main(int argc, char **argv)
{
    if (argc < 3) { fprintf(stderr, "usage: h_blockint e|h|m file\n"); return 2; }
    char kind = argv[1][0];
    std::string file = argv[2];
    ElectrostaticsPostProcessor *ep = nullptr;
    HPProc *hp = nullptr;
    FPProc *fp = nullptr;
    bool ok = false;
    if (kind == 'e') { ep = new ElectrostaticsPostProcessor; ok = ep->OpenDocument(file); }
    else if (kind == 'h') { hp = new HPProc; ok = hp->OpenDocument(file); }
    else if (kind == 'm') { fp = new FPProc; ok = fp->OpenDocument(file); }
    printf("\nO %d\n", ok ? 1 : 0);
    if (!ok) return 3;
    femm::PostProcessor *pp = ep ? (femm::PostProcessor *)ep : (femm::PostProcessor *)hp;

    if (ep || hp) {
        auto &prob = *pp->problem;
        // axi  LengthConv  Depth(after OpenDocument)  extZo extRo extRi  eo  unit index
        printf("P %d", prob.problemType == femm::AXISYMMETRIC ? 1 : 0);
        pv(pp->LengthConv[prob.LengthUnits]); pv(prob.Depth); pv(prob.extZo); pv(prob.extRo); pv(prob.extRi); pv(eo);
        printf(" %d\n", (int)prob.LengthUnits);
        printf("N %d\n", (int)pp->meshnodes.size());
        for (auto &n : pp->meshnodes) {
            if (ep) { auto s = reinterpret_cast<femmsolver::CSMeshNode*>(n.get()); printf("n"); pv(s->x); pv(s->y); pv(s->V); printf(" %d\n", (int)s->Q); }
            else    { auto s = reinterpret_cast<femmsolver::CHMeshNode*>(n.get()); printf("n"); pv(s->x); pv(s->y); pv(s->T); printf(" %d\n", (int)s->Q); }
        }
        printf("E %d\n", (int)pp->meshelems.size());
        for (auto &e : pp->meshelems) {
            auto s = reinterpret_cast<femmsolver::CHSElement*>(e.get());
            printf("e %d %d %d %d %d", s->p[0], s->p[1], s->p[2], s->lbl, s->blk);
            pv(s->ctr.re); pv(s->ctr.im); pv(s->D.re); pv(s->D.im);
            CComplex E = ep ? ep->E(s) : hp->E(s);
            pv(E.re); pv(E.im); pv(pp->AECF(s));
            printf("\n");
        }
        printf("L %d\n", (int)prob.labellist.size());
        for (auto &l : prob.labellist) { printf("l"); pv(l->x); pv(l->y); printf(" %d %d %d\n", l->BlockType, l->IsExternal ? 1 : 0, l->InGroup); }
        printf("M %d\n", (int)prob.blockproplist.size());
        for (auto &m : prob.blockproplist) {
            if (ep) { auto s = dynamic_cast<femm::CSMaterialProp*>(m.get()); printf("m"); pv(s->ex); pv(s->ey); printf(" 0\n"); }
            else {
                auto s = dynamic_cast<femm::CHMaterialProp*>(m.get());
                printf("m"); pv(s->Kx); pv(s->Ky); printf(" %d", s->npts);
                for (int i = 0; i < s->npts; i++) { pv(s->Kn[i].re); pv(s->Kn[i].im); }
                printf("\n");
            }
        }
        printf("C %d\n", (int)prob.circproplist.size());
        for (auto &c : prob.circproplist) {
            if (ep) { auto s = dynamic_cast<femm::CSCircuit*>(c.get()); printf("c"); pv(s->V); pv(s->q); printf("\n"); }
            else    { auto s = dynamic_cast<femm::CHConductor*>(c.get()); printf("c"); pv(s->V); pv(s->q); printf("\n"); }
        }
    }
    if (fp) {
        // axi  LengthConv  Depth(after OpenDocument)  extZo extRo extRi  muo  unit index  Frequency
        printf("P %d", fp->problemType == femm::AXISYMMETRIC ? 1 : 0);
        pv(fp->LengthConv[fp->LengthUnits]); pv(fp->Depth); pv(fp->extZo); pv(fp->extRo); pv(fp->extRi); pv(muo);
        printf(" %d", (int)fp->LengthUnits); pv(fp->Frequency); printf("\n");
        printf("N %d\n", (int)fp->meshnode.size());
        for (auto &n : fp->meshnode) { printf("n"); pv(n.x); pv(n.y); pv(n.A.re); pv(n.A.im); printf("\n"); }
        printf("E %d\n", (int)fp->meshelem.size());
        for (int i = 0; i < (int)fp->meshelem.size(); i++) {
            auto &e = fp->meshelem[i];
            printf("e %d %d %d %d %d", e.p[0], e.p[1], e.p[2], e.lbl, e.blk);
            pv(e.ctr.re); pv(e.ctr.im); pv(e.B1.re); pv(e.B1.im); pv(e.B2.re); pv(e.B2.im);
            // the libm part of the permanent-magnet correction, exactly the expression of BlockIntegral(2)
            CComplex Hc = fp->blockproplist[e.blk].H_c * exp(I * PI * e.magdir / 180.);
            pv(Hc.re); pv(Hc.im); pv(fp->AECF(i));
            printf("\n");
        }
        printf("L %d\n", (int)fp->blocklist.size());
        for (auto &l : fp->blocklist) {
            printf("l"); pv(l.x); pv(l.y); printf(" %d %d %d %d %d", l.BlockType, l.IsExternal ? 1 : 0, l.InGroup, l.InCircuit, l.Case);
            pv(l.dVolts.re); pv(l.dVolts.im); pv(l.J.re); pv(l.J.im); pv(l.FillFactor); pv(l.o.re); pv(l.o.im); printf(" %d\n", l.Turns);
        }
        printf("M %d\n", (int)fp->blockproplist.size());
        for (auto &m : fp->blockproplist) {
            printf("m"); pv(m.mu_x); pv(m.mu_y); pv(m.H_c); pv(m.J.re); pv(m.J.im); pv(m.Cduct); pv(m.Lam_d);
            printf(" %d", m.LamType); pv(m.LamFill); printf(" %d\n", m.BHpoints);
        }
        printf("C %d\n", (int)fp->circproplist.size());
        for (auto &c : fp->circproplist) { printf("c"); pv(c.Amps.re); pv(c.Amps.im); printf(" %d\n", c.CircType); }
    }
    printf("D\n");
    fflush(stdout);

    std::string line;
    while (std::getline(std::cin, line)) {
        std::istringstream is(line);
        std::string cmd;
        if (!(is >> cmd)) continue;
        std::vector<std::string> a;
        std::string t;
        while (is >> t) a.push_back(t);
        if (cmd == "c") {
            if (pp) pp->clearSelection();
            if (fp) { fp->bHasMask = false; for (auto &b : fp->blocklist) b.IsSelected = false; }   // femmcli mo_clearblock
            continue;
        }
        if (cmd == "s") {
            int L = atoi(a[0].c_str());
            bool done = false;
            if (pp) {
                for (int i = 0; i < (int)pp->meshelems.size() && !done; i++)
                    if (pp->meshelems[i]->lbl == L) {
                        CComplex c = pp->meshelems[i]->ctr;
                        done = pp->selectBlocklabel(c.re, c.im);
                    }
            }
            if (fp) {
                for (int i = 0; i < (int)fp->meshelem.size() && !done; i++)
                    if (fp->meshelem[i].lbl == L) {
                        CComplex c = fp->meshelem[i].ctr;
                        int k = fp->InTriangle(c.re, c.im);                                      // femmcli mo_selectblock
                        if (k >= 0) { fp->bHasMask = false; fp->blocklist[fp->meshelem[k].lbl].ToggleSelect(); done = true; }
                    }
            }
            printf("s %d\n", done ? 1 : 0);
            continue;
        }
        if (cmd == "g") {
            int G = atoi(a[0].c_str());
            if (pp) pp->toggleSelectionForGroup(G);
            if (fp) { for (auto &b : fp->blocklist) if (G == 0 || b.InGroup == G) b.ToggleSelect(); fp->bHasMask = false; }  // femmcli mo_groupselectblock
            continue;
        }
        if (cmd == "S") {
            printf("S");
            if (pp) for (auto &l : pp->problem->labellist) printf(" %d", l->IsSelected ? 1 : 0);
            if (fp) for (auto &l : fp->blocklist) printf(" %d", l.IsSelected ? 1 : 0);
            printf("\n");
            continue;
        }
        if (cmd == "i") {
            int ty = atoi(a[0].c_str());
            CComplex z;
            if (ep) z = ep->blockIntegral(ty);
            else if (hp) z = hp->blockIntegral(ty);
            else if (fp) z = fp->BlockIntegral(ty);
            printf("i %d", ty); pv(z.re); pv(z.im); printf("\n");
            continue;
        }
        if (cmd == "a" && fp) {
            // per-element pieces: "a i" -> Javg, J[0..2], A[0..2] of GetJA(i) and AxiInt(a,U,A,r) / PlnInt(a,A,conj J)
            int i = atoi(a[0].c_str());
            CComplex J[3], A[3], U[3], V[3];
            double r[3];
            CComplex Javg = fp->GetJA(i, J, A);
            double lcv = fp->LengthConv[fp->LengthUnits]; double ar = fp->ElmArea(i) * (lcv * lcv);
            for (int k = 0; k < 3; k++) { U[k] = 1.; V[k] = J[k].Conj(); r[k] = fp->meshnode[fp->meshelem[i].p[k]].x * fp->LengthConv[fp->LengthUnits]; }
            CComplex t1 = fp->AxiInt(ar, U, A, r), t0 = fp->AxiInt(ar, A, V, r), p0 = fp->PlnInt(ar, A, V);
            printf("a %d", i); pv(Javg.re); pv(Javg.im);
            for (int k = 0; k < 3; k++) { pv(J[k].re); pv(J[k].im); }
            for (int k = 0; k < 3; k++) { pv(A[k].re); pv(A[k].im); }
            pv(t1.re); pv(t1.im); pv(t0.re); pv(t0.im); pv(p0.re); pv(p0.im); printf("\n");
            continue;
        }
        if (cmd == "k" && fp) {
            int n = atoi(a[0].c_str());
            CComplex fl = fp->GetFluxLinkage(n), vd = fp->GetVoltageDrop(n);
            printf("k %d", n); pv(fl.re); pv(fl.im); pv(vd.re); pv(vd.im); printf("\n");
            continue;
        }
        printf("? %s\n", cmd.c_str());
    }
    fflush(stdout);
    return 0;
}
