// h_cspars: drive CBigComplexLinProb (cfemm/libfemm/cspars.cpp) with op scripts from stdin.
#include <cstdio>
#include <cstdlib>
#include <cstring>
#include <string>
#include <vector>
#include <sstream>
#include <iostream>
#include <cmath>
#include <unistd.h>
#include <fcntl.h>
#include "femmcomplex.h"
#include "cspars.h"

static void pv(double x) { printf(" %.17g", x); }
static void pc(CComplex z) { pv(z.re); pv(z.im); }

int main()
{
    std::string line;
    CBigComplexLinProb *L = nullptr;
    while (std::getline(std::cin, line)) {
        std::istringstream is(line);
        std::string cmd;
        if (!(is >> cmd)) continue;
        std::vector<std::string> a;
        std::string t;
        while (is >> t) a.push_back(t);
        auto D = [&](size_t i) { return strtod(a[i].c_str(), nullptr); };
        auto Z = [&](size_t i) { return CComplex(strtod(a[i].c_str(), nullptr), strtod(a[i + 1].c_str(), nullptr)); };
        auto N = [&](size_t i) { return atoi(a[i].c_str()); };
        if (cmd == "case") { printf("case %s\n", a[0].c_str()); continue; }
        if (cmd == "create") {
            delete L;
            L = new CBigComplexLinProb;
            L->Create(N(0), N(1), N(2));
            L->Precision = D(3);
            L->Lambda = D(4);
            continue;
        }
        if (cmd == "end") { printf("end\n"); fflush(stdout); continue; }
        printf("r");
        if (cmd == "put") L->Put(Z(0), N(2), N(3));
        else if (cmd == "addto") L->AddTo(Z(0), N(2), N(3));
        else if (cmd == "get") pc(L->Get(N(0), N(1)));
        else if (cmd == "setb") L->b[N(0)] = Z(1);
        else if (cmd == "setvalue") L->SetValue(N(0), Z(1));
        else if (cmd == "periodic") L->Periodicity(N(0), N(1));
        else if (cmd == "antiperiodic") L->AntiPeriodicity(N(0), N(1));
        else if (cmd == "multa" || cmd == "multpc") {
            std::vector<CComplex> X(L->n), Y(L->n);
            for (int i = 0; i < L->n; i++) X[i] = Z(2 * i);
            if (cmd == "multa") L->MultA(X.data(), Y.data()); else L->MultPC(X.data(), Y.data());
            for (int i = 0; i < L->n; i++) pc(Y[i]);
        }
        else if (cmd == "solve") {
            fflush(stdout);
            int save = dup(1);
            int nul = open("/dev/null", O_WRONLY);
            dup2(nul, 1);
            int ok = L->PBCGSolveMod(N(0));
            fflush(stdout);
            dup2(save, 1);
            close(save); close(nul);
            pv(ok ? 1 : 0);
            for (int i = 0; i < L->n; i++) pc(L->V[i]);
        }
        else if (cmd == "dump") {
            for (int i = 0; i < L->n; i++) {
                int cnt = 0;
                for (CComplexEntry *e = L->M[i]; e != NULL; e = e->next) cnt++;
                pv(cnt);
                for (CComplexEntry *e = L->M[i]; e != NULL; e = e->next) { pv(e->c); pc(e->x); }
            }
            for (int i = 0; i < L->n; i++) pc(L->b[i]);
        }
        else printf(" ?%s", cmd.c_str());
        printf("\n");
    }
    return 0;
}
