#!/bin/sh
# MANIFEST.setup_cmd: build the framework from files on disk only (offline).
set -e
cd "$(dirname "$0")"
mkdir -p evidence/replay
cd coq
coq_makefile -f _CoqProject -o Makefile >/dev/null
timeout 3000 make -k -j16 >/dev/null 2>make.log || { tail -30 make.log; echo "coq build had failures (checks will report them)"; }
cd ..
# pre-build the snapshot of /repo's working tree (shared by all checks)
/usr/local/bin/python3-vt -c "
import sys; sys.path.insert(0,'tools')
import vlib
vlib.snapshot()
bad = vlib.coq_hygiene()
print('hygiene:', bad if bad else 'ok')
"
