"""XSMOOTH-1 replay: with field smoothing ON (femmcli's default) the heat-flow post-processor returns, in the exterior
region of an axisymmetric problem, a temperature gradient multiplied by the exterior-region factor (and a heat flux
that is not divided by it); the electrostatics post-processor on the same geometry returns the right field.
Run:  cd /verif/tools && /usr/local/bin/python3-vt ../findings/XSMOOTH-1-replay.py
Axisymmetric region 0 <= r <= 2, 0 <= z <= 1 (metres); block 1 (r < 1) ordinary, block 2 (r > 1) marked "external"
(extRo = 2, extRi = 1, extZo = 0).  The problem is meshed and solved by the real femmcli (hi_analyze / ei_analyze); the
nodal potentials of the solution file are then replaced by the affine function u = 300 + 40 r - z, the file is loaded by
the real femmcli (hi_loadsolution) and ho_getpointvalues / eo_getpointvalues are asked at mesh nodes strictly inside the
exterior block with smoothing off and on.  -grad u = (-40, 1)."""
import os, sys
sys.path.insert(0, os.path.join(os.path.dirname(os.path.abspath(__file__)), "..", "tools"))
import vlib, femgen

snap = vlib.snapshot()
work = os.path.join(vlib.SCRATCH, "xsmooth-1-replay")
os.makedirs(work, exist_ok=True)
AL, BE, GA = 300.0, 40.0, -1.0


def run(kind):
    B = femgen.Builder(kind)
    if kind == "feh":
        m = B.prop("blockprops", name="m", kx=2.0, ky=2.0, kt=0.0, qv=0.0)
        fx = B.prop("bdryprops", name="fix", type=0, Tset=300.0)
        pi, po = "hi", "ho"
    else:
        m = B.prop("blockprops", name="m", ex=2.0, ey=2.0, qv=0.0)
        fx = B.prop("bdryprops", name="fix", type=0, V=300.0)
        pi, po = "ei", "eo"
    a = B.point(0.0, 0.0); b = B.point(1.0, 0.0); c = B.point(2.0, 0.0); d = B.point(2.0, 1.0); e = B.point(1.0, 1.0); f = B.point(0.0, 1.0)
    B.seg(a, b); B.seg(b, c); B.seg(c, d, bdry=fx); B.seg(d, e); B.seg(e, f); B.seg(f, a)
    B.seg(b, e)
    B.label(0.5, 0.5, m, maxarea=femgen.mesh_diameter(0.02)); B.label(1.5, 0.5, m, maxarea=femgen.mesh_diameter(0.02))
    B.p["labels"][1]["external"] = 1
    B.p.update(units="meters", depth=1.0, problemtype="axisymmetric", minangle=30.0, extRo=2.0, extRi=1.0, extZo=0.0, dosmartmesh=0)
    fn = os.path.join(work, "x." + kind)
    femgen.write(B.p, fn)
    lua = os.path.join(work, "solve_%s.lua" % kind)
    open(lua, "w").write('open("%s")\n%s_analyze(1)\nprint("R done")\n' % (fn, pi))
    rc, out, err = vlib.sh([snap.tool("femmcli"), "--lua-script=" + lua], cwd=work); assert rc == 0, (out, err)
    sol = fn[:-4] + (".anh" if kind == "feh" else ".res")
    L = open(sol, errors="replace").read().split("\n")
    i = [k for k, l in enumerate(L) if l.strip().lower().startswith("[solution]")][0]
    n = int(L[i + 1].split()[0])
    picks = []
    for k in range(i + 2, i + 2 + n):
        t = L[k].split()
        x, y = float(t[0]), float(t[1])
        t[2] = repr(AL + BE * x + GA * y)
        L[k] = "\t".join(t)
        if 1.25 < x < 1.75 and 0.25 < y < 0.75 and len(picks) < 3:
            picks.append((x, y))
    open(sol, "w").write("\n".join(L))
    lua = os.path.join(work, "query_%s.lua" % kind)
    S = ['open("%s")' % fn, "%s_loadsolution()" % pi]
    for sm in ("off", "on"):
        S.append('%s_smooth("%s")' % (po, sm))
        for (x, y) in picks:
            S.append('a1,a2,a3,a4,a5,a6,a7 = %s_getpointvalues(%r, %r)' % (po, x, y))
            S.append('print(format("R %s %s %%.17g %%.17g %%.17g %%.17g %%.17g %%.17g %%.17g", %r, %r, a2, a3, a4, a5, a6))' % (kind, sm, x, y))
    open(lua, "w").write("\n".join(S) + "\n")
    rc, out, err = vlib.sh([snap.tool("femmcli"), "--lua-script=" + lua], cwd=work); assert rc == 0, (out, err)
    for line in out.split("\n"):
        if line.startswith("R "):
            t = line.split()
            x, y, f1, f2, g1, g2, k1 = [float(v) for v in t[3:]]
            factor = (x * x + y * y) / 2.0
            ok = abs(g1 + BE) < 1e-6 * BE and abs(g2 + GA) < 1e-6 * BE
            print("%s smoothing %-3s node (%.4f, %.4f) exterior factor %.4f : gradient field (%.6f, %.6f)  %s"
                  % ("heat flow     " if kind == "feh" else "electrostatics", t[2], x, y, factor, g1, g2,
                     "= -grad u" if ok else ("= -grad u x %.4f" % (g1 / -BE)) + ("   <-- the exterior factor" if abs(g1 / -BE - factor) < 1e-6 else "")))


run("feh")
run("fee")
