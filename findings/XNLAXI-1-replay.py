# replay of findings/XNLAXI-1.md (and of the axisymmetric twin of XNL-1):  cd /verif/tools && /usr/local/bin/python3-vt ../findings/XNLAXI-1-replay.py
# fmesher + fsolver of the tree XFEMM_REPO points at (default /repo); paired runs straight-line table / linear material
import sys, os, copy
sys.path.insert(0, "/verif/tools")
import numpy as np
import vlib
from props import xnlaxi, xaxi, c05_gen
snap = vlib.snapshot()
work = "/var/tmp/xnlaxi/replay1"; os.makedirs(work, exist_ok=True)

class Ctx:                      # the two members xnlaxi.run_pair uses
    pass
ctx = Ctx(); ctx.snap = snap; ctx.work = work

def pair(name, mu, lamtype, fill, external):
    p = xnlaxi.pair_problem(7, mu, lamtype, fill, external=external)
    lin = xnlaxi.line_tables(p, mu, vlib.Rng(11))
    a1, a2, its = xnlaxi.run_pair(ctx, name, p, lin)
    A1 = np.array([n[2] for n in a1["nodes"]]); A2 = np.array([n[2] for n in a2["nodes"]])
    ext = [l for l in p["labels"] if l.get("external")]
    print("%-34s: %d nodes, Newton passes %d, max|dflux|/max|flux| = %.3g" % (name, len(A1), its, np.abs(A1 - A2).max() / np.abs(A1).max()))

pair("exterior iron  LamType 0 mu 50", 50.0, 0, 1.0, True)
pair("exterior iron  LamType 0 mu 2", 2.0, 0, 1.0, True)
pair("interior iron  LamType 0 mu 50", 50.0, 0, 1.0, False)
pair("interior iron  LamType 0 fill .5", 50.0, 0, 0.5, False)
pair("interior iron  LamType 1 fill .5 mu 2", 2.0, 1, 0.5, False)
pair("interior iron  LamType 2 fill .5 mu 2", 2.0, 2, 0.5, False)
pair("interior iron  LamType 1 fill 1 mu 2", 2.0, 1, 1.0, False)
