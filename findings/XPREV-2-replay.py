"""XPREV-2 replay: the previous flux density of planar incremental / frozen problems depends on the declared length unit.
run:  cd /verif/tools && /usr/local/bin/python3-vt ../findings/XPREV-2-replay.py    (XFEMM_REPO=<patched copy> to see the repair)
The SAME physical problem (a 4 cm x 3 cm region: saturating iron, a source-current block) is written once in centimetres and once
in millimetres / inches (coordinates converted), solved by the real fsolver, and re-used as previous solution of a FROZEN
permeability problem with the same excitations (real FSolver::LoadProblemFile + Static2D through harness h_fsolver_prev).  Frozen
permeability with unchanged excitations must give back the previous solution (the converged secant system)."""
import sys, os, copy
sys.path.insert(0, os.path.join(os.path.dirname(os.path.abspath(__file__)), "..", "tools"))
import numpy as np
import vlib, femgen
from props import xprev, xnl, c05_gen

snap = vlib.snapshot()
res = vlib.Result("XPREV2REPLAY", "quick", 1, "proof")
ctx = vlib.Ctx("XPREV2REPLAY", snap, "quick", 1, res)
try:
    xprev.regen(ctx)
except vlib.TranslateError as e:
    print("note:", e)
rng = vlib.Rng(11)
p = xprev.gen_base(ctx, rng, 0, "rp", 22)            # k = 0: centimetres, jblock, LamType 0
assert p["units"] == "centimeters"
UM = dict(centimeters=0.01, millimeters=0.001, inches=0.0254)


def convert(p, units):
    """the same physical problem in another length unit"""
    q = copy.deepcopy(p)
    f = UM[p["units"]] / UM[units]
    q["units"] = units
    for pt in q["points"]:
        pt["x"] *= f; pt["y"] *= f
    for lb in q["labels"]:
        lb["x"] *= f; lb["y"] *= f
        if lb.get("maxarea"):
            lb["maxarea"] *= f * f
    for bp in q.get("bdryprops", []):
        # A = A0 + A1 x + A2 y in the declared unit
        for k in ("A_1", "A_2"):
            if k in bp:
                bp[k] /= f
    return q


for units in ("centimeters", "millimeters", "inches"):
    q = convert(p, units)
    ansf, ans, msg = xprev.solve_base(ctx, "rp_" + units, q)
    assert not msg, msg
    A0 = np.array([n[2] for n in ans["nodes"]])
    d, msg = xprev.run_dep(ctx, "rpd_" + units, q, ansf, 2)
    assert not msg and d.get("solved"), (msg, d.get("fail"))
    nl = [i for i, e in enumerate(d["elems"]) if d["blocks"][e[6]]["BHpoints"] > 0]
    Bp = max(np.hypot(*d["prevb"][i]) for i in nl)
    r = xprev.relnorm(np.array(d["BFINAL"]), A0)
    print("%-12s max |B_prev| in the iron %8.4f T   frozen run vs previous solution: relative difference %.3g%s"
          % (units, Bp, r, "   <-- DIFFERS" if r > 2e-5 else ""))
