"""XSMOOTH-2 replay: FPProc::GetNodalB decides "same material" from Mu_x, Mu_y, H_c (and the magnetization direction)
only; the lamination fill factor / type, which change the effective permeability, are not compared.  Two blocks that
differ ONLY in LamFill are smoothed across their interface as if it were not there.
Run:  cd /verif/tools && /usr/local/bin/python3-vt ../findings/XSMOOTH-2-replay.py
Planar 2 m x 1 m, A = 0 on x = 0, A = 0.02 Wb/m on x = 2, interface at x = 1, left block mu_r = 1000 (solid).
  variant  : right block Mu_x = Mu_y = 1000, LamType 0 (laminated in plane), LamFill 0.5  -> effective mu_r = 500.5
  control  : right block Mu_x = Mu_y = 500.5, LamFill 1                                   -> the same effective mu_r
The two problems have the same solution: A piecewise linear in x, B_y = -dA/dx tangential to the interface,
H_y continuous, so B_y jumps by the factor 1000/500.5 at x = 1:  B_y = -0.013329 T (left), -0.006671 T (right).
femmcli of the unchanged /repo, smoothing ON (default); B_y asked just left and just right of mesh nodes on the interface."""
import os, sys
sys.path.insert(0, os.path.join(os.path.dirname(os.path.abspath(__file__)), "..", "tools"))
import vlib, femgen

snap = vlib.snapshot()
work = os.path.join(vlib.SCRATCH, "xsmooth-2-replay")
os.makedirs(work, exist_ok=True)


def run(name, right):
    B = femgen.Builder("fem")
    m1 = B.prop("blockprops", name="left", mu_x=1000.0, mu_y=1000.0)
    m2 = B.prop("blockprops", name="right", **right)
    a0 = B.prop("bdryprops", name="A0", type=0, A_0=0.0)
    a1 = B.prop("bdryprops", name="A1", type=0, A_0=0.02)
    a = B.point(0.0, 0.0); b = B.point(1.0, 0.0); c = B.point(2.0, 0.0); d = B.point(2.0, 1.0); e = B.point(1.0, 1.0); f = B.point(0.0, 1.0)
    B.seg(a, b); B.seg(b, c); B.seg(c, d, bdry=a1); B.seg(d, e); B.seg(e, f); B.seg(f, a, bdry=a0)
    B.seg(b, e)
    B.label(0.5, 0.5, m1, maxarea=femgen.mesh_diameter(0.02)); B.label(1.5, 0.5, m2, maxarea=femgen.mesh_diameter(0.02))
    B.p.update(units="meters", depth=1.0, problemtype="planar", minangle=30.0, frequency=0.0, dosmartmesh=0)
    fn = os.path.join(work, name + ".fem")
    femgen.write(B.p, fn)
    lua = os.path.join(work, name + "_solve.lua")
    open(lua, "w").write('open("%s")\nmi_analyze(1)\nprint("R done")\n' % fn)
    rc, out, err = vlib.sh([snap.tool("femmcli"), "--lua-script=" + lua], cwd=work); assert rc == 0, (out, err)
    L = open(fn[:-4] + ".ans", errors="replace").read().split("\n")
    i = [k for k, l in enumerate(L) if l.strip().lower().startswith("[solution]")][0]
    n = int(L[i + 1].split()[0])
    ys = sorted(float(L[k].split()[1]) for k in range(i + 2, i + 2 + n) if abs(float(L[k].split()[0]) - 1.0) < 1e-12)
    ys = [y for y in ys if 0.2 < y < 0.8][:3]
    S = ['open("%s")' % fn, "mi_loadsolution()"]
    for sm in ("off", "on"):
        S.append('mo_smooth("%s")' % sm)
        for y in ys:
            for x in (1.0 - 1e-7, 1.0 + 1e-7):
                S.append('A, B1, B2 = mo_getpointvalues(%r, %r)' % (x, y))
                S.append('print(format("R %s %s %%.17g %%.17g %%.9f", %r, %r, B2))' % (name, sm, x, y))
    lua = os.path.join(work, name + "_query.lua")
    open(lua, "w").write("\n".join(S) + "\n")
    rc, out, err = vlib.sh([snap.tool("femmcli"), "--lua-script=" + lua], cwd=work); assert rc == 0, (out, err)
    rows = [l.split() for l in out.split("\n") if l.startswith("R ")]
    for k in range(0, len(rows), 2):
        l, r = rows[k], rows[k + 1]
        print("%-8s smoothing %-3s interface node y = %.4f :  B_y just left %s   just right %s   ratio %.4f (exact 1.9980)"
              % (name, l[2], float(l[4]), l[5], r[5], float(l[5]) / float(r[5])))


run("variant", dict(mu_x=1000.0, mu_y=1000.0, lamtype=0, lamfill=0.5))
run("control", dict(mu_x=500.5, mu_y=500.5, lamtype=0, lamfill=1.0))
