function build(fname, nonlinear, mu, J)
  newdocument(0)
  mi_probdef(0, "centimeters", "planar", 1e-8, 1, 30)
  -- outer box
  mi_addnode(-6,-6) mi_addnode(6,-6) mi_addnode(6,6) mi_addnode(-6,6)
  mi_addsegment(-6,-6,6,-6) mi_addsegment(6,-6,6,6) mi_addsegment(6,6,-6,6) mi_addsegment(-6,6,-6,-6)
  -- iron core
  mi_addnode(-2,-3) mi_addnode(1,-3) mi_addnode(1,3) mi_addnode(-2,3)
  mi_addsegment(-2,-3,1,-3) mi_addsegment(1,-3,1,3) mi_addsegment(1,3,-2,3) mi_addsegment(-2,3,-2,-3)
  -- coil
  mi_addnode(2,-2) mi_addnode(4,-2) mi_addnode(4,2) mi_addnode(2,2)
  mi_addsegment(2,-2,4,-2) mi_addsegment(4,-2,4,2) mi_addsegment(4,2,2,2) mi_addsegment(2,2,2,-2)
  mi_addboundprop("zero", 0, 0, 0, 0, 0, 0, 0, 0, 0)
  mi_selectsegment(0,-6) mi_selectsegment(6,0) mi_selectsegment(0,6) mi_selectsegment(-6,0)
  mi_setsegmentprop("zero", 0, 1, 0, 0)
  mi_clearselected()
  mi_addmaterial("air", 1, 1, 0, 0, 0, 0, 0, 1, 0, 0, 0)
  mi_addmaterial("coil", 1, 1, 0, J, 0, 0, 0, 1, 0, 0, 0)
  mi_addmaterial("iron", mu, mu, 0, 0, 0, 0, 0, 1, 0, 0, 0)
  if nonlinear == 1 then
    local muo = 1.2566370614359173e-6
    local bs = {0, 0.3, 0.5, 1.1, 1.2, 2.0, 2.5, 4.0}
    for i=1,8 do mi_addbhpoint("iron", bs[i], bs[i]/(mu*muo)) end
  end
  mi_addblocklabel(0,5) mi_selectlabel(0,5) mi_setblockprop("air", 1, 0, "<None>", 0, 0, 0) mi_clearselected()
  mi_addblocklabel(3,0) mi_selectlabel(3,0) mi_setblockprop("coil", 1, 0, "<None>", 0, 0, 0) mi_clearselected()
  mi_addblocklabel(0,0) mi_selectlabel(0,0) mi_setblockprop("iron", 1, 0, "<None>", 0, 0, 0) mi_clearselected()
  mi_saveas(fname)
  mi_analyze()
  mi_loadsolution()
  local pts={{0,0},{-1,2},{0.5,-2.5},{3,0},{5,5},{1.5,0},{-1.9,2.9}}
  for i=1,7 do
    local p=pts[i]
    A,B1,B2,Sig,E,H1,H2 = mo_getpointvalues(p[1],p[2])
    print(format("PT %.17g %.17g %.17g %.17g %.17g %.17g %.17g", p[1],p[2],A,B1,B2,E,H1))
  end
  mo_selectblock(0,0)
  print(format("INT iron_energy %.17g", mo_blockintegral(2)))
  print(format("INT iron_coenergy %.17g", mo_blockintegral(17)))
  mo_clearblock()
  mo_selectblock(0,0) mo_selectblock(3,0) mo_selectblock(0,5)
  print(format("INT total_energy %.17g", mo_blockintegral(2)))
  print(format("INT total_AJ %.17g", mo_blockintegral(0)))
  mo_close()
  mi_close()
end
print("RUN linear")
build("lin.fem", 0, 1000, 2)
print("RUN table")
build("tab.fem", 1, 1000, 2)
