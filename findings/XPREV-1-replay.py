"""XPREV-1 replay: a magnetics problem that names a previous solution and has a B-H material.
run:  cd /verif/tools && /usr/local/bin/python3-vt ../findings/XPREV-1-replay.py     (XFEMM_REPO=<patched copy> to see the repair)
The static problem (one nonlinear iron region, one source-current block, centimetres) is meshed and solved; the dependent
problems name its .ans as [PrevSoln].  Expected on a sound solver: exit status 0 for the time-harmonic incremental / frozen
runs and for both mesh-reuse (PrevType 0) runs."""
import sys, os, copy, shutil
sys.path.insert(0, os.path.join(os.path.dirname(os.path.abspath(__file__)), "..", "tools"))
import vlib
from props import xnl, c05_gen, xsol

snap = vlib.snapshot()
p = xnl.gen_nl_problem(vlib.Rng(5), 0, size_nodes=20,
                       force=dict(kinds=["knee"], all_nl=True, lamtype=0, lamfill=1.0, c05=dict(boxes=["jblock"], units="centimeters")))
w = "/var/tmp/xprev/replay1"
shutil.rmtree(w, ignore_errors=True); os.makedirs(w)
f = w + "/base.fem"
c05_gen.write(p, f)
assert vlib.sh([snap.tool("fmesher"), f])[0] == 0
rc, out, err = vlib.sh([snap.tool("fsolver"), f[:-4]])
print("static nonlinear problem: fsolver exit status", rc)
for pt, fr in ((1, 60.0), (2, 60.0), (0, 60.0), (0, 0.0)):
    q = copy.deepcopy(p); q.update(prevsoln=w + "/base.ans", prevtype=pt, frequency=fr)
    g = w + "/dep%d_%d.fem" % (pt, int(fr))
    xsol.write_fem(q, g)
    rc, out, err = vlib.sh([snap.tool("fsolver"), g[:-4]])
    print("PrevType %d, %g Hz: fsolver exit status %d%s" % (pt, fr, rc, "   <-- SIGSEGV" if rc == -11 else ""))
