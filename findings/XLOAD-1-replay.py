"""XLOAD-1 replay: a heat-flux boundary property (BdryFormat 1) on an INTERIOR line of a heat-flow problem is applied twice.
Run:  cd /verif/tools && /usr/local/bin/python3-vt ../findings/XLOAD-1-replay.py
Slab 2 m x 1 m (depth 1 m, k = 1 W/m/K), T = 300 K on the left side x = 0, all other outer sides insulated, an interior
vertical line at x = 1 that carries the boundary property.  One-dimensional closed forms for the temperature on x >= 1:
  heat flux qs on the line        : T = 300 - qs * 1 m / k          (qs > 0 removes heat in FEMM's sign convention)
  convection h, Tinf on the line  : h (Tinf - T) = k (T - 300) / 1 m
fmesher + hsolver of the unchanged /repo (snapshot build)."""
import os, sys
sys.path.insert(0, os.path.join(os.path.dirname(os.path.abspath(__file__)), "..", "tools"))
import vlib, femgen

snap = vlib.snapshot()
work = os.path.join(vlib.SCRATCH, "xload-1-replay")
os.makedirs(work, exist_ok=True)


def run(name, **bp):
    B = femgen.Builder("feh")
    m = B.prop("blockprops", name="m", kx=1.0, ky=1.0, kt=0.0, qv=0.0)
    t0 = B.prop("bdryprops", name="T0", type=0, Tset=300.0)
    fl = B.prop("bdryprops", name="line", **bp)
    a = B.point(0.0, 0.0); b = B.point(1.0, 0.0); c = B.point(2.0, 0.0); d = B.point(2.0, 1.0); e = B.point(1.0, 1.0); f = B.point(0.0, 1.0)
    B.seg(a, b); B.seg(b, c); B.seg(c, d); B.seg(d, e); B.seg(e, f); B.seg(f, a, bdry=t0)
    B.seg(b, e, bdry=fl)
    B.label(0.5, 0.5, m, maxarea=femgen.mesh_diameter(0.01)); B.label(1.5, 0.5, m, maxarea=femgen.mesh_diameter(0.01))
    B.p.update(units="meters", depth=1.0, problemtype="planar", minangle=30.0)
    fn = os.path.join(work, name + ".feh")
    femgen.write(B.p, fn)
    rc, out, err = vlib.sh([snap.tool("fmesher"), fn]); assert rc == 0, (out, err)
    rc, out, err = vlib.sh([snap.tool("hsolver"), fn[:-4]]); assert rc == 0, (out, err)
    L = open(fn[:-4] + ".anh").read().split("\n")
    i = [k for k, l in enumerate(L) if l.strip().lower().startswith("[solution]")][0]
    n = int(L[i + 1].split()[0])
    T = [tuple(float(x) for x in l.split()[:3]) for l in L[i + 2:i + 2 + n]]
    right = [t for (x, y, t) in T if x >= 1.0 - 1e-9]
    return min(right), max(right)


for name, bp, want in (("flux+10", dict(type=1, qs=10.0), 290.0), ("flux-10", dict(type=1, qs=-10.0), 310.0),
                       ("convection", dict(type=2, h=2.0, Tinf=400.0), 1100.0 / 3.0)):
    lo, hi = run(name, **bp)
    print("%-11s T(x>=1) in [%.6f, %.6f]   closed form %.6f   %s" % (name, lo, hi, want, "ok" if abs(lo - want) < 1e-3 and abs(hi - want) < 1e-3 else "<-- DIFFERS"))
