function out(tag, ...)
  local s = "R " .. tag
  for i = 1, arg.n do
    if arg[i] == nil then s = s .. " nil"
    elseif type(arg[i]) == "number" then s = s .. " " .. format("%.17g", arg[i])
    else s = s .. " " .. tostring(arg[i]) end
  end
  print(s)
end
open("XLINE-1-replay.fem")
mi_analyze(1)
mi_loadsolution()
mo_clearcontour()
mo_addcontour(0.80000000000000004, -0.47999999999999998)
mo_addcontour(7.2000000000000002, 2.0800000000000001)
out("q0", mo_lineintegral(5))
mo_clearcontour()
print("R done")
