# replay of findings/XNLAXI-2.md:  cd /verif/tools && /usr/local/bin/python3-vt ../findings/XNLAXI-2-replay.py [seconds]
# meshes findings/XNLAXI-2-replay.fem with the real fmesher and runs the real fsolver of the tree XFEMM_REPO points at
# (default /repo) for the given number of seconds (default 20)
import sys, os, shutil, subprocess, time
sys.path.insert(0, "/verif/tools")
import vlib
snap = vlib.snapshot()
secs = float(sys.argv[1]) if len(sys.argv) > 1 else 20.0
work = "/var/tmp/xnlaxi/replay2"; os.makedirs(work, exist_ok=True)
f = os.path.join(work, "hang.fem")
shutil.copy("/verif/findings/XNLAXI-2-replay.fem", f)
rc, out, err = vlib.sh([snap.tool("fmesher"), f], timeout=60); assert rc == 0
log = open(os.path.join(work, "out.txt"), "w")
t0 = time.time()
pr = subprocess.Popen([snap.tool("fsolver"), f[:-4]], stdout=log, stderr=subprocess.STDOUT)
try:
    rc = pr.wait(timeout=secs)
    state = "exited with status %d" % rc
except subprocess.TimeoutExpired:
    pr.kill(); pr.wait()
    state = "STILL RUNNING after %g s (killed)" % secs
log.close()
txt = open(os.path.join(work, "out.txt"), errors="replace").read()
its = [l for l in txt.split("\n") if l.startswith("Newton Iteration")]
print("fsolver %s; Newton passes printed: %d; last: %s; .ans written: %s" % (state, len(its), its[-3:], os.path.exists(f[:-4] + ".ans")))
