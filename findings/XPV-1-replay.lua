-- XPV-1 replay: FPProc::GetPointValues (Frequency == 0) adds the local stored energy of a wire region with the
-- conductivity record of the block label of mesh element 3 instead of the point's own element:
--     u.E+=Re(J*J)*Im(blocklist[meshelem[i].lbl].o)/2.;        (fpproc.cpp, i == 3 after the loops; should be k)
-- Run:  femmcli --lua-script=XPV-1-replay.lua     (writes xpv1.fem / xpv1.ans into the current directory)
-- A foil-wound coil (LamType 6, 50 turns, 1 A) in an air box.  Im(o) of the coil label is (dd-d)*dd*muo/6 > 0, of the air
-- label 0.  Expected at a point of the coil: E = B.H/2 + (J*1e6)^2 * Im(o_coil)/2.  Observed (element 3 lies in the air
-- block): E == B.H/2 exactly, the wire term is lost; BlockIntegral(2) over the coil, which uses meshelem[i].lbl of the
-- element it integrates, includes it.
newdocument(0)
mi_probdef(0, "centimeters", "planar", 1e-8, 1, 30)
mi_addnode(-6,-6) mi_addnode(6,-6) mi_addnode(6,6) mi_addnode(-6,6)
mi_addsegment(-6,-6,6,-6) mi_addsegment(6,-6,6,6) mi_addsegment(6,6,-6,6) mi_addsegment(-6,6,-6,-6)
mi_addnode(2,-2) mi_addnode(4,-2) mi_addnode(4,2) mi_addnode(2,2)
mi_addsegment(2,-2,4,-2) mi_addsegment(4,-2,4,2) mi_addsegment(4,2,2,2) mi_addsegment(2,2,2,-2)
mi_addboundprop("zero", 0, 0, 0, 0, 0, 0, 0, 0, 0)
mi_selectsegment(0,-6) mi_selectsegment(6,0) mi_selectsegment(0,6) mi_selectsegment(-6,0)
mi_setsegmentprop("zero", 0, 1, 0, 0)
mi_clearselected()
mi_addmaterial("air", 1, 1, 0, 0, 0, 0, 0, 1, 0, 0, 0)
-- name mu_x mu_y H_c J Cduct Lam_d Phi_hmax lam_fill LamType Phi_hx Phi_hy NStrands WireD
mi_addmaterial("foil", 1, 1, 0, 0, 58, 0, 0, 1, 6, 0, 0, 1, 1)
mi_addcircprop("c", 1, 1)
mi_addblocklabel(0,5) mi_selectlabel(0,5) mi_setblockprop("air", 0, 1.5, "<None>", 0, 0, 0) mi_clearselected()
mi_addblocklabel(3,0) mi_selectlabel(3,0) mi_setblockprop("foil", 0, 0.7, "c", 0, 0, 50) mi_clearselected()
mi_saveas("xpv1.fem")
mi_analyze(1)
mi_loadsolution()
A, B1, B2, Sig, E, H1, H2, Je, Js, Mu1, Mu2, Pe, Ph, ff = mo_getpointvalues(3.1, 0.2)
print(format("R point (3.1,0.2): E = %.17g   B.H/2 = %.17g   Js = %.17g MA/m^2   fill = %.17g", E, (B1*H1+B2*H2)/2, Js, ff))
print(format("R E - B.H/2 = %.17g  (the wire term Re(J^2) Im(o)/2 that is missing when element 3 is not in the coil)", E - (B1*H1+B2*H2)/2))
mo_selectblock(3,0)
W = mo_blockintegral(2)
V = mo_blockintegral(10)
mo_clearblock()
print(format("R coil: stored energy (block integral 2) = %.17g J, volume = %.17g m^3, mean density = %.17g J/m^3", W, V, W/V))
