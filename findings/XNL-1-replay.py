import sys, os, json, copy
sys.path.insert(0, "/verif/tools")
import numpy as np
import vlib
from props import xnl, c05, c05_gen, c19
snap = vlib.snapshot()
work = "/var/tmp/xnl/replay1"; os.makedirs(work, exist_ok=True)
MU0 = c19.MUO
def problem(lamtype, fill, mu, table):
    rng = vlib.Rng(7)
    p = c05_gen.gen_problem(rng, harmonic=False, size_nodes=40, force=dict(main_iron=True, pbc=False, dosmartmesh=0, boxes=["jblock"], units="centimeters",
                            iron=dict(mu_x=mu, mu_y=mu, lamtype=lamtype, lamfill=fill)))
    for b in p["blockprops"]:
        if b["name"].startswith("iron"):
            b.update(mu_x=mu, mu_y=mu, lamtype=lamtype, lamfill=fill)
            if table:
                k = 1.0 / (mu * MU0)
                b["bh"] = [(x, k * x) for x in (0.0, 0.5, 1.0, 2.0)]
    return p
def solve(p, name):
    f = os.path.join(work, name + ".fem")
    c05_gen.write(p, f)
    rc, out, err = vlib.sh([snap.tool("fmesher"), f], timeout=120); assert rc == 0
    rc, out, err = vlib.sh([snap.tool("fsolver"), f[:-4]], timeout=300); assert rc == 0, out + err
    a = c05.parse_ans(f[:-4] + ".ans", False)
    return np.array([n[2] for n in a["nodes"]]), out.count("Newton Iteration")
for lamtype, fill, mu in [(1, 0.5, 2.0), (2, 0.5, 2.0), (1, 0.9, 50.0), (0, 0.5, 2.0), (1, 1.0, 2.0)]:
    A1, _ = solve(problem(lamtype, fill, mu, False), "lin")
    A2, its = solve(problem(lamtype, fill, mu, True), "tab")
    print("LamType %d fill %g mu %g: Newton passes %d, max|dA|/max|A| = %.3g" % (lamtype, fill, mu, its, np.abs(A1 - A2).max() / np.abs(A1).max()))
json.dump(problem(1, 0.5, 2.0, True), open(os.path.join(work, "xnl1_table.json"), "w"))
