# replay of findings/XNLAXI-3.md:  cd /verif/tools && /usr/local/bin/python3-vt ../findings/XNLAXI-3-replay.py
# the last column of the element lines of the .ans (Jprev, the source current density a later incremental-permeability run reuses)
# for an axisymmetric and a planar problem with a source block J = 0.3 MA/m^2: linear iron vs the same iron as a straight-line table
import sys, os, copy
sys.path.insert(0, "/verif/tools")
import vlib
from props import xnlaxi, xnl, c05_gen, c19
snap = vlib.snapshot()
work = "/var/tmp/xnlaxi/replay3"; os.makedirs(work, exist_ok=True)

def jprev(p, name):
    f = os.path.join(work, name + ".fem")
    c05_gen.write(p, f)
    rc, out, err = vlib.sh([snap.tool("fmesher"), f], timeout=120); assert rc == 0
    rc, out, err = vlib.sh([snap.tool("fsolver"), f[:-4]], timeout=300); assert rc == 0
    L = open(f[:-4] + ".ans").read().split("\n")
    i = next(k for k, l in enumerate(L) if l.strip() == "[Solution]") + 1
    nn = int(L[i]); i += 1 + nn
    ne = int(L[i]); i += 1
    return sorted(set(float(L[i + k].split()[-1]) for k in range(ne))), max(1, out.count("Newton Iteration"))

p = xnlaxi.pair_problem(7, 2.0, 1, 0.5)                 # LamType 1, fill 0.5: three Newton passes (XNL-1)
lin = xnlaxi.line_tables(p, 2.0, vlib.Rng(11))
print("axisymmetric, J block %s MA/m^2" % [b["J_re"] for b in p["blockprops"] if b.get("J_re")])
for nm, q in (("linear material", lin), ("straight-line table", p)):
    v, its = jprev(q, "axi" + nm[:3])
    print("   %-20s passes %d   distinct Jprev values in the .ans: %s" % (nm, its, v))
rng = vlib.Rng(7)
q = c05_gen.gen_problem(rng, harmonic=False, size_nodes=40, force=dict(main_iron=True, pbc=False, dosmartmesh=0, boxes=["jblock"], units="centimeters",
                        iron=dict(mu_x=2.0, mu_y=2.0, lamtype=1, lamfill=0.5)))
ql = copy.deepcopy(q)
for b in q["blockprops"]:
    if b["name"].startswith("iron"):
        k = 1.0 / (2.0 * c19.MUO)
        b["bh"] = [(x, k * x) for x in (0.0, 0.5, 1.0, 2.0)]
print("planar, J block %s MA/m^2" % [b["J_re"] for b in q["blockprops"] if b.get("J_re")])
for nm, qq in (("linear material", ql), ("straight-line table", q)):
    v, its = jprev(qq, "pl" + nm[:3])
    print("   %-20s passes %d   distinct Jprev values in the .ans: %s" % (nm, its, v))
