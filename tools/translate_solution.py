"""translate_solution.py — extract, from the C++ text of the solvers' result writers and of the
post-processors' result readers, the layout of the [Solution] part of .res / .anh / .ans files and
emit it as Coq data (coq/theories/gen/SolSchemas.v) for SolFile.v.

Walked functions (anchors are function names; a missing anchor raises vlib.TranslateError):
  writers  ESolver::WriteResults (esolver/esolver.cpp)            -> .res
           HSolver::WriteResults (hsolver/hsolver.cpp)            -> .anh
           FSolver::WriteStatic2D (fsolver/static2d.cpp)          -> .ans, Frequency == 0
           FSolver::WriteHarmonic2D (fsolver/harmonic2d.cpp)      -> .ans, Frequency != 0
           (this version of xfemm has NO WriteStaticAxisymmetric / WriteHarmonicAxisymmetric:
            FSolver::runSolver sends planar and axisymmetric problems to the same two writers;
            the translator checks exactly that — see writer_dispatch)
  readers  FPProc::OpenDocument (fpproc/fpproc.cpp, the part after the "[solution]" tag), evaluated
           for the four modes (Frequency == 0 / != 0) x (bIncremental false / true)
           ElectrostaticsPostProcessor::parseSolution (epproc/epproc.cpp) with
           CSMeshNode::fromStream and CHSElement::fromStream (libfemm)
           HPProc::parseSolution (hpproc/hpproc.cpp) with CHMeshNode::fromStream, CHSElement::fromStream
  scaling  the statements `node.x *= ...` of ESolver/HSolver/FSolver::LoadMesh and the unit tables
           they and the writers name (cf = units[LengthUnits], unitconv[], c[], LengthConvMeters[],
           LengthConv[] of the post-processors)

What is produced per writer / reader: the ordered list of SECTIONS (count line + one line per record);
per section the ordered list of FIELDS: canonical name (the meaning; table CANON below — an expression
that is not in the table is a TranslateError), type (int / double; a complex number is two doubles),
the printf format or scanf conversion, the scaling (division / multiplication by a unit table), the
C++ expression printed or the lvalue assigned; whether a conversion follows the previous one without
white space ("glued"); for readers how the section is consumed (line by line: sscanf on a fgets'ed line
or >> on a getline'd line; or token by token from the file stream) and whether the number of converted
items is checked.  Record variants (the per-label circuit lines of the magnetics writers: label without
circuit / Case 0 / 1 / 2) must all have the same shape; the (tag, source) table is emitted and checked
against the reader's (tag -> destination) table in Coq.

Any statement of a walked function that touches the output file / the input stream / the line buffer and
matches none of the known shapes raises vlib.TranslateError."""
import os, re, sys
from fractions import Fraction

try:
    import vlib
    TranslateError = vlib.TranslateError
except Exception:                                    # stand-alone use
    class TranslateError(Exception):
        pass

from translate_schema import strip_comments, function_body, parse_stmts, split_top, cstr, match_close


def read(path):
    with open(path, errors="replace") as f:
        return strip_comments(f.read().replace("\r\n", "\n"))


# ------------------------------------------------------------------------------ meanings ----
# canonical name of every printed expression / assigned lvalue.  Loop indices are normalised to #.
CANON = [
    # nodes
    (r"meshnode\[#\]\.x", "x"), (r"meshnode\[#\]\.y", "y"),
    (r"(mnode|n|node)\.x", "x"), (r"(mnode|n|node)\.y", "y"),
    (r"L\.V\[#\]", "pot"), (r"n\.V", "pot"), (r"n\.T", "pot"),
    (r"L\.Q\[#\]", "Q"), (r"n\.Q", "Q"),
    (r"L\.b\[#\]", "A.re"), (r"L\.b\[#\]\.re", "A.re"), (r"L\.b\[#\]\.im", "A.im"),
    (r"mnode\.A\.re", "A.re"), (r"mnode\.A\.im", "A.im"), (r"n\.A\.re", "A.re"), (r"n\.A\.im", "A.im"),
    (r"meshnode\[#\]\.BoundaryMarker", "bmarker"), (r"bc", "bmarker"), (r"node\.BoundaryMarker", "bmarker"),
    (r"Aprev\[#\]", "Aprev"), (r"mnode\.Aprev", "Aprev"),
    # solvers reading a previous solution: the potential of that solution becomes Aprev / Tprev of this one
    (r"tmpAprev", "A.re"), (r"Tprev\[#\]", "pot"), (r"x", "x"), (r"y", "y"),
    # elements
    (r"meshele\[#\]\.p\[(\d)\]", r"p\1"), (r"(elm|e)\.p\[(\d)\]", r"p\2"),
    (r"meshele\[#\]\.lbl", "lbl"), (r"(elm|e)\.lbl", "lbl"),
    (r"meshele\[#\]\.e\[(\d)\]", r"e\1"), (r"elm\.e\[(\d)\]", r"e\1"), (r"edgeMarker\[(\d)\]", r"e\1"),
    (r"meshele\[#\]\.Jprev", "Jprev"), (r"elm\.Jprev", "Jprev"),
    # conductors (electrostatics / heat flow)
    (r"L\.V\[NumNodes\+#\]", "cond.V"), (r"circuit->V", "cond.V"),
    (r"circproplist\[#\]\.q", "cond.q"), (r"circuit->q", "cond.q"),
    # per-label circuit lines (magnetics): tag, value
    (r"j", "circ.case"), (r"zr", "circ.val.re"), (r"zi", "circ.val.im"),
    # periodic boundary conditions
    (r"pbclist\[#\]\.x", "pbc.x"), (r"pbclist\[#\]\.y", "pbc.y"), (r"pbclist\[#\]\.t", "pbc.t"),
    (r"pbc\.x", "pbc.x"), (r"pbc\.y", "pbc.y"), (r"pbc\.t", "pbc.t"),
    # air gap elements
    (r"(agelist\[#\]|age)\.BdryFormat", "age.format"), (r"(agelist\[#\]|age)\.InnerAngle", "age.innerangle"),
    (r"(agelist\[#\]|age)\.OuterAngle", "age.outerangle"), (r"(agelist\[#\]|age)\.ri", "age.ri"),
    (r"(agelist\[#\]|age)\.ro", "age.ro"), (r"(agelist\[#\]|age)\.totalArcLength", "age.arclength"),
    (r"(agelist\[#\]|age)\.agc\.re", "age.agc.re"), (r"(agelist\[#\]|age)\.agc\.im", "age.agc.im"),
    (r"(agelist\[#\]|age)\.totalArcElements", "age.arcelements"),
    (r"(agelist\[#\]|age)\.InnerShift", "age.innershift"), (r"(agelist\[#\]|age)\.OuterShift", "age.outershift"),
    (r"(agelist\[#\]\.quadNode\[#\]|q|qp)\.n(\d)", r"quad.n\2"), (r"(agelist\[#\]\.quadNode\[#\]|q|qp)\.w(\d)", r"quad.w\2"),
]
# what the (tag, value) of a per-label circuit line stands for
VARIANT_MEANING = [
    (r"circproplist\[#\]\.dV(\.Re\(\)|\.Im\(\))?", "dV"), (r"circproplist\[#\]\.J(\.Re\(\)|\.Im\(\))?", "J"),
    (r"L\.b\[NumNodes\+#\](\.Re\(\)|\.Im\(\))?", "dV"),          # Case 2: the solved-for voltage gradient
    (r"blocklist\[#\]\.dVolts", "dV"), (r"blocklist\[#\]\.J", "J"), (r"0", "J"),   # "1 0": no added current density
]
SECTION_OF_COUNT = {"NumNodes": "nodes", "NumEls": "elements", "NumCircProps": "conductors", "NumBlockLabels": "circuits",
                    "NumPBCs": "pbcs", "NumAirGapElems": "ages"}


def norm_index(e):
    e = re.sub(r"\s+", "", e)
    return re.sub(r"\[(i|k|j)\]", "[#]", re.sub(r"\[NumNodes\+(i|k)\]", "[NumNodes+#]", e))


def canon(expr, what):
    e = norm_index(expr)
    for pat, name in CANON:
        m = re.fullmatch(pat, e)
        if m:
            return m.expand(name)
    raise TranslateError("%s: expression %r has no registered meaning (CANON table of translate_solution.py)" % (what, expr))


def variant_meaning(expr, what):
    e = norm_index(expr)
    for pat, name in VARIANT_MEANING:
        if re.fullmatch(pat, e):
            return name
    raise TranslateError("%s: circuit-line value %r has no registered meaning" % (what, expr))


# -------------------------------------------------------------------------- unit tables ----
def num_q(tok):
    tok = tok.strip().rstrip("fFlL")
    m = re.fullmatch(r"([-+]?)(\d*)\.?(\d*)(?:[eE]([-+]?\d+))?", tok)
    if not m or not (m.group(2) or m.group(3)):
        raise TranslateError("not a decimal literal in a unit table: %r" % tok)
    sign, ip, fp, ex = m.groups()
    q = Fraction(int((ip or "0") + (fp or "")), 10 ** len(fp or ""))
    q *= Fraction(10) ** int(ex or 0)
    return -q if sign == "-" else q


def find_table(text, name, what):
    """`double name[] = {...}` / `constexpr double name[6] = {...}` -> list of Fractions"""
    m = re.search(r"\bdouble\s+%s\s*\[\s*\d*\s*\]\s*=\s*\{([^}]*)\}" % re.escape(name), text)
    if not m:
        return None
    return [num_q(t) for t in m.group(1).split(",") if t.strip()]


def pproc_lengthconv(text, what):
    """LengthConv[k] = value; statements of a post-processor constructor"""
    vals = {}
    for m in re.finditer(r"\bLengthConv\[(\d)\]\s*=\s*([-+0-9.eE]+)\s*;", text):
        vals[int(m.group(1))] = num_q(m.group(2))
    if sorted(vals) != list(range(6)):
        raise TranslateError("%s: LengthConv[0..5] assignments not found" % what)
    return [vals[k] for k in range(6)]


# ------------------------------------------------------------------------- printf / scanf ----
CONV = re.compile(r"%(?:\.(\d+))?(l?[a-zA-Z])")


def split_format(fmt, what):
    """-> list of ('lit', text) / ('conv', spec, type) pieces"""
    out, pos = [], 0
    for m in CONV.finditer(fmt):
        if m.start() > pos:
            out.append(("lit", fmt[pos:m.start()]))
        spec = m.group(0)
        ty = {"i": "int", "d": "int", "g": "dbl", "lf": "dbl", "s": "str"}.get(m.group(2))
        if ty is None:
            raise TranslateError("%s: unknown conversion %r in %r" % (what, spec, fmt))
        out.append(("conv", spec, ty))
        pos = m.end()
    if pos < len(fmt):
        out.append(("lit", fmt[pos:]))
    if "%" in "".join(p[1] for p in out if p[0] == "lit"):
        raise TranslateError("%s: stray %% in format %r" % (what, fmt))
    return out


def call_args(stmt, fn, what):
    m = re.search(r"\b%s\s*\(" % fn, stmt)
    if not m:
        return None
    j = match_close(stmt, m.end() - 1, "(", ")")
    return split_top(stmt[m.end():j], ",")


# ================================================================================ writers ====
class Piece:
    """one printed token: conversion with its argument, or a literal number"""
    def __init__(self, kind, ty, spec, expr, glued):
        self.kind, self.ty, self.spec, self.expr, self.glued = kind, ty, spec, expr, glued


def pieces_of_fprintf(args, state, what):
    """args of fprintf(fp, fmt, ...) -> appends Pieces to state['line'] ; a newline closes the line"""
    if args[0].strip() != "fp":
        raise TranslateError("%s: fprintf to %r" % (what, args[0]))
    fmt = cstr(args[1])
    if fmt is None:
        raise TranslateError("%s: format is not a literal: %r" % (what, args[1]))
    vals = args[2:]
    k = 0
    for p in split_format(fmt, what):
        if p[0] == "conv":
            if k >= len(vals):
                raise TranslateError("%s: more conversions than arguments in %r" % (what, fmt))
            state["line"].append(Piece("conv", p[2], p[1], vals[k].strip(), not state["sep"] and bool(state["line"])))
            state["sep"] = False
            k += 1
        else:
            for tok in re.split(r"(\s+)", p[1]):
                if tok == "":
                    continue
                if tok.isspace():
                    state["sep"] = True
                    if "\n" in tok:
                        if tok.count("\n") != 1 or not tok.endswith("\n"):
                            raise TranslateError("%s: unusual line break in %r" % (what, fmt))
                        state["lines"].append(state["line"]); state["line"] = []
                else:
                    if not re.fullmatch(r"-?\d+", tok):
                        raise TranslateError("%s: literal text %r in a record line" % (what, tok))
                    state["line"].append(Piece("lit", "int", tok, tok, not state["sep"] and bool(state["line"])))
                    state["sep"] = False
    if k != len(vals):
        raise TranslateError("%s: %d arguments for %d conversions in %r" % (what, len(vals), k, fmt))


def cond_kind(cond):
    c = re.sub(r"\s+", "", cond)
    if c == "!Aprev.empty()":
        return ("mode", "incremental", True)
    if c == "i<0":
        return ("variant", "nocircuit")
    m = re.fullmatch(r"circproplist\[i\]\.Case==(\d)", c)
    if m:
        return ("variant", "case%s" % m.group(1))
    return None


def body_paths(nodes, mode, what):
    """symbolic execution of a record-loop body: list of (variant-conditions, [statements]) paths.
    Mode conditions are decided, variant conditions fork."""
    paths = [([], [])]
    for nd in nodes:
        if nd[0] == "stmt":
            paths = [(c, s + [nd[1]]) for c, s in paths]
        elif nd[0] == "if":
            ck = cond_kind(nd[1])
            if ck is None:
                raise TranslateError("%s: condition %r not understood" % (what, nd[1]))
            if ck[0] == "mode":
                taken = nd[2] if mode[ck[1]] == ck[2] else (nd[3] or [])
                sub = body_paths(taken, mode, what)
                paths = [(c + c2, s + s2) for c, s in paths for c2, s2 in sub]
            else:
                new = []
                for c, s in paths:
                    # variant conditions on the same variable exclude each other
                    if any(x[0] == "+" and x[1].startswith("case") and ck[1].startswith("case") for x in c):
                        new.append((c, s))
                        continue
                    for c2, s2 in body_paths(nd[2], mode, what):
                        new.append((c + [("+", ck[1])] + c2, s + s2))
                    for c2, s2 in body_paths(nd[3] or [], mode, what):
                        new.append((c + [("-", ck[1])] + c2, s + s2))
                paths = new
        elif nd[0] == "loop":
            paths = [(c, s + [nd]) for c, s in paths]
        elif nd[0] == "block":
            sub = body_paths(nd[1], mode, what)
            paths = [(c + c2, s + s2) for c, s in paths for c2, s2 in sub]
        else:
            raise TranslateError("%s: %s statement inside a record loop" % (what, nd[0]))
    return paths


def scale_of(expr, scales, what):
    m = re.fullmatch(r"(.+)/(\w+)", re.sub(r"\s+", "", expr))
    if m and m.group(2) in scales:
        return m.group(1), ("div", scales[m.group(2)])
    if "/" in expr or "*" in expr:
        raise TranslateError("%s: arithmetic in a printed expression not understood: %r" % (what, expr))
    return expr, ("none",)


def line_fields(pieces, scales, what, variant_slots=False):
    out = []
    for k, p in enumerate(pieces):
        if p.ty == "str":
            raise TranslateError("%s: %%s conversion inside a record line" % what)
        if p.kind == "lit":
            out.append(dict(name=None, ty="int", scale=("none",), glued=p.glued, expr=p.expr, fmt=p.spec, lit=int(p.expr)))
        else:
            base, sc = scale_of(p.expr, scales, what)
            out.append(dict(name=None if variant_slots else canon(base, what), ty=p.ty, scale=sc, glued=p.glued,
                            expr=p.expr, fmt=p.spec, lit=None))
    return out


def loop_head(head, what):
    """'for v=0; v<N; v++' (head as given by parse_stmts: 'for <init>;<cond>;<step>') -> (v, '<' | '<=', N)"""
    h = re.sub(r"\s+", "", head)
    m = re.fullmatch(r"for(?:int)?(\w+)=0;(\w+)(<=?)([\w\[\]\.]+);(\w+)\+\+", h)
    if not m or not (m.group(1) == m.group(2) == m.group(5)):
        raise TranslateError("%s: loop head %r not understood" % (what, head))
    return m.group(1), m.group(3), m.group(4)


def walk_writer(src, sig, what, mode, file_text):
    """-> dict(sections=[...], ages=dict|None, scales={var: table name}, tables={name: [Fraction]})"""
    _, body = function_body(src, sig, what)
    nodes = parse_stmts(body)
    start = None
    for k, nd in enumerate(nodes):
        if nd[0] == "stmt" and re.fullmatch(r'fprintf\s*\(\s*fp\s*,\s*"\[Solution\]\\n"\s*\)', nd[1]):
            start = k
    if start is None:
        raise TranslateError("%s: the statement that writes the [Solution] tag was not found" % what)
    # before the tag: only the copy of the problem file may write to fp
    for nd in nodes[:start]:
        txt = repr(nd)
        if "fprintf" in txt and "fp," in txt.replace(" ", ""):
            raise TranslateError("%s: fprintf to the result file before the [Solution] tag" % what)
    scales, tables, sections, ages = {}, {}, [], None
    pending = None
    for nd in nodes[start + 1:]:
        if nd[0] == "stmt":
            st = nd[1]
            m = re.fullmatch(r"(\w+)\s*=\s*(\w+)\s*\[\s*LengthUnits\s*\]", st)
            if m:
                tab = find_table(body, m.group(2), what) or find_table(file_text, m.group(2), what)
                if tab is None or len(tab) != 6:
                    raise TranslateError("%s: unit table %s not found" % (what, m.group(2)))
                tname = "%s_%s" % (what.split(":")[0].lower(), m.group(2))
                scales[m.group(1)] = tname
                tables[tname] = tab
                continue
            a = call_args(st, "fprintf", what)
            if a is not None:
                fmt = cstr(a[1])
                if fmt == "%i\n" and len(a) == 3 and pending is None:
                    pending = a[2].strip()
                    continue
                raise TranslateError("%s: fprintf outside a record loop is not a count line: %r" % (what, st))
            if re.fullmatch(r"fclose\s*\(\s*fp\s*\)|return\s+true", st):
                continue
            raise TranslateError("%s: statement after the [Solution] tag not understood: %r" % (what, st))
        elif nd[0] == "loop":
            var, op, bound = loop_head(nd[1], what)
            if pending is None or op != "<" or bound != pending:
                raise TranslateError("%s: record loop %r does not follow its count line (%r)" % (what, nd[1], pending))
            sname = SECTION_OF_COUNT.get(pending)
            if sname is None:
                raise TranslateError("%s: unknown record count %r" % (what, pending))
            if sname == "ages":
                ages = walk_ages_writer(nd[2], scales, what)
            else:
                sections.append(writer_section(sname, pending, nd[2], scales, mode, what))
            pending = None
        else:
            raise TranslateError("%s: %s statement after the [Solution] tag" % (what, nd[0]))
    if pending is not None:
        raise TranslateError("%s: count line for %s without a record loop" % (what, pending))
    return dict(sections=sections, ages=ages, scales=scales, tables=tables)


def writer_section(sname, count, body, scales, mode, what):
    what = "%s/%s" % (what, sname)
    variants = []
    shape = None
    for conds, stmts in body_paths(body, mode, what):
        state = dict(line=[], lines=[], sep=True)
        for st in stmts:
            if not isinstance(st, str):
                raise TranslateError("%s: nested loop in a flat record section" % what)
            a = call_args(st, "fprintf", what)
            if a is not None:
                pieces_of_fprintf(a, state, what)
                continue
            if re.fullmatch(r"i\s*=\s*labellist\[k\]\.InCircuit", st):
                continue
            raise TranslateError("%s: statement in a record loop not understood: %r" % (what, st))
        if state["line"]:
            raise TranslateError("%s: a record line is not closed by a line break" % what)
        pos = [c[1] for c in conds if c[0] == "+"]
        if len(state["lines"]) == 0:
            # a path that prints nothing: only acceptable as the residual of the Case chain
            variants.append(dict(cond=conds, fields=None))
            continue
        if len(state["lines"]) != 1:
            raise TranslateError("%s: a record is printed on %d lines" % (what, len(state["lines"])))
        fs = line_fields(state["lines"][0], scales, what, variant_slots=(sname == "circuits"))
        variants.append(dict(cond=conds, fields=fs, tag=pos[-1] if pos else None))
    printing = [v for v in variants if v["fields"] is not None]
    if not printing:
        raise TranslateError("%s: no line is printed" % what)
    if sname == "circuits":
        # all variants: <int tag> <value> [<value>] with the same number of tokens
        n = len(printing[0]["fields"])
        names = ["circ.case", "circ.val.re", "circ.val.im"][:n]
        table = []
        for v in printing:
            f = v["fields"]
            if len(f) != n or f[0]["lit"] is None or any(x["glued"] for x in f):
                raise TranslateError("%s: circuit-line variants differ in shape" % what)
            src = [variant_meaning(x["expr"], what) for x in f[1:]]
            if len(set(src)) != 1:
                raise TranslateError("%s: real and imaginary part of a circuit line come from different quantities" % what)
            table.append(dict(cond=v["tag"], tag=f[0]["lit"], meaning=src[0], exprs=[x["expr"] for x in f]))
        fields = []
        for k in range(n):
            ty = "int" if k == 0 else "dbl"
            fmts = sorted(set(v["fields"][k]["fmt"] for v in printing))
            fields.append(dict(name=names[k], ty=ty, scale=("none",), glued=False,
                               expr=" | ".join(v["fields"][k]["expr"] for v in printing), fmt=" | ".join(fmts), lit=None))
        silent = [v["cond"] for v in variants if v["fields"] is None]
        return dict(name=sname, count=count, fields=fields, variants=table, silent=silent)
    if len(printing) != 1 or len(variants) != 1:
        raise TranslateError("%s: record variants in a section that is not the circuit section" % what)
    fs = printing[0]["fields"]
    if any(f["lit"] is not None for f in fs):
        raise TranslateError("%s: literal token in a record line" % what)
    return dict(name=sname, count=count, fields=fs, variants=[], silent=[])


def walk_ages_writer(body, scales, what):
    """air gap elements: name line (%s of a string that holds its own quotes and line break),
    parameter line, then totalArcElements+1 quadrature-node lines"""
    what = what + "/ages"
    state = dict(line=[], lines=[], sep=True)
    quad = None
    name_expr = None
    for nd in body:
        if nd[0] == "stmt":
            a = call_args(nd[1], "fprintf", what)
            if a is None:
                raise TranslateError("%s: statement not understood: %r" % (what, nd[1]))
            if cstr(a[1]) == "%s" and len(a) == 3 and name_expr is None and not state["lines"] and not state["line"]:
                name_expr = a[2].strip()
                continue
            pieces_of_fprintf(a, state, what)
        elif nd[0] == "loop":
            var, op, bound = loop_head(nd[1], what)
            if op != "<=" or not bound.endswith("totalArcElements"):
                raise TranslateError("%s: inner loop %r not understood" % (what, nd[1]))
            st2 = dict(line=[], lines=[], sep=True)
            for n2 in nd[2]:
                a = call_args(n2[1], "fprintf", what) if n2[0] == "stmt" else None
                if a is None:
                    raise TranslateError("%s: statement in the quadrature-node loop not understood: %r" % (what, n2))
                pieces_of_fprintf(a, st2, what)
            if len(st2["lines"]) != 1 or st2["line"]:
                raise TranslateError("%s: a quadrature node is not printed on one line" % what)
            quad = line_fields(st2["lines"][0], scales, what + "/quad")
        else:
            raise TranslateError("%s: %s statement" % (what, nd[0]))
    if name_expr is None or len(state["lines"]) != 1 or state["line"] or quad is None:
        raise TranslateError("%s: name / parameter / quadrature layout not recognised" % what)
    return dict(name_expr=name_expr, params=line_fields(state["lines"][0], scales, what + "/params"), quad=quad)


def writer_dispatch(src_root):
    """FSolver::runSolver: Frequency == 0 -> WriteStatic2D, else WriteHarmonic2D, for PLANAR and AXISYMMETRIC alike;
    no other Write* function exists in fsolver."""
    src = read(os.path.join(src_root, "fsolver", "fsolver.cpp"))
    _, body = function_body(src, r"bool\s+FSolver::runSolver\s*\(", "FSolver::runSolver")
    nodes = parse_stmts(body)
    top = [nd for nd in nodes if nd[0] == "if" and re.sub(r"\s+", "", nd[1]) == "Frequency==0"]
    if len(top) != 1 or top[0][3] is None:
        raise TranslateError("FSolver::runSolver: the branch on Frequency == 0 was not found")

    def calls(stmts, acc):
        for nd in stmts:
            if nd[0] == "stmt":
                acc += re.findall(r"\b(Write\w+)\s*\(", nd[1])
            elif nd[0] == "if":
                acc += re.findall(r"\b(Write\w+)\s*\(", nd[1])
                calls(nd[2], acc); calls(nd[3] or [], acc)
            elif nd[0] in ("loop", "block"):
                acc += re.findall(r"\b(Write\w+)\s*\(", nd[1]) if nd[0] == "loop" else []
                calls(nd[2] if nd[0] == "loop" else nd[1], acc)
        return acc

    def top_level_calls(stmts):
        # the writer must be called outside the PLANAR / axisymmetric branch
        acc = []
        for nd in stmts:
            if nd[0] == "if" and "ProblemType" in nd[1]:
                if calls(nd[2], []) or calls(nd[3] or [], []):
                    raise TranslateError("FSolver::runSolver: a writer is called inside the ProblemType branch")
                continue
            if nd[0] == "stmt":
                acc += re.findall(r"\b(Write\w+)\s*\(", nd[1])
            elif nd[0] == "if":
                acc += re.findall(r"\b(Write\w+)\s*\(", nd[1])
        return acc
    st, ha = top_level_calls(top[0][2]), top_level_calls(top[0][3])
    if st != ["WriteStatic2D"] or ha != ["WriteHarmonic2D"]:
        raise TranslateError("FSolver::runSolver: writers called: static %r, harmonic %r" % (st, ha))
    allw = set()
    for f in os.listdir(os.path.join(src_root, "fsolver")):
        if f.endswith((".cpp", ".h")):
            allw |= set(re.findall(r"FSolver::(Write\w+)\s*\(", read(os.path.join(src_root, "fsolver", f))))
    if allw != {"WriteStatic2D", "WriteHarmonic2D"}:
        raise TranslateError("fsolver defines writers %r (expected WriteStatic2D and WriteHarmonic2D only)" % sorted(allw))
    return dict(static="WriteStatic2D", harmonic="WriteHarmonic2D")


# ================================================================================ readers ====
def scanf_fields(fmt, ptrs, what):
    pcs = split_format(fmt, what)
    convs = [p for p in pcs if p[0] == "conv"]
    if len(convs) != len(ptrs):
        raise TranslateError("%s: %d conversions for %d pointers in %r" % (what, len(convs), len(ptrs), fmt))
    for p in pcs:
        if p[0] == "lit" and p[1].strip() != "":
            raise TranslateError("%s: literal text in scanf format %r" % (what, fmt))
    out = []
    for (_, spec, ty), ptr in zip(convs, ptrs):
        ptr = ptr.strip()
        if not ptr.startswith("&"):
            raise TranslateError("%s: scanf argument %r is not an address" % (what, ptr))
        lv = ptr[1:].strip()
        if ty == "dbl" and spec != "%lf":
            raise TranslateError("%s: %r scanned into a double" % (what, spec))
        out.append(dict(name=canon(lv, what), ty=ty, scale=("none",), glued=False, expr=lv, fmt=spec, lit=None))
    return out


def fpproc_cond(cond, mode, what):
    c = re.sub(r"\s+", "", cond)
    table = {"Frequency!=0": mode["harmonic"], "Frequency==0": not mode["harmonic"],
             "!bIncremental": not mode["incremental"], "bIncremental": mode["incremental"]}
    if c in table:
        return table[c]
    return None


TOUCHES = re.compile(r"\b(fp|fgets|fscanf|sscanf|sscnt)\b|\bs\b")


def walk_fpproc(src, mode, tables):
    what = "FPProc::OpenDocument"
    _, body = function_body(src, r"bool\s+FPProc::OpenDocument\s*\(", what)
    nodes = parse_stmts(body)
    start = None
    for k, nd in enumerate(nodes):
        if nd[0] == "if" and re.sub(r"\s+", "", nd[1]) == "flag==false":
            start = k
    if start is None:
        raise TranslateError("%s: the test for a missing [solution] tag was not found" % what)
    # the tag itself
    if '_strnicmp(q,"[solution]",10)==0' not in re.sub(r"\s+", "", body):
        raise TranslateError("%s: the comparison with the [solution] tag was not found" % what)
    sections, ages = [], None
    pending = False                       # a count has been read into k
    it = iter(nodes[start + 1:])
    rest = list(nodes[start + 1:])
    i = 0
    stale = dict(assigned=False)          # has sscnt been assigned by the most recent sscanf?

    def count_stmt(nd):
        return nd[0] == "stmt" and re.fullmatch(r'fscanf\s*\(\s*fp\s*,\s*"%i\\n"\s*,\s*&k\s*\)', nd[1])

    while i < len(rest):
        nd = rest[i]
        if nd[0] == "stmt":
            st = nd[1]
            if count_stmt(nd):
                pending = True; i += 1; continue
            if re.fullmatch(r"fgets\s*\(\s*s\s*,\s*1024\s*,\s*fp\s*\)", st) and i + 1 < len(rest) and rest[i + 1][0] == "stmt" and \
               re.fullmatch(r'sscanf\s*\(\s*s\s*,\s*"%i"\s*,\s*&k\s*\)', rest[i + 1][1]):
                pending = True; i += 2; continue
            if re.fullmatch(r"fclose\s*\(\s*fp\s*\)", st):
                break
            if TOUCHES.search(st):
                raise TranslateError("%s: statement that reads the file not understood: %r" % (what, st))
            i += 1; continue
        if nd[0] == "if":
            # PBC block: if (fgets(s,1024,fp)!=NULL) { sscanf(s,"%i",&k); for(i=0;i<k;i++) fgets(s,1024,fp); }
            c = re.sub(r"\s+", "", nd[1])
            if c == "fgets(s,1024,fp)!=NULL" and nd[3] is None and len(nd[2]) == 2 and nd[2][0][0] == "stmt" and \
               re.fullmatch(r'sscanf\s*\(\s*s\s*,\s*"%i"\s*,\s*&k\s*\)', nd[2][0][1]) and nd[2][1][0] == "loop":
                lp = nd[2][1]
                var, op, bound = loop_head(lp[1], what)
                if (op, bound) != ("<", "k") or len(lp[2]) != 1 or lp[2][0][0] != "stmt" or \
                   not re.fullmatch(r"fgets\s*\(\s*s\s*,\s*1024\s*,\s*fp\s*\)", lp[2][0][1]):
                    raise TranslateError("%s: the skip loop is not a plain line skip" % what)
                sections.append(dict(name="", count="k", fields=[], mode="line", check=("none",), dests=None))
                i += 1; continue
            raise TranslateError("%s: if-statement after the [solution] tag not understood: %r" % (what, nd[1]))
        if nd[0] == "loop":
            var, op, bound = loop_head(nd[1], what)
            if (op, bound) != ("<", "k") or not pending:
                raise TranslateError("%s: record loop %r without a count" % (what, nd[1]))
            pending = False
            sec = fpproc_section(nd[2], mode, what, tables, stale)
            if sec.get("ages"):
                ages = sec["ages"]
            else:
                sections.append(sec)
            i += 1; continue
        raise TranslateError("%s: %s statement after the [solution] tag" % (what, nd[0]))
    return dict(sections=sections, ages=ages)


def fpproc_section(body, mode, what, tables, stale):
    """one record loop of FPProc::OpenDocument under a given mode"""
    fields, check, name, dests = None, ("none",), None, None
    ages = None

    def flat(stmts):
        """decide mode conditions; returns a flat statement list, leaving other nodes in place"""
        out = []
        for nd in stmts:
            if nd[0] == "if":
                c = re.sub(r"\s+", "", nd[1])
                if c in ("fgets(s,1024,fp)!=NULL",):
                    out.append(("stmt", "fgets(s,1024,fp)"))
                    out += flat(nd[2])
                    continue
                v = fpproc_cond(nd[1], mode, what)
                if v is None:
                    out.append(nd)
                else:
                    out += flat(nd[2] if v else (nd[3] or []))
            elif nd[0] == "block":
                out += flat(nd[1])
            else:
                out.append(nd)
        return out
    stmts = flat(body)
    # air gap section: recognised by its local declaration
    if any(nd[0] == "stmt" and nd[1].startswith("CAirGapElement age") for nd in stmts):
        return dict(ages=fpproc_ages(stmts, what, tables))
    got_line = False
    k = 0
    while k < len(stmts):
        nd = stmts[k]
        if nd[0] == "stmt":
            st = nd[1]
            if re.fullmatch(r"fgets\s*\(\s*s\s*,\s*1024\s*,\s*fp\s*\)", st):
                if got_line:
                    raise TranslateError("%s: two lines read for one record" % what)
                got_line = True; k += 1; continue
            m = re.fullmatch(r"(sscnt\s*=\s*)?sscanf\s*\((.*)\)", st)
            if m:
                if fields is not None or not got_line:
                    raise TranslateError("%s: sscanf without a fresh line / twice per record" % what)
                a = split_top(m.group(2), ",")
                if a[0].strip() != "s":
                    raise TranslateError("%s: sscanf on %r" % (what, a[0]))
                fmt = cstr(a[1])
                fields = scanf_fields(fmt, a[2:], what)
                stale["assigned"] = bool(m.group(1))
                k += 1; continue
            m = re.fullmatch(r"(\w+)\[i\]\s*=\s*(\w+)", st)
            if m and m.group(1) in ("meshnode", "meshelem"):
                name = {"meshnode": "nodes", "meshelem": "elements"}[m.group(1)]
                k += 1; continue
            m = re.fullmatch(r"blocklist\[i\]\.Case\s*=\s*j", st)
            if m:
                name = "circuits"; k += 1; continue
            if re.fullmatch(r"mnode\.A\.im\s*=\s*0|elm\.blk\s*=\s*blocklist\[elm\.lbl\]\.BlockType|int bc|int edgeMarker\[3\]", st):
                k += 1; continue
            if TOUCHES.search(st):
                raise TranslateError("%s: statement that reads the file not understood: %r" % (what, st))
            k += 1; continue
        if nd[0] == "if":
            c = re.sub(r"\s+", "", nd[1])
            m = re.fullmatch(r"sscnt!=(\d+)", c)
            if m:
                # must lead to an error return
                txt = repr(nd[2])
                if "return false" not in txt:
                    raise TranslateError("%s: count check without error return" % what)
                if stale["assigned"]:
                    check = ("count", int(m.group(1)))
                    stale["left"] = int(m.group(1))          # the value sscnt keeps when the check passes
                else:
                    check = ("stale", int(m.group(1)), stale.get("left"))
                k += 1; continue
            if c == "j==0" and nd[3] is not None:
                def dest(s):
                    if len(s) != 1 or s[0][0] != "stmt":
                        raise TranslateError("%s: circuit destination not understood" % what)
                    m2 = re.fullmatch(r"(blocklist\[i\]\.\w+)\s*=\s*zr(\s*\+\s*I\s*\*\s*zi)?", s[0][1])
                    if not m2:
                        raise TranslateError("%s: circuit destination not understood: %r" % (what, s[0][1]))
                    return m2.group(1), bool(m2.group(2))
                d0, c0 = dest(nd[2]); d1, c1 = dest(nd[3])
                dests = dict(tag0=variant_meaning(d0, what), other=variant_meaning(d1, what), exprs=(d0, d1), complex=c0 and c1)
                k += 1; continue
            raise TranslateError("%s: if-statement in a record loop not understood: %r" % (what, nd[1]))
        raise TranslateError("%s: %s in a record loop" % (what, nd[0]))
    if fields is None or name is None:
        raise TranslateError("%s: a record loop without sscanf / destination" % what)
    return dict(name=name, count="k", fields=fields, mode="line", check=check, dests=dests)


def fpproc_ages(stmts, what, tables):
    what = what + "/ages"
    lines = []           # list of field lists, in order of the fgets calls
    scal = {}
    quad = None
    pend = False
    name_line = False
    for nd in stmts:
        if nd[0] == "stmt":
            st = nd[1]
            if re.fullmatch(r"fgets\s*\(\s*s\s*,\s*1024\s*,\s*fp\s*\)", st):
                pend = True; continue
            if re.fullmatch(r"age\.BdryName\s*=\s*std::string\s*\(\s*s\s*\)", st):
                if not pend:
                    raise TranslateError("%s: name without a line" % what)
                name_line = True; pend = False; continue
            m = re.fullmatch(r"sscanf\s*\((.*)\)", st)
            if m:
                a = split_top(m.group(1), ",")
                if not pend or a[0].strip() != "s":
                    raise TranslateError("%s: sscanf without a fresh line" % what)
                lines.append(scanf_fields(cstr(a[1]), a[2:], what)); pend = False; continue
            m = re.fullmatch(r"(age\.\w+)\s*\*=\s*LengthConv\[LengthUnits\]", st)
            if m:
                scal[canon(m.group(1), what)] = ("mul", "fpproc_LengthConv"); continue
            if TOUCHES.search(st) and not st.startswith("age.BdryName = std::regex_replace"):
                raise TranslateError("%s: statement not understood: %r" % (what, st))
        elif nd[0] == "loop":
            var, op, bound = loop_head(nd[1], what)
            if op != "<=" or bound != "age.totalArcElements":
                raise TranslateError("%s: inner loop %r" % (what, nd[1]))
            got = False
            for n2 in nd[2]:
                if n2[0] == "stmt" and re.fullmatch(r"fgets\s*\(\s*s\s*,\s*1024\s*,\s*fp\s*\)", n2[1]):
                    got = True
                elif n2[0] == "stmt" and n2[1].startswith("sscanf"):
                    a = split_top(re.fullmatch(r"sscanf\s*\((.*)\)", n2[1]).group(1), ",")
                    if not got:
                        raise TranslateError("%s: quadrature sscanf without a line" % what)
                    quad = scanf_fields(cstr(a[1]), a[2:], what + "/quad")
                elif n2[0] == "stmt" and TOUCHES.search(n2[1]):
                    raise TranslateError("%s: statement in the quadrature loop not understood: %r" % (what, n2[1]))
        elif nd[0] == "if":
            txt = repr(nd)
            if "fgets" in txt or "sscanf" in txt:
                raise TranslateError("%s: conditional read" % what)
    if not name_line or len(lines) != 1 or quad is None:
        raise TranslateError("%s: name / parameter / quadrature layout not recognised" % what)
    for f in lines[0]:
        if f["name"] in scal:
            f["scale"] = scal[f["name"]]
    return dict(params=lines[0], quad=quad)


def from_stream_fields(src, cls, what):
    """X::fromStream: getline, trim, istringstream, then inputStream >> n.field ..."""
    _, body = function_body(src, r"%s\s+(?:femmsolver::)?%s::fromStream\s*\(" % (r"(?:femmsolver::)?" + cls, cls), what)
    nodes = parse_stmts(body)
    fields, got = [], False
    for nd in nodes:
        if nd[0] != "stmt":
            raise TranslateError("%s: %s statement" % (what, nd[0]))
        st = nd[1]
        if re.fullmatch(r"std::getline\s*\(\s*input\s*,\s*line\s*\)", st):
            got = True; continue
        if re.fullmatch(r"std::string line|trim\s*\(\s*line\s*\)|std::istringstream inputStream\s*\(\s*line\s*\)|%s (n|e)|return (n|e)" % cls, st):
            continue
        m = re.fullmatch(r"inputStream\s*>>\s*([\w\.\[\]]+)", st)
        if m and got:
            fields.append(m.group(1)); continue
        raise TranslateError("%s: statement not understood: %r" % (what, st))
    if not got:
        raise TranslateError("%s: the line is not read with getline" % what)
    return fields


def member_type(hdr, cls_chain, member, what):
    base = re.sub(r"\[\d\]|\..*$", "", member.split(".", 1)[1])
    for h in cls_chain:
        m = re.search(r"\b(double|int|CComplex|bool)\s+(?:[\w\[\]]+\s*,\s*)*%s\b(\s*\[\d+\])?\s*[;,]" % re.escape(base), h)
        if m:
            t = m.group(1)
            if t == "CComplex":
                t = "double"
            return {"double": "dbl", "int": "int"}[t]
    raise TranslateError("%s: type of member %s not found" % (what, member))


def walk_pproc(src_root, file_rel, cls, nodecls, elemcls, what):
    src = read(os.path.join(src_root, file_rel))
    _, body = function_body(src, r"ParserResult\s+%s::parseSolution\s*\(" % cls, what)
    nodes = parse_stmts(body)
    lib = os.path.join(src_root, "libfemm")
    nsrc, esrc = read(os.path.join(lib, "CMeshNode.cpp")), read(os.path.join(lib, "CElement.cpp"))
    nh, eh = read(os.path.join(lib, "CMeshNode.h")), read(os.path.join(lib, "CElement.h"))
    sections, pending = [], False
    for nd in nodes:
        if nd[0] == "stmt":
            st = nd[1]
            if re.fullmatch(r"parseValue\s*\(\s*input\s*,\s*k\s*,\s*err\s*\)", st):
                pending = True; continue
            if re.search(r"\binput\b", st):
                raise TranslateError("%s: statement that reads the stream not understood: %r" % (what, st))
            continue
        if nd[0] == "loop":
            var, op, bound = loop_head(nd[1], what)
            if (op, bound) != ("<", "k") or not pending:
                raise TranslateError("%s: record loop %r without a count" % (what, nd[1]))
            pending = False
            txt = " ".join(n2[1] for n2 in nd[2] if n2[0] == "stmt")
            if any(n2[0] != "stmt" for n2 in nd[2]):
                raise TranslateError("%s: control flow inside a record loop" % what)
            m = re.search(r"(\w+)::fromStream\s*\(\s*input\s*,\s*err\s*\)", txt)
            if m:
                c = m.group(1)
                if c == nodecls:
                    lv = from_stream_fields(nsrc, c, "%s::fromStream" % c)
                    hdrs, nm = [nh], "nodes"
                elif c == elemcls:
                    lv = from_stream_fields(esrc, c, "%s::fromStream" % c)
                    hdrs, nm = [eh], "elements"
                else:
                    raise TranslateError("%s: unexpected record class %s" % (what, c))
                fields = [dict(name=canon(x, what), ty=member_type(None, hdrs, x, what), scale=("none",), glued=False,
                               expr=x, fmt=">>", lit=None) for x in lv]
                if len(re.findall(r"\binput\b", txt)) != 1:
                    raise TranslateError("%s: the record loop reads the stream besides fromStream" % what)
                sections.append(dict(name=nm, count="k", fields=fields, mode="line", check=("none",), dests=None))
                continue
            reads = [n2[1] for n2 in nd[2] if re.search(r"\binput\b", n2[1])]
            fields = []
            for r_ in reads:
                m = re.fullmatch(r"input\s*>>\s*(circuit->\w+)", r_)
                if not m:
                    raise TranslateError("%s: stream read not understood: %r" % (what, r_))
                fields.append(dict(name=canon(m.group(1), what), ty="dbl", scale=("none",), glued=False, expr=m.group(1), fmt=">>", lit=None))
            if not fields or "circproplist[i]" not in txt.replace(" ", ""):
                raise TranslateError("%s: conductor loop not recognised" % what)
            sections.append(dict(name="conductors", count="k", fields=fields, mode="stream", check=("none",), dests=None))
            continue
        raise TranslateError("%s: %s statement in parseSolution" % (what, nd[0]))
    return dict(sections=sections, ages=None)



# ================================================= solvers reading a previous solution ====
FGETS = re.compile(r"fgets\s*\(\s*s\s*,\s*(\d+)\s*,\s*fp\s*\)")
CREADER_COUNT_NAME = {"NumNodes": "nodes", "NumEls": "elements", "NumPBCs": "pbcs", "numLabels": "", "k": None}


def factor_table(expr, body, src, src_root, what):
    """'100 * LengthConvMeters[LengthUnits]' / 'c[LengthUnits]' / 'cf' -> list of 6 Fractions"""
    e = re.sub(r"\s+", "", expr)
    m = re.fullmatch(r"(?:(\d+)\*)?(\w+)(\[LengthUnits\])?", e)
    if not m:
        raise TranslateError("%s: scaling expression %r not understood" % (what, expr))
    const = Fraction(int(m.group(1))) if m.group(1) else Fraction(1)
    tab = m.group(2)
    if not m.group(3):
        m2 = re.search(r"\bdouble\s+%s\s*=\s*(\w+)\s*\[\s*LengthUnits\s*\]\s*;" % tab, body)
        if not m2:
            raise TranslateError("%s: scaling variable %s not resolved" % (what, tab))
        tab = m2.group(1)
    vals = find_table(body, tab, what) or find_table(src, tab, what)
    if vals is None and tab == "LengthConvMeters":
        vals = find_table(read(os.path.join(src_root, "libfemm", "femmenums.h")), tab, what)
    if vals is None or len(vals) != 6:
        raise TranslateError("%s: unit table %s not found" % (what, tab))
    return [const * v for v in vals]


def walk_creader(src, src_root, cls, entry, what, tables, tabname, stop_at=()):
    """FSolver::loadPreviousSolution / HSolver::LoadPrev: sections read with fgets + sscanf after the [solution]
    tag; member functions called with fp are walked in place.  Returns dict(sections, tail)."""
    sections = []
    state = dict(pending=None, alias={}, tail=None)

    def body_of(fn):
        _, b = function_body(src, r"\b%s::%s\s*\(" % (cls, fn), "%s::%s" % (cls, fn))
        return b

    def walk(nodes, body_text, fn):
        w = "%s::%s" % (cls, fn)
        i = 0
        while i < len(nodes):
            nd = nodes[i]
            if state["tail"]:
                return
            if nd[0] == "stmt":
                st = nd[1]
                if FGETS.fullmatch(st) and i + 1 < len(nodes) and nodes[i + 1][0] == "stmt":
                    nxt = nodes[i + 1][1]
                    # an interposed declaration (int numLabels;) is allowed
                    j = i + 1
                    if re.fullmatch(r"int \w+", nxt) and j + 1 < len(nodes) and nodes[j + 1][0] == "stmt":
                        j += 1; nxt = nodes[j][1]
                    m = re.fullmatch(r'sscanf\s*\(\s*s\s*,\s*"%i"\s*,\s*&(\w+)\s*\)', nxt)
                    if m:
                        state["pending"] = m.group(1); i = j + 1; continue
                    raise TranslateError("%s: a line is read but not scanned as a count: %r" % (w, nxt))
                m = re.fullmatch(r'sscanf\s*\(\s*s\s*,\s*"%i"\s*,\s*&(\w+)\s*\)', st)
                if m and state.get("line_ready"):
                    state["pending"] = m.group(1); state["line_ready"] = False; i += 1; continue
                m = re.search(r"\b(Load\w+)\s*\(([^)]*\bfp\b[^)]*)\)", st)
                if m:
                    if m.group(1) in stop_at:
                        state["tail"] = m.group(1); return
                    b = body_of(m.group(1))
                    walk(parse_stmts(b), b, m.group(1)); i += 1; continue
                if re.fullmatch(r"fclose\s*\(\s*fp\s*\)", st):
                    state["tail"] = "fclose"; return
                if TOUCHES.search(st) and not re.fullmatch(r"(char|FILE) [\w\[\],\* ]+", st):
                    raise TranslateError("%s: statement that reads the file not understood: %r" % (w, st))
                i += 1; continue
            if nd[0] == "if":
                c = re.sub(r"\s+", "", nd[1])
                m = re.fullmatch(r"!(Load\w+)\(fp\)", c)
                if m:
                    b = body_of(m.group(1))
                    walk(parse_stmts(b), b, m.group(1)); i += 1; continue
                if re.fullmatch(r"fgets\(s,1024,fp\)!=0", c) and nd[3] is None:
                    state["line_ready"] = True
                    walk(nd[2], body_text, fn); i += 1; continue
                m = re.fullmatch(r"(\w+)!=(\w+)", c)
                if m and state["pending"] == m.group(1) and "return" in repr(nd[2]):
                    state["alias"][m.group(2)] = m.group(1)       # the count must equal NumNodes
                    state["pending"] = m.group(2); i += 1; continue
                if "fgets" in repr(nd) or "sscanf" in repr(nd):
                    raise TranslateError("%s: conditional read not understood: %r" % (w, nd[1]))
                i += 1; continue
            if nd[0] == "loop":
                if nd[1].startswith("while"):
                    raise TranslateError("%s: while loop after the [solution] tag" % w)
                var, op, bound = loop_head(nd[1], w)
                if op != "<" or bound != state["pending"]:
                    raise TranslateError("%s: record loop %r does not follow its count (%r)" % (w, nd[1], state["pending"]))
                cname = CREADER_COUNT_NAME.get(bound, None)
                state["pending"] = None
                body = nd[2]
                if len(body) == 1 and body[0][0] == "stmt" and FGETS.fullmatch(body[0][1]):
                    sections.append(dict(name="", count=bound, fields=[], mode="line", check=("none",), dests=None))
                    i += 1; continue
                fields, got, scal = None, False, {}
                for n2 in body:
                    if n2[0] != "stmt":
                        if "fgets" in repr(n2) or "sscanf" in repr(n2):
                            raise TranslateError("%s: conditional read inside a record loop" % w)
                        continue
                    st = n2[1]
                    if FGETS.fullmatch(st):
                        if got:
                            raise TranslateError("%s: two lines per record" % w)
                        got = True; continue
                    m = re.fullmatch(r"sscanf\s*\((.*)\)", st)
                    if m:
                        a = split_top(m.group(1), ",")
                        if not got or fields is not None or a[0].strip() != "s":
                            raise TranslateError("%s: sscanf without a fresh line" % w)
                        fields = scanf_fields(cstr(a[1]), a[2:], w); continue
                    m = re.fullmatch(r"([\w\.]+)\s*\*=\s*(.+)", st)
                    if m:
                        tables[tabname] = factor_table(m.group(2), body_text, src, src_root, w)
                        scal[canon(m.group(1), w)] = ("mul", tabname); continue
                    if TOUCHES.search(st):
                        raise TranslateError("%s: statement in a record loop not understood: %r" % (w, st))
                if fields is None:
                    raise TranslateError("%s: record loop without sscanf" % w)
                for f in fields:
                    if f["name"] in scal:
                        f["scale"] = scal[f["name"]]
                name = cname if cname is not None else {"pot": "nodes"}.get(fields[-1]["name"], "nodes")
                sections.append(dict(name=name, count=bound, fields=fields, mode="line", check=("none",), dests=None))
                i += 1; continue
            raise TranslateError("%s: %s statement" % (w, nd[0]))

    b = body_of(entry)
    nodes = parse_stmts(b)
    # start after the loop that looks for the tag
    start = None
    for k, nd in enumerate(nodes):
        if nd[0] == "loop" and nd[1].startswith("while") and "[solution]" in repr(nd):
            start = k
    if start is None:
        raise TranslateError("%s::%s: the search for the [solution] tag was not found" % (cls, entry))
    walk(nodes[start + 1:], b, entry)
    if not sections:
        raise TranslateError("%s::%s: nothing is read after the [solution] tag" % (cls, entry))
    return dict(sections=sections, ages=None, tail=state["tail"])


# ====================================================================== load-side scaling ====
def load_scaling(src_root, tables):
    """factor by which LoadMesh multiplies the mesh coordinates, per solver: (const, table name)"""
    out = {}
    # esolver: double cf = units[LengthUnits]; node.x *= cf;
    for solver, f in (("esolver", "esolver/esolver.cpp"), ("hsolver", "hsolver/hsolver.cpp"), ("fsolver", "fsolver/fsolver.cpp")):
        src = read(os.path.join(src_root, f))
        cls = {"esolver": "ESolver", "hsolver": "HSolver", "fsolver": "FSolver"}[solver]
        what = "%s::LoadMesh" % cls
        _, body = function_body(src, r"LoadMeshErr\s+%s::LoadMesh\s*\(" % cls, what)
        mx = re.search(r"node\.x\s*\*=\s*([^;]+);", body)
        my = re.search(r"node\.y\s*\*=\s*([^;]+);", body)
        if not mx or not my or re.sub(r"\s+", "", mx.group(1)) != re.sub(r"\s+", "", my.group(1)):
            raise TranslateError("%s: the scaling of node.x / node.y was not found (or differs)" % what)
        e = re.sub(r"\s+", "", mx.group(1))
        const = Fraction(1)
        m = re.fullmatch(r"(?:(\d+)\*)?(\w+)(?:\[LengthUnits\])?", e)
        if not m:
            raise TranslateError("%s: scaling expression %r not understood" % (what, mx.group(1)))
        if m.group(1):
            const = Fraction(int(m.group(1)))
        tab = m.group(2)
        if "[LengthUnits]" not in e:
            # a local: double cf = units[LengthUnits];
            m2 = re.search(r"\bdouble\s+%s\s*=\s*(\w+)\s*\[\s*LengthUnits\s*\]\s*;" % tab, body)
            if not m2:
                raise TranslateError("%s: scaling variable %s not resolved" % (what, tab))
            tab = m2.group(1)
        vals = find_table(body, tab, what) or find_table(src, tab, what)
        if vals is None and tab == "LengthConvMeters":
            vals = find_table(read(os.path.join(src_root, "libfemm", "femmenums.h")), tab, what)
        if vals is None or len(vals) != 6:
            raise TranslateError("%s: unit table %s not found" % (what, tab))
        tname = "%s_load" % solver
        tables[tname] = [const * v for v in vals]
        out[solver] = dict(expr=mx.group(1).strip(), table=tname)
    return out


# ================================================================================= driver ====
MODES = [("static", dict(harmonic=False, incremental=False)), ("static_incr", dict(harmonic=False, incremental=True)),
         ("harmonic", dict(harmonic=True, incremental=False)), ("harmonic_incr", dict(harmonic=True, incremental=True))]


def translate(src_root):
    tables = {}
    W, R = {}, {}
    es = read(os.path.join(src_root, "esolver", "esolver.cpp"))
    hs = read(os.path.join(src_root, "hsolver", "hsolver.cpp"))
    st = read(os.path.join(src_root, "fsolver", "static2d.cpp"))
    ha = read(os.path.join(src_root, "fsolver", "harmonic2d.cpp"))
    plain = dict(incremental=False)
    for name, src, sig, what, mode in (
            ("esolver", es, r"int\s+ESolver::WriteResults\s*\(", "ESolver::WriteResults", plain),
            ("hsolver", hs, r"int\s+HSolver::WriteResults\s*\(", "HSolver::WriteResults", plain),
            ("fsolver_static", st, r"int\s+FSolver::WriteStatic2D\s*\(", "FSolver::WriteStatic2D", plain),
            ("fsolver_static_incr", st, r"int\s+FSolver::WriteStatic2D\s*\(", "FSolver::WriteStatic2D", dict(incremental=True)),
            ("fsolver_harmonic", ha, r"int\s+FSolver::WriteHarmonic2D\s*\(", "FSolver::WriteHarmonic2D", plain),
            ("fsolver_harmonic_incr", ha, r"int\s+FSolver::WriteHarmonic2D\s*\(", "FSolver::WriteHarmonic2D", dict(incremental=True))):
        w = walk_writer(src, sig, what, mode, src)
        # table names: one per writer function (the two modes of a function share it)
        ren = {}
        for t, v in w["tables"].items():
            nt = "%s_%s" % (name.replace("_incr", ""), t.split("_", 1)[1])
            tables[nt] = v; ren[t] = nt
        for s in w["sections"] + ([dict(fields=w["ages"]["params"])] if w["ages"] else []):
            for f in s["fields"]:
                if f["scale"][0] != "none":
                    f["scale"] = (f["scale"][0], ren[f["scale"][1]])
        W[name] = w
    disp = writer_dispatch(src_root)
    fp = read(os.path.join(src_root, "fpproc", "fpproc.cpp"))
    tables["fpproc_LengthConv"] = pproc_lengthconv(fp, "FPProc::FPProc")
    tables["pproc_LengthConv"] = pproc_lengthconv(read(os.path.join(src_root, "libfemm", "PostProcessor.cpp")), "PostProcessor::PostProcessor")
    for mname, mode in MODES:
        R["fpproc_" + mname] = walk_fpproc(fp, mode, tables)
    R["epproc"] = walk_pproc(src_root, "epproc/epproc.cpp", "ElectrostaticsPostProcessor", "CSMeshNode", "CHSElement",
                             "ElectrostaticsPostProcessor::parseSolution")
    R["hpproc"] = walk_pproc(src_root, "hpproc/hpproc.cpp", "HPProc", "CHMeshNode", "CHSElement", "HPProc::parseSolution")
    fs = read(os.path.join(src_root, "fsolver", "fsolver.cpp"))
    R["fsolver_prev"] = walk_creader(fs, src_root, "FSolver", "loadPreviousSolution", "FSolver::loadPreviousSolution", tables,
                                     "fsolver_prevload", stop_at=("LoadAGEsFromSolution",))
    if R["fsolver_prev"]["tail"] != "LoadAGEsFromSolution":
        raise TranslateError("FSolver::loadPreviousSolution: the air-gap part was expected last")
    R["hsolver_prev"] = walk_creader(hs, src_root, "HSolver", "LoadPrev", "HSolver::LoadPrev", tables, "hsolver_prevload")
    load = load_scaling(src_root, tables)
    pairs = [("electrostatics", "epproc", "esolver", "esolver"), ("heatflow", "hpproc", "hsolver", "hsolver")]
    for geo in ("planar", "axisymmetric"):
        for mname, _ in MODES:
            wname = "fsolver_" + mname
            pairs.append(("magnetics_%s_%s" % (mname, geo), "fpproc_" + mname, wname, "fsolver"))
    # the solvers read result files of their own kind as "previous solution": hsolver any .anh (time stepping),
    # fsolver a static .ans only (loadPreviousSolution refuses a file with Frequency != 0)
    pairs.append(("heatflow_previous", "hsolver_prev", "hsolver", "hsolver"))
    pairs.append(("magnetics_previous", "fsolver_prev", "fsolver_static", "fsolver"))
    return dict(writers=W, readers=R, tables=tables, load=load, pairs=pairs, dispatch=disp)


# ================================================================================== emit ====
def cq(s):
    return '"' + s.replace('"', '""') + '"'


def coq_q(q):
    return "(%d # %d)" % (q.numerator, q.denominator)


def coq_field(f):
    sc = {"none": "SNone", "div": "SDiv %s", "mul": "SMul %s"}[f["scale"][0]]
    if f["scale"][0] != "none":
        sc = "(" + sc % cq(f["scale"][1]) + ")"
    return "mkF %s %s %s %s %s %s" % (cq(f["name"]), {"int": "TInt", "dbl": "TDbl"}[f["ty"]], sc,
                                      "true" if f["glued"] else "false", cq(f["expr"]), cq(f["fmt"]))


def coq_fields(fs, indent="     "):
    if not fs:
        return "[]"
    return "[" + (";\n" + indent).join(coq_field(f) for f in fs) + "]"


def coq_check(c):
    if c[0] == "none":
        return "ChkNone"
    if c[0] == "count":
        return "(ChkCount %d%%nat)" % c[1]
    return "(ChkStale %d%%nat %s)" % (c[1], "None" if c[2] is None else "(Some %d%%nat)" % c[2])


def coq_section(s, reader):
    return "mkS %s %s %s %s\n    %s" % (cq(s["name"]), cq(s["count"]), "ByStream" if s.get("mode") == "stream" else "ByLine",
                                        coq_check(s["check"]) if reader else "ChkNone", coq_fields(s["fields"]))


def emit(T):
    L = ["(* generated by tools/translate_solution.py from the result writers of the solvers and the result readers of the",
         "   post-processors — do not edit *)",
         "From Coq Require Import String List ZArith QArith Bool.",
         "From XF Require Import SolFile.",
         "Import ListNotations.",
         "Local Open Scope string_scope.", ""]
    for n in sorted(T["tables"]):
        L.append("Definition tab_%s : list Q := [%s]." % (n, "; ".join(coq_q(q) for q in T["tables"][n])))
    L.append("Definition sol_tables : list (string * list Q) := [%s]." % "; ".join("(%s, tab_%s)" % (cq(n), n) for n in sorted(T["tables"])))
    L.append("")
    for n in sorted(T["writers"]):
        w = T["writers"][n]
        L.append("Definition w_%s : schema :=\n  [%s]." % (n, ";\n   ".join(coq_section(s, False) for s in w["sections"])))
        for s in w["sections"]:
            if s["variants"]:
                L.append("Definition wv_%s : list (Z * string) := [%s]." % (n, "; ".join("(%d%%Z, %s)" % (v["tag"], cq(v["meaning"])) for v in s["variants"])))
                L.append("(* variants: %s ; paths that print no line: %s *)" % (
                    "; ".join("%s -> %s" % (v["cond"], " ".join(v["exprs"])) for v in s["variants"]),
                    "; ".join(repr(c) for c in s["silent"]) or "none"))
        if w["ages"] and not n.endswith("_incr"):
            L.append("Definition w_%s_age_params : list field :=\n    %s." % (n, coq_fields(w["ages"]["params"])))
            L.append("Definition w_%s_age_quad : list field :=\n    %s." % (n, coq_fields(w["ages"]["quad"])))
        L.append("")
    for n in sorted(T["readers"]):
        r = T["readers"][n]
        L.append("Definition r_%s : schema :=\n  [%s]." % (n, ";\n   ".join(coq_section(s, True) for s in r["sections"])))
        for s in r["sections"]:
            if s.get("dests"):
                d = s["dests"]
                L.append("Definition rv_%s : (list (Z * string) * string) := ([(0%%Z, %s)], %s)." % (n, cq(d["tag0"]), cq(d["other"])))
        L.append("")
    ra = [r["ages"] for n, r in sorted(T["readers"].items()) if n.startswith("fpproc")]
    if any(a is None for a in ra) or any(repr(a) != repr(ra[0]) for a in ra):
        raise TranslateError("FPProc::OpenDocument: the air-gap part differs between the modes")
    L.append("Definition r_fpproc_age_params : list field :=\n    %s." % coq_fields(ra[0]["params"]))
    L.append("Definition r_fpproc_age_quad : list field :=\n    %s." % coq_fields(ra[0]["quad"]))
    L.append("")
    L.append("(* (name, reader, writer, load table of the solver) for every solver / post-processor pair *)")
    L.append("Definition sol_pairs : list (string * schema * schema) :=\n  [%s]." %
             ";\n   ".join("(%s, r_%s, w_%s)" % (cq(p[0]), p[1], p[2]) for p in T["pairs"]))
    L.append("Definition sol_variant_pairs : list (string * (list (Z * string) * string) * list (Z * string)) :=\n  [%s]." %
             ";\n   ".join("(%s, rv_%s, wv_%s)" % (cq(p[0]), p[1], p[2]) for p in T["pairs"] if p[1].startswith("fpproc")))
    L.append("Definition sol_age_pairs : list (string * list field * list field) :=\n  [%s]." %
             ";\n   ".join("(%s, r_fpproc_age_%s, w_fsolver_%s_age_%s)" % (cq("magnetics_" + m + "/" + k), k, m, k)
                           for m in ("static", "harmonic") for k in ("params", "quad")))
    L.append("(* whole .ans hand-offs: sections and air-gap block *)")
    L.append("Definition sol_ans_pairs : list ans_pair :=\n  [%s]." %
             ";\n   ".join("(%s, r_fpproc_%s, w_fsolver_%s, r_fpproc_age_params, w_fsolver_%s_age_params, r_fpproc_age_quad, w_fsolver_%s_age_quad)"
                           % (cq("magnetics_" + m), m, m, m, m) for m in ("static", "harmonic")))
    # (solver, load table, write table of each writer of that solver)
    lw = []
    for solver in ("esolver", "hsolver", "fsolver"):
        wt = sorted(set(f["scale"][1] for n, w in T["writers"].items() if n.startswith(solver)
                        for s in w["sections"] for f in s["fields"] if f["scale"][0] == "div"))
        for t in wt:
            lw.append("(%s, tab_%s, tab_%s)" % (cq(solver + ":" + t), T["load"][solver]["table"], t))
    # fsolver reading a static .ans as previous solution multiplies the file coordinate again
    st_tabs = sorted(set(f["scale"][1] for s_ in T["writers"]["fsolver_static"]["sections"] for f in s_["fields"] if f["scale"][0] == "div"))
    for t in st_tabs:
        if "fsolver_prevload" in T["tables"]:
            lw.append("(%s, tab_fsolver_prevload, tab_%s)" % (cq("fsolver_prev:" + t), t))
    L.append("(* LoadMesh multiplies the mesh coordinates by the first table, the writer divides by the second *)")
    L.append("Definition sol_load_write : list (string * list Q * list Q) :=\n  [%s]." % ";\n   ".join(lw))
    L.append("")
    return "\n".join(L)


def regen(src_root):
    T = translate(src_root)
    out = os.path.join(os.path.dirname(os.path.dirname(os.path.abspath(__file__))), "coq", "theories", "gen", "SolSchemas.v")
    txt = emit(T)
    try:
        changed = vlib.write_if_changed(out, txt)
    except NameError:
        open(out, "w").write(txt); changed = True
    return changed, T


if __name__ == "__main__":
    T = translate(sys.argv[1] if len(sys.argv) > 1 else "/repo/cfemm")
    print(emit(T))
