"""./check <ID> [--tier quick|thorough] [--replay <file>]   (DESIGN.md §2.3)"""
import argparse, importlib, json, os, sys, traceback
sys.path.insert(0, os.path.dirname(os.path.abspath(__file__)))
import vlib


def main():
    ap = argparse.ArgumentParser()
    ap.add_argument("pid")
    ap.add_argument("--tier", default=os.environ.get("VERIF_TIER", "quick"))
    ap.add_argument("--replay", default=None)
    a = ap.parse_args()
    seed = int(os.environ.get("VERIF_SEED", "20260929") or 0)
    tier = a.tier if a.tier in ("quick", "thorough") else "quick"
    mod = importlib.import_module("props." + a.pid.lower())
    res = vlib.Result(a.pid, tier, seed, mod.LEVEL)
    res.assumptions = list(getattr(mod, "ASSUMPTIONS", []))
    try:
        try:
            snap = vlib.snapshot()
        except vlib.BuildError as e:
            res.violation("the working tree of /repo does not build with -DXFEMM_VERIF", {"build_error": str(e)[-3000:]}, False)
            res.cov.update(evaluations=1, distinct_nontrivial=0, rule="build failed", samples=["build"])
            sys.exit(res.finish())
        ctx = vlib.Ctx(a.pid, snap, tier, seed, res)
        if a.replay:
            ctx.replay = json.load(open(a.replay))
        # 1. regenerate translated model parts
        broken = []
        try:
            if hasattr(mod, "regen"):
                mod.regen(ctx)
        except vlib.TranslateError as e:
            broken.append(dict(kind="translator", what=str(e)))
        # 2. proofs
        pr = vlib.coq_check_property(a.pid)
        # further property files of this property (theorems about model extensions built separately):
        # Properties_<pid>_<name>.v, listed by the property module
        for extra in getattr(mod, "EXTRA_PROPERTY_FILES", []):
            pr2 = vlib.coq_check_property(extra)
            pr["obligations"] += pr2["obligations"]
            pr["discharged"] += pr2["discharged"]
            pr["theorems"] = pr["theorems"] + pr2["theorems"]
            pr["assumptions"].update(pr2.get("assumptions", {}))
            pr["log"] = (pr.get("log", "") + "\n" + pr2.get("log", ""))[-6000:]
            if not pr2["ok"]:
                if pr["ok"]:
                    pr["broken"] = pr2.get("broken", "theories/Properties_%s" % extra)
                pr["ok"] = False
        res.add_proof(pr)
        if not pr["ok"]:
            broken.append(dict(kind="proof", what="Coq obligation no longer checks: %s" % pr.get("broken", "?"),
                               log=pr["log"][-1500:]))
        # 3. correspondence + property oracle on the implementation
        dis = []
        mods = getattr(mod, "COQ_MODULES", [])
        if mods:
            rcm, outm = vlib.coq_make(["theories/%s.vo" % m for m in mods])
            if rcm != 0:
                broken.append(dict(kind="model-build", what="model files no longer compile", log=outm[-1500:]))
        try:
            dis = mod.correspond(ctx) or []
        except vlib.CoqEvalError as e:
            broken.append(dict(kind="model-eval", what=str(e)[-1500:]))
        for d in dis:
            broken.append(dict(kind="correspondence", what=d.get("what", "model and implementation differ"), case=d))
        # 4. verdict
        if ctx.failing_inputs:
            for f in ctx.failing_inputs:
                res.violation(f["what"], f, True)
            ncorr = 0
            for b in broken:
                if b["kind"] == "correspondence":
                    ncorr += 1
                    if ncorr > 3:
                        continue
                res.violation(b["what"], dict(broken=[b]), False)
        elif broken:
            found = []
            if hasattr(mod, "search"):
                found = mod.search(ctx, broken) or []
            if found:
                for f in found:
                    res.violation(f["what"], f, True)
            else:
                res.violation(broken[0]["what"], dict(broken=broken[:5]), False)
        rc = res.finish()
    except SystemExit:
        raise
    except Exception as e:
        traceback.print_exc()
        res.violation("check crashed: %r" % (e,), {"traceback": traceback.format_exc()[-3000:]}, False)
        res.cov.setdefault("evaluations", 1)
        rc = res.finish()
    import time
    vlib.log("[%s] tier=%s seed=%d exit=%d wall=%.1fs" % (a.pid, tier, seed, rc, time.time() - res.t0))
    sys.exit(rc)


if __name__ == "__main__":
    main()
