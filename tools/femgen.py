"""Problem-file writer and seeded generators of well-formed .fee / .feh / .fem problems
(shared by several checks).  A problem is a plain dict; `write(problem, path)` emits the
text format the xfemm readers accept (as FEMM 4.2 writes it)."""
import math

UNITS = ["inches", "millimeters", "centimeters", "meters", "mils", "microns"]   # tokens of the file format
# metres per unit (SI definition), used by oracles
UNIT_M = {"inches": 0.0254, "millimeters": 1e-3, "centimeters": 1e-2, "meters": 1.0, "mils": 2.54e-5, "microns": 1e-6}


def g(x):
    return "%.17g" % x


def write(p, path):
    kind = p["kind"]                       # 'fee' | 'feh' | 'fem'
    L = []
    L.append("[Format]      =  %s" % ("4.0" if kind == "fem" else "1"))
    if kind == "fem":
        L.append("[Frequency]   =  %s" % g(p.get("frequency", 0)))
    L.append("[Precision]   =  %s" % g(p.get("precision", 1e-8)))
    L.append("[MinAngle]    =  %s" % g(p.get("minangle", 30)))
    if "dosmartmesh" in p:
        L.append("[DoSmartMesh] =  %d" % p["dosmartmesh"])
    L.append("[Depth]       =  %s" % g(p.get("depth", 1)))
    L.append("[LengthUnits] =  %s" % p.get("units", "millimeters"))
    L.append("[ProblemType] =  %s" % p.get("problemtype", "planar"))
    L.append("[Coordinates] =  %s" % p.get("coordinates", "cartesian"))
    if kind == "fem":
        L.append("[ACSolver]    =  0")
        L.append("[PrevType]    =  0")
        L.append('[PrevSoln]    = ""')
    if kind == "feh":
        L.append("[dT]          =  %s" % g(p.get("dt", 0)))
        L.append('[PrevSoln]    = "%s"' % p.get("prevsoln", ""))
    if p.get("problemtype") == "axisymmetric" and "extRo" in p:
        L.append("[extZo] = %s" % g(p["extZo"]))
        L.append("[extRo] = %s" % g(p["extRo"]))
        L.append("[extRi] = %s" % g(p["extRi"]))
    L.append('[Comment]     =  "%s"' % p.get("comment", "generated"))
    # point props
    L.append("[PointProps]   = %d" % len(p.get("pointprops", [])))
    for pp in p.get("pointprops", []):
        L.append("  <BeginPoint>")
        L.append('    <PointName> = "%s"' % pp["name"])
        if kind == "fee":
            L.append("    <Vp> = %s" % g(pp.get("V", 0)))
            L.append("    <qp> = %s" % g(pp.get("q", 0)))
        elif kind == "feh":
            L.append("    <Tp> = %s" % g(pp.get("V", 0)))
            L.append("    <qp> = %s" % g(pp.get("q", 0)))
        else:
            L.append("    <I_re> = %s" % g(pp.get("I_re", 0)))
            L.append("    <I_im> = %s" % g(pp.get("I_im", 0)))
            L.append("    <A_re> = %s" % g(pp.get("A_re", 0)))
            L.append("    <A_im> = %s" % g(pp.get("A_im", 0)))
        L.append("  <EndPoint>")
    L.append("[BdryProps]   = %d" % len(p.get("bdryprops", [])))
    for bp in p.get("bdryprops", []):
        L.append("  <BeginBdry>")
        L.append('    <BdryName> = "%s"' % bp["name"])
        L.append("    <BdryType> = %d" % bp.get("type", 0))
        if kind == "fee":
            L.append("    <Vs> = %s" % g(bp.get("V", 0)))
            L.append("    <qs> = %s" % g(bp.get("qs", 0)))
            L.append("    <c0> = %s" % g(bp.get("c0", 0)))
            L.append("    <c1> = %s" % g(bp.get("c1", 0)))
        elif kind == "feh":
            L.append("    <Tset> = %s" % g(bp.get("Tset", 0)))
            L.append("    <qs> = %s" % g(bp.get("qs", 0)))
            L.append("    <beta> = %s" % g(bp.get("beta", 0)))
            L.append("    <h> = %s" % g(bp.get("h", 0)))
            L.append("    <Tinf> = %s" % g(bp.get("Tinf", 0)))
        else:
            for k in ("A_0", "A_1", "A_2", "Phi", "c0", "c0i", "c1", "c1i", "Mu_ssd", "Sigma_ssd"):
                L.append("    <%s> = %s" % (k, g(bp.get(k, 0))))
            if "innerangle" in bp:
                L.append("    <innerangle> = %s" % g(bp["innerangle"]))
                L.append("    <outerangle> = %s" % g(bp["outerangle"]))
        L.append("  <EndBdry>")
    L.append("[BlockProps]  = %d" % len(p.get("blockprops", [])))
    for b in p.get("blockprops", []):
        L.append("  <BeginBlock>")
        L.append('    <BlockName> = "%s"' % b["name"])
        if kind == "fee":
            L.append("    <ex> = %s" % g(b.get("ex", 1)))
            L.append("    <ey> = %s" % g(b.get("ey", 1)))
            L.append("    <qv> = %s" % g(b.get("qv", 0)))
        elif kind == "feh":
            L.append("    <Kx> = %s" % g(b.get("kx", 1)))
            L.append("    <Ky> = %s" % g(b.get("ky", 1)))
            L.append("    <Kt> = %s" % g(b.get("kt", 0)))
            L.append("    <qv> = %s" % g(b.get("qv", 0)))
            tk = b.get("tk", [])
            if tk:
                L.append("    <TKPoints> = %d" % len(tk))
                for (t, k) in tk:
                    L.append("      %s\t%s" % (g(t), g(k)))
        else:
            L.append("    <Mu_x> = %s" % g(b.get("mu_x", 1)))
            L.append("    <Mu_y> = %s" % g(b.get("mu_y", 1)))
            L.append("    <H_c> = %s" % g(b.get("H_c", 0)))
            L.append("    <H_cAngle> = %s" % g(b.get("H_cAngle", 0)))
            L.append("    <J_re> = %s" % g(b.get("J_re", 0)))
            L.append("    <J_im> = %s" % g(b.get("J_im", 0)))
            L.append("    <Sigma> = %s" % g(b.get("sigma", 0)))
            L.append("    <d_lam> = %s" % g(b.get("d_lam", 0)))
            L.append("    <Phi_h> = %s" % g(b.get("phi_h", 0)))
            L.append("    <Phi_hx> = %s" % g(b.get("phi_hx", 0)))
            L.append("    <Phi_hy> = %s" % g(b.get("phi_hy", 0)))
            L.append("    <LamType> = %d" % b.get("lamtype", 0))
            L.append("    <LamFill> = %s" % g(b.get("lamfill", 1)))
            L.append("    <NStrands> = %d" % b.get("nstrands", 0))
            L.append("    <WireD> = %s" % g(b.get("wired", 0)))
            bh = b.get("bh", [])
            L.append("    <BHPoints> = %d" % len(bh))
            for (bb, hh) in bh:
                L.append("      %s\t%s" % (g(bb), g(hh)))
        L.append("  <EndBlock>")
    cname = "CircuitProps" if kind == "fem" else "ConductorProps"
    L.append("[%s]  = %d" % (cname, len(p.get("circuits", []))))
    for c in p.get("circuits", []):
        if kind == "fem":
            L.append("  <BeginCircuit>")
            L.append('    <CircuitName> = "%s"' % c["name"])
            L.append("    <TotalAmps_re> = %s" % g(c.get("amps_re", 0)))
            L.append("    <TotalAmps_im> = %s" % g(c.get("amps_im", 0)))
            L.append("    <CircuitType> = %d" % c.get("type", 1))
            L.append("  <EndCircuit>")
        else:
            L.append("  <BeginConductor>")
            L.append('    <ConductorName> = "%s"' % c["name"])
            L.append("    <%s> = %s" % ("Vc" if kind == "fee" else "Tc", g(c.get("V", 0))))
            L.append("    <qc> = %s" % g(c.get("q", 0)))
            L.append("    <ConductorType> = %d" % c.get("type", 1))
            L.append("  <EndConductor>")
    pts = p.get("points", [])
    L.append("[NumPoints] = %d" % len(pts))
    for q in pts:
        if kind == "fem":
            L.append("%s\t%s\t%d\t%d" % (g(q["x"]), g(q["y"]), q.get("prop", 0), q.get("group", 0)))
        else:
            L.append("%s\t%s\t%d\t%d\t%d" % (g(q["x"]), g(q["y"]), q.get("prop", 0), q.get("group", 0), q.get("cond", 0)))
    segs = p.get("segments", [])
    L.append("[NumSegments] = %d" % len(segs))
    for s in segs:
        base = "%d\t%d\t%s\t%d\t%d\t%d" % (s["n0"], s["n1"], g(s.get("maxside", -1)), s.get("bdry", 0), s.get("hidden", 0), s.get("group", 0))
        if kind == "fem":
            L.append(base)
        else:
            L.append(base + "\t%d" % s.get("cond", 0))
    arcs = p.get("arcs", [])
    L.append("[NumArcSegments] = %d" % len(arcs))
    for a in arcs:
        base = "%d\t%d\t%s\t%s\t%d\t%d\t%d" % (a["n0"], a["n1"], g(a["angle"]), g(a.get("maxseg", 10)), a.get("bdry", 0), a.get("hidden", 0), a.get("group", 0))
        if kind == "fem":
            # FEMM 4.2 and xfemm write an eighth column for magnetics arcs (the side length the arc was last meshed with: book-keeping
            # of the editor, no input of the mesher)
            L.append(base + ("\t%s" % g(a["meshedside"]) if "meshedside" in a else ""))
        else:
            L.append(base + "\t%d" % a.get("cond", 0))
    holes = p.get("holes", [])
    L.append("[NumHoles] = %d" % len(holes))
    for h in holes:
        L.append("%s\t%s\t%d" % (g(h["x"]), g(h["y"]), h.get("group", 0)))
    labels = p.get("labels", [])
    L.append("[NumBlockLabels] = %d" % len(labels))
    for l in labels:
        area = l.get("maxarea", -1)
        if kind == "fem":
            L.append("%s\t%s\t%d\t%s\t%d\t%s\t%d\t%d\t%d" % (g(l["x"]), g(l["y"]), l.get("block", 1), g(area), l.get("circuit", 0),
                                                          g(l.get("magdir", 0)), l.get("group", 0), l.get("turns", 1), l.get("external", 0)))
        else:
            L.append("%s\t%s\t%d\t%s\t%d\t%d" % (g(l["x"]), g(l["y"]), l.get("block", 1), g(area), l.get("group", 0), l.get("external", 0)))
    eol = p.get("eol", "\n")
    with open(path, "w", newline="") as f:
        f.write(eol.join(L) + eol)


# ----------------------------------------------------------------------------------------
# geometry helpers
# ----------------------------------------------------------------------------------------
class Builder:
    """Accumulates points/segments with de-duplication of points."""

    def __init__(self, kind):
        self.p = dict(kind=kind, pointprops=[], bdryprops=[], blockprops=[], circuits=[], points=[], segments=[],
                      arcs=[], holes=[], labels=[])

    def point(self, x, y, **kw):
        for i, q in enumerate(self.p["points"]):
            if q["x"] == x and q["y"] == y:
                q.update(kw)
                return i
        self.p["points"].append(dict(x=x, y=y, **kw))
        return len(self.p["points"]) - 1

    def seg(self, a, b, **kw):
        self.p["segments"].append(dict(n0=a, n1=b, **kw))
        return len(self.p["segments"]) - 1

    def arc(self, a, b, angle, **kw):
        self.p["arcs"].append(dict(n0=a, n1=b, angle=angle, **kw))

    def rect(self, x0, y0, x1, y1, sides=None):
        """sides: dict of 'b','r','t','l' -> kwargs for the segment."""
        sides = sides or {}
        a = self.point(x0, y0); b = self.point(x1, y0); c = self.point(x1, y1); d = self.point(x0, y1)
        return [self.seg(a, b, **sides.get("b", {})), self.seg(b, c, **sides.get("r", {})),
                self.seg(c, d, **sides.get("t", {})), self.seg(d, a, **sides.get("l", {}))]

    def label(self, x, y, block, **kw):
        self.p["labels"].append(dict(x=x, y=y, block=block, **kw))

    def prop(self, listname, **kw):
        self.p[listname].append(kw)
        return len(self.p[listname])          # 1-based index used in the file


def mesh_diameter(area_target):
    """Block-label 'mesh size' d such that pi d^2/4 = area_target."""
    return math.sqrt(4 * area_target / math.pi)


def rnd_nice(rng, lo, hi):
    """random value on a coarse binary grid (exact in binary64, friendlier arithmetic)"""
    k = rng.randint(0, 64)
    return lo + (hi - lo) * k / 64.0


# ----------------------------------------------------------------------------------------
# electrostatics / heat family: rectangle with optional interface, inner box, points
# ----------------------------------------------------------------------------------------
def gen_scalar_problem(rng, kind="fee", axi=None, units=None, size_nodes=60, allow_pbc=False, box=None):
    """Well-formed electrostatic ('fee') or heat ('feh') problem on a rectangle.
    Features drawn at random: two materials side by side, anisotropy, volume source, all
    boundary-condition types, fixed/floating conductors on an inner box, point property."""
    B = Builder(kind)
    p = B.p
    axi = rng.random() < 0.35 if axi is None else axi
    p["problemtype"] = "axisymmetric" if axi else "planar"
    p["units"] = units or rng.choice(UNITS)
    p["depth"] = rng.choice([1.0, 2.5, 10.0, 0.5])
    p["precision"] = 1e-8
    p["minangle"] = rng.choice([20, 25, 30])
    W = rng.choice([1.0, 2.0, 3.0, 4.0])
    H = rng.choice([1.0, 1.5, 2.0, 3.0])
    x0 = rng.choice([0.0, 0.5, 1.0]) if axi else rng.choice([-1.0, 0.0, 0.25])
    y0 = rng.choice([-1.0, 0.0, 0.5])
    x1, y1 = x0 + W, y0 + H
    # materials
    nmat = rng.choice([1, 2, 2])
    for m in range(nmat + 1):
        if kind == "fee":
            ex = rng.choice([1.0, 2.0, 4.0, 10.0]); ey = ex if rng.random() < 0.6 else rng.choice([1.0, 3.0, 8.0])
            B.prop("blockprops", name="mat%d" % m, ex=ex, ey=ey, qv=rng.choice([0.0, 0.0, 1e-3, -2e-3]))
        else:
            kx = rng.choice([1.0, 2.0, 50.0, 0.2]); ky = kx if rng.random() < 0.6 else rng.choice([1.0, 5.0])
            B.prop("blockprops", name="mat%d" % m, kx=kx, ky=ky, kt=rng.choice([0.0, 1.0, 3.5]), qv=rng.choice([0.0, 0.0, 1e3, -5e2]))
    # boundary properties: one of each type, used at random
    bd = {}
    if kind == "fee":
        bd["fix1"] = B.prop("bdryprops", name="fix1", type=0, V=rnd_nice(rng, -10, 10))
        bd["fix2"] = B.prop("bdryprops", name="fix2", type=0, V=rnd_nice(rng, -10, 10))
        bd["mixed"] = B.prop("bdryprops", name="mixed", type=1, c0=rng.choice([0.5, 1.0, 2.0]), c1=rng.choice([0.0, 1.0, -0.5]))
        bd["surf"] = B.prop("bdryprops", name="surf", type=2, qs=rng.choice([1e-6, -2e-6, 5e-7]))
    else:
        bd["fix1"] = B.prop("bdryprops", name="fix1", type=0, Tset=rnd_nice(rng, 250, 400))
        bd["fix2"] = B.prop("bdryprops", name="fix2", type=0, Tset=rnd_nice(rng, 250, 400))
        bd["flux"] = B.prop("bdryprops", name="flux", type=1, qs=rng.choice([100.0, -50.0, 10.0]))
        bd["conv"] = B.prop("bdryprops", name="conv", type=2, h=rng.choice([5.0, 20.0, 100.0]), Tinf=rnd_nice(rng, 280, 320))
    nonfix = [k for k in bd if not k.startswith("fix")]
    # conductors
    c_fixed = B.prop("circuits", name="cfix", type=1, V=rnd_nice(rng, -5, 5) if kind == "fee" else rnd_nice(rng, 280, 350))
    c_float = B.prop("circuits", name="cfloat", type=0, q=rng.choice([0.0, 1e-9, -2e-9]) if kind == "fee" else rng.choice([0.0, 5.0, -2.0]))
    c_float2 = B.prop("circuits", name="cfloat2", type=0, q=rng.choice([5e-10, -1e-9]) if kind == "fee" else rng.choice([3.0, -1.0]))
    # outer sides
    sides = {}
    choices = ["fix1", "fix2"] + nonfix + [None, "cfix"]
    picked = [rng.choice(choices) for _ in range(4)]
    if not any(c in ("fix1", "fix2", "cfix") for c in picked):
        picked[rng.randrange(4)] = "fix1"
    if axi and x0 == 0.0:
        picked[3] = None                     # the axis
        if not any(c in ("fix1", "fix2", "cfix") for c in picked):
            picked[1] = "fix1"               # (the axis took the only prescribed side: keep the problem well posed)
    for nm, c in zip("brtl", picked):
        if c == "cfix":
            sides[nm] = dict(cond=c_fixed)
        elif c is not None:
            sides[nm] = dict(bdry=bd[c])
        else:
            sides[nm] = {}
    target = W * H / max(size_nodes, 8) * 1.3
    d = mesh_diameter(target)
    B.rect(x0, y0, x1, y1, sides)
    feats = []
    if nmat == 2:
        # vertical interface at xm
        xm = x0 + W * rng.choice([0.25, 0.5, 0.625])
        a = B.point(xm, y0); b = B.point(xm, y1)
        # split bottom/top segments: the file needs segments between consecutive points
        segs = p["segments"]
        bot, right, top, left = segs[0], segs[1], segs[2], segs[3]
        p["segments"] = [dict(bot, n1=a), dict(bot, n0=a), right, dict(top, n1=b), dict(top, n0=b), left]
        B.seg(a, b)
        B.label(x0 + (xm - x0) / 2, y0 + H * 0.12, 1, maxarea=d)
        B.label(xm + (x1 - xm) * 0.8, y0 + H * 0.14, 2, maxarea=d)
        feats.append("interface")
        region = (xm, x1)
    else:
        B.label(x0 + W * 0.81, y0 + H * 0.13, 1, maxarea=d)
        region = (x0, x1)
    # inner box in the right-hand region
    r = rng.random()
    if box is not None or r < 0.7:
        bx0 = region[0] + (region[1] - region[0]) * 0.3
        bx1 = region[0] + (region[1] - region[0]) * 0.6
        by0 = y0 + H * 0.3
        by1 = y0 + H * 0.55
        what = rng.choice(["cfix", "cfloat", "hole-fix", "material"])
        if box is not None:
            what = box
        if what == "twofloat":
            # two floating conductors separated by a gap thin enough to be bridged by single elements
            gap = (bx1 - bx0) * 0.06
            xm1 = (bx0 + bx1) / 2 - gap / 2
            xm2 = (bx0 + bx1) / 2 + gap / 2
            for (xa, xb, c) in ((bx0, xm1, c_float), (xm2, bx1, c_float2)):
                B.rect(xa, by0, xb, by1, {k: dict(cond=c) for k in "brtl"})
                for q in p["points"][-4:]:
                    q["cond"] = c
                p["holes"].append(dict(x=(xa + xb) / 2, y=(by0 + by1) / 2))
        elif what in ("cfix", "cfloat"):
            c = c_fixed if what == "cfix" else c_float
            B.rect(bx0, by0, bx1, by1, {k: dict(cond=c) for k in "brtl"})
            for q in p["points"][-4:]:
                q["cond"] = c
            p["holes"].append(dict(x=(bx0 + bx1) / 2, y=(by0 + by1) / 2))
        elif what == "hole-fix":
            B.rect(bx0, by0, bx1, by1, {k: dict(bdry=bd["fix2"]) for k in "brtl"})
            p["holes"].append(dict(x=(bx0 + bx1) / 2, y=(by0 + by1) / 2))
        else:
            B.rect(bx0, by0, bx1, by1)
            B.label((bx0 + bx1) / 2, (by0 + by1) / 2, nmat + 1, maxarea=d / 1.5)
        feats.append("box:" + what)
    # a point with a point property strictly inside the first region
    if rng.random() < 0.5:
        px = x0 + (region[0] - x0 if nmat == 2 else W) * 0.37 + (0.05 if axi else 0.0)
        py = y0 + H * 0.77
        if kind == "fee":
            pp = B.prop("pointprops", name="pt", V=rnd_nice(rng, -3, 3), q=0.0) if rng.random() < 0.5 else \
                B.prop("pointprops", name="pt", V=0.0, q=rng.choice([1e-9, -3e-9]))
        else:
            pp = B.prop("pointprops", name="pt", V=rnd_nice(rng, 290, 330), q=0.0) if rng.random() < 0.5 else \
                B.prop("pointprops", name="pt", V=0.0, q=rng.choice([2.0, -1.0]))
        B.point(px, py, prop=pp)
        feats.append("point")
        # the same point property on drawn points that may be constrained already: a corner of the outer rectangle (the end
        # point of boundary segments, some of them with a prescribed value) and a corner of the inner box (conductor / fixed
        # boundary); a point source on a constrained node must leave the prescribed value alone
        is_source = p["pointprops"][pp - 1].get("q", 0.0) != 0.0      # (a second prescribed VALUE on a constrained node would be contradictory input)
        if is_source and rng.random() < 0.6:
            p["points"][rng.randrange(4)]["prop"] = pp
            feats.append("point-on-outer-corner")
        # (not on a floating conductor: a source on a conductor whose total flow is prescribed is ambiguous input)
        if is_source and ("box:cfix" in feats or "box:hole-fix" in feats):
            if rng.random() < 0.6:
                p["points"][-2 - rng.randrange(4)]["prop"] = pp
                feats.append("point-on-box-corner")
    p["features"] = feats + ["axi" if axi else "planar", p["units"]] + [c or "none" for c in picked]
    return p
