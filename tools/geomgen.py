"""Seeded geometry generators for the mesher-side checks (C01, C02, C18, C07): nested polygons,
circles/arcs, holes, multiply connected regions, for all three file types."""
import math
import femgen
from femgen import Builder, mesh_diameter


def base_props(B, kind, rng, nmat=3):
    """materials, one boundary property of each type, point property, two conductors/circuits"""
    p = B.p
    ids = dict(mats=[], bdry=[], pt=None, cond=[])
    for m in range(nmat):
        if kind == "fee":
            ids["mats"].append(B.prop("blockprops", name="mat %d" % m, ex=rng.choice([1.0, 2.0, 4.0]), ey=rng.choice([1.0, 3.0]), qv=0.0))
        elif kind == "feh":
            ids["mats"].append(B.prop("blockprops", name="mat %d" % m, kx=rng.choice([1.0, 20.0]), ky=rng.choice([1.0, 5.0]), kt=0.0, qv=0.0))
        else:
            ids["mats"].append(B.prop("blockprops", name="mat %d" % m, mu_x=rng.choice([1.0, 100.0, 1000.0]), mu_y=rng.choice([1.0, 500.0]),
                                      J_re=rng.choice([0.0, 1.0])))
    if kind == "fee":
        ids["bdry"] = [B.prop("bdryprops", name="V0", type=0, V=0.0), B.prop("bdryprops", name="V1", type=0, V=10.0),
                       B.prop("bdryprops", name="mix", type=1, c0=1.0, c1=0.0), B.prop("bdryprops", name="sq", type=2, qs=1e-6)]
        ids["pt"] = B.prop("pointprops", name="pp", V=1.0, q=0.0)
        ids["cond"] = [B.prop("circuits", name="c1", type=1, V=5.0), B.prop("circuits", name="c2", type=0, q=0.0)]
    elif kind == "feh":
        ids["bdry"] = [B.prop("bdryprops", name="T0", type=0, Tset=300.0), B.prop("bdryprops", name="T1", type=0, Tset=350.0),
                       B.prop("bdryprops", name="flux", type=1, qs=10.0), B.prop("bdryprops", name="conv", type=2, h=10.0, Tinf=290.0)]
        ids["pt"] = B.prop("pointprops", name="pp", V=320.0, q=0.0)
        ids["cond"] = [B.prop("circuits", name="c1", type=1, V=310.0), B.prop("circuits", name="c2", type=0, q=0.0)]
    else:
        ids["bdry"] = [B.prop("bdryprops", name="A0", type=0), B.prop("bdryprops", name="A1", type=0, A_0=1e-3),
                       B.prop("bdryprops", name="mix", type=2, c0=0.0, c1=0.0), B.prop("bdryprops", name="A2", type=0, A_1=1e-3)]
        ids["pt"] = B.prop("pointprops", name="pp", A_re=0.0)
        ids["cond"] = [B.prop("circuits", name="c1", type=1, amps_re=1.0), B.prop("circuits", name="c2", type=0, amps_re=2.0)]
    return ids


def settings(B, rng, quick):
    p = B.p
    p["units"] = rng.choice(femgen.UNITS)
    p["depth"] = rng.choice([1.0, 10.0])
    p["minangle"] = rng.choice([1.0, 10.0, 20.0, 25.0, 30.0, 33.0])
    p["dosmartmesh"] = rng.choice([0, 0, 0, 1]) if quick else rng.choice([0, 1])
    p["problemtype"] = "planar"


def circle(B, cx, cy, r, maxseg, **kw):
    """two half-circle arcs; returns the two point ids"""
    a = B.point(cx - r, cy)
    b = B.point(cx + r, cy)
    B.arc(a, b, 180.0, maxseg=maxseg, **kw)
    B.arc(b, a, 180.0, maxseg=maxseg, **kw)
    return a, b


def polygon(B, pts, **kw):
    ids = [B.point(x, y) for (x, y) in pts]
    for i in range(len(ids)):
        B.seg(ids[i], ids[(i + 1) % len(ids)], **kw)
    return ids


def seg_kw(kind, ids, rng, allow_cond=True):
    r = rng.random()
    if r < 0.45:
        return dict(bdry=rng.choice(ids["bdry"]))
    if r < 0.6 and allow_cond and kind != "fem":
        return dict(cond=ids["cond"][0])
    return {}


def fam_circle_in_square(rng, kind, quick):
    B = Builder(kind); ids = base_props(B, kind, rng); settings(B, rng, quick)
    W = rng.choice([4.0, 6.0, 10.0])
    d = mesh_diameter(W * W / (30 if quick else 400))
    outer = {k: seg_kw(kind, ids, rng) for k in "brtl"}
    if not any("bdry" in v for v in outer.values()):
        outer["b"] = dict(bdry=ids["bdry"][0])
    B.rect(0.0, 0.0, W, W, outer)
    r = W * rng.choice([0.125, 0.2, 0.25])
    cx, cy = W * 0.5, W * 0.5
    maxseg = rng.choice([5.0, 10.0, 15.0, 30.0, 45.0])
    what = rng.choice(["material", "hole", "cond"])
    akw = {}
    if what == "cond" and kind != "fem":
        akw = dict(cond=ids["cond"][1])
    elif what == "hole":
        akw = dict(bdry=ids["bdry"][1])
    circle(B, cx, cy, r, maxseg, **akw)
    B.label(W * 0.1, W * 0.1, ids["mats"][0], maxarea=d)
    if what == "material":
        B.label(cx, cy, ids["mats"][1], maxarea=d / 2)
    else:
        B.p["holes"].append(dict(x=cx, y=cy))
    B.p["features"] = ["circle-in-square", what, kind, "maxseg%g" % maxseg, "minangle%g" % B.p["minangle"], "smart%d" % B.p["dosmartmesh"]]
    return B.p


def fam_nested_polygons(rng, kind, quick):
    B = Builder(kind); ids = base_props(B, kind, rng); settings(B, rng, quick)
    W, H = 8.0, 6.0
    d = mesh_diameter(W * H / (35 if quick else 500))
    outer = {k: seg_kw(kind, ids, rng) for k in "brtl"}
    outer["l"] = dict(bdry=ids["bdry"][0])
    B.rect(0.0, 0.0, W, H, outer)
    # pentagon containing a triangle
    pent = [(2.0, 1.5), (6.0, 1.0), (7.0, 3.5), (4.5, 5.25), (1.5, 4.0)]
    polygon(B, pent, maxside=rng.choice([-1, 0.5, 1.0]))
    tri = [(3.5, 2.5), (5.5, 2.75), (4.25, 4.0)]
    polygon(B, tri, **seg_kw(kind, ids, rng, allow_cond=False))
    B.label(0.5, 0.5, ids["mats"][0], maxarea=d)
    B.label(2.5, 2.0, ids["mats"][1], maxarea=d * rng.choice([0.5, 1.0]))
    if rng.random() < 0.5:
        B.label(4.5, 3.0, ids["mats"][2], maxarea=d / 2)
    else:
        B.p["holes"].append(dict(x=4.5, y=3.0))
    if rng.random() < 0.5:
        B.point(0.75, 5.0, prop=ids["pt"])
    B.p["features"] = ["nested-polygons", kind, "minangle%g" % B.p["minangle"], "smart%d" % B.p["dosmartmesh"]]
    return B.p


def fam_annulus(rng, kind, quick):
    B = Builder(kind); ids = base_props(B, kind, rng); settings(B, rng, quick)
    ro = rng.choice([2.0, 3.0]); ri = ro * rng.choice([0.25, 0.5])
    maxseg = rng.choice([10.0, 20.0, 30.0])
    d = mesh_diameter(math.pi * ro * ro / (30 if quick else 400))
    circle(B, 0.0, 0.0, ro, maxseg, bdry=ids["bdry"][0])
    kw = dict(bdry=ids["bdry"][1]) if kind == "fem" or rng.random() < 0.5 else dict(cond=ids["cond"][0])
    circle(B, 0.0, 0.0, ri, maxseg, **kw)
    B.label(0.0, (ro + ri) / 2, ids["mats"][0], maxarea=d)
    B.p["holes"].append(dict(x=0.0, y=0.0))
    B.p["features"] = ["annulus", kind, "maxseg%g" % maxseg, "minangle%g" % B.p["minangle"]]
    return B.p


def fam_rounded(rng, kind, quick):
    """stadium: two half circles joined by lines, inside a box, with a segment spacing"""
    B = Builder(kind); ids = base_props(B, kind, rng); settings(B, rng, quick)
    d = mesh_diameter(12.0 * 8.0 / (40 if quick else 500))
    B.rect(-6.0, -4.0, 6.0, 4.0, dict(b=dict(bdry=ids["bdry"][0]), t=dict(bdry=ids["bdry"][1]), l=seg_kw(kind, ids, rng), r=seg_kw(kind, ids, rng)))
    r = 1.5
    a = B.point(-2.0, -r); b = B.point(2.0, -r); c = B.point(2.0, r); dd = B.point(-2.0, r)
    ms = rng.choice([-1, 0.5, 0.75])
    B.seg(a, b, maxside=ms); B.seg(c, dd, maxside=ms)
    maxseg = rng.choice([6.0, 12.0, 20.0])
    B.arc(b, c, 180.0, maxseg=maxseg); B.arc(dd, a, 180.0, maxseg=maxseg)
    B.label(-5.0, -3.0, ids["mats"][0], maxarea=d)
    B.label(0.0, 0.0, ids["mats"][1], maxarea=d * 0.7)
    B.p["features"] = ["stadium", kind, "maxside%g" % ms, "maxseg%g" % maxseg, "minangle%g" % B.p["minangle"], "smart%d" % B.p["dosmartmesh"]]
    return B.p


def fam_rect(rng, kind, quick):
    if kind == "fem":
        B = Builder(kind); ids = base_props(B, kind, rng); settings(B, rng, quick)
        W, H = rng.choice([2.0, 4.0]), rng.choice([1.0, 3.0])
        d = mesh_diameter(W * H / (30 if quick else 400))
        B.rect(0.0, 0.0, W, H, {k: dict(bdry=ids["bdry"][0]) for k in "brtl"})
        B.rect(W * 0.25, H * 0.25, W * 0.5, H * 0.625)
        B.label(W * 0.1, H * 0.1, ids["mats"][0], maxarea=d)
        B.label(W * 0.375, H * 0.4, ids["mats"][1], maxarea=d / 2, circuit=rng.choice([0, 1, 2]), turns=rng.choice([1, 10]))
        B.p["features"] = ["rect-box", kind, "minangle%g" % B.p["minangle"], "smart%d" % B.p["dosmartmesh"]]
        return B.p
    p = femgen.gen_scalar_problem(rng, kind, size_nodes=rng.choice([25, 40, 60]) if quick else rng.choice([60, 200, 600]))
    p["dosmartmesh"] = rng.choice([0, 0, 1])
    p["minangle"] = rng.choice([1.0, 15.0, 30.0, 33.0])
    p["features"] = ["rect-family", kind] + p["features"]
    return p


def periodic_type(kind, rng):
    """BdryType of a periodic / antiperiodic condition in this file type"""
    return {"fee": 3, "feh": 4, "fem": 4}[kind] + rng.choice([0, 1])


def fam_periodic_arcs(rng, kind, quick, order=None, segs=None):
    """translation-periodic cell whose left and right faces are equal arcs (the right one is the left
    one shifted by W); the two arcs may request different segment angles and be listed in either order"""
    B = Builder(kind); ids = base_props(B, kind, rng); settings(B, rng, quick)
    B.p["dosmartmesh"] = 0
    per = B.prop("bdryprops", name="per", type=periodic_type(kind, rng))
    W, H = rng.choice([3.0, 4.0]), rng.choice([2.0, 2.5])
    ang = rng.choice([40.0, 60.0, 90.0])
    d = mesh_diameter(W * H / (40 if quick else 400))
    a = B.point(0.0, 0.0); b = B.point(0.0, H); c = B.point(W, 0.0); e = B.point(W, H)
    B.seg(a, c, bdry=ids["bdry"][0]); B.seg(b, e, bdry=ids["bdry"][1])
    m0, m1 = segs or rng.choice([(10.0, 10.0), (5.0, 15.0), (15.0, 5.0), (20.0, 4.0), (4.0, 20.0), (30.0, 30.0)])
    left = dict(n0=a, n1=b, angle=ang, maxseg=m0, bdry=per)
    right = dict(n0=c, n1=e, angle=ang, maxseg=m1, bdry=per)
    order = order or rng.choice(["left-first", "right-first"])
    for arc in ([left, right] if order == "left-first" else [right, left]):
        B.arc(arc["n0"], arc["n1"], arc["angle"], maxseg=arc["maxseg"], bdry=arc["bdry"])
    # an inner box of another material
    B.rect(W * 0.4, H * 0.3, W * 0.7, H * 0.7)
    B.label(W * 0.55, H * 0.5, ids["mats"][1], maxarea=d / 2)
    B.label(W * 0.3, H * 0.15, ids["mats"][0], maxarea=d)
    B.p["features"] = ["periodic-arcs", kind, order, "maxseg%g/%g" % (m0, m1), "span%g" % ang, "bdrytype%d" % B.p["bdryprops"][per - 1]["type"]]
    return B.p


def fam_periodic_lines(rng, kind, quick):
    """rectangle with (anti)periodic left/right sides carrying different spacings"""
    B = Builder(kind); ids = base_props(B, kind, rng); settings(B, rng, quick)
    B.p["dosmartmesh"] = 0
    per = B.prop("bdryprops", name="per", type=periodic_type(kind, rng))
    W, H = rng.choice([3.0, 4.0]), rng.choice([2.0, 3.0])
    d = mesh_diameter(W * H / (40 if quick else 400))
    s0, s1 = rng.choice([(-1, -1), (0.5, -1), (-1, 0.25), (0.5, 0.2), (0.3, 0.3)])
    B.rect(0.0, 0.0, W, H, dict(l=dict(bdry=per, maxside=s0), r=dict(bdry=per, maxside=s1), b=dict(bdry=ids["bdry"][0]), t=dict(bdry=ids["bdry"][1])))
    B.rect(W * 0.3, H * 0.3, W * 0.6, H * 0.7)
    B.label(W * 0.45, H * 0.5, ids["mats"][1], maxarea=d / 2)
    B.label(W * 0.15, H * 0.15, ids["mats"][0], maxarea=d)
    B.p["features"] = ["periodic-lines", kind, "maxside%g/%g" % (s0, s1), "bdrytype%d" % B.p["bdryprops"][per - 1]["type"]]
    return B.p


def fam_tall_holes(rng, kind, quick):
    """tall narrow domain (possibly left of the y axis) with two declared holes, one low and one high: the upper hole
    point has a y coordinate above every x coordinate of the drawing"""
    B = Builder(kind); ids = base_props(B, kind, rng); settings(B, rng, quick)
    x0 = rng.choice([-2.0, 0.0, 0.5])
    W, H = rng.choice([1.0, 1.5]), rng.choice([4.0, 5.0])
    d = mesh_diameter(W * H / (40 if quick else 400))
    B.rect(x0, 0.0, x0 + W, H, dict(b=dict(bdry=ids["bdry"][0]), t=dict(bdry=ids["bdry"][1]), l=seg_kw(kind, ids, rng), r=seg_kw(kind, ids, rng)))
    for (ya, yb) in ((H * 0.1, H * 0.2), (H * 0.7, H * 0.85)):
        kw = dict(bdry=ids["bdry"][1]) if kind == "fem" or rng.random() < 0.5 else dict(cond=ids["cond"][0])
        B.rect(x0 + W * 0.3, ya, x0 + W * 0.7, yb, {k: kw for k in "brtl"})
        B.p["holes"].append(dict(x=x0 + W * 0.5, y=(ya + yb) / 2))
    B.label(x0 + W * 0.1, H * 0.5, ids["mats"][0], maxarea=d)
    B.p["features"] = ["tall-holes", kind, "x0=%g" % x0, "minangle%g" % B.p["minangle"], "smart%d" % B.p["dosmartmesh"]]
    return B.p


def fam_chamfer(rng, kind, quick):
    """a plate made of long lines with one very short chamfer (shorter than 0.6 % of the mean line length, the
    threshold below which the mesher adds no smart-mesh corner points) and a tiny step; the short lines may
    carry a spacing of their own, finer than their length"""
    B = Builder(kind); ids = base_props(B, kind, rng); settings(B, rng, quick)
    W = rng.choice([10.0, 8.0])
    c = rng.choice([0.005, 0.01, 0.015]) * W / 10        # chamfer length c*sqrt(2) < 3 * (mean line length) / 500
    st = rng.choice([0.01, 0.02]) * W / 10
    d = mesh_diameter(W * W / (60 if quick else 600))
    P = [(0.0, 0.0), (W, 0.0), (W, W - c), (W - c, W), (W / 2 + st, W), (W / 2 + st, W - st), (W / 2, W - st), (W / 2, W), (0.0, W)]
    ids_p = [B.point(x, y) for (x, y) in P]
    import math
    short_spacing = rng.choice(["fine", "fine", "none"])
    for i in range(len(P)):
        a, b = ids_p[i], ids_p[(i + 1) % len(P)]
        L = math.hypot(P[i][0] - P[(i + 1) % len(P)][0], P[i][1] - P[(i + 1) % len(P)][1])
        kw = dict(bdry=ids["bdry"][i % 2])
        if L < W / 50:
            if short_spacing == "fine":
                kw["maxside"] = L / rng.choice([3.5, 4.2, 2.5])
        elif i == 0:
            kw["maxside"] = 0.7 * W / 10
        elif i == 1:
            kw["maxside"] = W / 3
        B.seg(a, b, **kw)
    B.label(W * 0.3, W * 0.3, ids["mats"][0], maxarea=d)
    B.p["features"] = ["chamfer", kind, "short-" + short_spacing, "c%g" % c, "minangle%g" % B.p["minangle"], "smart%d" % B.p["dosmartmesh"]]
    return B.p


FAMS = [fam_rect, fam_circle_in_square, fam_nested_polygons, fam_annulus, fam_rounded, fam_periodic_arcs, fam_periodic_lines, fam_tall_holes]
KINDS = ["fee", "feh", "fem"]


def gen_any(rng, k, quick=True):
    fam = FAMS[k % len(FAMS)]
    kind = KINDS[(k // len(FAMS) + k) % 3]
    return with_meshed_side(fam(rng, kind, quick), k)


def with_meshed_side(p, k):
    """magnetics files as FEMM 4.2 / xfemm save them: arc records carry an eighth column (the side length the arc was last meshed
    with), larger or smaller than the requested maximum segment angle; it is not an input of the mesher.  Derived from k, not from
    the generator's random stream, so that the generated geometries stay what they were."""
    if p.get("kind") == "fem" and p.get("arcs") and k % 3 != 1:
        for j, a in enumerate(p["arcs"]):
            m = a.get("maxseg", 10)
            a["meshedside"] = [1.0, 20.0, m / 3.0, 3.8, m * 2.5][(k + j) % 5]
        p.setdefault("features", []).append("arc-col8")
    return p
