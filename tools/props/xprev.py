"""XPREV (temporary id; serves C05 and C11) — planar magnetics problems that build on a PREVIOUS SOLUTION: incremental
(PrevType 1) and frozen (PrevType 2) permeability in FSolver::Static2D (bIncremental), the previous flux density of an element
(FSolver::getPrev2DB) and CMMaterialProp::IncrementalPermeability.
Model: coq/theories/AsmMPrev.v (prev2DB, get_v, incr_perm, prev_tensor, el_tensor, prev_combine, prev_pass, asmMprev) on top of
AsmM.v / AsmMNL.v / BH.v.  Theorems: Properties_C05_prev.v (proofs in AsmMPrevProofs.v).
Correspondence: a nonlinear static problem (xnl's generator: c05_gen problems whose iron carries seeded B-H tables, scaled into
the curved part) is meshed by the real fmesher and solved by the real fsolver binary; the DEPENDENT problem (same geometry and
materials, [PrevSoln] = that .ans, [PrevType] 1 or 2, perturbed excitations) is loaded by the real FSolver::LoadProblemFile
(-> loadPreviousSolution) inside harness h_fsolver_prev, which calls the real Static2D and dumps Aprev, the element tensors
(mu1, mu2, v12) and the assembled system before the solve; the float reading of the model, given the dumped in-memory data,
the tables and Aprev, must reproduce tensors, matrix and right-hand side bit for bit.
Oracles on what the real code computes: (1) frozen permeability with the excitations of the previous run reproduces the previous
solution; (2) small-signal: A_nonlinear(S + eps S) - A_nonlinear(S) (two runs of the real fsolver binary) agrees with the
incremental solution for eps S to first order (the relative deviation halves when eps halves); (3) superposition of two
perturbations on the identical mesh; (4) probes of the recorded findings XPREV-1 / XPREV-2 (coverage only, keyed on the source
variant)."""
import os, math, json, copy, re
import numpy as np
import vlib, femgen
from props import c05, c05_gen, c19, xnl, xsol

LEVEL = "proof"
COQ_MODULES = ["AsmMPrev"]
ASSUMPTIONS = [
    "theorems are about the real-number reading of AsmMPrev.v; rounding is not bounded (the float reading is compared with the "
    "C++ bit for bit on the generated problems)",
    "modelled: FSolver::Static2D with bIncremental = PrevType 1 / 2 (one pass: element tensors mu1, mu2, v12 from "
    "FSolver::getPrev2DB and CMMaterialProp::IncrementalPermeability / Get_v / GetdHdB / the base-class GetH(double), the combine "
    "statement with Mxy*v12, scatter, boundary conditions as in AsmM.v / AsmMNL.v); the data after loading (mesh, Aprev, B-H tables "
    "with the slopes GetSlopes left) are inputs: FSolver::loadPreviousSolution itself is the subject of the solution-file "
    "extension of C14 (SolFile.v, props/xsol.py)",
    "FSolver::runSolver REFUSES static problems with PrevType 1/2 ('Cannot handle incremental permeability problems with "
    "frequency 0'): the fsolver binary never reaches the modelled static code; the harness calls the real Static2D directly "
    "(after the real LoadProblemFile) and the oracles use the vector the real CBigLinProb::PCGSolve returns there",
    "NOT modelled / not generated: the time-harmonic solver with a DC previous solution (Harmonic2D's bIncremental branch and the "
    "AC overload CMMaterialProp::incrementalPermeability with its hysteresis / lamination terms), axisymmetric problems "
    "(getPrevAxiB), air-gap elements, polar boundary coordinates, series-connected circuits in dependent problems (dropped by the "
    "unchanged LoadProblemFile: findings/XPREV-1), nonlinear blocks laminated on edge in dependent problems (the C++ prints a "
    "message and exit(0)s: prev_exits; generated now and then, only the exit is checked)",
    "findings/XPREV-1 (LoadProblemFile returns before GetSlopes and the series-circuit expansion when a previous solution is "
    "named): the harness performs the skipped precomputation statements itself when it finds a B-H block without slopes; "
    "findings/XPREV-2 (getPrev2DB divides by LengthConvMeters[LengthUnits] although the node coordinates are centimetres): the "
    "model follows the source (table read by regen), theorem C05_prev_flux_density_unit_refuted; the physical oracles are "
    "enforced for centimetre problems and, while the source has the defect, only recorded for the other units",
    "libm values (cos/sin of the magnetisation direction, cos(phi*DEG)) are inputs of the model; Triangle, the file readers and "
    "Cuthill-McKee are not modelled (the model starts from the solver's in-memory data dumped by the harness)",
]
HEADER = ("From Coq Require Import ZArith List Floats. Import ListNotations. "
          "From XF Require Import Arith Sparse AsmE AsmM BH AsmMNL AsmMPrev.")
HARNESS = "h_fsolver_prev"
MU0 = c19.MUO

ANCHORS = [
    ("fsolver/static2d.cpp", "int bIncremental = MS_LEGACY_FALSE;"),
    ("fsolver/static2d.cpp", "if (!previousSolutionFile.empty()) bIncremental = PrevType;"),
    ("fsolver/static2d.cpp", "if (bIncremental == MS_LEGACY_FALSE) { LinearFlag = false; } else { double B1p, B2p;"),
    ("fsolver/static2d.cpp", "if (blockproplist[k].LamType > 0) { PrintMessage(\"On-edge Lam Types not yet supported in\\nincremental/frozen permeability problems\"); exit(0); }"),
    ("fsolver/static2d.cpp", "getPrev2DB(i, B1p, B2p); B = sqrt(B1p*B1p + B2p*B2p);"),
    ("fsolver/static2d.cpp", "blockproplist[k].IncrementalPermeability(B, muinc, murel);"),
    ("fsolver/static2d.cpp", "if (B == 0) { meshele[i].mu1 = muinc; meshele[i].mu2 = muinc; meshele[i].v12 = 0; }"),
    ("fsolver/static2d.cpp", "if (bIncremental == 1) {"),
    ("fsolver/static2d.cpp", "meshele[i].mu1 = B*B*muinc*murel / (B1p*B1p*murel + B2p*B2p*muinc);"),
    ("fsolver/static2d.cpp", "meshele[i].mu2 = B*B*muinc*murel / (B1p*B1p*muinc + B2p*B2p*murel);"),
    ("fsolver/static2d.cpp", "meshele[i].v12 = -B1p*B2p*(murel - muinc) / (B*B*murel*muinc);"),
    ("fsolver/static2d.cpp", "else { meshele[i].mu1 = murel; meshele[i].mu2 = murel; meshele[i].v12 = 0; }"),
    ("fsolver/static2d.cpp", "Me[j][k]+= (Mx[j][k]/Re(El->mu2) + My[j][k]/Re(El->mu1) + Mxy[j][k] * Re(El->v12) + Mn[j][k]); be[j]+=Mn[j][k]*L.V[n[k]];"),
    ("fsolver/static2d.cpp", "Mxy[j][k] += K*(p[j]*q[k] + p[k]*q[j]);"),
    ("fsolver/fsolver.cpp", "double da=(b[0]*c[1]-b[1]*c[0]);"),
    ("fsolver/fsolver.cpp", "B1p=0; B2p=0; for(int i=0;i<3;i++) {"),
    ("libfemm/CMaterialProp.cpp", "if (B==0) return slope[0]; return (GetH(B)/B);"),
    ("libfemm/CMaterialProp.cpp", "muinc = 1. / (muo*Re(GetdHdB(B))); murel = 1. / (muo*Re(Get_v(B)));"),
    ("libfemm/CMaterialProp.cpp", "if ((Lam_d == 0) || (LamFill == 0)){ mu1 = muinc; mu2 = murel; return; }"),
    ("libfemm/CMaterialProp.cpp", "mu1 = (muinc*LamFill + (1. - LamFill));"),
    ("libfemm/CMaterialProp.cpp", "mu2 = (murel*LamFill + (1. - LamFill));"),
    ("libfemm/CMaterialProp.cpp", "double CMMaterialProp::GetH(const double x) const { return Re(GetH(CComplex(x))); }"),
    ("libfemm/CElement.cpp", ", v12(0)"),
    ("libfemm/femmenums.h", "constexpr double LengthConvMeters[6] = { 0.0254,"),
]
# the two readings of getPrev2DB's length factor the model knows (AsmMPrev.lenconv_meters / lenconv_cm)
PREVB_SHIPPED = ("B1p+=Aprev[n[i]]*c[i]/(da*LengthConvMeters[LengthUnits]); B2p-=Aprev[n[i]]*b[i]/(da*LengthConvMeters[LengthUnits]);", "lenconv_meters")
PREVB_CM = ("B1p+=Aprev[n[i]]*c[i]/(da*LengthConv); B2p-=Aprev[n[i]]*b[i]/(da*LengthConv);", "lenconv_cm")
VARIANT = {}


def squeeze(t):
    return "".join(re.sub(r"//[^\n]*", "", t).split())


def regen(ctx):
    """no generated Coq text: AsmMPrev.v is a transcription; check that the statements it transcribes are still there, and read
    (a) which length table getPrev2DB uses, (b) whether LoadProblemFile still returns right after loadPreviousSolution"""
    cache = {}

    def src(f):
        if f not in cache:
            cache[f] = squeeze(open(os.path.join(ctx.snap.src, f), errors="replace").read())
        return cache[f]
    fs = src("fsolver/fsolver.cpp")
    VARIANT["xprev1"] = squeeze("return loadPreviousSolution(loadAprev);") in fs
    if squeeze(PREVB_SHIPPED[0]) in fs:
        VARIANT["lct"] = PREVB_SHIPPED[1]
    elif squeeze(PREVB_CM[0]) in fs and squeeze("double LengthConv = 0.01;") in fs[fs.index("getPrev2DB"):fs.index("LoadProblemFile")]:
        VARIANT["lct"] = PREVB_CM[1]
    else:
        VARIANT["lct"] = PREVB_SHIPPED[1]
        raise vlib.TranslateError("fsolver/fsolver.cpp: FSolver::getPrev2DB no longer has one of the two forms of the flux-density "
                                  "statements the model AsmMPrev.prev2DB knows")
    for f, snip in ANCHORS:
        if squeeze(snip) not in src(f):
            raise vlib.TranslateError("%s no longer contains `%s`: the model AsmMPrev.v transcribes it" % (f, snip))


# ------------------------------------------------------------------------- generator ----
EXC_BLOCK = ("J_re", "H_c")
EXC_BDRY = ("A_0", "A_1", "A_2", "c1")
EXC_POINT = ("I_re", "A_re")


def scale_excitations(p, fac, pattern=None):
    """a copy of p whose excitations are fac (times a per-source pattern factor) times those of p"""
    q = copy.deepcopy(p)
    k = 0

    def f():
        nonlocal k
        k += 1
        return fac * (pattern[k % len(pattern)] if pattern else 1.0)
    for b in q["blockprops"]:
        for key in EXC_BLOCK:
            if key in b:
                b[key] = b[key] * f()
    for c in q.get("circuits", []):
        if "amps_re" in c:
            c["amps_re"] = c["amps_re"] * f()
    for bp in q.get("bdryprops", []):
        for key in EXC_BDRY:
            if key in bp:
                bp[key] = bp[key] * f()
    for pp in q.get("pointprops", []):
        for key in EXC_POINT:
            if key in pp:
                pp[key] = pp[key] * f()
    return q


def combine_excitations(p1, p2, a, b):
    q = copy.deepcopy(p1)
    for lst, keys in (("blockprops", EXC_BLOCK), ("circuits", ("amps_re",)), ("bdryprops", EXC_BDRY), ("pointprops", EXC_POINT)):
        for x, y, z in zip(q.get(lst, []), p1.get(lst, []), p2.get(lst, [])):
            for key in keys:
                if key in y:
                    x[key] = a * y[key] + b * z[key]
    return q


def gen_base(ctx, rng, k, name, size):
    """nonlinear static base problem: xnl's generator without series circuits; LamType 0 (now and then on edge: the dependent run
    must exit), tables scaled into the curved part by a pre-run"""
    units = femgen.UNITS[k % 6] if k % 3 != 0 else "centimeters"
    on_edge = (k % 9 == 7)
    boxes = [["jblock"], ["coil"], ["jblock", "iron"], ["coil", "magnet"], ["jblock", "jblock"]][k % 5]
    force = dict(all_nl=(k % 4 != 3), c05=dict(units=units, coil_mode=rng.choice(["parallel", "separate"]), boxes=boxes))
    if not on_edge:
        force.update(lamtype=0, lamfill=rng.choice([1.0, 1.0, 0.9]))
    else:
        force.update(lamtype=rng.choice([1, 2]), lamfill=0.9)
    p = xnl.gen_nl_problem(rng, 0, size_nodes=size, force=force)
    if p["nl_blocks"]:
        d, _, msg = xnl.run_case(ctx, name + "pre", p, solver=False)
        if d is not None and d["passes"] and not d["fail"]:
            xnl.scale_tables(p, d, rng)
    p["on_edge"] = on_edge and any(b.get("bh") and b.get("lamtype", 0) > 0 for b in p["blockprops"])
    return p


# ------------------------------------------------------------------------------ runs ----
def parse_dump(path):
    d = xnl.parse_dump(path)
    d.update(aprev=[], prevb={}, incr={}, precomp=None, jprev=None)
    for line in open(path):
        t = line.split()
        if not t:
            continue
        if t[0] == "APREV":
            d["aprev"] = [float(x) for x in t[1:]]
        elif t[0] == "PREVB":
            d["prevb"][int(t[1])] = (float(t[2]), float(t[3]))
        elif t[0] == "INCR":
            d["incr"][int(t[1])] = (float(t[2]), float(t[3]))
        elif t[0] == "PRECOMP":
            d["precomp"] = int(t[1])
        elif t[0] == "JPREV":
            d["jprev"] = [float(x) for x in t[1:]]
    return d


def solve_base(ctx, name, p):
    """fmesher + the real fsolver binary on a problem without previous solution; returns (path of .ans, parsed .ans, message)"""
    f = os.path.join(ctx.work, name + ".fem")
    c05_gen.write(p, f)
    rc, out, err = vlib.sh([ctx.snap.tool("fmesher"), f], timeout=120)
    if rc != 0:
        return None, None, "fmesher failed (rc=%d): %s" % (rc, (out + err)[-200:])
    rc, out, err = vlib.sh([ctx.snap.tool("fsolver"), f[:-4]], timeout=300)
    ansf = f[:-4] + ".ans"
    if rc != 0 or not os.path.exists(ansf):
        return None, None, "fsolver failed (rc=%d) on a well-formed nonlinear problem: %s" % (rc, (out + err)[-200:])
    return ansf, c05.parse_ans(ansf, False), None


def run_dep(ctx, name, p, ansf, ptype):
    """the dependent problem through the harness (real LoadProblemFile, real Static2D); returns (dump dict or None, message)"""
    exe = vlib.build_harness(ctx.snap, HARNESS, libs=("fsolver", "femm"))
    q = dict(p)
    q.update(prevsoln=ansf, prevtype=ptype, frequency=0.0)
    f = os.path.join(ctx.work, name + ".fem")
    xsol.write_fem(q, f)
    dump = f[:-4] + ".dump"
    if os.path.exists(dump):
        os.remove(dump)
    rc, out, err = vlib.sh([exe, f[:-4], dump, "3"], timeout=300)
    if not os.path.exists(dump):
        return None, "harness crashed (rc=%d): %s" % (rc, err[-300:])
    d = parse_dump(dump)
    d["rc"] = rc
    return d, None


def to_coq(d, inc):
    f = vlib.fhexs
    ap = "[%s]" % "; ".join(f(v) for v in d["aprev"])
    return "prev_run FA (%s FA) %s %s %d %s %d %s" % (VARIANT["lct"], c05.coq_problem(d), xnl.coq_mats(d), inc, ap, d["bw"], f(d["prec"]))


def compare(d, model):
    msys, mten, mcirc = model
    ps = d["passes"][0]
    sysv = []
    for i in range(d["nn"]):
        t = ps["rows"][i]
        sysv.append(float(len(t) // 2))
        sysv += [float(x) for x in t]
    sysv += ps["B"]
    ten = []
    for m in ps["emu"]:
        ten += [m[0], m[2], m[4]]
    side = []
    for (case, jre, jim, dvre, dvim) in d["circres"]:
        side += [float(case), jre, dvre]
    tot = nb = 0
    bad = None
    for name, a, b in (("assembled system (matrix rows + right-hand side)", sysv, msys),
                       ("element tensors (mu1, mu2, v12)", ten, mten), ("circuit results", side, mcirc)):
        if len(a) != len(b):
            bad = bad or "%s: different structure (%d vs %d numbers)" % (name, len(a), len(b))
            continue
        for idx, (x, y) in enumerate(zip(a, b)):
            tot += 1
            if vlib.ulp_diff(x, float(y)) == 0:
                nb += 1
            elif not vlib.close(x, float(y), 64, 1e-300):
                bad = bad or "%s differs at flat index %d: implementation %r, model %r" % (name, idx, x, float(y))
    return bad, tot, nb


def same_mesh(d, ans):
    """the mesh the dependent run holds is the mesh of the previous .ans (node order included)"""
    if len(ans["nodes"]) != d["nn"] or len(ans["elems"]) != d["ne"]:
        return False
    return all(tuple(e[0:3]) == tuple(a[0:3]) for e, a in zip(d["elems"], ans["elems"]))


def relnorm(x, y):
    return float(np.linalg.norm(np.array(x) - np.array(y)) / max(np.linalg.norm(np.array(y)), 1e-300))


def correspond(ctx):
    if not VARIANT:
        try:
            regen(ctx)
        except vlib.TranslateError:
            pass
    rng = ctx.rng
    nbase = 9 if ctx.quick() else 30
    limit = 90 if ctx.quick() else 300
    dis, exprs, cases, feats = [], [], [], {}
    stats = dict(base_problems=0, dependent_runs=0, exits_on_edge=0, frozen_reproduces=[], small_signal=[], superposition=[],
                 precomputations_done_by_harness=0, nonzero_v12=0, elements_with_tensor=0,
                 xprev2_recorded_not_enforced=[], source_variant=dict(VARIANT))
    cm_enforced = lambda p: p["units"] == "centimeters" or VARIANT["lct"] == "lenconv_cm"
    for k in range(nbase):
        size = rng.choice([14, 18, 24]) if ctx.quick() else rng.choice([25, 50, 100])
        p0 = gen_base(ctx, rng, k, "b%d" % k, size)
        p0.setdefault("features", [])
        ansf, ans0, msg = solve_base(ctx, "b%d" % k, p0)
        if msg:
            ctx.fail("previous-solution base problem: " + msg, problem=p0, signature="pipeline")
            continue
        stats["base_problems"] += 1
        A0 = np.array([n[2] for n in ans0["nodes"]])
        eps = 0.08
        for ptype in (1, 2):
            # dependent excitations: incremental -> eps times the base excitations (small-signal); frozen -> the base excitations
            p1 = scale_excitations(p0, eps if ptype == 1 else 1.0)
            p1["features"] = list(p0["features"]) + ["previous-solution", "prevtype%d" % ptype]
            for ft in p1["features"]:
                feats[ft] = feats.get(ft, 0) + 1
            replay = dict(problem=p1, previous_problem=p0, prevtype=ptype)
            d, msg = run_dep(ctx, "d%d_%d" % (k, ptype), p1, ansf, ptype)
            stats["dependent_runs"] += 1
            if msg:
                ctx.fail("dependent problem (PrevType %d): %s" % (ptype, msg), signature="pipeline", **replay)
                continue
            stats["precomputations_done_by_harness"] += d["precomp"] or 0
            if p0["on_edge"]:
                # the C++ prints "On-edge Lam Types not yet supported" and exit(0)s inside Static2D
                if d.get("solved") or d["passes"] or d["rc"] != 0:
                    ctx.fail("dependent problem with a nonlinear block laminated on edge: Static2D did not exit(0) as the code says "
                             "(rc=%d, passes=%d)" % (d["rc"], len(d["passes"])), signature="on-edge-exit", **replay)
                stats["exits_on_edge"] += 1
                exprs.append("match asmMprev FA (%s FA) %s %s %d [] 0 %s with None => true | Some _ => false end" % (VARIANT["lct"], c05.coq_problem(d), xnl.coq_mats(d), ptype, vlib.fhexs(d["prec"])))
                cases.append((p1, d, "exit"))
                continue
            if d["fail"] or d["rc"] != 0 or not d.get("solved") or len(d["passes"]) != 1:
                ctx.fail("dependent problem (PrevType %d): the real LoadProblemFile / Static2D failed or did not make exactly one pass "
                         "(%s rc=%d passes=%d)" % (ptype, d["fail"], d["rc"], len(d["passes"])), signature="pipeline", **replay)
                continue
            if not same_mesh(d, ans0) or d["prev"] != (1, ptype) or len(d["aprev"]) != d["nn"]:
                ctx.fail("dependent problem: mesh / Aprev held after FSolver::loadPreviousSolution are not those of the previous .ans",
                         signature="prev-mesh", **replay)
                continue
            if [float(a) for a in d["aprev"]] != [float(n[2]) for n in ans0["nodes"]]:
                ctx.fail("dependent problem: FSolver::Aprev differs from the potentials printed in the previous .ans", signature="aprev", **replay)
                continue
            ps = d["passes"][0]
            nlb = [i for i, e in enumerate(d["elems"]) if d["blocks"][e[6]]["BHpoints"] > 0]
            stats["elements_with_tensor"] += len(nlb)
            stats["nonzero_v12"] += sum(1 for i in nlb if ps["emu"][i][4] != 0)
            if d["nn"] <= limit:
                exprs.append(to_coq(d, ptype))
                cases.append((p1, d, ptype))
            dA = np.array(d["BFINAL"])          # L.b = V*c after Static2D: the potentials WriteStatic2D would print
            enforce = cm_enforced(p0)
            if ptype == 2:
                # frozen permeability + the excitations of the previous run = the previous run's converged secant system
                r = relnorm(dA, A0)
                stats["frozen_reproduces"].append(dict(units=p0["units"], rel=r))
                if not r <= 2e-5:
                    what = ("frozen permeability with the excitations of the previous run does not reproduce the previous solution "
                            "(relative difference %.3g, units %s)" % (r, p0["units"]))
                    if enforce:
                        ctx.fail(what, signature="frozen-reproduces", **replay)
                    else:
                        stats["xprev2_recorded_not_enforced"].append(what)
            else:
                # small-signal: two real nonlinear runs at S(1+eps), S(1+eps/2) against eps * (incremental solution for S)
                rels = []
                for j, e in enumerate((eps, eps / 2)):
                    pf = scale_excitations(p0, 1.0 + e)
                    _, ansf_, m2 = solve_base(ctx, "f%d_%d" % (k, j), pf)
                    if m2 or [n[:2] for n in ansf_["nodes"]] != [n[:2] for n in ans0["nodes"]]:
                        rels = None
                        break
                    Af = np.array([n[2] for n in ansf_["nodes"]])
                    full = Af - A0
                    inc = dA * (e / eps)
                    rels.append((float(np.linalg.norm(full - inc)), float(np.linalg.norm(full))))
                if rels:
                    r1 = rels[0][0] / max(rels[0][1], 1e-300)
                    r2 = rels[1][0] / max(rels[1][1], 1e-300)
                    noise = 2e-6 * float(np.linalg.norm(A0)) / max(rels[1][1], 1e-300)
                    ok = (r1 <= 0.35) and (r2 <= 0.7 * r1 + noise)
                    stats["small_signal"].append(dict(units=p0["units"], rel_eps=r1, rel_half=r2, ok=ok))
                    if not ok:
                        what = ("small-signal check: (nonlinear solution at S+dS) - (solution at S) and the incremental-permeability "
                                "solution for dS do not agree to first order: relative deviation %.3g at dS = %.2g S, %.3g at half "
                                "of it (units %s)" % (r1, eps, r2, p0["units"]))
                        if enforce:
                            ctx.fail(what, signature="small-signal", **replay)
                        else:
                            stats["xprev2_recorded_not_enforced"].append(what)
                # superposition of two perturbations on the identical mesh (C11)
                pa = scale_excitations(p0, 0.05, [1.0, -0.5, 2.0])
                pb = scale_excitations(p0, 0.03, [-1.0, 1.5, 0.25, 0.5])
                a, b = 2.0, -3.0
                pc = combine_excitations(pa, pb, a, b)
                sols = []
                for nm, q in (("sa", pa), ("sb", pb), ("sc", pc)):
                    dq, m2 = run_dep(ctx, "%s%d" % (nm, k), q, ansf, 1)
                    if m2 or not dq.get("solved"):
                        sols = None
                        break
                    sols.append((np.array(dq["BFINAL"]), dq))
                if sols:
                    r = relnorm(sols[2][0], a * sols[0][0] + b * sols[1][0])
                    same = all(s[1]["passes"][0]["rows"] == sols[0][1]["passes"][0]["rows"] for s in sols)
                    stats["superposition"].append(dict(rel=r, same_matrix=same))
                    if not same:
                        ctx.fail("incremental problem: the assembled MATRIX depends on the new excitations (differs between runs on the "
                                 "same previous solution)", signature="matrix-depends-on-excitations", problem=pc, previous_problem=p0)
                    if not r <= 1e-6:
                        ctx.fail("incremental problem: solutions do not superpose: A(2 S1 - 3 S2) vs 2 A(S1) - 3 A(S2) differ by %.3g "
                                 "(relative)" % r, signature="superposition", problem=pc, previous_problem=p0)
    model = vlib.coq_eval(HEADER, exprs, shard=2, timeout=2400) if exprs else []
    tot = nb = 0
    for (p, d, kind), m in zip(cases, model):
        if kind == "exit":
            if m is not True:
                dis.append(dict(what="model does not say 'exits' for a dependent problem with a nonlinear block laminated on edge", problem=p))
            continue
        bad, t, b = compare(d, m)
        tot += t
        nb += b
        if bad:
            dis.append(dict(what="fsolver correspondence (Static2D with a previous solution, PrevType %d): %s" % (kind, bad), problem=p))
    stats["xprev1_probe"] = probe_xprev1(ctx)
    cov = ctx.res.cov
    cov["evaluations"] = stats["dependent_runs"] + stats["base_problems"] + 2 * len(stats["small_signal"]) + 3 * len(stats["superposition"])
    cov["distinct_nontrivial"] = len(set(json.dumps(c[0], sort_keys=True, default=str) for c in cases if c[2] != "exit"))
    cov["rule"] = ("seeded nonlinear static base problems (xnl generator: c05_gen rectangle with interface and boxes, coils in parallel / "
                   "separate circuits, magnets, source current, mixed / prescribed boundaries, all six length units, B-H tables of "
                   "c19.gen_table on the iron scaled into the curved part, LamType 0 with fill 1 / 0.9, every ninth laminated on edge) "
                   "-> real fmesher + real fsolver; dependent problems on that .ans with PrevType 1 (excitations 0.08 x base) and "
                   "PrevType 2 (base excitations) through the real LoadProblemFile + Static2D in the harness; model evaluated on "
                   "meshes up to %d nodes; non-trivial = solved dependent problem with at least one element tensor from the "
                   "previous flux density" % limit)
    cov["input_distribution"] = feats
    cov["samples"] = [dict(features=c[0]["features"], nodes=c[1]["nn"], elements=c[1]["ne"], prevtype=c[2]) for c in cases[:3]]
    cov["values_compared"] = tot
    cov["bit_identical"] = nb
    cov["bit_identical_fraction"] = (nb / tot) if tot else None
    cov["previous_solution"] = stats
    cov["oracle"] = ("frozen permeability + base excitations reproduces the base solution; small-signal first-order agreement against "
                     "two runs of the real nonlinear fsolver; superposition of dependent runs; all on the vector the real PCGSolve "
                     "returns inside the real Static2D")
    return dis


def probe_xprev1(ctx):
    """findings/XPREV-1 on the fsolver BINARY: a time-harmonic dependent problem with a B-H material.  Coverage only, keyed on the
    source variant (the unchanged LoadProblemFile returns right after loadPreviousSolution)."""
    p = xnl.gen_nl_problem(vlib.Rng(5), 0, size_nodes=20,
                           force=dict(kinds=["knee"], all_nl=True, lamtype=0, lamfill=1.0, c05=dict(boxes=["jblock"], units="centimeters")))
    ansf, ans, msg = solve_base(ctx, "probe1", p)
    out = dict(source_returns_after_loadPreviousSolution=VARIANT.get("xprev1"))
    if msg:
        out["error"] = msg
        return out
    q = dict(p)
    q.update(prevsoln=ansf, prevtype=1, frequency=60.0)
    f = os.path.join(ctx.work, "probe1dep.fem")
    xsol.write_fem(q, f)
    rc, so, se = vlib.sh([ctx.snap.tool("fsolver"), f[:-4]], timeout=300)
    out["fsolver_exit_status_harmonic_incremental_with_BH_material"] = rc
    if rc != 0 and not VARIANT.get("xprev1"):
        ctx.fail("XPREV-1 regression: fsolver fails (exit status %d) on a time-harmonic incremental-permeability problem with a B-H "
                 "material although LoadProblemFile no longer returns before the material precomputations" % rc,
                 signature="XPREV-1", problem=q, previous_problem=p)
    return out


def search(ctx, broken):
    return []
