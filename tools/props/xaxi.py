"""XAXI — the axisymmetric magnetics solvers (temporary id; the theorems are grouped by the property
they belong to: C05, C06, C10, C11).
Models: coq/theories/AsmMAxi.v (FSolver::StaticAxisymmetric linear path; WriteStatic2D label lines and
the written flux 2 pi r A), AsmMHAxi.v (FSolver::HarmonicAxisymmetric linear path; WriteHarmonic2D);
theorems: Properties_C05_axi.v, Properties_C06_axi.v, Properties_C10_axi.v, Properties_C11_axi.v.  Correspondence: generated axisymmetric .fem problems -> real fmesher ->
harness h_fsolver_axi (real LoadProblemFile / LoadMesh / Cuthill / StaticAxisymmetric or
HarmonicAxisymmetric) dumps the solver's data, the libm values (cos/sin, logarithms, complex exp / tanh)
and the assembled system; the float reading of the models must reproduce matrix, right-hand side,
circuit results, written label lines, wound flags, element permeabilities and the written potentials
bit for bit.  Property oracle: an independent SI-unit numpy assembly of the axisymmetric equations
(FEMM's modified-potential discretisation re-derived in SI: u = r A affine in (r^2, z), mid-side radii
on edges, the 1/r mean of an element taken from the exact contour integral of ln r dz) checked on the
potentials and circuit lines the REAL fsolver binary writes to the .ans file."""
import os, math, json, cmath
import numpy as np
import vlib, femgen
from femgen import Builder, UNITS, mesh_diameter
from props import c05, c05_gen

LEVEL = "proof"
COQ_MODULES = ["AsmMAxi", "AsmMHAxi"]
ASSUMPTIONS = [
    "theorems are about the real-number reading (pairs of reals for the harmonic model); rounding is not bounded",
    "linear materials only (BHpoints = 0): the Newton / successive-approximation branches, previous-solution (incremental / "
    "frozen permeability) runs, polar boundary coordinates, ACSolver = 1 and small-skin-depth boundaries (BdryFormat 1) are "
    "neither modelled nor generated",
    "Triangle, the file readers and Cuthill-McKee renumbering are not modelled: the models start from the solver's in-memory "
    "mesh after LoadMesh+Cuthill (dumped by the harness)",
    "libm values (cos/sin of the magnetisation direction incl. Lua-expression directions, cos(phi*DEG), the six logarithms per "
    "element of the R_hat formulas, complex exp / tanh of the lamination formulas, ProximityMu of wire-type blocks) are inputs "
    "of the models, recomputed by the harness with the solver's expressions",
    "the assembled right-hand side is captured by the harness when the linear solver announces itself on stdout, because the "
    "solvers overwrite L.b with the flux 2 pi r A afterwards",
    "the linear solve itself is C09's subject; here the written potentials are checked against an independent assembly",
]
HEADER = ("From Coq Require Import ZArith List Floats. Import ListNotations. "
          "From XF Require Import Arith Sparse CSparse AsmE AsmM AsmMH AsmMAxi AsmMHAxi.")
MU0 = 4e-7 * math.pi
HARNESS = "h_fsolver_axi"


# ------------------------------------------------------------------------- generator ----
def gen_problem(rng, harmonic=False, size_nodes=40, force=None):
    """Seeded well-formed axisymmetric magnetics problem: rectangle [x0,x1] x [y0,y1] with x0 = 0 (the left
    side is the axis) or x0 > 0, optional vertical material interface (the right part optionally the
    conformally mapped exterior region), a box NEXT TO THE AXIS (sharing the left side) and a free-standing
    box: coils (wound, series / parallel circuits, turns), solid conductors, wire-type blocks (LamType 3..6),
    blocks with source current density, anisotropic / laminated iron (LamType 0,1,2, fill factors), permanent
    magnets (constant and Lua-expression directions); point current / prescribed-A point; boundary types 0
    (A0 + A1 r + A2 z, phase), 2 (mixed), periodic / antiperiodic bottom-top pairs; all six length units."""
    force = force or {}
    B = Builder("fem")
    p = B.p
    p["problemtype"] = "axisymmetric"
    p["units"] = force.get("units") or rng.choice(UNITS)
    p["depth"] = 1.0
    p["precision"] = 1e-8
    p["minangle"] = rng.choice([20, 25, 30])
    p["dosmartmesh"] = force.get("dosmartmesh", 0 if rng.random() < 0.85 else 1)
    p["frequency"] = rng.choice([50.0, 400.0, 1000.0, 10.0]) if harmonic else 0.0
    W = rng.choice([1.0, 2.0, 3.0, 4.0])
    H = rng.choice([1.0, 1.5, 2.0, 3.0])
    x0 = force.get("x0", rng.choice([0.0, 0.0, 0.0, 0.5, 1.0]))
    y0 = rng.choice([-1.0, 0.0, 0.5])
    x1, y1 = x0 + W, y0 + H
    feats = ["harmonic" if harmonic else "static", p["units"], "touches-axis" if x0 == 0.0 else "off-axis"]

    # ---- materials --------------------------------------------------------------------
    def iron(name):
        mux = rng.choice([2.0, 50.0, 1000.0, 7.5])
        muy = mux if rng.random() < 0.4 else rng.choice([1.0, 3.0, 200.0, 1500.0])
        lt = 0 if harmonic else rng.choice([0, 0, 1, 2])
        fill = rng.choice([1.0, 0.9, 0.5, 0.96])
        kw = dict(name=name, mu_x=mux, mu_y=muy, lamtype=lt, lamfill=fill)
        if harmonic:
            kw.update(sigma=rng.choice([0.0, 1.0, 5.0]), d_lam=rng.choice([0.0, 0.0, 0.5, 0.35]),
                      phi_hx=rng.choice([0.0, 10.0, 20.0]), phi_hy=rng.choice([0.0, 0.0, 15.0]))
            if kw["d_lam"] == 0.0 and not force.get("fill_without_dlam"):
                kw["lamfill"] = 1.0          # the harmonic solvers ignore LamFill when d_lam = 0 (findings/C05-2)
        kw.update(force.get("iron", {}))
        feats.append("iron:lam%d%s%s" % (kw["lamtype"], ":aniso" if kw["mu_x"] != kw["mu_y"] else "", ":fill" if kw["lamfill"] != 1.0 else ""))
        return B.prop("blockprops", **kw)

    def magnet(name):
        feats.append("magnet")
        return B.prop("blockprops", name=name, mu_x=1.05, mu_y=rng.choice([1.05, 1.2]), H_c=rng.choice([1e5, 9.79e5, 5e4]),
                      sigma=(0.667 if harmonic else 0.0))

    def copper(name, sigma=None, J=None):
        s = rng.choice([0.0, 58.0, 10.0]) if sigma is None else sigma
        jr = rng.choice([0.0, 0.0, 1.0, -2.5]) if J is None else J
        return B.prop("blockprops", name=name, mu_x=1.0, mu_y=1.0, sigma=s, J_re=jr,
                      J_im=(rng.choice([0.0, 0.5, -1.0]) if harmonic and jr != 0 else 0.0))

    def wire(name):
        lt = rng.choice([3, 4, 5, 6])
        feats.append("wire:lam%d" % lt)
        return B.prop("blockprops", name=name, mu_x=1.0, mu_y=1.0, sigma=rng.choice([58.0, 35.0]), lamtype=lt,
                      nstrands=(1 if lt in (3, 6) else rng.choice([7, 19])), wired=rng.choice([0.5, 1.0, 0.25]))

    m_air = B.prop("blockprops", name="air", mu_x=1.0, mu_y=1.0)
    two = force.get("two", rng.random() < 0.5)
    m_main = m_air if (rng.random() < 0.6 and not force.get("main_iron")) else iron("ironA")
    m_second = (iron("ironB") if m_main == m_air or rng.random() < 0.5 else m_air) if two else None
    external = two and force.get("external", rng.random() < 0.3)

    # ---- boundary properties ----------------------------------------------------------
    bd = {}
    bd["A0"] = B.prop("bdryprops", name="A0", type=0, A_0=rng.choice([0.0, 0.0, 1e-3, -2e-4]))
    bd["Axy"] = B.prop("bdryprops", name="Axy", type=0, A_0=rng.choice([0.0, 5e-4]), A_1=rng.choice([1e-3, -2e-3, 1e-4]),
                       A_2=rng.choice([0.0, 5e-4, -1e-3]), Phi=rng.choice([0.0, 0.0, 30.0, 90.0, -45.0]))
    c0 = rng.choice([1e5, 1e6, 3e6, 1e7])
    bd["mixed"] = B.prop("bdryprops", name="mixed", type=2, c0=c0, c1=rng.choice([0.0, 100.0, -50.0]),
                         c0i=(rng.choice([0.0, c0 / 4]) if harmonic else 0.0), c1i=(rng.choice([0.0, 20.0]) if harmonic else 0.0))
    pbc = (not two) and force.get("pbc", rng.random() < 0.15)
    anti = rng.random() < 0.5
    fam = rng.choice(["A0", "Axy"])
    if pbc:
        # bottom and top tied: a prescribed A on the right / left side must agree with the tie at the corners,
        # so only the constant property is used, and the value 0 for antiperiodic pairs
        bd["per"] = B.prop("bdryprops", name="per", type=5 if anti else 4)
        fam = "A0"
        if anti:
            p["bdryprops"][bd["A0"] - 1]["A_0"] = 0.0
        picked = ["per", rng.choice([fam, "mixed"]), "per", rng.choice([fam, "mixed", None])]
        if picked[1] != fam and picked[3] != fam:
            picked[1] = fam
        feats.append("antiperiodic" if anti else "periodic")
    else:
        # one prescribed-A property per problem, so that sides meeting at a corner agree there (findings/C05-3)
        choices = [fam, fam, "mixed", None]
        picked = [rng.choice(choices) for _ in range(4)]
        if not any(c in ("A0", "Axy") for c in picked[:3]):
            picked[rng.randrange(3)] = fam
    if x0 == 0.0:
        picked[3] = None                     # the axis carries no boundary condition
    sides = {nm: (dict(bdry=bd[c]) if c else {}) for nm, c in zip("brtl", picked)}
    feats += ["side:" + (c or "none") for c in picked]

    target = W * H / max(size_nodes, 8) * 1.3
    d = mesh_diameter(target)

    # ---- circuits ---------------------------------------------------------------------
    def amps():
        return dict(amps_re=rng.choice([1.0, 10.0, -3.0, 250.0]), amps_im=(rng.choice([0.0, 2.0, -1.0]) if harmonic else 0.0))
    c_par = B.prop("circuits", name="par", type=0, **amps())
    c_ser = B.prop("circuits", name="ser", type=1, **amps())
    c_par2 = B.prop("circuits", name="par2", type=0, **amps())

    # ---- outline: the left side is split where the box next to the axis (or next to the inner radius) sits ----
    kinds = force.get("boxes")
    if kinds is None:
        pool = ["coil", "coil", "solid", "solid", "jblock", "iron", "wire"] + ([] if harmonic else ["magnet", "magnet"])
        r = rng.random()
        k0 = rng.choice(["solid", "coil", "solid", "wire", "jblock", "iron"] + ([] if harmonic else ["magnet"])) if r < 0.8 else None
        k1 = rng.choice(pool) if rng.random() < 0.6 else None
        if k0 and k1 and rng.random() < 0.25:
            k0 = k1 = "coil"
        kinds = [k0, k1]
    xa = x0 + W * 0.25
    ya, yb = y0 + H * 0.25, y0 + H * 0.5
    P00 = B.point(x0, y0); P10 = B.point(x1, y0); P11 = B.point(x1, y1); P01 = B.point(x0, y1)
    xm = x0 + W * 0.45
    if two:
        Mb = B.point(xm, y0); Mt = B.point(xm, y1)
        B.seg(P00, Mb, **sides["b"]); B.seg(Mb, P10, **sides["b"])
    else:
        B.seg(P00, P10, **sides["b"])
    B.seg(P10, P11, **sides["r"])
    if two:
        B.seg(P11, Mt, **sides["t"]); B.seg(Mt, P01, **sides["t"])
        B.seg(Mb, Mt)
    else:
        B.seg(P11, P01, **sides["t"])
    if kinds[0]:
        La = B.point(x0, ya); Lb = B.point(x0, yb); Ia = B.point(xa, ya); Ib = B.point(xa, yb)
        B.seg(P01, Lb, **sides["l"]); B.seg(Lb, La, **sides["l"]); B.seg(La, P00, **sides["l"])
        B.seg(La, Ia); B.seg(Ia, Ib); B.seg(Ib, Lb)
    else:
        B.seg(P01, P00, **sides["l"])
    if two:
        B.label(x0 + W * 0.07, y0 + H * 0.12, m_main, maxarea=d)
        B.label(x0 + W * 0.93, y0 + H * 0.9, m_second, maxarea=d, external=(1 if external else 0))
        feats.append("interface")
        if external:
            p["extRo"] = rng.choice([2.0, 5.0]) * W
            p["extRi"] = rng.choice([1.0, 0.5]) * W
            p["extZo"] = rng.choice([0.0, y0 + H / 2])
            feats.append("external-region")
    else:
        B.label(x0 + W * 0.07, y0 + H * 0.12, m_main, maxarea=d)

    # ---- boxes ------------------------------------------------------------------------
    boxes = [(x0, ya, xa, yb), (x0 + W * 0.55, y0 + H * 0.55, x0 + W * 0.8, y0 + H * 0.8)]
    coil_mode = force.get("coil_mode") or rng.choice(["series", "series", "parallel", "separate"])
    ncoil = 0
    src = False
    for k, kind in enumerate(kinds):
        if not kind:
            continue
        bx0, by0, bx1, by1 = boxes[k]
        if k == 1:
            B.rect(bx0, by0, bx1, by1)
        cx, cy = (bx0 + bx1) / 2, (by0 + by1) / 2
        lab = dict(maxarea=d / 1.4)
        where = "axis" if (k == 0 and x0 == 0.0) else ("inner" if k == 0 else "free")
        if kind == "coil":
            turns = rng.choice([1, 5, 100, 20])
            sig = force.get("coil_sigma", rng.choice([0.0, 58.0]))
            cj = force.get("coil_J")
            if coil_mode == "series":
                m = copper("coil%d" % k, sigma=sig, J=(rng.choice([0.0, 0.0, 0.5]) if cj is None else cj))
                lab.update(circuit=c_ser, turns=turns if ncoil == 0 else -turns)
                feats.append("coil:series:turns%s:%s" % ("1" if turns == 1 else "N", where))
            elif coil_mode == "parallel":
                m = copper("coil%d" % k, sigma=(rng.choice([0.0, 58.0, 10.0]) if ncoil == 0 else sig) if "coil_sigma" not in force else sig,
                           J=(rng.choice([0.0, 1.0]) if cj is None else cj))
                lab.update(circuit=c_par, turns=1)
                feats.append("coil:parallel:" + where)
            else:
                m = copper("coil%d" % k, sigma=sig, J=0.0)
                lab.update(circuit=c_par if ncoil == 0 else c_par2, turns=rng.choice([1, turns]))
                feats.append("coil:separate:" + where)
            ncoil += 1; src = True
        elif kind == "solid":
            m = copper("solid%d" % k, sigma=rng.choice([58.0, 10.0]), J=0.0)
            lab.update(circuit=c_par2 if ncoil else c_par, turns=1)
            feats.append("solid-conductor:" + where)
            ncoil += 1; src = True
        elif kind == "wire":
            m = wire("wire%d" % k)
            lab.update(circuit=c_par2 if ncoil else c_par, turns=rng.choice([1, 10, 50]))
            feats[-1] += ":" + where
            ncoil += 1; src = True
        elif kind == "jblock":
            m = copper("jblk%d" % k, sigma=(rng.choice([0.0, 58.0]) if harmonic else 0.0), J=rng.choice([1.0, -2.5, 0.3]))
            feats.append("jblock:" + where); src = True
        elif kind == "iron":
            m = iron("ironbox%d" % k)
        else:
            m = magnet("mag%d" % k)
            src = True
            if rng.random() < 0.4:
                lab.update(magdirfctn=rng.choice(c05_gen.MAGFCTNS))
                feats.append("magdir:lua")
            else:
                lab.update(magdir=rng.choice([0.0, 90.0, 30.0, 135.0, -60.0, 45.5, 180.0]))
                feats.append("magdir:const")
        B.label(cx, cy, m, **lab)

    # ---- points -----------------------------------------------------------------------
    used = [c for c in picked if c and c != "per"]
    for c in used:
        bp = p["bdryprops"][bd[c] - 1]
        src = src or any(bp.get(kk, 0.0) != 0 for kk in ("A_0", "A_1", "A_2", "c1", "c1i"))
    r = rng.random()
    px, py = x0 + W * 0.3, y0 + H * 0.85
    if not src or r < 0.25:
        # a problem without any source has the zero solution (the complex solver turns a zero right-hand
        # side into NaN, findings/C05-4), so random problems always get a source
        pp = B.prop("pointprops", name="ptI", I_re=rng.choice([1.0, -5.0, 20.0]), I_im=(rng.choice([0.0, 1.0]) if harmonic and src else 0.0))
        feats.append("point-current")
        B.point(px, py, prop=pp)
    elif r < 0.45:
        pp = B.prop("pointprops", name="ptA", A_re=rng.choice([0.0, 1e-3, -5e-4]), A_im=(rng.choice([0.0, 2e-4]) if harmonic else 0.0))
        feats.append("point-A")
        B.point(px, py, prop=pp)
    p["features"] = feats
    return p


STRATA = {   # k mod 12 -> forced configuration
    1: dict(x0=0.0, boxes=["solid", "coil"], coil_mode="parallel", coil_sigma=58.0, coil_J=1.0),   # Case 0 with CircInt3 <> 0, solid on the axis
    2: dict(x0=0.0, boxes=["coil", "coil"], coil_mode="parallel", coil_sigma=0.0, coil_J=1.0),     # Case 1 with CircInt3 <> 0
    3: dict(x0=0.0, boxes=["coil", "coil"], coil_mode="series", coil_sigma=58.0, coil_J=0.0),
    4: dict(x0=0.5, boxes=["solid", "wire"]),
    5: dict(x0=0.0, boxes=["magnet", "iron"], two=True, external=True),
    6: dict(x0=0.0, boxes=["wire", "jblock"]),
    7: dict(x0=0.0, boxes=["iron", "magnet"], main_iron=True),
    9: dict(x0=0.0, boxes=["wire", "solid"]),                                                   # harmonic: ProximityMu, Case 2
    11: dict(x0=0.0, boxes=["solid", "coil"], coil_mode="parallel", coil_sigma=10.0, coil_J=0.5),  # harmonic: Case 2 next to the axis
}


def gen(rng, quick, k):
    size = rng.choice([16, 24, 36]) if quick else rng.choice([30, 80, 200])
    force = dict(STRATA.get(k % 12, {}))
    if k % 6 == 5:
        force["units"] = "microns"
    return gen_problem(rng, harmonic=(HARMONIC and k % 2 == 1), size_nodes=size, force=force)


HARMONIC = True


# ---------------------------------------------------------------------------- dump ----
def parse_dump(path):
    d = c05.parse_dump(path)
    d["logs"] = []
    d["ext"] = (0.0, 0.0, 0.0)
    d["labext"] = []
    for line in open(path):
        t = line.split()
        if not t:
            continue
        if t[0] == "EXT":
            d["ext"] = tuple(float(x) for x in t[1:4])
        elif t[0] == "ELEM":
            d["logs"].append(tuple(float(x) for x in t[12:18]))
        elif t[0] == "LABEL":
            d["labext"].append(int(t[9]))
    return d


def coq_aprob(d):
    f = vlib.fhexs
    logs = "; ".join("mkALogs (%s, %s, %s) (%s, %s, %s)" % tuple(f(x) for x in l) for l in d["logs"])
    ext = "; ".join("true" if e else "false" for e in d["labext"])
    return "(mkAProb %s [%s] [%s] %s %s %s)" % (c05.coq_problem(d), logs, ext, f(d["ext"][0]), f(d["ext"][1]), f(d["ext"][2]))


def to_coq_static(d):
    f = vlib.fhexs
    V = "[%s]" % "; ".join(f(v) for v in d["V"])
    return ("let AP := %s in let r := asmMAxi FA AP %d %s in "
            "(dump_rows FA (lM (fst r)) ++ lb (fst r), aside_outputs FA AP (snd r), written_flux FA (ap AP) %s)"
            % (coq_aprob(d), d["bw"], f(d["prec"]), V))


def to_coq_harmonic(d):
    f = vlib.fhexs
    cpx = c05.cpx
    X = "[%s]" % "; ".join("mkHExp %s %s %s %s %s %s" % tuple(cpx(b[k]) for k in ("ex", "ey", "hx", "hy", "tx", "ty"))
                           for b in d["blocks"])
    PM = "[%s]" % "; ".join(cpx(l["proxmu"]) for l in d["labels"])
    V = d["V"]
    Vc = "[%s]" % "; ".join(cpx((V[2 * i], V[2 * i + 1])) for i in range(len(V) // 2))
    return ("let AP := %s in let X := %s in let PM := %s in let fr := %s in let r := asmMHAxi FA AP X PM fr %d %s in "
            "let bf := hawritten FA (ap AP) fr %s in "
            "(cdump_rows FA (CSparse.cM (fst r)) ++ flat (cb (fst r)), haside_outputs FA AP X PM fr (snd r) bf, flat bf)"
            % (coq_aprob(d), X, PM, f(d["freq"]), d["bw"], f(d["prec"]), Vc))


impl_static = c05.impl_static
impl_harmonic = c05.impl_harmonic


# ---------------------------------------------------- independent SI assembly (oracle) ----
def inv_r_integral(P):
    """exact integral of 1/r over the triangle P (counter-clockwise, r >= 0) by Green's theorem:
    the contour integral of ln r dz"""
    s = 0.0
    for i in range(3):
        (ra, za), (rb, zb) = P[i], P[(i + 1) % 3]
        if za == zb:
            continue
        f = lambda r: r * math.log(r) if r > 0 else 0.0
        if abs(rb - ra) <= 1e-9 * max(abs(ra), abs(rb)):
            rm = 0.5 * (ra + rb)
            if rm <= 0:
                return math.inf
            m = math.log(rm)
        else:
            m = (f(rb) - f(ra)) / (rb - ra) - 1.0
        s += (zb - za) * m
    return s


def si_system(p, ans):
    """FEMM's axisymmetric discretisation of curl(nu curl A) + j w sigma A = J + curl Hc (A = A_theta), in SI
    units and divided by 2 pi, from the problem description and the mesh / circuit lines of the .ans file:
    within an element u = r A is affine in (r^2, z), so B_z = sum_j bz_j A_j with bz_j = p_j r_j / vol and
    B_r = -(1/r) sum_j br_j A_j with br_j = q_j g_j r_j / vol (vol = sum r_j^2 p_j / 2, g_j the mid-side radius
    opposite node j);  K_jk = (vol/2) bz_j bz_k nu_z + (vol / (2 R R_hat)) br_j br_k nu_r  with R the centroid
    radius and 1/R_hat the mean of 1/r over the element;  sources are lumped with the centroid radius, edge
    terms with the mid-side radius."""
    harm = p["frequency"] != 0
    w = 2 * math.pi * p["frequency"]
    um = femgen.UNIT_M[p["units"]]
    nn = len(ans["nodes"])
    XY = np.array([(n[0], n[1]) for n in ans["nodes"]])
    X = XY * um
    tol_axis = 1e-6
    onaxis = [abs(XY[i, 0]) < tol_axis for i in range(nn)]
    A = np.zeros(nn, dtype=complex)
    for i, n in enumerate(ans["nodes"]):
        # the file holds the flux 2 pi r A
        A[i] = 0.0 if onaxis[i] else n[2] / (2 * math.pi * X[i, 0])
    K = c05.Coo(nn)
    f = np.zeros(nn, dtype=complex)
    elcur = []
    for e in ans["elems"]:
        n = list(e[0:3]); lbl = e[3]
        lab = p["labels"][lbl]
        b = p["blockprops"][lab["block"] - 1]
        P = X[n]
        rn = P[:, 0]
        pp = np.array([P[1, 1] - P[2, 1], P[2, 1] - P[0, 1], P[0, 1] - P[1, 1]])
        qq = np.array([P[2, 0] - P[1, 0], P[0, 0] - P[2, 0], P[1, 0] - P[0, 0]])
        gm = np.array([(rn[2] + rn[1]) / 2, (rn[0] + rn[2]) / 2, (rn[1] + rn[0]) / 2])
        area = (pp[0] * qq[1] - pp[1] * qq[0]) / 2
        R = rn.sum() / 3
        vol = float(np.sum(rn * rn * pp)) / 2
        bz = pp * rn / vol
        br = qq * gm * rn / vol
        nax = sum(1 for j in n if onaxis[j])
        if nax >= 2:
            Rhat = R                 # 1/r is not integrable; the free node's br vanishes (q_j = 0)
        else:
            Rhat = area / inv_r_integral([(max(P[j, 0], 0.0) if not onaxis[n[j]] else 0.0, P[j, 1]) for j in range(3)])
        mux, muy = c05.eff_mu(b, w)
        if harm and b.get("lamtype", 0) > 2:
            mux = muy = complex(*ans["proxmu"][lbl]) if "proxmu" in ans else 1.0
        if lab.get("external", 0):
            cx, cy = XY[n].mean(axis=0)
            Z = cy - p["extZo"]
            kl = (cx * cx + Z * Z) * p["extRi"] / p["extRo"] ** 3
            mux, muy = mux / kl, muy / kl
        # mu1 = effective mu_r goes with B_r, mu2 = effective mu_z with B_z
        Ke = (vol / 2) * np.outer(bz, bz) / (MU0 * muy) + (vol / (2 * R * Rhat)) * np.outer(br, br) / (MU0 * mux)
        sig = b.get("sigma", 0.0) * 1e6
        wound = abs(lab.get("turns", 1)) > 1 or b.get("lamtype", 0) > 2
        sig_eddy = 0.0 if (not harm or wound or (b.get("lamtype", 0) == 0 and b.get("d_lam", 0.0) > 0)) else sig
        if harm:
            # induced current taken constant over the element (average of the nodal A): R a / 9 on every entry
            Ke = Ke + 1j * w * sig_eddy * R * area / 9.0 * np.ones((3, 3))
        flag, val = ans["labels"][lbl]
        Jb = complex(b.get("J_re", 0.0), b.get("J_im", 0.0) if harm else 0.0) * 1e6
        # (1, J): flat added density;  (0, dV): voltage gradient, J = -sigma dV / r  (fpproc.cpp GetJA)
        Jc = val * 1e6 if flag == 1 else -val * b.get("sigma", 0.0) * 1e6 / R
        Js = Jb + Jc
        for a_ in range(3):
            f[n[a_]] += Js * R * area / 3
            for b_ in range(3):
                K.add(n[a_], n[b_], Ke[a_, b_])
        if not harm and b.get("H_c", 0.0) != 0:
            cx, cy = XY[n].mean(axis=0)
            t = c05_gen.eval_magfctn(lab["magdirfctn"], cx, cy) if lab.get("magdirfctn") else lab.get("magdir", 0.0)
            hx, hy = b["H_c"] * math.cos(math.radians(t)), b["H_c"] * math.sin(math.radians(t))
            for j in range(3):
                k = (j + 1) % 3
                rm = (rn[j] + rn[k]) / 2
                v = rm * (hx * (P[k, 0] - P[j, 0]) + hy * (P[k, 1] - P[j, 1])) / 2
                f[n[j]] += v; f[n[k]] += v
        elcur.append((lbl, area, Js, sig_eddy, n, R))
    pts = [(q["x"], q["y"]) for q in p["points"]]
    size = max(max(abs(c) for c in q) for q in pts) + 1.0
    tol = 1e-9
    presc = {}
    bsegs = [(pts[s["n0"]], pts[s["n1"]], p["bdryprops"][s["bdry"] - 1]) for s in p["segments"] if s.get("bdry", 0) > 0]
    for (P0, P1, bp) in bsegs:
        if bp["type"] == 0:
            for i in range(nn):
                if not onaxis[i] and c05.on_segment(P0, P1, XY[i], tol):
                    a = bp.get("A_0", 0.0) + bp.get("A_1", 0.0) * XY[i, 0] + bp.get("A_2", 0.0) * XY[i, 1]
                    ph = math.radians(bp.get("Phi", 0.0))
                    presc.setdefault(i, []).append(a * cmath.exp(1j * ph) if harm else a * math.cos(ph))
    for e in ans["elems"]:
        n = list(e[0:3])
        for j in range(3):
            k = (j + 1) % 3
            for (P0, P1, bp) in bsegs:
                if bp["type"] == 2 and c05.on_segment(P0, P1, XY[n[j]], tol) and c05.on_segment(P0, P1, XY[n[k]], tol):
                    ln = math.hypot(*(X[n[k]] - X[n[j]]))
                    rm = (X[n[j], 0] + X[n[k], 0]) / 2
                    c0 = complex(bp.get("c0", 0.0), bp.get("c0i", 0.0) if harm else 0.0)
                    c1 = complex(bp.get("c1", 0.0), bp.get("c1i", 0.0) if harm else 0.0)
                    m = rm * c0 * ln / 6
                    K.add(n[j], n[j], 2 * m); K.add(n[k], n[k], 2 * m); K.add(n[j], n[k], m); K.add(n[k], n[j], m)
                    f[n[j]] -= rm * c1 * ln / 2; f[n[k]] -= rm * c1 * ln / 2
    for q in p["points"]:
        if q.get("prop", 0) > 0:
            pp_ = p["pointprops"][q["prop"] - 1]
            i = int(np.argmin(np.hypot(XY[:, 0] - q["x"], XY[:, 1] - q["y"])))
            if math.hypot(XY[i, 0] - q["x"], XY[i, 1] - q["y"]) > 1e-9 * size:
                return dict(error="no mesh node at the input point (%g, %g)" % (q["x"], q["y"]))
            cur = complex(pp_.get("I_re", 0.0), pp_.get("I_im", 0.0))
            if onaxis[i]:
                continue
            if cur == 0:
                presc.setdefault(i, []).append(complex(pp_.get("A_re", 0.0), pp_.get("A_im", 0.0) if harm else 0.0))
            else:
                f[i] += (cur if harm else cur.real) * X[i, 0]
    for i in range(nn):
        if onaxis[i]:
            presc[i] = [0.0]
    mag = K.absdot(np.abs(A)) + np.abs(f)
    return dict(K=K, f=f, presc=presc, A=A, elcur=elcur, mag=mag, harm=harm, w=w, onaxis=onaxis)


def oracle(p, ans):
    """None, or (message, signature) describing how the written solution violates the discrete axisymmetric equations"""
    S = si_system(p, ans)
    if "error" in S:
        return S["error"], "mesh"
    A, K, f, presc, mag = S["A"], S["K"], S["f"], S["presc"], S["mag"]
    nn = len(A)
    if not np.all(np.isfinite(A)):
        return "non-finite potentials in the solution", "nonfinite"
    for i, n in enumerate(ans["nodes"]):
        if S["onaxis"][i] and n[2] != 0:
            return "node %d is on the axis but the written flux is %r" % (i, n[2]), "axis-flux"
    scaleA = max(float(np.max(np.abs(A))), 1e-30)
    for i, vals in presc.items():
        if min(abs(A[i] - v) for v in vals) > 1e-6 * max(scaleA, max(abs(v) for v in vals)):
            return ("prescribed A not met at node %d: written %r, prescribed %r" % (i, A[i], vals)), "prescribed-A"
    r = K.dot(A) - f
    tied = {}
    for (i, j, t) in ans["pbcs"]:
        tied[i] = (j, t); tied[j] = (i, t)
    free = [i for i in range(nn) if i not in presc and i not in tied]
    # the solvers stop on |b - M V| / |b| over ALL rows; the rows of circuits whose voltage gradient is an extra
    # unknown (Case 2) carry 2*0.01*Amps, which dwarfs the node rows in fine length units
    tot = max(float(np.linalg.norm(list(mag) + list(ans.get("circ_rows", [])))), 1e-300)
    if free:
        rel = float(np.linalg.norm(r[free])) / tot
        if rel > 2e-6:
            worst = max(free, key=lambda i: abs(r[i]) / max(mag[i], 1e-300))
            return ("free-node residual of the axisymmetric curl(nu curl A) + j w sigma A = J + curl Hc is %.3g (relative); worst "
                    "node %d (|r|/mag = %.3g)" % (rel, worst, abs(r[worst]) / mag[worst])), "residual"
    for (i, j, t) in ans["pbcs"]:
        s = -1.0 if t == 1 else 1.0
        if abs(A[i] - s * A[j]) > 1e-6 * scaleA:
            return "%speriodic pair (%d, %d) has A = %r, %r" % ("anti" if t == 1 else "", i, j, A[i], A[j]), "pbc-values"
        if i not in presc and j not in presc:
            if abs(r[i] + s * r[j]) > 1e-5 * (mag[i] + mag[j]) + 1e-9 * tot:
                return "%speriodic pair (%d, %d): combined residual %.3g" % ("anti" if t == 1 else "", i, j, abs(r[i] + s * r[j])), "pbc-residual"
    for l, lab in enumerate(p["labels"]):
        if lab.get("circuit", 0) == 0 and ans["labels"][l] != (1, 0):
            return "label %d is in no circuit but the solution file says %r" % (l, ans["labels"][l]), "label-line"
    # circuit currents: integral of the total current density over the cross-section of the circuit's blocks
    for c, circ in enumerate(p["circuits"]):
        amps = complex(circ.get("amps_re", 0.0), circ.get("amps_im", 0.0) if S["harm"] else 0.0)
        groups = {}
        for l, lab in enumerate(p["labels"]):
            if lab.get("circuit", 0) == c + 1:
                groups.setdefault(l if circ.get("type", 1) == 1 else -1, []).append(l)
        for key, labs in groups.items():
            want = amps * (p["labels"][key].get("turns", 1) if key >= 0 else 1)
            got = 0.0; sc = abs(want)
            for (lbl, area, Js, sig_eddy, n, R) in S["elcur"]:
                if lbl in labs:
                    eddy = -1j * S["w"] * sig_eddy * area * (A[n[0]] + A[n[1]] + A[n[2]]) / 3
                    got += Js * area + eddy
                    sc += abs(Js * area) + abs(eddy)
            if abs(got - want) > 2e-6 * sc:
                what = "series circuit '%s', label %d" % (circ["name"], key) if key >= 0 else "parallel circuit '%s'" % circ["name"]
                return ("%s carries %s A instead of the prescribed %s A (total of the applied current density over its blocks)"
                        % (what, c05.fmtc(got), c05.fmtc(want))), "circuit-current"
    return None


# ------------------------------------------------------------------------ run cases ----
def parse_ans(path, harmonic):
    """the [Solution] section the real fsolver wrote: nodes (x, y in length units, flux), elements (the first four
    columns p0 p1 p2 lbl; later columns — edge markers, Jprev — are not used here), per-label circuit lines, PBCs"""
    L = open(path).read().split("\n")
    i = next(k for k, l in enumerate(L) if l.strip() == "[Solution]") + 1
    nn = int(L[i]); i += 1
    nodes = []
    for k in range(nn):
        t = L[i + k].split()
        if harmonic:
            nodes.append((float(t[0]), float(t[1]), complex(float(t[2]), float(t[3])), int(t[4])))
        else:
            nodes.append((float(t[0]), float(t[1]), float(t[2]), int(t[3])))
    i += nn
    ne = int(L[i]); i += 1
    elems = [tuple(int(x) for x in L[i + k].split()[:4]) for k in range(ne)]
    i += ne
    nl = int(L[i]); i += 1
    labels = []
    for k in range(nl):
        t = L[i + k].split()
        labels.append((int(t[0]), complex(float(t[1]), float(t[2])) if harmonic else float(t[1])))
    i += nl
    npbc = int(L[i]); i += 1
    pbcs = [tuple(int(x) for x in L[i + k].split()) for k in range(npbc)]
    return dict(nodes=nodes, elems=elems, labels=labels, pbcs=pbcs)


def run_case(ctx, name, p):
    """fmesher, harness (keeps the mesh files), then the real fsolver binary; returns (dump, ans, error)"""
    exe = vlib.build_harness(ctx.snap, HARNESS, libs=("fsolver", "femm"))
    f = os.path.join(ctx.work, "%s.fem" % name)
    c05_gen.write(p, f)
    rc, out, err = vlib.sh([ctx.snap.tool("fmesher"), f], timeout=120)
    if rc != 0:
        return None, None, "fmesher failed (rc=%d) on a well-formed problem: %s" % (rc, (out + err)[-300:])
    dump = f[:-4] + ".dump"
    rc, out, err = vlib.sh([exe, f[:-4], dump], timeout=600)
    if not os.path.exists(dump):
        return None, None, "harness crashed (rc=%d): %s" % (rc, err[-300:])
    d = parse_dump(dump)
    rc2, out, err = vlib.sh([ctx.snap.tool("fsolver"), f[:-4]], timeout=600)
    ansf = f[:-4] + ".ans"
    if rc2 != 0 or not os.path.exists(ansf):
        return d, None, "fsolver failed (rc=%d) on a well-formed problem: %s" % (rc2, (out + err)[-300:])
    try:
        ans = parse_ans(ansf, p["frequency"] != 0)
    except Exception as e:
        return d, None, "the solution file written by fsolver cannot be parsed: %r" % (e,)
    if d["fail"] or rc != 0 or not d.get("solved"):
        return d, ans, "solver pipeline failed inside the harness: %s rc=%d solved=%s" % (d["fail"], rc, d.get("solved"))
    ans["proxmu"] = [l["proxmu"] for l in d["labels"]]
    # magnitude of the right-hand side of the Case 2 circuit rows, in the oracle's normalisation (code row / 2)
    ans["circ_rows"] = [0.01 * abs(complex(*c["amps"])) for c, r in zip(d["circs"], d["circres"]) if r[0] == 2]
    return d, ans, None


def correspond(ctx):
    rng = ctx.rng
    count = 24 if ctx.quick() else 96
    limit = 300 if ctx.quick() else 900
    dis, exprs, cases, feats = [], [], [], {}
    sizes = []
    for k in range(count):
        p = gen(rng, ctx.quick(), k)
        for ft in p["features"]:
            feats[ft] = feats.get(ft, 0) + 1
        d, ans, msg = run_case(ctx, "c%d" % k, p)
        if msg:
            ctx.fail("fsolver (axisymmetric): " + msg, problem=p, signature="pipeline")
            continue
        msg = c05.consistent(d, ans, p)
        if msg:
            ctx.fail("fsolver (axisymmetric): " + msg, problem=p, signature="harness-vs-binary")
            continue
        r = oracle(p, ans)
        if r and r[1] in ("residual", "pbc-values", "prescribed-A"):
            # the oracle's tolerances assume a converged solve, but the solvers stop at a RELATIVE residual over all rows (circuit
            # rows dwarf node rows in fine length units): a deviation counts only if it survives re-solving the same problem with
            # Precision 1e-11 (DESIGN 9.5)
            p2 = dict(p, precision=1e-11)
            d2, ans2, msg2 = run_case(ctx, "c%dp" % k, p2)
            r2 = None if msg2 else oracle(p2, ans2)
            ctx.res.cov["oracle_deviations_gone_at_tighter_precision"] = ctx.res.cov.get("oracle_deviations_gone_at_tighter_precision", 0) + (0 if (msg2 or r2) else 1)
            r = None if not (msg2 or r2) else (r2 or r)
        if r:
            ctx.fail("fsolver (axisymmetric): " + r[0], problem=p, signature=r[1])
        sizes.append(d["nn"])
        if d["nn"] <= limit and d.get("captured"):
            exprs.append(to_coq_harmonic(d) if d["harmonic"] else to_coq_static(d))
            cases.append((p, d))
    model = vlib.coq_eval(HEADER, exprs, shard=3, timeout=2400) if exprs else []
    nb = tot = 0
    for (p, d), m in zip(cases, model):
        impl = impl_harmonic(d) if d["harmonic"] else impl_static(d)
        bad, t, n = c05.compare(impl, m)
        tot += t; nb += n
        if bad:
            dis.append(dict(what="fsolver correspondence (%s): %s" % ("HarmonicAxisymmetric" if d["harmonic"] else "StaticAxisymmetric", bad), problem=p))
    cov = ctx.res.cov
    cov["evaluations"] = count
    cov["distinct_nontrivial"] = len(set(json.dumps(c[0], sort_keys=True) for c in cases))
    cov["rule"] = ("seeded well-formed AXISYMMETRIC .fem problems (rectangle touching the axis r = 0 or not, optional material interface "
                   "with the right part optionally the conformally mapped exterior region, a box next to the axis and a free-standing "
                   "box: coils in series / parallel circuits with turns, solid conductors, wire-type blocks (LamType 3..6), magnets with "
                   "constant and Lua-expression directions, anisotropic / laminated iron (LamType 0-2, fill factors), source current "
                   "density; point currents and prescribed-A points; boundary types 0 (A0+A1r+A2z, phase), 2 (mixed) and periodic / "
                   "antiperiodic bottom-top pairs; all six length units) meshed by the real fmesher, assembled by the real FSolver "
                   "inside the harness and solved / written by the real fsolver binary; non-trivial = meshed, solved and small enough "
                   "for vm_compute, distinct = distinct problem description")
    cov["input_distribution"] = feats
    cov["samples"] = [dict(features=c[0]["features"], nodes=c[1]["nn"], elements=c[1]["ne"]) for c in cases[:3]]
    cov["values_compared"] = tot
    cov["bit_identical"] = nb
    cov["bit_identical_fraction"] = (nb / tot) if tot else None
    cov["mesh_sizes"] = sizes
    cov["static_cases"] = sum(1 for c in cases if not c[1]["harmonic"])
    cov["harmonic_cases"] = sum(1 for c in cases if c[1]["harmonic"])
    cov["oracle"] = ("numpy SI assembly of the axisymmetric equations: free-node residual, prescribed values, zero flux on the axis, "
                     "periodic pairs, circuit currents on the .ans written by the real fsolver")
    return dis


def search(ctx, broken):
    found = []
    rng = vlib.Rng(ctx.seed + 5)
    for k in range(40):
        p = gen(rng, True, k)
        d, ans, msg = run_case(ctx, "s%d" % k, p)
        if msg:
            found.append(dict(what="fsolver (axisymmetric): " + msg, problem=p, signature="pipeline")); break
        r = oracle(p, ans)
        if r:
            found.append(dict(what="fsolver (axisymmetric): " + r[0], problem=p, signature=r[1])); break
    return found
