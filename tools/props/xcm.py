"""xcm — extension of the C02 check: the node / element renumbering that every solver performs between
LoadMesh and assembly (FEASolver::Cuthill, SortElements, the three SortNodes overrides).
Model: coq/theories/Renumber.v; proofs: RenumberProofs.v; theorems: Properties_C02_renumber.v,
Properties_C08_renumber.v, Properties_C07_renumber.v, Properties_C09_bandwidth.v (listed as
EXTRA_PROPERTY_FILES by c02.py / c08.py / c07.py / c09.py).  Standalone development run (proof files +
correspondence, nothing written to evidence/):  python3 tools/props/xcm.py [quick|thorough].
Correspondence: real meshes written by the real fmesher for generated geometries (all three file
types: single regions, holes, several disconnected meshed regions, (anti)periodic pairs, very small
meshes, nodes that belong to no element) and hand-made .node/.ele/.edge/.pbc triples (paths, stars,
several components, hubs, forests, isolated nodes, pbc pairs, air-gap quad nodes) are loaded by the
real solver classes through harness/h_cuthill.cpp, which dumps the mesh before and after the real
Cuthill(false); the model is evaluated by vm_compute on the same .edge/.ele/.pbc data and must give
exactly the same newnum / BandWidth / node order / element order / pbc list / quad nodes.
Oracle on the implementation's output alone: nodes and elements are permuted with their records
intact, the renumbered mesh is the isomorphic image, BandWidth bounds every edge and element side."""
import os, sys, json, math
sys.path.insert(0, os.path.dirname(os.path.dirname(os.path.abspath(__file__))))     # tools/ (standalone run)
import vlib, femgen, meshlib, geomgen
from femgen import Builder, mesh_diameter

LEVEL = "proof"
COQ_MODULES = ["Renumber"]
ASSUMPTIONS = [
    "the model is hand-written; its tie to cuthill.cpp / SortNodes is the correspondence run here (exact equality of every dumped integer)",
    "theorems assume the guard renumber_guard (NumNodes >= 2, every .edge index < NumNodes), which every mesh written by fmesher "
    "satisfies (at least one triangle; Triangle writes .edge with indices of .node); nodes without edges (stray drawn points kept by the "
    "periodic path, which runs Triangle without -j) and meshes with fewer lines than nodes are inside the guard; NumNodes = 1 reads "
    "nxtnum[1] (_refuted example, hand-made files only)",
    "the node / element records are opaque payloads of the model (SortNodes and std::swap move whole objects); the harness checks on every "
    "run that coordinates, markers, conductors, edge conditions, block and label travel with the record",
    "C++ int overflow is not modelled (indices are far below 2^31)",
]
HEADER = ("From Coq Require Import NArith List. Import ListNotations. From XF Require Import Renumber. "
          "Local Open Scope N_scope.")
SOLVER = {"fee": "e", "feh": "h", "fem": "m"}
EXT = {"fee": ".fee", "feh": ".feh", "fem": ".fem"}


# ------------------------------------------------------------------------------ geometries ----
def fam_islands(rng, kind, quick, fine=False):
    """several DISCONNECTED meshed regions (Cuthill's 'multiply connected' restart), one of them
    possibly with a hole, of different sizes and mesh densities"""
    B = Builder(kind); ids = geomgen.base_props(B, kind, rng); geomgen.settings(B, rng, quick)
    n = rng.choice([2, 2, 3, 4])
    x = 0.0
    tot = (30 if quick else 300) if not fine else 1200
    for k in range(n):
        w, h = rng.choice([1.0, 2.0, 3.0]), rng.choice([1.0, 1.5, 2.5])
        y = rng.choice([0.0, 0.5, -1.0])
        shape = rng.choice(["rect", "rect", "tri", "pent"])
        if shape == "rect":
            B.rect(x, y, x + w, y + h, {s: geomgen.seg_kw(kind, ids, rng) for s in "brtl"})
            lx, ly = x + w * 0.1, y + h * 0.1
        elif shape == "tri":
            geomgen.polygon(B, [(x, y), (x + w, y), (x + w * 0.5, y + h)], **geomgen.seg_kw(kind, ids, rng))
            lx, ly = x + w * 0.5, y + h * 0.2
        else:
            geomgen.polygon(B, [(x, y), (x + w, y), (x + w * 1.1, y + h * 0.6), (x + w * 0.5, y + h), (x - w * 0.05, y + h * 0.5)])
            lx, ly = x + w * 0.5, y + h * 0.1
        d = mesh_diameter(w * h / max(tot / n * rng.choice([0.3, 1.0, 2.0]), 2))
        B.label(lx, ly, ids["mats"][k % 3], maxarea=d)
        if shape == "rect" and rng.random() < 0.4:
            B.rect(x + w * 0.4, y + h * 0.4, x + w * 0.7, y + h * 0.7)
            if rng.random() < 0.5:
                B.p["holes"].append(dict(x=x + w * 0.55, y=y + h * 0.55))
            else:
                B.label(x + w * 0.55, y + h * 0.55, ids["mats"][(k + 1) % 3], maxarea=d)
        x += w * 1.2 + rng.choice([0.5, 1.0])
    B.p["features"] = ["islands%d" % n, kind, "minangle%g" % B.p["minangle"], "smart%d" % B.p["dosmartmesh"]]
    return B.p


def fam_tiny(rng, kind, quick):
    """the smallest meshes fmesher can write: one triangle / one quadrilateral, no refinement"""
    B = Builder(kind); ids = geomgen.base_props(B, kind, rng); geomgen.settings(B, rng, quick)
    B.p["dosmartmesh"] = 0
    B.p["minangle"] = rng.choice([1.0, 5.0])
    what = rng.choice(["triangle", "quad", "two-triangles-apart", "quad+outside-points"])
    if what == "triangle":
        geomgen.polygon(B, [(0.0, 0.0), (1.0, 0.0), (0.0, 1.0)])
        B.label(0.25, 0.25, ids["mats"][0], maxarea=0)
    elif what == "quad":
        B.rect(0.0, 0.0, 1.0, 1.0)
        B.label(0.25, 0.25, ids["mats"][0], maxarea=0)
    elif what == "two-triangles-apart":
        geomgen.polygon(B, [(0.0, 0.0), (1.0, 0.0), (0.0, 1.0)])
        geomgen.polygon(B, [(3.0, 0.0), (4.0, 0.0), (3.0, 1.0)])
        B.label(0.25, 0.25, ids["mats"][0], maxarea=0)
        B.label(3.25, 0.25, ids["mats"][1], maxarea=0)
    else:
        # drawn points outside every meshed region stay in the .node file and belong to no element
        a = B.point(0.0, 0.0); b = B.point(1.0, 0.0)
        for k in range(rng.choice([1, 2, 4])):
            B.point(3.0 + k, 2.0 + 0.5 * k)
        c = B.point(1.0, 1.0); d = B.point(0.0, 1.0)
        B.seg(a, b); B.seg(b, c); B.seg(c, d); B.seg(d, a)
        B.label(0.25, 0.25, ids["mats"][0], maxarea=0)
    B.p["features"] = ["tiny-" + what, kind]
    return B.p


def fam_large(rng, kind, quick):
    """a few thousand nodes (thorough tier)"""
    B = Builder(kind); ids = geomgen.base_props(B, kind, rng); geomgen.settings(B, rng, quick)
    W, H = rng.choice([4.0, 6.0]), rng.choice([3.0, 4.0])
    target = rng.choice([1500, 2500, 4000])
    d = mesh_diameter(W * H / target)
    B.rect(0.0, 0.0, W, H, {s: geomgen.seg_kw(kind, ids, rng) for s in "brtl"})
    B.rect(W * 0.3, H * 0.3, W * 0.6, H * 0.7)
    B.label(W * 0.1, H * 0.1, ids["mats"][0], maxarea=d)
    if rng.random() < 0.5:
        B.p["holes"].append(dict(x=W * 0.45, y=H * 0.5))
    else:
        B.label(W * 0.45, H * 0.5, ids["mats"][1], maxarea=d * 0.7)
    # a second, separate region
    B.rect(W + 1.0, 0.0, W + 2.0, 1.0)
    B.label(W + 1.5, 0.5, ids["mats"][2], maxarea=d)
    B.p["features"] = ["large%d" % target, kind, "minangle%g" % B.p["minangle"], "smart%d" % B.p["dosmartmesh"]]
    return B.p


def gen_problem(rng, k, quick):
    r = k % 6
    kind = ["fee", "feh", "fem"][(k // 2 + k) % 3]
    if r in (0, 3):
        return fam_islands(rng, kind, quick)
    if r == 1:
        return fam_tiny(rng, kind, quick)
    if r == 4:
        p = rng.choice([geomgen.fam_periodic_lines, geomgen.fam_periodic_arcs])(rng, kind, quick)
        if rng.random() < 0.6:
            # the periodic path of fmesher runs Triangle without -j: drawn points outside every meshed region
            # stay in the .node file as nodes without any edge
            for k in range(rng.choice([1, 2, 5])):
                p["points"].append(dict(x=9.0 + 0.5 * k, y=7.0 + 0.25 * k))
            p["features"] = ["periodic+stray-points"] + p["features"][1:]
        return p
    return geomgen.gen_any(rng, k + rng.randrange(8), quick=quick)


# --------------------------------------------------------------------------- hand-made triples ----
def hand_graphs(rng, quick):
    """(name, N, edges, pbcs, ages)"""
    G = []
    G.append(("path5", 5, [(0, 1), (1, 2), (2, 3), (3, 4)], [], []))
    G.append(FORMER_HANG)
    G.append(("path-shuffled", 6, [(3, 1), (1, 5), (5, 0), (0, 4), (4, 2)], [(0, 5, 0)], []))
    G.append(("star7", 7, [(3, k) for k in range(7) if k != 3], [], []))
    G.append(("two-triangles", 6, [(0, 1), (1, 2), (2, 0), (3, 4), (4, 5), (5, 3)], [(0, 3, 0), (2, 5, 1)], []))
    G.append(("three-components", 9, [(0, 1), (1, 2), (2, 0), (3, 4), (4, 5), (5, 3), (6, 7), (7, 8), (6, 8), (0, 2)], [], []))
    G.append(("hub", 14, [(5, k) for k in range(14) if k != 5] + [(k, k + 1) for k in range(6, 13)], [], []))
    G.append(("two-nodes", 2, [(0, 1)], [(0, 1, 1)], []))
    G.append(("two-nodes-double-edge", 2, [(0, 1), (1, 0)], [], []))
    G.append(("self-loop", 3, [(0, 0), (0, 1), (1, 2)], [], []))
    G.append(("isolated-nodes", 6, [(0, 1), (1, 2), (2, 0), (2, 4), (4, 0)], [], []))
    G.append(("forest-ends-by-low-degree", 7, [(0, 1), (0, 2), (1, 3), (6, 4)], [], []))          # n_lines+1 < N, j never 2 at the jump target
    G.append(("k4+tail", 7, [(0, 1), (0, 2), (0, 3), (1, 2), (1, 3), (2, 3), (3, 4), (4, 5), (5, 6)], [], []))
    G.append(("degree2-first", 8, [(0, 1), (1, 2), (2, 3), (3, 0), (4, 5), (5, 6), (6, 7), (7, 4), (0, 4)], [], []))
    G.append(("quad-nodes", 8, [(0, 1), (1, 2), (2, 3), (3, 0), (4, 5), (5, 6), (6, 7), (7, 4), (0, 4), (1, 5), (2, 6), (3, 7)],
              [(0, 4, 0)], [[(0, 1, 4, 5), (1, 2, 5, 6), (2, 3, 6, 7)], [(3, 0, 7, 4), (0, 0, 1, 1)]]))
    for r in range(4 if quick else 40):
        n = rng.randint(2, 12 if quick else 40)
        m = rng.randint(max(n - 1, 1), 3 * n)
        edges = [(rng.randrange(n), rng.randrange(n)) for _ in range(m)]
        if rng.random() < 0.7:
            edges = [(a, b) for (a, b) in edges if a != b] or [(0, 1)]
        while len(edges) < n - 1:
            edges.append((rng.randrange(n), rng.randrange(n)))
        pb = [(rng.randrange(n), rng.randrange(n), rng.choice([0, 1])) for _ in range(rng.choice([0, 0, 2]))]
        G.append(("random%d" % r, n, edges, pb, []))
    return G


# the 7-node forest on which the start-node search of Cuthill never ended before /repo commit e99587c
# (numcon = [2,2,1,1,1,1,2], n_lines = 5; Properties_C08_renumber.v, C08_renumber_former_hang_forest_terminates):
# kept as a regression case, like the periodic mesh with stray points below
FORMER_HANG = ("former-hang-forest", 7, [(0, 1), (0, 2), (1, 3), (6, 4), (6, 5)], [], [])


def stray_points_case(ctx):
    """electrostatic periodic cell + I stray points drawn outside the domain, T < I <= n_lines - 7, meshed by the
    real fmesher (fresh file each time: fmesher rewrites its input).  Returns (base, NumNodes, edges, problem) when
    the mesh has NumNodes > n_lines + 1 (where the start-node search used to loop forever), else None."""
    def mesh(I, tag):
        p = geomgen.fam_periodic_lines(vlib.Rng(0), "fee", True)
        for k in range(I):
            p["points"].append(dict(x=9.0 + 0.25 * k, y=7.0))
        f = os.path.join(ctx.work, "stray_%s.fee" % tag)
        femgen.write(p, f)
        rc, out, err = vlib.sh([ctx.snap.tool("fmesher"), f], timeout=300)
        base = f[:-4]
        if rc != 0 or not os.path.exists(base + ".edge"):
            return None
        X, _ = meshlib.read_node(base + ".node")
        E = [(a, b) for (a, b, m) in meshlib.read_edge(base + ".edge")]
        T, _ = meshlib.read_ele(base + ".ele")
        return base, len(X), E, len(T), p
    r = mesh(104, "a")
    if r is None:
        return None
    base, n, E, T, p = r
    if not (n > len(E) + 1):
        r = mesh(T + 6, "b")
        if r is None:
            return None
        base, n, E, T, p = r
    if n > len(E) + 1:
        return base, n, E, p
    return None


def write_hand_case(ctx, kind, name, n, edges, pbcs, ages, rng, idx):
    """problem file + hand-written mesh files; elements are arbitrary triples of valid nodes (the
    renumbering does not look at their geometry)"""
    B = Builder(kind)
    geomgen.base_props(B, kind, rng)
    B.rect(0.0, 0.0, 1.0, 1.0)
    B.label(0.3, 0.2, 1)
    B.label(0.6, 0.7, 2)
    B.p["problemtype"] = "planar"; B.p["units"] = "meters"
    f = os.path.join(ctx.work, "hand%d_%s%s" % (idx, name.replace("+", "_"), EXT[kind]))
    femgen.write(B.p, f)
    base = f[:-4]
    with open(base + ".node", "w") as fh:
        fh.write("%d\t2\t0\t1\n" % n)
        for i in range(n):
            fh.write("%d\t%.17g\t%.17g\t%d\n" % (i, 0.25 * i, 0.125 * ((i * 7) % 5) + 0.001 * i, rng.choice([0, 0, 2, 3])))
    ne = rng.randint(1, 6) if n >= 1 else 0
    T = []
    for k in range(ne):
        T.append(tuple(rng.randrange(n) for _ in range(3)))
    # element sides of the edge list first, so that scores differ
    T += [(a, b, (a + b) % n) for (a, b) in edges[:4]]
    with open(base + ".ele", "w") as fh:
        fh.write("%d\t3\t1\n" % len(T))
        for k, (a, b, c) in enumerate(T):
            fh.write("%d\t%d\t%d\t%d\t%d\n" % (k, a, b, c, 1 + k % 2))
    with open(base + ".edge", "w") as fh:
        fh.write("%d\t1\n" % len(edges))
        for k, (a, b) in enumerate(edges):
            fh.write("%d\t%d\t%d\t0\n" % (k, a, b))
    with open(base + ".pbc", "w") as fh:
        fh.write("%d\n" % len(pbcs))
        for k, (a, b, t) in enumerate(pbcs):
            fh.write("%d\t%d\t%d\t%d\n" % (k, a, b, t))
        if kind == "fem":
            fh.write("%d\n" % len(ages))
            for a in ages:
                fh.write("\"age\"\n")
                fh.write("6 0 0 1 2 360 0 0 %d 0 0\n" % (len(a) - 1))
                for (q0, q1, q2, q3) in a:
                    fh.write("%d 0.5 %d 0.5 %d 0.25 %d 0.75\n" % (q0, q1, q2, q3))
        else:
            fh.write("0\n")
    return base


# ------------------------------------------------------------------------------ harness side ----
def parse_dump(path):
    """-> dict(status, before, after, bw); before/after: dict(nodes, eles, pbcs, ages)"""
    d = dict(status=None, bw=None, before=None, after=None, done=False)
    cur = None
    if not os.path.exists(path):
        return d
    for l in open(path):
        t = l.split()
        if not t:
            continue
        if t[0] == "FAIL":
            d["status"] = l.strip()
        elif t[0] in ("BEFORE", "AFTER"):
            cur = dict(n=int(t[1]), nodes=[], eles=[], pbcs=[], ages={})
            d[t[0].lower()] = cur
        elif t[0] == "BW":
            d["bw"] = int(t[1])
        elif t[0] == "NODE":
            cur["nodes"].append((int(t[1]), float(t[2]), float(t[3]), int(t[4]), int(t[5])))
        elif t[0] == "ELEM":
            cur["eles"].append(tuple(int(x) for x in t[1:10]))
        elif t[0] == "PBC":
            cur["pbcs"].append((int(t[1]), int(t[2]), int(t[3])))
        elif t[0] == "AGE":
            cur["ages"].setdefault(int(t[1]), []).append((tuple(int(x) for x in t[3:7]), tuple(float(x) for x in t[7:11])))
        elif t[0] == "DONE":
            d["done"] = True
    return d


def run_harness(ctx, kind, base, timeout=120, snap=None):
    exe = vlib.build_harness(snap or ctx.snap, "h_cuthill", libs=("esolver", "hsolver", "fsolver", "femm"))
    dump = base + (".cmdump" if snap is None else ".cmdump-san")
    if os.path.exists(dump):
        os.remove(dump)
    rc, out, err = vlib.sh([exe, SOLVER[kind], base, dump], timeout=timeout)
    return rc, parse_dump(dump), err


def oracle(d, edges):
    """property-level checks on the implementation's output alone"""
    bf, af, bw = d["before"], d["after"], d["bw"]
    n = bf["n"]
    if af["n"] != n or len(af["nodes"]) != n or len(bf["nodes"]) != n:
        return "NumNodes changed"
    tags = [nd[0] for nd in af["nodes"]]
    if sorted(tags) != list(range(n)):
        return "the nodes after Cuthill are not a permutation of the nodes before (tags %r...)" % (tags[:12],)
    newnum = [None] * n
    for pos, tg in enumerate(tags):
        newnum[tg] = pos
    for pos, nd in enumerate(af["nodes"]):
        if nd[1:] != bf["nodes"][nd[0]][1:]:
            return "node record changed while being moved: old node %d %r is %r at position %d" % (nd[0], bf["nodes"][nd[0]], nd, pos)
    etags = [e[0] for e in af["eles"]]
    if sorted(etags) != list(range(len(bf["eles"]))):
        return "the elements after Cuthill are not a permutation of the elements before"
    for e in af["eles"]:
        o = bf["eles"][e[0]]
        if e[4:] != o[4:]:
            return "element %d: edge conditions / block / label changed while being moved (%r -> %r)" % (e[0], o, e)
        for j in range(3):
            if not (0 <= e[1 + j] < n) or tags[e[1 + j]] != o[1 + j]:
                return ("element %d corner %d: pointed at old node %d, now points at position %d which holds old node %r"
                        % (e[0], j, o[1 + j], e[1 + j], tags[e[1 + j]] if 0 <= e[1 + j] < n else None))
    if len(af["pbcs"]) != len(bf["pbcs"]):
        return "number of pbc pairs changed"
    for k, (a, b) in enumerate(zip(bf["pbcs"], af["pbcs"])):
        if b[2] != a[2] or not (0 <= b[0] < n and 0 <= b[1] < n) or tags[b[0]] != a[0] or tags[b[1]] != a[1]:
            return "pbc pair %d: (%d,%d,%d) became (%d,%d,%d), which are not the same physical nodes" % ((k,) + a + b)
    for i in bf["ages"]:
        for k, ((qa, wa), (qb, wb)) in enumerate(zip(bf["ages"][i], af["ages"].get(i, []))):
            if wa != wb or any(not (0 <= y < n) or tags[y] != x for x, y in zip(qa, qb)):
                return "air gap %d quad node %d: %r became %r" % (i, k, qa, qb)
        if len(bf["ages"][i]) != len(af["ages"].get(i, [])):
            return "air gap %d lost quad nodes" % i
    worst = 0
    for (a, b) in edges:
        worst = max(worst, abs(newnum[a] - newnum[b]))
    if bw < worst + 1:
        return "BandWidth %d is smaller than 1 + %d, the largest index distance over a mesh edge" % (bw, worst)
    return None


def element_side_bound(d, edges):
    """every element side couples two unknowns: is it within BandWidth?  (true whenever every element
    side is a line of the .edge file, as in Triangle's output)"""
    af, bw = d["after"], d["bw"]
    for e in af["eles"]:
        p = e[1:4]
        for j in range(3):
            if abs(p[j] - p[(j + 1) % 3]) >= bw:
                return "element %d side (%d,%d) lies outside BandWidth %d" % (e[0], p[j], p[(j + 1) % 3], bw)
    return None


def sides_not_in_edges(d, edges):
    """hypothesis of C09_bandwidth_bounds_every_element_side: every element side is a line of the .edge file"""
    es = set()
    for (a, b) in edges:
        es.add((a, b)); es.add((b, a))
    for e in d["before"]["eles"]:
        p = e[1:4]
        for j in range(3):
            if (p[j], p[(j + 1) % 3]) not in es:
                return "element %d side (%d,%d) is not a line of the .edge file" % (e[0], p[j], p[(j + 1) % 3])
    return None


def san_snapshot(ctx):
    """the ASan/UBSan/_GLIBCXX_ASSERTIONS build of the same tree: built on demand in the thorough tier,
    used in the quick tier only when it is already there"""
    root = os.path.join(vlib.SCRATCH, "snap-" + vlib.tree_hash())
    if ctx.quick() and not os.path.exists(os.path.join(root, "build-san", ".built")):
        return None
    try:
        return vlib.snapshot("san")
    except vlib.BuildError:
        return None


def is_sorted_by_score(d):
    s = [e[1] + e[2] + e[3] for e in d["after"]["eles"]]
    return all(s[i] <= s[i + 1] for i in range(len(s) - 1))


# -------------------------------------------------------------------------------- model side ----
def nlist(xs):
    return "[" + "; ".join(xs) + "]"


def to_coq(n, edges, d):
    bf = d["before"]
    ed = nlist("(%d,%d)" % e for e in edges)
    el = nlist("(%d,%d,%d)" % (e[1], e[2], e[3]) for e in bf["eles"])
    pb = nlist("(%d,%d,%d)" % p for p in bf["pbcs"])
    ag = nlist(nlist("(%d,%d,%d,%d)" % q for (q, w) in bf["ages"][i]) for i in sorted(bf["ages"]))
    return "cuthill_io %d %s %s %s %s" % (n, ed, el, pb, ag)


def compare(d, m):
    """implementation dump vs model value"""
    code, val = m
    if code != 0:
        return "model ended with error code %d (1 = out-of-range access, 2 = out of fuel, 3 = node left unnumbered) where the real Cuthill returned" % code
    newnum, bw, nodes, eles, pbcs, ages = val
    af = d["after"]
    n = af["n"]
    tags = [nd[0] for nd in af["nodes"]]
    inn = [None] * n
    for pos, tg in enumerate(tags):
        if 0 <= tg < n:
            inn[tg] = pos
    if list(newnum) != inn:
        k = next(i for i in range(n) if i >= len(newnum) or newnum[i] != inn[i])
        return "newnum[%d]: implementation %r, model %r" % (k, inn[k], newnum[k] if k < len(newnum) else None)
    if bw != d["bw"]:
        return "BandWidth: implementation %d, model %d" % (d["bw"], bw)
    if list(nodes) != tags:
        return "node order differs"
    ie = [(e[1], e[2], e[3], e[0]) for e in af["eles"]]
    me = [tuple(e) for e in eles]
    if ie != me:
        k = next(i for i in range(max(len(ie), len(me))) if i >= len(ie) or i >= len(me) or ie[i] != me[i])
        return "element order differs at position %d: implementation %r, model %r" % (k, ie[k] if k < len(ie) else None, me[k] if k < len(me) else None)
    if [tuple(p) for p in pbcs] != af["pbcs"]:
        return "pbc list differs: implementation %r, model %r" % (af["pbcs"][:4], pbcs[:4])
    ia = [[q for (q, w) in af["ages"][i]] for i in sorted(af["ages"])]
    ma = [[tuple(q) for q in a] for a in ages]
    if ia != ma:
        return "air-gap quad nodes differ: implementation %r, model %r" % (ia, ma)
    return None


# ----------------------------------------------------------------------------- correspondence ----
def collect_cases(ctx, rng, quick, nmesh, hang=True, start=0):
    """-> list of dict(name, kind, base, n, edges, dump, features)"""
    cases = []
    for k in range(nmesh):
        if not quick and k % 20 == 19:
            p = fam_large(rng, ["fee", "feh", "fem"][(k // 20) % 3], quick)
        elif not quick and k % 20 == 9:
            p = fam_islands(rng, ["fem", "fee", "feh"][(k // 20) % 3], quick, fine=True)
        else:
            p = gen_problem(rng, k, quick)
        kind = p["kind"]
        f = os.path.join(ctx.work, "g%d%s" % (start + k, EXT[kind]))
        femgen.write(p, f)
        rc, out, err = vlib.sh([ctx.snap.tool("fmesher"), f], timeout=600)
        base = f[:-4]
        if rc != 0 or not os.path.exists(base + ".edge"):
            ctx.fail("fmesher failed (rc=%d) on a well-formed problem: %s" % (rc, (out + err)[-300:]), problem=p)
            continue
        edges = [(a, b) for (a, b, m) in meshlib.read_edge(base + ".edge")]
        X, _ = meshlib.read_node(base + ".node")
        cases.append(dict(name="mesh%d" % (start + k), kind=kind, base=base, n=len(X), edges=edges, features=p.get("features", []),
                          problem=p, real=True))
    if hang:
        st = stray_points_case(ctx)
        if st is not None:
            sbase, sn, sedges, sp = st
            cases.append(dict(name="former-hang-stray-points", kind="fee", base=sbase, n=sn, edges=sedges,
                              features=["periodic+many-stray-points", "fee"], problem=sp, real=True))
    hg = hand_graphs(rng, quick)
    for idx, (name, n, edges, pbcs, ages) in enumerate(hg):
        kind = ["fem", "fee", "feh"][idx % 3] if not ages else "fem"
        base = write_hand_case(ctx, kind, name, n, edges, pbcs, ages, rng, start + idx)
        cases.append(dict(name=name, kind=kind, base=base, n=n, edges=edges, features=["hand-made", name], real=False,
                          files=dict(n=n, edges=edges, pbcs=pbcs, ages=ages)))
    return cases


def replay_info(c):
    if c["real"]:
        return dict(problem=c["problem"])
    return dict(hand_made=c["files"], kind=c["kind"])


def correspond(ctx):
    rng = ctx.rng
    quick = ctx.quick()
    dis = []
    cases = collect_cases(ctx, rng, quick, 18 if quick else 80)
    exprs, evald = [], []
    feats, sizes = {}, []
    unsorted = 0
    guard_out = 0
    few_lines = 0
    nontriv = set()
    for c in cases:
        for ft in c["features"][:2]:
            feats[ft] = feats.get(ft, 0) + 1
        rc, d, err = run_harness(ctx, c["kind"], c["base"], timeout=60 if c["n"] < 500 else 300)
        if rc != 0 or not d["done"]:
            ctx.fail("the real Cuthill did not complete (rc=%d%s, %s) on %s" % (rc, " = timeout" if rc == 124 else "", d["status"], c["name"]),
                     stderr=err[-300:], **replay_info(c))
            continue
        c["dump"] = d
        n, edges = c["n"], c["edges"]
        inguard = n >= 2 and all(0 <= a < n and 0 <= b < n for (a, b) in edges)
        few_lines += 1 if n > len(edges) + 1 else 0
        if c["real"] and not inguard:
            ctx.fail("a mesh written by fmesher violates the guard of the renumbering theorems (NumNodes=%d, n_lines=%d)" % (n, len(edges)),
                     **replay_info(c))
        if not inguard:
            guard_out += 1
        msg = oracle(d, edges)
        if msg:
            ctx.fail("renumbering (%s): %s" % (c["name"], msg), **replay_info(c))
        if c["real"]:
            msg = sides_not_in_edges(d, edges)
            if msg:
                ctx.fail("mesh written by fmesher (%s): %s" % (c["name"], msg), **replay_info(c))
            msg = element_side_bound(d, edges)
            if msg:
                ctx.fail("renumbering (%s): %s" % (c["name"], msg), **replay_info(c))
        if not is_sorted_by_score(d):
            unsorted += 1
        sizes.append(n)
        if n > 3:
            nontriv.add(json.dumps([n, edges[:50], len(edges)]))
        exprs.append(to_coq(n, edges, d))
        evald.append(c)
    big = [i for i, c in enumerate(evald) if c["n"] > 600]
    small = [i for i, c in enumerate(evald) if c["n"] <= 600]
    res = [None] * len(exprs)
    for idxs, shard in ((small, 12), (big, 1)):
        if idxs:
            vals = vlib.coq_eval(HEADER, [exprs[i] for i in idxs], shard=shard, timeout=3000)
            for i, v in zip(idxs, vals):
                res[i] = v
    ncmp = 0
    for c, m in zip(evald, res):
        msg = compare(c["dump"], m)
        ncmp += 1
        if msg:
            dis.append(dict(what="Cuthill correspondence (%s, NumNodes=%d): %s" % (c["name"], c["n"], msg), **replay_info(c)))
    # outside the guard: NumNodes = 1 / 0; and the start search alone on the former hang input
    fh = FORMER_HANG
    mh = vlib.coq_eval(HEADER, ["start_search_io %d %s" % (fh[1], nlist("(%d,%d)" % e for e in fh[2])),
                                "numbering_io 1 []", "numbering_io 0 []"])
    if mh[0][0] != 0 or tuple(mh[0][1]) != (2, 0):
        dis.append(dict(what="model: the start-node search on the former hang forest should return (j, n0) = (2, 0), got %r" % (mh[0],)))
    if mh[1][0] != 1 or mh[2][0] != 1:
        dis.append(dict(what="model: NumNodes = 1 / 0 should be an out-of-range access (nxtnum[1] / numcon[0]), got codes %r %r" % (mh[1][0], mh[2][0])))
    # index safety against the instrumented build (ASan + UBSan + libstdc++ assertions on operator[]):
    # wherever the model returns Ok the real Cuthill must run clean, and on the one-node mesh, where the
    # model reports the out-of-range read nxtnum[1], the instrumented run must abort
    san = san_snapshot(ctx)
    san_runs = 0
    san_abort = None
    if san is not None:
        for c, m in zip(evald, res):
            if c["n"] > (60 if quick else 400) or m[0] != 0:
                continue
            rc, d2, err = run_harness(ctx, c["kind"], c["base"], timeout=300, snap=san)
            san_runs += 1
            if rc != 0 or not d2["done"]:
                ctx.fail("the real Cuthill fails under ASan/UBSan/libstdc++ assertions (rc=%d) on %s, where the model finds every access in range"
                         % (rc, c["name"]), stderr=err[-600:], **replay_info(c))
            elif d2["after"] != c["dump"]["after"] or d2["bw"] != c["dump"]["bw"]:
                dis.append(dict(what="Cuthill gives different results in the plain and the instrumented build on %s" % c["name"], **replay_info(c)))
        base1 = write_hand_case(ctx, "fee", "single-node", 1, [(0, 0)], [], [], rng, 9001)
        rc, d2, err = run_harness(ctx, "fee", base1, timeout=120, snap=san)
        san_abort = (rc != 0)
        if not san_abort:
            dis.append(dict(what="one-node mesh: the model reports an out-of-range read of nxtnum[1] but the instrumented real Cuthill ran clean",
                            hand_made=dict(n=1, edges=[(0, 0)])))
    cov = ctx.res.cov
    cov["cm_instrumented_runs"] = san_runs
    cov["cm_one_node_mesh_aborts_under_assertions"] = san_abort
    cov["evaluations"] = len(cases)
    cov["distinct_nontrivial"] = len(nontriv)
    cov["rule"] = ("real fmesher meshes of generated geometries of all three file types (islands = several disconnected meshed regions, "
                   "holes, nested regions, arcs, (anti)periodic pairs, one-triangle / two-triangle meshes, drawn points outside every "
                   "region = nodes without edges; in the thorough tier meshes of a few thousand nodes) and hand-made .node/.ele/.edge/.pbc "
                   "triples (paths, stars, several components, hubs, forests incl. the one on which the start search used to loop forever, self loops, "
                   "double edges, isolated nodes, pbc pairs, air-gap "
                   "quad nodes, random multigraphs) loaded by the real FSolver / ESolver / HSolver; dump before / after the real "
                   "Cuthill(false); model by vm_compute on the same data; all integers must be equal; non-trivial = more than 3 nodes, "
                   "distinct = distinct edge lists")
    cov["input_distribution"] = feats
    cov["cm_mesh_sizes"] = sizes
    cov["cm_values_compared"] = sum(2 * c["n"] + 4 * len(c["dump"]["after"]["eles"]) + 1 for c in evald)
    cov["cm_cases_compared"] = ncmp
    cov["samples"] = [dict(name=c["name"], kind=c["kind"], nodes=c["n"], edges=len(c["edges"]), bandwidth=c["dump"]["bw"]) for c in evald[:4]]
    cov["cm_elements_left_unsorted_by_SortElements"] = unsorted
    cov["cm_cases_outside_guard"] = guard_out
    cov["cm_cases_with_more_than_n_lines_plus_1_nodes"] = few_lines
    cov["cm_former_hang_inputs_compared"] = [c["name"] for c in evald if c["name"].startswith("former-hang")]
    return dis


def search(ctx, broken):
    """a proof or the correspondence broke: look for an input on which the property itself fails
    against the real code (the oracle alone, on more meshes)"""
    rng = vlib.Rng(ctx.seed + 11)
    found = []
    cases = collect_cases(ctx, rng, True, 40, start=2000)
    for c in cases:
        rc, d, err = run_harness(ctx, c["kind"], c["base"])
        if rc != 0 or not d["done"]:
            found.append(dict(what="the real Cuthill did not complete (rc=%d) on %s" % (rc, c["name"]), **replay_info(c)))
            break
        msg = oracle(d, c["edges"]) or (element_side_bound(d, c["edges"]) if c["real"] else None)
        if msg:
            found.append(dict(what="renumbering (%s): %s" % (c["name"], msg), **replay_info(c)))
            break
    return found


# ------------------------------------------------------------------------- standalone run ----
PROPERTY_FILES = ["C02_renumber", "C08_renumber", "C07_renumber", "C09_bandwidth"]


def main(argv):
    """development run outside ./check: the four property files are re-checked, the correspondence is run against
    the current /repo; nothing is written to evidence/"""
    import time
    tier = argv[1] if len(argv) > 1 and argv[1] in ("quick", "thorough") else "quick"
    seed = int(os.environ.get("VERIF_SEED", "20260929") or 0)
    t0 = time.time()

    class Res:
        pass
    res = Res(); res.cov = {}; res.notes = []; res.assumptions = []
    rc = 0
    nthm = 0
    for pf in PROPERTY_FILES:
        pr = vlib.coq_check_property(pf)
        nthm += pr["discharged"]
        axioms = sorted(set(a for v in pr.get("assumptions", {}).values() for a in v))
        vlib.log("[xcm] Properties_%s: %d/%d theorems, axioms %r%s" % (pf, pr["discharged"], pr["obligations"], axioms,
                                                                        "" if pr["ok"] else "  BROKEN: " + pr["log"][-600:]))
        if not pr["ok"]:
            rc = 1
    rcm, outm = vlib.coq_make(["theories/%s.vo" % m for m in COQ_MODULES])
    if rcm != 0:
        vlib.log("[xcm] model files do not compile: " + outm[-600:]); rc = 1
    ctx = vlib.Ctx("XCM", vlib.snapshot(), tier, seed, res)
    dis = correspond(ctx)
    for d in dis[:10]:
        vlib.log("DISAGREEMENT " + d["what"][:400])
    for f in ctx.failing_inputs[:10]:
        vlib.log("VIOLATION " + f["what"][:400])
    if dis or ctx.failing_inputs:
        rc = 1
    vlib.log("[xcm] coverage: " + json.dumps({k: v for k, v in res.cov.items() if k not in ("rule", "input_distribution", "cm_mesh_sizes")}, default=str)[:1500])
    vlib.log("[xcm] tier=%s seed=%d theorems=%d exit=%d wall=%.1fs" % (tier, seed, nthm, rc, time.time() - t0))
    return rc


if __name__ == "__main__":
    sys.exit(main(sys.argv))
