"""Seeded generator of well-formed planar magnetics problems (.fem) for C05: rectangle, optional
material interface, up to two inner boxes (coil in a series / parallel circuit with turns, solid
conductor, permanent magnet with constant or Lua-expression direction, iron with mu_x != mu_y and
lamination types 0-2 with fill factors, block with source current density), point current,
prescribed-A point, boundary types 0 (A0 + A1 x + A2 y, phase) and 2 (mixed c0, c1) and
periodic / antiperiodic pairs, all six length units, Frequency 0 (static) or > 0 (harmonic with
sigma > 0 in some blocks, hysteresis lag, laminations).  Air-gap elements, BH curves
(nonlinear materials), wire-type laminations (LamType >= 3), small-skin-depth boundaries,
polar boundary coordinates and previous solutions are never produced."""
import math
import femgen
from femgen import Builder, UNITS, rnd_nice, mesh_diameter

MAGFCTNS = ["theta", "theta+90", "x*20+y*10", "R*30-15"]


def eval_magfctn(expr, x, y):
    """the magnetisation-direction expressions the generator uses, evaluated independently of Lua;
    x, y in length units (element centroid)"""
    theta = math.atan2(y, x) * 180 / math.pi
    R = math.hypot(x, y)
    return {"theta": theta, "theta+90": theta + 90, "x*20+y*10": x * 20 + y * 10, "R*30-15": R * 30 - 15}[expr]


def write(p, path):
    """femgen.write, then the optional quoted Lua expression appended to block-label lines"""
    femgen.write(p, path)
    fct = [l.get("magdirfctn") for l in p["labels"]]
    eol = p.get("eol", "\n")
    txt = open(path, newline="").read().split(eol)
    # the readers (feasolver.cpp:279, FemmReader.cpp:172) know the sixth unit as "microns"; any other
    # word is silently read as inches
    txt = [("[LengthUnits] =  microns" if l.startswith("[LengthUnits]") and "micrometers" in l else l) for l in txt]
    i = next(k for k, l in enumerate(txt) if l.startswith("[NumBlockLabels]"))
    for k, f in enumerate(fct):
        if f:
            txt[i + 1 + k] += '\t"%s"' % f
    with open(path, "w", newline="") as f:
        f.write(eol.join(txt))


def gen_problem(rng, harmonic=None, size_nodes=60, force=None):
    """force: optional dict of feature overrides (used by the search / defect replays)."""
    force = force or {}
    B = Builder("fem")
    p = B.p
    harmonic = (rng.random() < 0.45) if harmonic is None else harmonic
    p["problemtype"] = "planar"
    p["units"] = force.get("units") or rng.choice(UNITS)
    p["depth"] = rng.choice([1.0, 2.5, 10.0])
    p["precision"] = 1e-8
    p["minangle"] = rng.choice([20, 25, 30])
    p["dosmartmesh"] = force.get("dosmartmesh", 0 if rng.random() < 0.85 else 1)
    p["frequency"] = rng.choice([50.0, 400.0, 1000.0, 10.0]) if harmonic else 0.0
    W = rng.choice([1.0, 2.0, 3.0, 4.0])
    H = rng.choice([1.0, 1.5, 2.0, 3.0])
    x0 = rng.choice([-1.0, 0.0, 0.25])
    y0 = rng.choice([-1.0, 0.0, 0.5])
    x1, y1 = x0 + W, y0 + H
    feats = ["harmonic" if harmonic else "static", p["units"]]

    # ---- materials --------------------------------------------------------------------
    def iron(name):
        mux = rng.choice([2.0, 50.0, 1000.0, 7.5])
        muy = mux if rng.random() < 0.4 else rng.choice([1.0, 3.0, 200.0, 1500.0])
        lt = 0 if harmonic else rng.choice([0, 0, 1, 2])
        fill = rng.choice([1.0, 0.9, 0.5, 0.96])
        kw = dict(name=name, mu_x=mux, mu_y=muy, lamtype=lt, lamfill=fill)
        if harmonic:
            kw.update(sigma=rng.choice([0.0, 1.0, 5.0]), d_lam=rng.choice([0.0, 0.0, 0.5, 0.35]),
                      phi_hx=rng.choice([0.0, 10.0, 20.0]), phi_hy=rng.choice([0.0, 0.0, 15.0]))
            if kw["d_lam"] == 0.0 and not force.get("fill_without_dlam"):
                kw["lamfill"] = 1.0          # see findings/C05-2: Harmonic2D ignores LamFill when d_lam = 0
        kw.update(force.get("iron", {}))
        feats.append("iron:lam%d%s%s" % (kw["lamtype"], ":aniso" if kw["mu_x"] != kw["mu_y"] else "", ":fill" if kw["lamfill"] != 1.0 else ""))
        return B.prop("blockprops", **kw)

    def air(name="air"):
        return B.prop("blockprops", name=name, mu_x=1.0, mu_y=1.0)

    def magnet(name):
        feats.append("magnet")
        return B.prop("blockprops", name=name, mu_x=1.05, mu_y=rng.choice([1.05, 1.2]), H_c=rng.choice([1e5, 9.79e5, 5e4]),
                      sigma=(0.667 if harmonic else 0.0))

    def copper(name, sigma=None, J=None):
        s = rng.choice([0.0, 58.0, 10.0]) if sigma is None else sigma
        jr = rng.choice([0.0, 0.0, 1.0, -2.5]) if J is None else J
        return B.prop("blockprops", name=name, mu_x=1.0, mu_y=1.0, sigma=s, J_re=jr,
                      J_im=(rng.choice([0.0, 0.5, -1.0]) if harmonic and jr != 0 else 0.0))

    m_air = air()
    two = rng.random() < 0.55
    m_main = m_air if (rng.random() < 0.6 and not force.get("main_iron")) else iron("ironA")
    m_second = (iron("ironB") if m_main == m_air or rng.random() < 0.5 else m_air) if two else None

    # ---- boundary properties ----------------------------------------------------------
    bd = {}
    bd["A0"] = B.prop("bdryprops", name="A0", type=0, A_0=rng.choice([0.0, 0.0, 1e-3, -2e-4]))
    bd["Axy"] = B.prop("bdryprops", name="Axy", type=0, A_0=rng.choice([0.0, 5e-4]), A_1=rng.choice([1e-3, -2e-3, 1e-4]),
                       A_2=rng.choice([0.0, 5e-4, -1e-3]), Phi=rng.choice([0.0, 0.0, 30.0, 90.0, -45.0]))
    c0 = rng.choice([1e5, 1e6, 3e6, 1e7])
    bd["mixed"] = B.prop("bdryprops", name="mixed", type=2, c0=c0, c1=rng.choice([0.0, 100.0, -50.0]),
                         c0i=(rng.choice([0.0, c0 / 4]) if harmonic else 0.0), c1i=(rng.choice([0.0, 20.0]) if harmonic else 0.0))
    pbc = force.get("pbc", rng.random() < 0.15)
    anti = rng.random() < 0.5
    if pbc:
        bd["per"] = B.prop("bdryprops", name="per", type=5 if anti else 4)
        a0v = 0.0 if anti else p["bdryprops"][bd["A0"] - 1]["A_0"]
        p["bdryprops"][bd["A0"] - 1]["A_0"] = a0v
        choices = ["A0", "mixed", None]
        picked = [rng.choice(choices), "per", rng.choice(choices), "per"]
        if picked[0] != "A0" and picked[2] != "A0":
            picked[rng.choice([0, 2])] = "A0"
        feats.append("antiperiodic" if anti else "periodic")
    else:
        # one prescribed-A property per problem, so that sides meeting at a corner agree there (two
        # different values at one node: see findings/C05-3); force["conflict"] mixes them
        fam = rng.choice(["A0", "Axy"])
        choices = [fam, fam, "mixed", None] + (["A0", "Axy"] if force.get("conflict") else [])
        picked = [rng.choice(choices) for _ in range(4)]
        if force.get("conflict"):
            picked = ["Axy", "A0", "Axy", "A0"]
        if not any(c in ("A0", "Axy") for c in picked):
            picked[rng.randrange(4)] = fam
    sides = {nm: (dict(bdry=bd[c]) if c else {}) for nm, c in zip("brtl", picked)}
    feats += ["side:" + (c or "none") for c in picked]

    target = W * H / max(size_nodes, 8) * 1.3
    d = mesh_diameter(target)
    B.rect(x0, y0, x1, y1, sides)
    xm = x0 + W * 0.45
    if two:
        a = B.point(xm, y0); b = B.point(xm, y1)
        segs = p["segments"]
        bot, right, top, left = segs[0], segs[1], segs[2], segs[3]
        p["segments"] = [dict(bot, n1=a), dict(bot, n0=a), right, dict(top, n1=b), dict(top, n0=b), left]
        B.seg(a, b)
        B.label(x0 + W * 0.07, y0 + H * 0.12, m_main, maxarea=d)
        B.label(x0 + W * 0.93, y0 + H * 0.9, m_second, maxarea=d)
        feats.append("interface")
    else:
        B.label(x0 + W * 0.07, y0 + H * 0.12, m_main, maxarea=d)

    # ---- circuits ---------------------------------------------------------------------
    def amps():
        return dict(amps_re=rng.choice([1.0, 10.0, -3.0, 250.0]), amps_im=(rng.choice([0.0, 2.0, -1.0]) if harmonic else 0.0))
    c_par = B.prop("circuits", name="par", type=0, **amps())
    c_ser = B.prop("circuits", name="ser", type=1, **amps())
    c_par2 = B.prop("circuits", name="par2", type=0, **amps())

    # ---- inner boxes ------------------------------------------------------------------
    boxes = [(x0 + W * 0.55, y0 + H * 0.25, x0 + W * 0.8, y0 + H * 0.5),
             (x0 + W * 0.15, y0 + H * 0.55, x0 + W * 0.35, y0 + H * 0.8)]
    kinds = force.get("boxes")
    if kinds is None:
        r = rng.random()
        nb = 0 if r < 0.1 else (1 if r < 0.45 else 2)
        pool = ["coil", "coil", "solid", "jblock", "iron"] + ([] if harmonic else ["magnet", "magnet"])
        kinds = [rng.choice(pool) for _ in range(nb)]
        if nb == 2 and rng.random() < 0.3:
            kinds = ["coil", "coil"]
    # "mixedwound" (a parallel circuit made of a wound and a solid conducting region, findings/C05-1)
    # only on request
    coil_mode = force.get("coil_mode") or rng.choice(["series", "series", "parallel", "separate"])
    ncoil = 0
    for k, kind in enumerate(kinds):
        bx0, by0, bx1, by1 = boxes[k]
        B.rect(bx0, by0, bx1, by1)
        cx, cy = (bx0 + bx1) / 2, (by0 + by1) / 2
        lab = dict(maxarea=d / 1.4)
        if kind == "coil":
            turns = rng.choice([1, 5, 100, 20])
            sig = force.get("coil_sigma", rng.choice([0.0, 58.0]))
            cj = force.get("coil_J")
            if coil_mode == "series":
                m = copper("coil%d" % k, sigma=sig, J=(rng.choice([0.0, 0.0, 0.5]) if cj is None else cj))
                lab.update(circuit=c_ser, turns=turns if ncoil == 0 else -turns)
                feats.append("coil:series:turns%s" % ("1" if turns == 1 else "N"))
            elif coil_mode == "parallel":
                m = copper("coil%d" % k, sigma=(rng.choice([0.0, 58.0, 10.0]) if ncoil == 0 else sig) if "coil_sigma" not in force else sig,
                           J=(rng.choice([0.0, 1.0]) if cj is None else cj))
                lab.update(circuit=c_par, turns=1)
                feats.append("coil:parallel")
            elif coil_mode == "mixedwound":
                # parallel circuit made of a wound region (|turns| > 1) and a solid one, both conducting
                m = copper("coil%d" % k, sigma=58.0 if ncoil == 0 else 10.0, J=0.0)
                lab.update(circuit=c_par, turns=turns if (ncoil == 0 and turns > 1) else (7 if ncoil == 0 else 1))
                feats.append("coil:parallel-wound" if ncoil == 0 else "coil:parallel-solid")
            else:
                m = copper("coil%d" % k, sigma=sig, J=0.0)
                lab.update(circuit=c_par if ncoil == 0 else c_par2, turns=rng.choice([1, turns]))
                feats.append("coil:separate")
            ncoil += 1
        elif kind == "solid":
            m = copper("solid%d" % k, sigma=rng.choice([58.0, 10.0]), J=0.0)
            lab.update(circuit=c_par2 if ncoil else c_par, turns=1)
            feats.append("solid-conductor")
            ncoil += 1
            if harmonic and rng.random() < 0.6:
                # a prescribed-A point on a corner of a solid conductor that belongs to a current-driven circuit:
                # the fixed node is coupled to the circuit's extra unknown (its voltage gradient)
                ppA = B.prop("pointprops", name="ptAc%d" % k, A_re=rng.choice([1e-4, -3e-4]), A_im=rng.choice([0.0, 5e-5]))
                B.point(bx0, by0, prop=ppA)
                feats.append("fixed-node-on-circuit-conductor")
        elif kind == "jblock":
            m = copper("jblk%d" % k, sigma=(rng.choice([0.0, 58.0]) if harmonic else 0.0), J=rng.choice([1.0, -2.5, 0.3]))
            feats.append("jblock")
        elif kind == "iron":
            m = iron("ironbox%d" % k)
        else:
            m = magnet("mag%d" % k)
            if rng.random() < 0.4:
                lab.update(magdirfctn=rng.choice(MAGFCTNS))
                feats.append("magdir:lua")
            else:
                lab.update(magdir=rng.choice([0.0, 90.0, 30.0, 135.0, -60.0, 45.5, 180.0]))
                feats.append("magdir:const")
        B.label(cx, cy, m, **lab)

    # ---- points -----------------------------------------------------------------------
    r = rng.random()
    if force.get("nosource"):
        for bp in p["bdryprops"]:
            for kk in ("A_0", "A_1", "A_2", "c1", "c1i"):
                if kk in bp:
                    bp[kk] = 0.0
        r = 1.0
    else:
        # a problem without any source has the zero solution; the complex solver turns a zero
        # right-hand side into NaN (findings/C05-4), so random problems always get a source
        used = [c for c in picked if c]
        src = any(k in ("coil", "solid", "jblock") or (k == "magnet" and not harmonic) for k in kinds)
        for c in used:
            bp = p["bdryprops"][bd[c] - 1]
            src = src or any(bp.get(kk, 0.0) != 0 for kk in ("A_0", "A_1", "A_2", "c1", "c1i"))
        if not src:
            r = 0.0
    if r < 0.45:
        if r == 0.0:
            pp = B.prop("pointprops", name="ptI", I_re=rng.choice([1.0, -5.0, 20.0]), I_im=0.0)
            feats.append("point-current")
            B.point(x0 + W * 0.3, y0 + H * 0.3, prop=pp)
            p["features"] = feats
            return p
        px, py = x0 + W * 0.3, y0 + H * 0.3
        if rng.random() < 0.5:
            pp = B.prop("pointprops", name="ptI", I_re=rng.choice([1.0, -5.0, 20.0]), I_im=(rng.choice([0.0, 1.0]) if harmonic else 0.0))
            feats.append("point-current")
        else:
            pp = B.prop("pointprops", name="ptA", A_re=rng.choice([0.0, 1e-3, -5e-4]), A_im=(rng.choice([0.0, 2e-4]) if harmonic else 0.0))
            feats.append("point-A")
        B.point(px, py, prop=pp)
    p["features"] = feats
    return p


def probe_problems(seed):
    """targeted problems for the recorded defects of the unchanged solver (findings/C05-*.diff):
    (signature, problem)"""
    import vlib
    out = []
    r = vlib.Rng(seed)
    out.append(("C05-1 parallel circuit of a wound and a solid conducting region (static)",
                gen_problem(r, harmonic=False, size_nodes=30, force=dict(boxes=["coil", "coil"], coil_mode="mixedwound", units="inches", dosmartmesh=0))))
    out.append(("C05-1 parallel circuit of a wound and a solid conducting region (harmonic)",
                gen_problem(r, harmonic=True, size_nodes=30, force=dict(boxes=["coil", "coil"], coil_mode="mixedwound", units="inches", dosmartmesh=0))))
    out.append(("C05-2 harmonic solver ignores the lamination fill factor when d_lam = 0",
                gen_problem(r, harmonic=True, size_nodes=30, force=dict(main_iron=True, fill_without_dlam=True, boxes=["jblock"], dosmartmesh=0,
                                                                         iron=dict(d_lam=0.0, lamfill=0.5, sigma=0.0)))))
    out.append(("C05-3 two different prescribed values at one node",
                gen_problem(r, harmonic=False, size_nodes=30, force=dict(conflict=True, pbc=False, boxes=["jblock"], dosmartmesh=0))))
    out.append(("C05-4 harmonic problem without sources yields NaN",
                gen_problem(r, harmonic=True, size_nodes=30, force=dict(nosource=True, pbc=False, boxes=["iron"], dosmartmesh=0))))
    return out
