"""C14 — seeded generator of well-formed .fem / .fee / .feh problem files.

Starts from the problem files of the repository's own tests (read with the independent reader
tools/femfile.py) and mutates them: every header field, 0..many properties of each kind (names
with spaces and quotes, B-H and T-k tables), [dT] / previous-solution reference, entity
attributes, and the spelling (FEMM 4.2: CRLF, padded keys, 3-digit exponents; xfemm: LF;
mfemm: lower-case keys).  Geometry (coordinates, topology) is never changed, so that the mesher
must still accept every generated file; boundary types are only drawn from the non-periodic ones
unless the base file already pairs the segments."""
import copy, math, os
import femfile

BASES = ["fmesher/test/Temp.fem", "fsolver/test/Temp1.fem", "femmcli/test/femmcli_TorqueBenchmark.fem",
         "femmcli/test/femmcli_antiperiodicBC_AGE_TorqueBenchmark.fem", "femmcli/test/femmcli_antiperiodicBC_flux.fem",
         "femmcli/test/femmcli_femfile.fem", "femmcli/test/femmcli_fpproc.fem", "fmesher/test/split_seg_err_test.fem",
         "esolver/test/test.fee", "femmcli/test/femmcli_epproc.fee",
         "hsolver/test/Temp0.feh", "hsolver/test/Temp1.feh", "femmcli/test/femmcli_hpproc.feh"]

# canonical spelling and order of the keys as FEMM 4.2 writes them: (key, type)
CANON = {
    ("fem", "point"): [("<PointName>", "str"), ("<I_re>", "num"), ("<I_im>", "num"), ("<A_re>", "num"), ("<A_im>", "num")],
    ("fem", "bdry"): [("<BdryName>", "str"), ("<BdryType>", "btype"), ("<A_0>", "num"), ("<A_1>", "num"), ("<A_2>", "num"),
                      ("<Phi>", "num"), ("<c0>", "num"), ("<c0i>", "num"), ("<c1>", "num"), ("<c1i>", "num"),
                      ("<Mu_ssd>", "num"), ("<Sigma_ssd>", "num"), ("<innerangle>", "num"), ("<outerangle>", "num")],
    ("fem", "block"): [("<BlockName>", "str"), ("<Mu_x>", "pos"), ("<Mu_y>", "pos"), ("<H_c>", "num"), ("<H_cAngle>", "num"),
                       ("<J_re>", "num"), ("<J_im>", "num"), ("<Sigma>", "nonneg"), ("<d_lam>", "nonneg"), ("<Phi_h>", "num"),
                       ("<Phi_hx>", "num"), ("<Phi_hy>", "num"), ("<LamType>", "lamtype"), ("<LamFill>", "unit"),
                       ("<NStrands>", "count"), ("<WireD>", "nonneg"), ("<BHPoints>", "bh")],
    ("fem", "circ"): [("<CircuitName>", "str"), ("<TotalAmps_re>", "num"), ("<TotalAmps_im>", "num"), ("<CircuitType>", "bit")],
    ("fee", "point"): [("<PointName>", "str"), ("<Vp>", "num"), ("<qp>", "num")],
    ("fee", "bdry"): [("<BdryName>", "str"), ("<BdryType>", "btype"), ("<Vs>", "num"), ("<qs>", "num"), ("<c0>", "num"), ("<c1>", "num")],
    ("fee", "block"): [("<BlockName>", "str"), ("<ex>", "pos"), ("<ey>", "pos"), ("<qv>", "num")],
    ("fee", "circ"): [("<ConductorName>", "str"), ("<Vc>", "num"), ("<qc>", "num"), ("<ConductorType>", "bit")],
    ("feh", "point"): [("<PointName>", "str"), ("<Tp>", "num"), ("<qp>", "num")],
    ("feh", "bdry"): [("<BdryName>", "str"), ("<BdryType>", "btype"), ("<Tset>", "num"), ("<qs>", "num"), ("<beta>", "nonneg"),
                      ("<h>", "nonneg"), ("<Tinf>", "num")],
    ("feh", "block"): [("<BlockName>", "str"), ("<Kx>", "pos"), ("<Ky>", "pos"), ("<Kt>", "nonneg"), ("<qv>", "num"), ("<TKPoints>", "tk")],
    ("feh", "circ"): [("<ConductorName>", "str"), ("<Tc>", "num"), ("<qc>", "num"), ("<ConductorType>", "bit")],
}
# boundary types that need no pairing of segments (periodic / anti-periodic / air-gap ones are kept
# only where the base file has them)
FREE_BTYPES = {"fem": [0, 1, 2, 3], "fee": [0, 1, 2], "feh": [0, 1, 2, 3]}

HEADER_ORDER = {
    "fem": ["[Format]", "[Frequency]", "[Precision]", "[MinAngle]", "[DoSmartMesh]", "[Depth]", "[LengthUnits]",
            "[ProblemType]", "[Coordinates]", "[ACSolver]", "[PrevType]", "[PrevSoln]", "[Comment]"],
    "fee": ["[Format]", "[Precision]", "[MinAngle]", "[DoSmartMesh]", "[Depth]", "[LengthUnits]", "[ProblemType]",
            "[Coordinates]", "[Comment]"],
    "feh": ["[Format]", "[Precision]", "[MinAngle]", "[DoSmartMesh]", "[Depth]", "[LengthUnits]", "[ProblemType]",
            "[Coordinates]", "[PrevSoln]", "[dT]", "[Comment]"],
}
UNITS = ["inches", "millimeters", "centimeters", "mils", "microns", "meters"]
WORDS = ["Air", "1117 Steel", "Coil A", "NdFeB 40 MGOe", "outer boundary", "M-19 Steel", "copper (18 AWG)", "Brick, Common",
         "a \"quoted\" name", "x", "New Material", "Zero", "name with  two spaces", "\xc4\xd6-umlaut",
         "tab-free, comma; semi", "<None>x", "[bracket]", "100%"]


def fmt(rng, x, style):
    """Number spelling: %.17g, or FEMM 4.2's MSVC form with three exponent digits."""
    if isinstance(x, int):
        return str(x)
    s = "%.17g" % x
    if style == "femm42" and "e" in s:
        m, e = s.split("e")
        s = "%se%s%03d" % (m, e[0], int(e[1:]))
    return s


def rnum(rng, ty="num"):
    k = rng.random()
    if ty == "pos":
        return rng.choice([1.0, 1.0, 4.0, 1777.0, 2500.5, rng.uniform(0.5, 5000), 10 ** rng.uniform(-3, 6)])
    if ty == "nonneg":
        return rng.choice([0.0, 0.0, 1.0, 58.0, 0.35, rng.uniform(0, 100), 10 ** rng.uniform(-6, 8)])
    if ty == "unit":
        return rng.choice([1.0, 1.0, 0.98, rng.uniform(0.01, 1)])
    if k < 0.25:
        return 0.0
    if k < 0.45:
        return float(rng.randint(-1000, 1000))
    if k < 0.6:
        return rng.randint(-4096, 4096) / 64.0
    if k < 0.85:
        return rng.uniform(-1, 1) * 10 ** rng.randint(-12, 12)
    if k < 0.95:
        return rng.choice([1e-300, -1e300, 1.7976931348623157e308, 2.2250738585072014e-308, 1e-8, 0.1, 1 / 3.0, -0.0])
    return rng.uniform(-1e6, 1e6)


def rname(rng, used):
    while True:
        w = rng.choice(WORDS)
        if rng.random() < 0.5:
            w = w + " " + str(rng.randint(1, 99))
        if w not in used:
            used.add(w)
            return w


def gen_table(rng, kind):
    n = rng.choice([0, 0, 0, 2, 3, 5, 9, 20] if kind == "bh" else [0, 0, 0, 1, 2, 3, 7, 18, 128])
    if n == 0:
        return []
    if kind == "bh":
        b = sorted(set([0.0] + [round(rng.uniform(0, 2.5), 6) for _ in range(n - 1)]))
        h = 0.0
        rows = []
        for i, bb in enumerate(b):
            rows.append((bb, h))
            h += rng.uniform(10, 5000) * (1 + i)
        return rows
    t = sorted(set(round(rng.uniform(0, 2000), 3) for _ in range(n)))
    return [(tt, rng.uniform(0.01, 400)) for tt in t]


def gen_block(rng, kind, sec, used, style, btypes, drop=0.0):
    """One property block: [(key, raw value, table or None)] in FEMM 4.2 order."""
    blk = []
    for key, ty in CANON[(kind, sec)]:
        if rng.random() < drop and ty != "str":
            continue
        if ty == "str":
            blk.append((key, '"%s"' % rname(rng, used), None))
        elif ty == "btype":
            blk.append((key, str(rng.choice(btypes)), None))
        elif ty == "lamtype":
            blk.append((key, str(rng.choice([0, 0, 1, 2, 3, 4, 5, 6])), None))
        elif ty == "count":
            blk.append((key, str(rng.choice([0, 0, 1, 7, 100])), None))
        elif ty == "bit":
            blk.append((key, str(rng.choice([0, 1])), None))
        elif ty in ("bh", "tk"):
            rows = gen_table(rng, ty)
            blk.append((key, str(len(rows)), [(fmt(rng, a, style), fmt(rng, b, style)) for a, b in rows]))
        else:
            blk.append((key, fmt(rng, rnum(rng, ty), style), None))
    if kind == "fem" and sec == "circ" and rng.random() < 0.2:
        # old files carry a voltage gradient
        blk.append(("<VoltGradient_re>", fmt(rng, rnum(rng), style), None))
        blk.append(("<VoltGradient_im>", fmt(rng, rnum(rng), style), None))
    return blk


def set_header(ff, key, val):
    for i, (k, v) in enumerate(ff.header):
        if k.lower() == key.lower():
            ff.header[i] = (key, val)
            return
    ff.header.append((key, val))


def del_header(ff, key):
    ff.header = [(k, v) for k, v in ff.header if k.lower() != key.lower()]


def order_header(ff):
    order = [k.lower() for k in HEADER_ORDER[ff.kind]]
    pos = lambda k: order.index(k.lower()) if k.lower() in order else len(order)
    ff.header = [kv for _, kv in sorted(enumerate(ff.header), key=lambda t: (pos(t[1][0]), t[0]))]


def mutate_header(rng, ff, style, info):
    kind = ff.kind
    varied = info.setdefault("header_keys", [])

    def put(key, val):
        set_header(ff, key, val)
        varied.append(key)
    if rng.random() < 0.6:
        put("[Precision]", fmt(rng, rng.choice([1e-8, 1e-10, 1e-6, 1e-12]), style))
    if rng.random() < 0.6:
        put("[MinAngle]", fmt(rng, rng.choice([30.0, 25.0, 10.0, 1.0, 33.0, 20.5]), style))
    if rng.random() < 0.6:
        put("[Depth]", fmt(rng, rng.choice([1.0, 20.0, 0.5, 1.635130595832468, 1000.0, rng.uniform(0.1, 50)]), style))
    if rng.random() < 0.6:
        put("[LengthUnits]", rng.choice(UNITS))
    if rng.random() < 0.3:
        put("[Coordinates]", rng.choice(["cartesian", "polar"]))
    if rng.random() < 0.5:
        put("[Comment]", '"%s"' % rng.choice(["Add comments here.", "", "a \"quoted\" comment", "x = 3; y = [4]", "line one\\nline two",
                                              "Source: http://www.femm.info/wiki/TorqueBenchmark/", "  leading and trailing  "]))
    if rng.random() < 0.5:
        put("[DoSmartMesh]", str(rng.choice([0, 1])))
    if rng.random() < 0.3:
        put("[ForceMaxMesh]", str(rng.choice([0, 1])))
    if kind == "fem":
        if rng.random() < 0.5:
            put("[Frequency]", fmt(rng, rng.choice([0.0, 50.0, 60.0, 1e3, 12345.678, 1e6]), style))
        if rng.random() < 0.4:
            put("[ACSolver]", str(rng.choice([0, 1])))
        if rng.random() < 0.4:
            pt = rng.choice([0, 1, 2])
            put("[PrevType]", str(pt))
            put("[PrevSoln]", '"%s"' % ("" if pt == 0 and rng.random() < 0.7 else rng.choice(["prev.ans", "dir with space/p q.ans", "C:\\femm42\\x.ans"])))
    if kind == "feh":
        if rng.random() < 0.7:
            dt = rng.choice([0.0, 0.0, 10.0, 0.5, 3600.0, 1e-3])
            put("[dT]", fmt(rng, dt, style))
            put("[PrevSoln]", '"%s"' % ("" if dt == 0 else rng.choice(["Temp0.anh", "previous step.anh", "C:\\heat\\t0.anh"])))
    # axisymmetric problems: exterior region
    axi = ff.hget("[problemtype]", "planar").split()[0].lower() == "axisymmetric"
    if axi and rng.random() < 0.6:
        if rng.random() < 0.7:
            put("[extZo]", fmt(rng, rng.uniform(-5, 5), style))
            put("[extRo]", fmt(rng, rng.uniform(0.5, 50), style))
            put("[extRi]", fmt(rng, rng.uniform(0.5, 50), style))
        else:
            for k in ("[extZo]", "[extRo]", "[extRi]"):
                del_header(ff, k)
    # absent keys take their defaults
    for k in ("[Precision]", "[MinAngle]", "[Comment]", "[Coordinates]", "[DoSmartMesh]"):
        if rng.random() < 0.08:
            del_header(ff, k)
            varied.append("-" + k)
    order_header(ff)


def retable(blk, rng, style):
    out = []
    for k, v, tab in blk:
        if tab is not None and rng.random() < 0.5:
            rows = gen_table(rng, "bh" if k.lower() == "<bhpoints>" else "tk")
            out.append((k, str(len(rows)), [(fmt(rng, a, style), fmt(rng, b, style)) for a, b in rows]))
        else:
            out.append((k, v, tab))
    return out


def mutate_props(rng, ff, style, info):
    """Mutate values of the existing properties (types and references kept) and append new ones."""
    kind = ff.kind
    used = set()
    counts = info.setdefault("prop_counts", {})
    for sec in ("point", "bdry", "block", "circ"):
        spec = {k.lower(): ty for k, ty in CANON[(kind, sec)]}
        new = []
        for blk in ff.props[sec]:
            nb = []
            for k, v, tab in blk:
                ty = spec.get(k.lower())
                if ty == "str":
                    if rng.random() < 0.5:
                        v = '"%s"' % rname(rng, used)
                    else:
                        used.add(femfile.unquote(v) or "")
                elif ty in ("num", "pos", "nonneg", "unit") and rng.random() < 0.5:
                    v = fmt(rng, rnum(rng, ty), style)
                elif ty == "count" and rng.random() < 0.3:
                    v = str(rng.choice([0, 1, 7]))
                nb.append((k, v, tab))
            new.append(retable(nb, rng, style))
        # heat-flow / electrostatic files of FEMM 4.2 carry a <PointName>; the repo's test files have
        # no point properties at all, so add some
        extra = rng.choice([0, 0, 1, 2, 5]) if sec != "point" else rng.choice([0, 1, 2, 3])
        for _ in range(extra):
            new.append(gen_block(rng, kind, sec, used, style, FREE_BTYPES[kind], drop=rng.choice([0, 0, 0.3])))
        ff.props[sec] = new
        counts[sec] = len(new)


def base_scale(ff):
    xs = [float(l.split()[0]) for l in ff.points] or [0.0, 1.0]
    ys = [float(l.split()[1]) for l in ff.points] or [0.0, 1.0]
    return max(max(xs) - min(xs), max(ys) - min(ys), 1e-9)


def paired_markers(ff):
    """1-based boundary indices of (anti)periodic / air-gap boundary properties: references to
    them are left alone."""
    keep = set()
    for i, blk in enumerate(ff.props["bdry"]):
        for k, v, tab in blk:
            if k.lower() == "<bdrytype>":
                t = int(v.split()[0])
                if t not in FREE_BTYPES[ff.kind]:
                    keep.add(i + 1)
    return keep


def mutate_entities(rng, ff, style, info, paired):
    kind = ff.kind
    npoint, nbdry, nblock, ncirc = (len(ff.props[s]) for s in ("point", "bdry", "block", "circ"))
    free_b = [0] + [i + 1 for i in range(nbdry) if (i + 1) not in paired]
    scale = base_scale(ff)
    cond = kind in ("fee", "feh")
    pts = []
    for l in ff.points:
        t = l.split()
        if rng.random() < 0.3:
            t[2] = str(rng.randint(0, npoint))
        if rng.random() < 0.3:
            t[3] = str(rng.choice([0, 1, 2, 7, 100]))
        if cond:
            while len(t) < 5:
                t.append("0")
            if rng.random() < 0.3:
                t[4] = str(rng.randint(0, ncirc))
        pts.append("\t".join(t))
    ff.points = pts
    segs = []
    for l in ff.segments:
        t = l.split()
        if int(t[3]) not in paired and rng.random() < 0.3:
            t[3] = str(rng.choice(free_b))
        if rng.random() < 0.2:
            t[2] = rng.choice(["-1", fmt(rng, scale / rng.choice([3, 7, 12.5]), style), "-1"])
        if rng.random() < 0.15:
            t[4] = str(rng.choice([0, 1]))
        if rng.random() < 0.3:
            t[5] = str(rng.choice([0, 1, 2, 7, 100]))
        if cond:
            while len(t) < 7:
                t.append("0")
            if rng.random() < 0.3:
                t[6] = str(rng.randint(0, ncirc))
        segs.append("\t".join(t))
    ff.segments = segs
    arcs = []
    for l in ff.arcs:
        t = l.split()
        if int(t[4]) not in paired and rng.random() < 0.3:
            t[4] = str(rng.choice(free_b))
        if rng.random() < 0.2:
            t[3] = fmt(rng, rng.choice([1.0, 2.5, 5.0, 10.0]), style)
            if not cond and len(t) > 7:
                t[7] = t[3]
        if rng.random() < 0.15:
            t[5] = str(rng.choice([0, 1]))
        if rng.random() < 0.3:
            t[6] = str(rng.choice([0, 1, 2, 7]))
        if cond:
            if len(t) < 8 or rng.random() < 0.3:
                t = t[:7] + [str(rng.randint(0, ncirc))]
        elif len(t) > 7 and rng.random() < 0.3:
            t = t[:7]                       # FEMM 4.2 files have no meshed-side-length column
        arcs.append("\t".join(t))
    ff.arcs = arcs
    ff.holes = [("\t" if rng.random() < 0.5 else " ").join(l.split()[:2] + [str(rng.choice([int(l.split()[2]), 0, 3]))]) for l in ff.holes]
    labs = []
    for l in ff.labels:
        q = l.find('"')
        fct = l[q:] if q >= 0 else ""
        t = (l[:q] if q >= 0 else l).split()
        if int(t[2]) == 0:
            labs.append(l)                 # unassigned label of the base file: left alone
            continue
        if rng.random() < 0.4 and nblock > 0:
            t[2] = str(rng.randint(1, nblock))
        if rng.random() < 0.5:
            t[3] = rng.choice(["-1", "0", fmt(rng, scale / rng.choice([4, 9.5, 17]), style), t[3]])
        if kind == "fem":
            while len(t) < 9:
                t.append("0")
            if rng.random() < 0.3:
                t[4] = str(rng.randint(0, ncirc))
            if rng.random() < 0.3:
                t[5] = fmt(rng, rng.choice([0.0, 90.0, -45.5, 180.0, rng.uniform(-360, 360)]), style)
            if rng.random() < 0.3:
                t[6] = str(rng.choice([0, 1, 2, 7]))
            if rng.random() < 0.3:
                t[7] = str(rng.choice([1, 1, 100, -50, 7]))
            if rng.random() < 0.3:
                t[8] = str(rng.choice([0, 1, 2, 3]))
            if rng.random() < 0.15:
                fct = '"%s"' % rng.choice(["theta", "theta+90", "atan2(y,x)*180/pi", "x*2 + y"])
            elif rng.random() < 0.1:
                fct = ""
        else:
            while len(t) < 6:
                t.append("0")
            if rng.random() < 0.3:
                t[4] = str(rng.choice([0, 1, 2, 7]))
            if rng.random() < 0.3:
                t[5] = str(rng.choice([0, 1, 2, 3]))
        labs.append("\t".join(t) + (("\t" + fct) if fct else ""))
    ff.labels = labs


def spell(rng, ff, text, style, info):
    """Spelling variants that must not change the meaning."""
    lines = text.split("\r\n" if "\r\n" in text else "\n")
    out = []
    v = info.setdefault("spelling", [])
    mode = rng.choice(["plain", "plain", "spaces", "lower", "blank"])
    v.append(mode)
    for l in lines:
        if mode == "spaces" and "=" in l and rng.random() < 0.5:
            k, val = l.split("=", 1)
            # every known writer puts white space before the '=' (the readers tokenise on it)
            l = k.rstrip() + " " * rng.randint(1, 4) + "=" + " " * rng.randint(0, 4) + val.strip()
            l = " " * rng.randint(0, 6) + l
        elif mode == "lower" and "=" in l and l.lstrip()[:1] in "[<" and rng.random() < 0.6:
            k, val = l.split("=", 1)
            l = k.lower() + "=" + val            # k keeps its trailing blank
        elif mode == "lower" and l.strip().lower() in ("<beginblock>", "<endblock>", "<beginbdry>", "<endbdry>", "<beginpoint>",
                                                       "<endpoint>", "<begincircuit>", "<endcircuit>", "<beginconductor>", "<endconductor>"):
            l = l.lower()
        out.append(l)
        # blank lines only where every reader skips them (header and property blocks); an empty line inside an
        # entity list is not well-formed (and makes FemmReader::parse abort on an uncaught std::stoi exception)
        st = l.strip().lower()
        if mode == "blank" and rng.random() < 0.05 and (st.startswith("<") or (st.startswith("[") and not st.startswith("[num"))):
            out.append("")
    eol = "\r\n" if style == "femm42" else "\n"
    return eol.join(out)


def generate(rng, src_root, index):
    """Returns (kind, text, info).  info describes what was varied (for the evidence)."""
    rel = BASES[index % len(BASES)] if index < 2 * len(BASES) else rng.choice(BASES)
    ff = femfile.read(os.path.join(src_root, rel))
    info = {"base": rel, "kind": ff.kind}
    style = rng.choice(["femm42", "femm42", "xfemm"])
    info["style"] = style
    if index < len(BASES):
        # the unmodified repository file first
        info["mutation"] = "none"
        with open(os.path.join(src_root, rel), "rb") as f:
            return ff.kind, f.read().decode("latin-1"), info
    paired = paired_markers(ff)
    mode = rng.choice(["values", "values", "structure", "noprops"]) if index >= 2 * len(BASES) else "values"
    info["mutation"] = mode
    if ff.kind == "fem" and ff.circ_key is None:
        ff.circ_key = "[CircuitProps]"
    mutate_header(rng, ff, style, info)
    if mode == "noprops":
        # no properties at all; every reference cleared; labels become holes (no material to refer to)
        for sec in ff.props:
            ff.props[sec] = []
        info["prop_counts"] = {s: 0 for s in ff.props}
        ff.points = ["\t".join(l.split()[:2] + ["0"] + l.split()[3:4] + (["0"] if ff.kind != "fem" else [])) for l in ff.points]
        def clr(l, mi, ci):
            t = l.split()
            t[mi] = "0"
            if ff.kind != "fem" and len(t) > ci:
                t[ci] = "0"
            return "\t".join(t)
        ff.segments = [clr(l, 3, 6) for l in ff.segments]
        ff.arcs = [clr(l, 4, 7) for l in ff.arcs]
        ff.holes = ff.holes + ["\t".join(l.split()[:2] + ["0"]) for l in ff.labels]
        ff.labels = []
    else:
        mutate_props(rng, ff, style, info)
        mutate_entities(rng, ff, style, info, paired)
    text = femfile.render(ff, style, pad=rng.random() < 0.5)
    text = spell(rng, ff, text, style, info)
    return ff.kind, text, info


def special_cases(src_root):
    """Fixed cases that every run includes (deterministic findings must not depend on the seed)."""
    out = []
    hdr = ("[Format]      =  1\n[Precision]   =  1e-008\n[MinAngle]    =  30\n[Depth]       =  1\n[LengthUnits] =  meters\n"
           "[ProblemType] =  planar\n[Coordinates] =  cartesian\n%s[Comment]     =  \"minimal\"\n")
    tail = "[NumPoints] = 0\n[NumSegments] = 0\n[NumArcSegments] = 0\n[NumHoles] = 0\n[NumBlockLabels] = 0\n"
    # heat flow: time step and previous solution, point property with a name, named material and conductor
    out.append(("feh", hdr % "[PrevSoln] = \"Temp0.anh\"\n[dT] = 10\n" +
                "[PointProps]   = 1\n  <BeginPoint>\n    <PointName> = \"hot spot\"\n    <Tp> = 350\n    <qp> = 0\n  <EndPoint>\n"
                "[BdryProps]   = 0\n[BlockProps]  = 1\n  <BeginBlock>\n    <BlockName> = \"Brick, Common\"\n    <Kx> = 0.7\n    <Ky> = 0.7\n"
                "    <Kt> = 1.5\n    <qv> = 0\n    <TKPoints> = 2\n      300\t0.7\n      400\t0.8\n  <EndBlock>\n"
                "[ConductorProps]  = 1\n  <BeginConductor>\n    <ConductorName> = \"c 1\"\n    <Tc> = 300\n    <qc> = 0\n    <ConductorType> = 1\n  <EndConductor>\n" + tail,
                {"base": "special:heat-minimal", "kind": "feh", "mutation": "special", "style": "xfemm"}))
    # smart-mesh switches as FEMM 4.2 / mfemm write them
    for kind, fmtv in (("fem", "4.0"), ("fee", "1"), ("feh", "1")):
        h = hdr.replace("[Format]      =  1", "[Format]      =  " + fmtv) % "[DoSmartMesh] =  0\n[forcemaxmesh] =  1\n"
        if kind == "fem":
            h = h.replace("[Precision]", "[Frequency]   =  0\n[Precision]")
        out.append((kind, h + "[PointProps]   = 0\n[BdryProps]   = 0\n[BlockProps]  = 0\n" +
                    ("[CircuitProps]  = 0\n" if kind == "fem" else "[ConductorProps]  = 0\n") + tail,
                    {"base": "special:smartmesh-" + kind, "kind": kind, "mutation": "special", "style": "xfemm"}))
    # values below the smallest normal double
    out.append(("fee", hdr % "" + "[PointProps]   = 1\n  <BeginPoint>\n    <PointName> = \"tiny\"\n    <Vp> = 4.9406564584124654e-324\n"
                "    <qp> = 1e-310\n  <EndPoint>\n[BdryProps]   = 0\n[BlockProps]  = 0\n[ConductorProps]  = 0\n" + tail,
                {"base": "special:subnormal", "kind": "fee", "mutation": "special", "style": "xfemm"}))
    return out
