"""XSOL — extension of C14 (run by ./check C14 through props/ext.py; ./check XSOL runs it alone): the [Solution] part of result files (.res / .anh / .ans): the hand-off from the solvers to the
post-processors (last clause of C14: "every file written by the program is accepted by its own mesher,
solvers and post-processors with the same meaning").

Model:    coq/theories/SolFile.v (sections of count line + record lines, token level, unit scaling as a function
          on the numeric fields), gen/SolSchemas.v REGENERATED on every run by tools/translate_solution.py from the
          six writer/reader functions (+ the solvers' own previous-solution readers) of the snapshot.
Theorems: Properties_C14_solution.v (generic round trip for all compatible schemas, soundness of the checker, the
          regenerated pairs compatible except the committed defect list SolDefects.v, circuit-line variants,
          air-gap block, unit tables, coordinates come back; incremental and previous-solution hand-offs; one refutation for
          the unreachable static-incremental writer branch).
Tie:      generated problems of the three physics are meshed by the real fmesher and solved by the real solvers;
          the written file is
          (i)   parsed by an independent reader written from the file format (FORMAT below; numbers as tokens:
                every double token must be the %.17g text of a finite double, every int token a plain integer);
          (ii)  compared, token text by token text, with the solver's in-memory data dumped by h_esolver /
                h_hsolver / h_fsolver (planar time-harmonic magnetics; everything else in magnetics — static problems, whose
                element lines carry Jprev, axisymmetric, air-gap and previous-solution problems — by h_solread S),
                under the regenerated WRITER schema (field order, meaning, division by the unit factor);
          (iii) compared with what the real post-processor holds after OpenDocument (h_solread e|h|m) under the
                regenerated READER schema, bit for bit;
          (iv)  for the smaller cases the Coq model is evaluated (vm_compute, binary64): print_solution on the
                solver's data must give the file's tokens, parse_solution on the file's tokens must give the
                post-processor's data;
          (v)   the written coordinates are compared with the mesher's .node file (declared unit): <= 4 ulp.
          A field that does not arrive with the same meaning is a violation with the problem as replay."""
import os, re, json, math, shutil, copy
import vlib, femgen
import translate_solution
from props import c03, c04, c05, c05_gen, c17_gen

LEVEL = "proof"
COQ_MODULES = ["SolFile", "gen/SolSchemas"]
EXTRA_PROPERTY_FILES = ["C14_solution"]          # for the stand-alone run; c14.py lists the same file
ASSUMPTIONS = [
    "token level: a line is the list of its numbers; %.17g printing and the lexing of a number by sscanf / strtod / operator>> are "
    "not modelled (checked at run time: every double token is the shortest-17-digit text of a finite double and is compared as text)",
    "the schemas are extracted by pattern matching over the regular fprintf / sscanf / operator>> code of the named functions "
    "(translator trusted; an unrecognised statement that touches the file aborts the check); canonical field names (the 'meaning') "
    "come from the table CANON of tools/translate_solution.py, which is hand-written and trusted",
    "the copy of the problem file in front of the [Solution] tag is C14's subject (Schema.v), not modelled here; air-gap elements are "
    "never drawn by the generators: the air-gap block is exercised on the repository's two air-gap problems only",
    "per-label circuit lines: the magnetics writers print no line for a circuit whose Case is outside {0,1} (static) / {0,1,2} "
    "(harmonic); Static2D / StaticAxisymmetric / Harmonic2D / HarmonicAxisymmetric only ever assign those values (checked at run "
    "time: the number of circuit lines equals NumBlockLabels)",
    "coordinates come back exactly over the reals; in binary64 x0*c/cf differs from x0 by rounding (measured, <= 4 ulp required)",
    "a reader that drops the result of sscanf and tests the stale variable is modelled as rejecting the line (the real behaviour is "
    "undefined for a never-assigned variable); fused tokens are modelled as unreadable; an unchecked sscanf on a line that ends early "
    "is modelled as accepting it with nothing arriving in the remaining variables (no regenerated pair is in any of these cases except "
    "the static-incremental writer branch, which FSolver::runSolver makes unreachable)",
]

T = {}


def regen(ctx):
    changed, t = translate_solution.regen(ctx.snap.src)
    T.clear()
    T.update(t)


# ---------------------------------------------------------------- independent reader ----
# the [Solution] part as FEMM 4.2 / xfemm document it: per file type the sections in order, per section the
# token types of a record line (d double, i int); '+' marks trailing tokens of incremental-permeability files
FORMAT = {
    "res": [("nodes", "dddi"), ("elements", "iiii"), ("conductors", "dd")],
    "anh": [("nodes", "dddi"), ("elements", "iiii"), ("conductors", "dd")],
    "ans_static": [("nodes", "dddi"), ("elements", "iiiiiiid"), ("circuits", "id"), ("pbcs", "iii")],
    "ans_static_incr": [("nodes", "dddid"), ("elements", "iiiiiiid"), ("circuits", "id"), ("pbcs", "iii")],
    "ans_harmonic": [("nodes", "ddddi"), ("elements", "iiiiiii"), ("circuits", "idd"), ("pbcs", "iii")],
    "ans_harmonic_incr": [("nodes", "ddddid"), ("elements", "iiiiiiid"), ("circuits", "idd"), ("pbcs", "iii")],
}
AGE_PARAMS, AGE_QUAD = "iddddddd" + "idd", "idididid"
INT_RE = re.compile(r"-?\d+\Z")


class FormatError(Exception):
    pass


def check_token(tok, ty, where):
    if ty == "i":
        if not INT_RE.match(tok):
            raise FormatError("%s: %r is not an integer" % (where, tok))
        return
    try:
        v = float(tok)
    except ValueError:
        raise FormatError("%s: %r is not a number" % (where, tok))
    if v != v or v in (math.inf, -math.inf):
        raise FormatError("%s: %r is not a finite number (operator>> and the meaning of the field are lost)" % (where, tok))
    if ("%.17g" % v) != tok:
        raise FormatError("%s: %r is not the %%.17g text of a double" % (where, tok))


def read_solution(path, fmt):
    """-> dict(sections=[(name, [[token text]])], ages=[dict(name, params, quads)])"""
    raw = open(path, newline="").read()
    lines = raw.split("\n")
    tags = [k for k, l in enumerate(lines) if l.strip().lower() == "[solution]"]
    if len(tags) != 1:
        raise FormatError("%d [Solution] tags" % len(tags))
    if "\r" in "".join(lines[tags[0]:]):
        raise FormatError("carriage return in the solution part")
    L = lines[tags[0] + 1:]
    if L and L[-1] == "":
        L.pop()
    pos = 0
    out = []

    def count(where):
        nonlocal pos
        if pos >= len(L):
            raise FormatError("%s: end of file instead of a count line" % where)
        t = L[pos].split()
        if len(t) != 1 or not INT_RE.match(t[0]) or int(t[0]) < 0:
            raise FormatError("%s: count line %r" % (where, L[pos]))
        pos += 1
        return int(t[0])
    for name, types in FORMAT[fmt]:
        n = count(name)
        recs = []
        for k in range(n):
            if pos >= len(L):
                raise FormatError("%s: end of file in record %d of %d" % (name, k, n))
            t = L[pos].split()
            if len(t) != len(types):
                raise FormatError("%s record %d: %d tokens, expected %d: %r" % (name, k, len(t), len(types), L[pos]))
            for j, (tok, ty) in enumerate(zip(t, types)):
                check_token(tok, ty, "%s record %d token %d" % (name, k, j))
            recs.append(t)
            pos += 1
        out.append((name, recs))
    ages = []
    if fmt.startswith("ans"):
        n = count("ages")
        for k in range(n):
            if pos + 1 >= len(L):
                raise FormatError("air-gap element %d: end of file" % k)
            nm = L[pos]; pos += 1
            t = L[pos].split(); pos += 1
            if len(t) != len(AGE_PARAMS):
                raise FormatError("air-gap element %d: parameter line %r" % (k, L[pos - 1]))
            for j, (tok, ty) in enumerate(zip(t, AGE_PARAMS)):
                check_token(tok, ty, "air-gap element %d parameter %d" % (k, j))
            nq = int(t[8]) + 1
            quads = []
            for q in range(nq):
                if pos >= len(L):
                    raise FormatError("air-gap element %d: end of file in quadrature node %d" % (k, q))
                u = L[pos].split(); pos += 1
                if len(u) != len(AGE_QUAD):
                    raise FormatError("air-gap element %d quadrature node %d: %r" % (k, q, L[pos - 1]))
                for j, (tok, ty) in enumerate(zip(u, AGE_QUAD)):
                    check_token(tok, ty, "air-gap element %d quadrature node %d token %d" % (k, q, j))
                quads.append(u)
            ages.append(dict(name=nm, params=t, quads=quads))
    if pos != len(L):
        raise FormatError("%d unexpected lines after the last section: %r" % (len(L) - pos, L[pos][:60]))
    return dict(sections=out, ages=ages)


# ---------------------------------------------------------------------- schema helpers ----
def types_of(fields):
    return "".join("i" if f["ty"] == "int" else "d" for f in fields)


def table_value(tab, unit):
    return float(T["tables"][tab][unit])


def w_scale(f, v, unit):
    if f["scale"][0] == "div":
        return v / table_value(f["scale"][1], unit)
    if f["scale"][0] == "mul":
        return v * table_value(f["scale"][1], unit)
    return v


def tok_text(f, v, unit):
    if f["ty"] == "int":
        return str(int(v))
    return "%.17g" % w_scale(f, float(v), unit)


def schema_shape_check(wname, fmt):
    """the regenerated writer schema has the documented shape"""
    w = T["writers"][wname]
    got = [(s["name"], types_of(s["fields"])) for s in w["sections"]]
    if got != FORMAT[fmt]:
        return "writer schema %s: sections %r, the documented format is %r" % (wname, got, FORMAT[fmt])
    return None


# ------------------------------------------------------------------- in-memory accessors ----
def mem_scalar(d, Vkey, Qkey):
    nn = d["nn"]
    return {
        "nodes": [dict(x=n[0], y=n[1], pot=d[Vkey][i], Q=d[Qkey][i]) for i, n in enumerate(d["nodes"])],
        "elements": [dict(p0=e[0], p1=e[1], p2=e[2], lbl=e[7]) for e in d["elems"]],
        "conductors": [{"cond.V": d[Vkey][nn + c], "cond.q": d["charge"][c]} for c in range(d["nc"])],
    }


def mem_fsolver(d):
    """h_fsolver dump (planar)"""
    nn = d["nn"]
    b = d["BFINAL"]
    if d["harmonic"]:
        A = [(b[2 * i], b[2 * i + 1]) for i in range(nn)]
    else:
        A = [(b[i], 0.0) for i in range(nn)]
    nodes = [{"x": n[0], "y": n[1], "A.re": A[i][0], "A.im": A[i][1], "bmarker": n[2]} for i, n in enumerate(d["nodes"])]
    elems = [dict(p0=e[0], p1=e[1], p2=e[2], e0=e[3], e1=e[4], e2=e[5], lbl=e[7]) for e in d["elems"]]
    circ = []
    for w in d["wlabels"]:
        r = {"circ.case": w[0], "circ.val.re": w[1]}
        if len(w) > 2:
            r["circ.val.im"] = w[2]
        circ.append(r)
    pbcs = [{"pbc.x": q[0], "pbc.y": q[1], "pbc.t": q[2]} for q in d["pbcs"]]
    return {"nodes": nodes, "elements": elems, "circuits": circ, "pbcs": pbcs}


def parse_sdump(path):
    d = dict(nodes=[], elems=[], wlabels=[], pbcs=[], ages=[], fail=None, solved=0)
    for line in open(path):
        t = line.split()
        if not t:
            continue
        k = t[0]
        if k == "FAIL":
            d["fail"] = " ".join(t[1:])
        elif k == "PROB":
            d.update(freq=float(t[1]), unit=int(t[2]), axi=int(t[3]), nn=int(t[4]), ne=int(t[5]), nl=int(t[6]), npbc=int(t[7]),
                     nage=int(t[8]), incr=int(t[9]))
        elif k == "SOLVED":
            d["solved"] = int(t[1])
        elif k == "WLABEL":
            d["wlabels"].append((int(t[1]),) + tuple(float(x) for x in t[2:]))
        elif k == "NODE":
            d["nodes"].append(tuple(float(x) for x in t[1:5]) + (int(t[5]),) + tuple(float(x) for x in t[6:]))
        elif k == "ELEM":
            d["elems"].append(tuple(int(x) for x in t[1:8]) + (float(t[8]),))
        elif k == "PBC":
            d["pbcs"].append(tuple(int(x) for x in t[1:4]))
        elif k == "AGE":
            d["ages"].append(dict(params=[int(t[1])] + [float(x) for x in t[2:9]] + [int(t[9]), float(t[10]), float(t[11])], nq=int(t[12]), quads=[], name=None))
        elif k == "AGENAME":
            d["ages"][-1]["name"] = line[len("AGENAME "):].rstrip("\n")
        elif k == "QUAD":
            d["ages"][-1]["quads"].append([int(t[1]), float(t[2]), int(t[3]), float(t[4]), int(t[5]), float(t[6]), int(t[7]), float(t[8])])
    d["harmonic"] = d.get("freq", 0) != 0
    return d


def mem_sdump(d):
    nodes = []
    for n in d["nodes"]:
        r = {"x": n[0], "y": n[1], "A.re": n[2], "A.im": n[3], "bmarker": n[4]}
        if len(n) > 5:
            r["Aprev"] = n[5]
        nodes.append(r)
    elems = [dict(p0=e[0], p1=e[1], p2=e[2], lbl=e[3], e0=e[4], e1=e[5], e2=e[6], Jprev=e[7]) for e in d["elems"]]
    circ = []
    for w in d["wlabels"]:
        r = {"circ.case": w[0], "circ.val.re": w[1]}
        if len(w) > 2:
            r["circ.val.im"] = w[2]
        circ.append(r)
    pbcs = [{"pbc.x": q[0], "pbc.y": q[1], "pbc.t": q[2]} for q in d["pbcs"]]
    return {"nodes": nodes, "elements": elems, "circuits": circ, "pbcs": pbcs}


# -------------------------------------------------------------- post-processor dump ----
def parse_rdump(out, kind):
    r = dict(ok=None, unit=None, nodes=[], elems=[], conds=[], blocks=[], ages=[], done=False)
    for line in out.split("\n"):
        if len(line) < 2 or line[1] != " ":
            if line.strip() == "D":
                r["done"] = True
            continue
        k, t = line[0], line[2:].split()
        if k == "O":
            r["ok"] = int(t[0])
        elif k == "U":
            r["unit"] = int(t[0])
        elif k == "F":
            r["freq"], r["incr"] = float(t[0]), int(t[1])
        elif k == "n":
            if kind == "m":
                r["nodes"].append({"x": float(t[0]), "y": float(t[1]), "A.re": float(t[2]), "A.im": float(t[3]), "Aprev": float(t[4])})
            else:
                r["nodes"].append({"x": float(t[0]), "y": float(t[1]), "pot": float(t[2]), "Q": int(t[3])})
        elif k == "e":
            e = dict(p0=int(t[0]), p1=int(t[1]), p2=int(t[2]), lbl=int(t[3]))
            if kind == "m":
                e["Jprev"] = float(t[4])
            r["elems"].append(e)
        elif k == "c":
            r["conds"].append({"cond.V": float(t[0]), "cond.q": float(t[1])})
        elif k == "b":
            r["blocks"].append(dict(case=int(t[0]), dV=(float(t[1]), float(t[2])), J=(float(t[3]), float(t[4]))))
        elif k == "g":
            r["ages"].append(dict(params=[int(t[0])] + [float(x) for x in t[1:8]] + [int(t[8]), float(t[9]), float(t[10])], nq=int(t[11]), quads=[], name=None))
        elif k == "a":
            r["ages"][-1]["name"] = line[2:]
        elif k == "q":
            r["ages"][-1]["quads"].append([int(t[0]), float(t[1]), int(t[2]), float(t[3]), int(t[4]), float(t[5]), int(t[6]), float(t[7])])
        elif k in ("N", "E", "C", "B", "G"):
            r["count_" + k] = int(t[0])
    return r


def same_float(a, b):
    return a == b or (a != a and b != b)


# ----------------------------------------------------------------------- the checks ----
def check_writer_side(sol, mem, wname, unit):
    """(ii): file tokens == the solver's data under the writer schema"""
    w = T["writers"][wname]
    for (name, recs), s in zip(sol["sections"], w["sections"]):
        m = mem.get(s["name"])
        if m is None:
            return "no in-memory data for section %s" % s["name"]
        if len(recs) != len(m):
            return "section %s: %d records in the file, %d in the solver's memory (%s)" % (name, len(recs), len(m), s["count"])
        for k, (toks, rec) in enumerate(zip(recs, m)):
            for j, f in enumerate(s["fields"]):
                if f["name"] not in rec:
                    return "section %s: the solver dump has no value for field %s" % (name, f["name"])
                want = tok_text(f, rec[f["name"]], unit)
                if toks[j] != want:
                    return ("section %s record %d field %s (%s): the file has %s, the solver held %r -> %s" %
                            (name, k, f["name"], f["expr"], toks[j], rec[f["name"]], want))
    return None


def r_conv(f, tok, unit):
    if f["ty"] == "int":
        if not INT_RE.match(tok):
            return None                              # %i / >> int stops inside the token: nothing meaningful arrives
        return int(tok)
    v = float(tok)
    if f["scale"][0] == "mul":
        v = v * table_value(f["scale"][1], unit)
    elif f["scale"][0] == "div":
        v = v / table_value(f["scale"][1], unit)
    return v


def check_reader_side(sol, rd, rname, unit, kind):
    """(iii): what the post-processor holds == the file tokens under the reader schema"""
    r = T["readers"][rname]
    held = {"nodes": rd["nodes"], "elements": rd["elems"], "conductors": rd["conds"], "circuits": rd["blocks"]}
    for (name, recs), s in zip(sol["sections"], r["sections"]):
        if not s["fields"]:
            continue
        h = held[s["name"]]
        if s["name"] == "circuits":
            # the list of block labels exists before the solution is read; its length must equal the count
            pass
        if len(h) != len(recs):
            return "section %s: %d records in the file, the post-processor holds %d" % (name, len(recs), len(h))
        for k, (toks, rec) in enumerate(zip(recs, h)):
            if s["name"] == "circuits":
                d = s["dests"]
                tag = int(toks[0])
                if rec["case"] != tag:
                    return "circuit line %d: tag %d in the file, Case %d in the post-processor" % (k, tag, rec["case"])
                dest = d["tag0"] if tag == 0 else d["other"]
                want = (float(toks[1]), float(toks[2]) if len(toks) > 2 and d["complex"] else 0.0)
                got = rec[dest]
                if not (same_float(got[0], want[0]) and same_float(got[1], want[1])):
                    return "circuit line %d (tag %d): the file has %r, the post-processor holds %s = %r" % (k, tag, toks[1:], dest, got)
                continue
            for j, f in enumerate(s["fields"]):
                if f["name"] not in rec:
                    continue                         # scanned into a local (boundary / edge markers in fpproc), not kept
                want = r_conv(f, toks[j], unit)
                got = rec[f["name"]]
                if want is None or not (same_float(float(got), float(want)) if f["ty"] == "dbl" else got == want):
                    return ("section %s record %d field %s (%s): the file has %s, the post-processor holds %r" %
                            (name, k, f["name"], f["expr"], toks[j], got))
    return None


def check_end_to_end(mem, rd, wname, rname, unit):
    """(vi): what the post-processor holds == what the solver held, field by field BY MEANING (canonical name), whatever
    the column: the solver's value, scaled and printed as the writer does, re-read and scaled as the reader does"""
    w, r = T["writers"][wname], T["readers"][rname]
    held = {"nodes": rd["nodes"], "elements": rd["elems"], "conductors": rd["conds"]}
    wsec = {s["name"]: s for s in w["sections"]}
    for s in r["sections"]:
        if s["name"] not in held or s["name"] not in wsec:
            continue
        wf = {f["name"]: f for f in wsec[s["name"]]["fields"]}
        m, h = mem[s["name"]], held[s["name"]]
        if len(m) != len(h):
            return "section %s: the solver held %d records, the post-processor holds %d" % (s["name"], len(m), len(h))
        for k, (a, b) in enumerate(zip(m, h)):
            for f in s["fields"]:
                if f["name"] not in b or f["name"] not in wf or f["name"] not in a:
                    continue
                want = r_conv(f, tok_text(wf[f["name"]], a[f["name"]], unit), unit)
                got = b[f["name"]]
                if want is None or not (same_float(float(got), float(want)) if f["ty"] == "dbl" else got == want):
                    return ("section %s record %d: the solver held %s = %r (arrives as %r), the post-processor holds %r"
                            % (s["name"], k, f["name"], a[f["name"]], want, got))
    return None


AGE_DUMP = ["age.format", "age.innerangle", "age.outerangle", "age.ri", "age.ro", "age.arclength", "age.agc.re", "age.agc.im",
            "age.arcelements", "age.innershift", "age.outershift"]
QUAD_DUMP = ["quad.n0", "quad.w0", "quad.n1", "quad.w1", "quad.n2", "quad.w2", "quad.n3", "quad.w3"]


def check_ages(ctx, tag, replay, sol, rd, sd, unit, harmonic):
    """air-gap elements: file vs solver memory (h_solread S) vs fpproc, line kinds under the regenerated schemas;
    the harness dumps name the values (AGE_DUMP / QUAD_DUMP), the schemas give the columns"""
    w = T["writers"]["fsolver_harmonic" if harmonic else "fsolver_static"]["ages"]
    r = T["readers"]["fpproc_static"]["ages"]
    if sd is not None:
        if len(sd["ages"]) != len(sol["ages"]):
            return "air-gap elements: %d in the file, %d in the solver's memory" % (len(sol["ages"]), len(sd["ages"]))
        for k, (a, m) in enumerate(zip(sol["ages"], sd["ages"])):
            if m["name"].replace("|", "\n") != a["name"] + "\n":
                return "air-gap element %d: name line %r, the solver held %r" % (k, a["name"], m["name"])
            mp = dict(zip(AGE_DUMP, m["params"]))
            for j, f in enumerate(w["params"]):
                if a["params"][j] != tok_text(f, mp[f["name"]], unit):
                    return "air-gap element %d parameter %s: file %s, solver %r" % (k, f["name"], a["params"][j], mp[f["name"]])
            if len(a["quads"]) != len(m["quads"]):
                return "air-gap element %d: %d quadrature lines, the solver held %d nodes" % (k, len(a["quads"]), len(m["quads"]))
            for q, (u, v) in enumerate(zip(a["quads"], m["quads"])):
                mq = dict(zip(QUAD_DUMP, v))
                for j, f in enumerate(w["quad"]):
                    if u[j] != tok_text(f, mq[f["name"]], unit):
                        return "air-gap element %d quadrature node %d %s: file %s, solver %r" % (k, q, f["name"], u[j], mq[f["name"]])
    ia = [f["name"] for f in w["params"]].index("age.arcelements")
    kept = [a for a in sol["ages"] if int(a["params"][ia]) > 0]
    if len(rd["ages"]) != len(kept):
        return "air-gap elements: %d in the file, the post-processor holds %d" % (len(kept), len(rd["ages"]))
    for k, (a, h) in enumerate(zip(kept, rd["ages"])):
        if h["name"] != a["name"].replace('"', ""):
            return "air-gap element %d: name %r, the post-processor holds %r" % (k, a["name"], h["name"])
        hp = dict(zip(AGE_DUMP, h["params"]))
        for j, f in enumerate(r["params"]):
            want = r_conv(f, a["params"][j], unit)
            if want is None or not (same_float(float(hp[f["name"]]), float(want))):
                return "air-gap element %d parameter %s: file %s, post-processor %r" % (k, f["name"], a["params"][j], hp[f["name"]])
        if len(h["quads"]) != len(a["quads"]):
            return "air-gap element %d: %d quadrature lines, the post-processor holds %d" % (k, len(a["quads"]), len(h["quads"]))
        for q, (u, v) in enumerate(zip(a["quads"], h["quads"])):
            hq = dict(zip(QUAD_DUMP, v))
            for j, f in enumerate(r["quad"]):
                want = r_conv(f, u[j], unit)
                if want is None or not same_float(float(hq[f["name"]]), float(want)):
                    return "air-gap element %d quadrature node %d %s: file %s, post-processor %r" % (k, q, f["name"], u[j], hq[f["name"]])
    if sd is not None:
        # by meaning: what fpproc holds == what the solver held under the same canonical name, whatever the column
        wp = {f["name"]: f for f in w["params"]}
        wq = {f["name"]: f for f in w["quad"]}
        keptm = [m for m in sd["ages"] if dict(zip(AGE_DUMP, m["params"]))["age.arcelements"] > 0]
        for k, (m, h) in enumerate(zip(keptm, rd["ages"])):
            mp, hp = dict(zip(AGE_DUMP, m["params"])), dict(zip(AGE_DUMP, h["params"]))
            rows = [(r["params"], wp, mp, hp, "parameter")]
            for q, (u, v) in enumerate(zip(m["quads"], h["quads"])):
                rows.append((r["quad"], wq, dict(zip(QUAD_DUMP, u)), dict(zip(QUAD_DUMP, v)), "quadrature node %d" % q))
            for rf, wf, mm, hh, what in rows:
                for f in rf:
                    if f["name"] not in wf:
                        fail_once(ctx, "%s: air-gap %s %s is read but never written" % (tag, what, f["name"]), "meaning:ages", **replay)
                        return None
                    want = r_conv(f, tok_text(wf[f["name"]], mm[f["name"]], unit), unit)
                    if want is None or not same_float(float(hh[f["name"]]), float(want)):
                        fail_once(ctx, "%s: a field does not arrive with the same meaning: air-gap element %d %s: the solver held %s = %r (arrives as %r), "
                                  "the post-processor holds %r" % (tag, k, what, f["name"], mm[f["name"]], want, hh[f["name"]]), "meaning:ages", **replay)
                        return None
    return None


def read_node_file(path):
    L = open(path).read().split("\n")
    n = int(L[0].split()[0])
    pts = []
    for l in L[1:1 + n]:
        t = l.split()
        pts.append((float(t[1]), float(t[2])))
    return pts


def coordinate_drift(sol, pts):
    """(v): every written node is a mesher node within a few ulp; returns (max ulp, message or None)"""
    recs = sol["sections"][0][1]
    if len(recs) != len(pts):
        return 0, "the file has %d nodes, the mesher wrote %d" % (len(recs), len(pts))
    key = lambda x, y: ("%.9g" % (x + 0.0), "%.9g" % (y + 0.0))
    idx = {}
    for p in pts:
        idx.setdefault(key(*p), []).append(p)
    worst = 0
    for t in recs:
        x, y = float(t[0]), float(t[1])
        cand = idx.get(key(x, y))
        if not cand:
            cand = [min(pts, key=lambda p: abs(p[0] - x) + abs(p[1] - y))]
        best = min(max(vlib.ulp_diff(x, p[0]), vlib.ulp_diff(y, p[1])) for p in cand)
        worst = max(worst, best)
    if worst > 4:
        return worst, "a written node coordinate is %d ulp away from every node of the mesh (declared unit)" % worst
    return worst, None


# ------------------------------------------------------------------------ running ----
PP_LIBS = ("fsolver", "epproc", "hpproc", "fpproc", "femm")


def workdir(ctx):
    """own sub-directory of the run's work directory (the check also runs as an extension of C14)"""
    d = os.path.join(ctx.work, "sol")
    os.makedirs(d, exist_ok=True)
    return d


def sh_tool(ctx, tool, arg, cwd, timeout=120):
    return vlib.sh([ctx.snap.tool(tool), arg], timeout=timeout, cwd=cwd)


def run_reader(ctx, kind, path):
    exe = vlib.build_harness(ctx.snap, "h_solread", libs=PP_LIBS)
    rc, out, err = vlib.sh([exe, kind, path], timeout=300, cwd=os.path.dirname(path))
    return rc, parse_rdump(out, kind), (out[-300:] + err[-300:])


class Case:
    def __init__(self, name, physics, problem, writer=None, **kw):
        self.name, self.physics, self.p = name, physics, problem
        self.kw = kw


def run_scalar(ctx, case, kind):
    """electrostatics ('fee') / heat flow ('feh'): returns dict or raises RuntimeError(message)"""
    ext = {"fee": "res", "feh": "anh"}[kind]
    base = os.path.join(workdir(ctx), case.name)
    f = base + "." + kind
    p = case.p
    prevnodes = None
    if case.kw.get("prev") is not None:
        fp = base + "prev.feh"
        femgen.write(case.kw["prev"], fp)
        rc, out, err = sh_tool(ctx, "fmesher", fp, ctx.work)
        if rc != 0:
            raise RuntimeError("fmesher failed on the previous problem: " + (out + err)[-200:])
        rc, out, err = sh_tool(ctx, "hsolver", fp[:-4], ctx.work)
        if rc != 0 or not os.path.exists(fp[:-4] + ".anh"):
            raise RuntimeError("hsolver failed on the previous (steady) problem: " + (out + err)[-200:])
        p = dict(p, prevsoln=fp[:-4] + ".anh")
        prevnodes = read_solution(fp[:-4] + ".anh", "anh")["sections"][0][1]
    femgen.write(p, f)
    rc, out, err = sh_tool(ctx, "fmesher", f, ctx.work)
    if rc != 0:
        raise RuntimeError("fmesher failed (rc=%d): %s" % (rc, (out + err)[-200:]))
    pts = read_node_file(base + ".node")
    hname, libs, tool = {"fee": ("h_esolver", ("esolver", "femm"), "esolver"), "feh": ("h_hsolver", ("hsolver", "femm"), "hsolver")}[kind]
    exe = vlib.build_harness(ctx.snap, hname, libs=libs)
    dump = base + ".dump"
    rc, out, err = vlib.sh([exe, base, dump], timeout=150, cwd=ctx.work)
    if not os.path.exists(dump):
        raise RuntimeError("%s crashed (rc=%d): %s" % (hname, rc, err[-200:]))
    d = (c03 if kind == "fee" else c04).parse_dump(dump)
    if d["fail"] or rc != 0:
        raise RuntimeError("solver pipeline failed inside %s: %s rc=%d" % (hname, d["fail"], rc))
    rc, out, err = sh_tool(ctx, tool, base, ctx.work)
    if rc != 0 or not os.path.exists(base + "." + ext):
        raise RuntimeError("%s failed (rc=%d): %s" % (tool, rc, (out + err)[-200:]))
    mem = mem_scalar(d, "V", "Q") if kind == "fee" else mem_scalar(d, "V1", "Q1")
    return dict(path=base + "." + ext, fmt=ext, mem=mem, unit=d["unit"], pts=pts, writer={"fee": "esolver", "feh": "hsolver"}[kind],
                reader={"fee": "epproc", "feh": "hpproc"}[kind], rkind={"fee": "e", "feh": "h"}[kind], nn=d["nn"],
                tprev=d.get("tprev"), prevnodes=prevnodes)


def write_fem(p, f):
    c05_gen.write(p, f)
    if p.get("prevsoln"):
        txt = open(f).read()
        txt = txt.replace('[PrevSoln]    = ""', '[PrevSoln]    = "%s"' % p["prevsoln"]).replace("[PrevType]    =  0", "[PrevType]    =  %d" % p.get("prevtype", 0))
        open(f, "w").write(txt)


def run_mag(ctx, case, file_path=None):
    """magnetics: planar problems through h_fsolver, everything else through h_solread S"""
    base = os.path.join(workdir(ctx), case.name)
    f = base + ".fem"
    if file_path:
        shutil.copy(file_path, f)
        txt = open(f, errors="replace").read().replace("\r", "")
        freq = float(re.search(r"\[Frequency\]\s*=\s*([-+0-9.eE]+)", txt).group(1))
        axi = bool(re.search(r"\[ProblemType\]\s*=\s*axi", txt, re.I))
        prev = False
    else:
        write_fem(case.p, f)
        freq = float(case.p.get("frequency", 0))
        axi = case.p.get("problemtype") == "axisymmetric"
        prev = bool(case.p.get("prevsoln"))
    rc, out, err = sh_tool(ctx, "fmesher", f, ctx.work)
    if rc != 0:
        raise RuntimeError("fmesher failed (rc=%d): %s" % (rc, (out + err)[-200:]))
    pts = read_node_file(base + ".node")
    # h_fsolver (planar only) does not dump meshele[i].Jprev, which WriteStatic2D prints since /repo 0723d07: static problems
    # go through h_solread S as well; planar time-harmonic problems keep the existing harness
    use_s = axi or prev or freq == 0 or file_path is not None or case.kw.get("force_s")
    dump = base + ".dump"
    if use_s:
        exe = vlib.build_harness(ctx.snap, "h_solread", libs=PP_LIBS)
        rc, out, err = vlib.sh([exe, "S", base, dump], timeout=900, cwd=ctx.work)
        if not os.path.exists(dump):
            raise RuntimeError("h_solread S crashed (rc=%d): %s" % (rc, err[-200:]))
        d = parse_sdump(dump)
        if d["fail"] or rc != 0 or not d["solved"]:
            raise RuntimeError("solver pipeline failed inside h_solread S: %s rc=%d" % (d["fail"], rc))
        mem, sd = mem_sdump(d), d
    else:
        exe = vlib.build_harness(ctx.snap, "h_fsolver", libs=("fsolver", "femm"))
        rc, out, err = vlib.sh([exe, base, dump], timeout=900, cwd=ctx.work)
        if not os.path.exists(dump):
            raise RuntimeError("h_fsolver crashed (rc=%d): %s" % (rc, err[-200:]))
        d = c05.parse_dump(dump)
        if d["fail"] or rc != 0 or not d.get("solved"):
            raise RuntimeError("solver pipeline failed inside h_fsolver: %s rc=%d" % (d["fail"], rc))
        mem, sd = mem_fsolver(d), None
    rc, out, err = sh_tool(ctx, "fsolver", base, ctx.work, timeout=900)
    if rc != 0 or not os.path.exists(base + ".ans"):
        raise RuntimeError("fsolver failed (rc=%d): %s" % (rc, (out + err)[-200:]))
    incr = bool(sd and sd.get("incr"))
    mode = ("harmonic" if freq != 0 else "static") + ("_incr" if incr else "")
    return dict(path=base + ".ans", fmt="ans_" + mode, mem=mem, unit=d["unit"], pts=pts, writer="fsolver_" + mode,
                reader="fpproc_" + mode, rkind="m", nn=d["nn"], sd=sd, harmonic=freq != 0, incr=incr, prev=prev)


# --------------------------------------------------------------------- Coq evaluation ----
HEADER = ("From Coq Require Import String List ZArith Floats. Import ListNotations. "
          "From XF Require Import Arith SolFile. From XF.gen Require Import SolSchemas. "
          "Local Open Scope string_scope.\n"
          "Definition enc (t : @tok float) := match t with TI z => (0%Z, z, 0%float, \"\") | TD x => (1%Z, 0%Z, x, \"\") "
          "| TBad => (2%Z, 0%Z, 0%float, \"\") | TS s => (3%Z, 0%Z, 0%float, s) end.\n"
          "Definition encl (l : list (list (@tok float))) := map (map enc) l.\n"
          "Definition enca (a : @age float) := (a_name a, map enc (a_params a), encl (a_quads a)).\n")


def cqs(t):
    return '"' + t.replace('"', '""') + '"'


def coq_age_exprs(r, sol):
    """the air-gap block: print_ages on the solver's elements, parse_ages on the file's lines"""
    mode = "harmonic" if r["harmonic"] else "static"
    w = T["writers"]["fsolver_" + mode]["ages"]
    ags = []
    for m in r["sd"]["ages"]:
        mp = dict(zip(AGE_DUMP, m["params"]))
        ps = "; ".join(coq_tok_mem(f, mp[f["name"]]) for f in w["params"])
        qs = "; ".join("[%s]" % "; ".join(coq_tok_mem(f, dict(zip(QUAD_DUMP, q))[f["name"]]) for f in w["quad"]) for q in m["quads"])
        ags.append("mkAge %s [%s] [%s]" % (cqs(m["name"].rstrip("|")), ps, qs))
    e1 = "encl (print_ages FA %s w_fsolver_%s_age_params w_fsolver_%s_age_quad [%s])" % (coq_env(r["unit"]), mode, mode, "; ".join(ags))
    lines = ["[TI (%d)%%Z]" % len(sol["ages"])]
    for a in sol["ages"]:
        lines.append("[TS %s]" % cqs(a["name"]))
        lines.append("[%s]" % "; ".join(coq_tok_file(t) for t in a["params"]))
        lines += ["[%s]" % "; ".join(coq_tok_file(t) for t in q) for q in a["quads"]]
    e2 = ("match parse_ages FA %s r_fpproc_age_params r_fpproc_age_quad [%s] with Some (l, _) => (true, map enca l) | None => (false, []) end"
          % (coq_env(r["unit"]), "; ".join(lines)))
    return e1, e2


def compare_model_ages(v1, v2, sol, rd):
    flat = [[str(len(sol["ages"]))]]
    for a in sol["ages"]:
        flat += [[a["name"]], a["params"]] + a["quads"]
    if len(v1) != len(flat):
        return "print_ages gives %d lines, the file has %d" % (len(v1), len(flat))
    for k, (ml, fl) in enumerate(zip(v1, flat)):
        if len(ml) != len(fl):
            return "air-gap line %d: the model prints %d tokens, the file has %d" % (k, len(ml), len(fl))
        for (tag, z, x, st), t in zip(ml, fl):
            good = (tag == 0 and INT_RE.match(t) and int(t) == int(z)) or (tag == 1 and vlib.ulp_diff(float(x), float(t)) == 0) or (tag == 3 and st == t)
            if not good:
                return "air-gap line %d: model token %r, file token %r" % (k, (tag, z, x, st), t)
    ok, ags = v2
    if not ok:
        return "parse_ages rejects the air-gap block the post-processor accepted"
    rsch = T["readers"]["fpproc_static"]["ages"]
    ia = [f["name"] for f in rsch["params"]].index("age.arcelements")
    kept = [a for a in ags if int(a[1][ia][1]) > 0]
    if len(kept) != len(rd["ages"]):
        return "parse_ages keeps %d elements, the post-processor holds %d" % (len(kept), len(rd["ages"]))
    for k, (a, h) in enumerate(zip(kept, rd["ages"])):
        if a[0] != h["name"]:
            return "air-gap element %d: model name %r, post-processor %r" % (k, a[0], h["name"])
        hp = dict(zip(AGE_DUMP, h["params"]))
        for j, (tag, z, x, st) in enumerate(a[1]):
            mv = int(z) if tag == 0 else float(x)
            hv = hp[rsch["params"][j]["name"]]
            if (tag == 0 and hv != mv) or (tag == 1 and vlib.ulp_diff(float(hv), mv) != 0) or tag > 1:
                return "air-gap element %d parameter %d: model %r, post-processor %r" % (k, j, mv, hv)
        if len(a[2]) != len(h["quads"]):
            return "air-gap element %d: model reads %d quadrature nodes, post-processor %d" % (k, len(a[2]), len(h["quads"]))
        for q, (ml, hl) in enumerate(zip(a[2], h["quads"])):
            hq = dict(zip(QUAD_DUMP, hl))
            for j, (tag, z, x, st) in enumerate(ml):
                mv = int(z) if tag == 0 else float(x)
                hv = hq[rsch["quad"][j]["name"]]
                if (tag == 0 and hv != mv) or (tag == 1 and vlib.ulp_diff(float(hv), mv) != 0) or tag > 1:
                    return "air-gap element %d node %d token %d: model %r, post-processor %r" % (k, q, j, mv, hv)
    return None



def coq_env(unit):
    return "[%s]" % "; ".join('("%s", %s)' % (n, vlib.fhexs(float(T["tables"][n][unit]))) for n in sorted(T["tables"]))


def coq_tok_mem(f, v):
    return "TI (%d)%%Z" % int(v) if f["ty"] == "int" else "TD %s" % vlib.fhexs(float(v))


def coq_tok_file(t):
    return "TI (%d)%%Z" % int(t) if INT_RE.match(t) else "TD %s" % vlib.fhexs(float(t))


def coq_exprs(r, sol):
    w = T["writers"][r["writer"]]
    secs = []
    for s in w["sections"]:
        recs = r["mem"][s["name"]]
        secs.append("[%s]" % "; ".join("[%s]" % "; ".join(coq_tok_mem(f, rec[f["name"]]) for f in s["fields"]) for rec in recs))
    e1 = "encl (print_solution FA %s w_%s [%s])" % (coq_env(r["unit"]), r["writer"], "; ".join(secs))
    lines = []
    for name, recs in sol["sections"]:
        lines.append("[TI (%d)%%Z]" % len(recs))
        lines += ["[%s]" % "; ".join(coq_tok_file(t) for t in toks) for toks in recs]
    e2 = ("match parse_solution FA %s r_%s [%s] with Some s => (true, map encl s) | None => (false, []) end"
          % (coq_env(r["unit"]), r["reader"], "; ".join(lines)))
    return e1, e2


def compare_model_print(val, sol):
    flat = []
    for name, recs in sol["sections"]:
        flat.append([str(len(recs))])
        flat += recs
    if len(val) != len(flat):
        return "the model prints %d lines, the file has %d" % (len(val), len(flat))
    for k, (ml, fl) in enumerate(zip(val, flat)):
        if len(ml) != len(fl):
            return "line %d: the model prints %d tokens, the file has %d" % (k, len(ml), len(fl))
        for (tag, z, x, _s), t in zip(ml, fl):
            if tag == 0:
                if not INT_RE.match(t) or int(t) != int(z):
                    return "line %d: model token %d, file token %s" % (k, z, t)
            elif tag == 1:
                if vlib.ulp_diff(float(x), float(t)) != 0:
                    return "line %d: model token %r, file token %s" % (k, x, t)
            else:
                return "line %d: the model prints an unreadable token, the file has %s" % (k, t)
    return None


def compare_model_parse(val, rd, rname):
    ok, secs = val
    if not ok:
        return "the model's reader rejects the file the post-processor accepted"
    r = T["readers"][rname]
    held = {"nodes": rd["nodes"], "elements": rd["elems"], "conductors": rd["conds"], "circuits": rd["blocks"]}
    for s, recs in zip(r["sections"], secs):
        if not s["fields"]:
            continue
        h = held[s["name"]]
        if len(h) != len(recs):
            return "section %s: the model reads %d records, the post-processor holds %d" % (s["name"], len(recs), len(h))
        for k, (mrec, rec) in enumerate(zip(recs, h)):
            for j, f in enumerate(s["fields"]):
                tag, z, x, _s = mrec[j]
                mv = int(z) if tag == 0 else float(x)
                if s["name"] == "circuits":
                    d = s["dests"]
                    if j == 0:
                        got = rec["case"]
                    else:
                        dest = d["tag0"] if int(mrec[0][1]) == 0 else d["other"]
                        got = rec[dest][j - 1]
                elif f["name"] not in rec:
                    continue
                else:
                    got = rec[f["name"]]
                if (tag == 0 and got != mv) or (tag == 1 and vlib.ulp_diff(float(got), mv) != 0) or tag >= 2:
                    return "section %s record %d field %s: model %r, post-processor %r" % (s["name"], k, f["name"], mv, got)
    return None


# ----------------------------------------------------------------------- generators ----
def all_exterior_problem(rng, kind):
    """regression (repaired in /repo 75a7fce): an axisymmetric problem whose ONLY block label lies in the exterior region —
    epproc / hpproc used to index the element list with the number of exterior elements and crashed in OpenDocument"""
    for attempt in range(60):
        p = femgen.gen_scalar_problem(rng, kind, axi=True, size_nodes=20, box="cfix")
        if len(p["labels"]) == 1 and (kind == "fee" or c04.well_posed(p)):
            break
    else:
        return None
    ys = [q["y"] for q in p["points"]]
    p.update(extRo=3.0, extRi=2.0, extZo=min(ys) - 1.0, dosmartmesh=0, dt=0.0)
    p["labels"][0]["external"] = 1
    p["features"] = list(p["features"]) + ["external", "all-labels-exterior"]
    return p


def plan(ctx, rng):
    q = ctx.quick()
    n_es, n_he, n_mp, n_ma = (8, 7, 10, 6) if q else (96, 84, 120, 72)
    cases = []
    for k in range(n_es):
        p = c03.gen_problem(rng, q, k)
        p["units"] = femgen.UNITS[k % 6]
        p["features"] = [ft for ft in p["features"] if ft not in femgen.UNITS] + [p["units"]]
        p["dosmartmesh"] = 0
        cases.append(Case("e%d" % k, "fee", p))
    for k in range(n_he):
        fam = ["linear", "nonlinear", "transient", "linear"][k % 4]
        if fam == "transient":
            prev, cur = c04.transient_pair(rng, q, k)
            cur["units"] = prev["units"] = femgen.UNITS[k % 6]
            cur["dosmartmesh"] = prev["dosmartmesh"] = 0
            cases.append(Case("h%d" % k, "feh", cur, prev=prev))
        else:
            p = c04.gen_problem(rng, q, fam, k)
            p["units"] = femgen.UNITS[k % 6]
            p["dosmartmesh"] = 0
            cases.append(Case("h%d" % k, "feh", p))
    for k in range(n_mp):
        force = dict(c05.STRATA.get(k % 12) or {})
        force["units"] = femgen.UNITS[k % 6]
        force["dosmartmesh"] = 0
        if k % 5 == 3:
            force["pbc"] = True
        p = c05_gen.gen_problem(rng, harmonic=(k % 2 == 1), size_nodes=rng.choice([20, 30, 45] if q else [30, 80, 200]), force=force)
        cases.append(Case("m%d" % k, "fem", p))
    for k in range(n_ma):
        p = c17_gen.gen_mag_problem(rng, axi=True, size_nodes=rng.choice([40, 60] if q else [60, 120, 250]))
        p["units"] = femgen.UNITS[k % 6]
        p["dosmartmesh"] = 0
        if k % 3 == 2:
            # time-harmonic axisymmetric: linear materials only (a B-H curve would need the nonlinear AC path)
            p["frequency"] = rng.choice([50.0, 400.0])
            for b in p["blockprops"]:
                b["bh"] = []
                b["H_c"] = 0.0
        p["features"] = list(p.get("features", [])) + ["axisymmetric", "harmonic" if p.get("frequency") else "static"]
        cases.append(Case("a%d" % k, "fem", p))
    for kind in ("fee", "feh"):
        for k in range(1 if q else 4):
            p = all_exterior_problem(rng, kind)
            if p is not None:
                cases.append(Case("x%s%d" % (kind[2], k), kind, p))
    # every fourth problem file is written with CRLF line ends (as FEMM 4.2 does): the solver copies it in front of the solution
    for k, c in enumerate(cases):
        if k % 4 == 1:
            c.p["eol"] = "\r\n"
            c.p["features"] = list(c.p.get("features", [])) + ["crlf-header"]
            if c.kw.get("prev") is not None:
                c.kw["prev"]["eol"] = "\r\n"
    return cases


AGE_FILES = ["femmcli/test/femmcli_antiperiodicBC_AGE_TorqueBenchmark.fem", "femmcli/test/femmcli_TorqueBenchmark.fem"]


def fail_once(ctx, what, signature, **kw):
    """one failing input per signature; further occurrences are counted"""
    for f in ctx.failing_inputs:
        if f.get("signature") == signature:
            f["occurrences"] = f.get("occurrences", 1) + 1
            return
    ctx.fail(what, signature=signature, **kw)


def one_case(ctx, case, stats, dis, coqq):
    tag = "%s %s" % (case.physics, case.name)
    try:
        r = run_scalar(ctx, case, case.physics) if case.physics in ("fee", "feh") else run_mag(ctx, case, case.kw.get("file"))
    except RuntimeError as e:
        # mesher / solver did not produce a result file: no file written, not this check's subject (C03 / C04 / C05 own the
        # solvers); recorded, and reported only if it happens so often that the check would become vacuous
        stats["pipeline_failures"].append("%s: %s" % (tag, str(e).replace("\n", " ")[:160]))
        stats["pipeline_failed_problems"].append(case.p)
        return None
    stats["solved"] += 1
    stats["by_writer"][r["writer"]] = stats["by_writer"].get(r["writer"], 0) + 1
    stats["units"][femgen.UNITS[r["unit"]]] = stats["units"].get(femgen.UNITS[r["unit"]], 0) + 1
    replay = dict(problem=case.p, file=os.path.basename(r["path"]))
    # (i) independent reader
    try:
        sol = read_solution(r["path"], r["fmt"])
    except FormatError as e:
        fail_once(ctx, "%s: the solution part of the written file does not have the documented format: %s" % (tag, e),
                  "format:" + r["writer"], solution_head=solution_head(r["path"]), **replay)
        return None
    stats["tokens"] += sum(len(t) for _, recs in sol["sections"] for t in recs)
    msg = schema_shape_check(r["writer"], r["fmt"])
    if msg:
        dis.append(dict(what=msg, signature="schema-shape:" + r["writer"]))
        return None
    # (ii) writer side
    msg = check_writer_side(sol, r["mem"], r["writer"], r["unit"])
    if msg:
        dis.append(dict(what="%s: writer schema %s vs solver memory: %s" % (tag, r["writer"], msg), signature="writer:" + r["writer"], **replay))
        return None
    if r["fmt"].startswith("ans") and case.p and len(sol["sections"][2][1]) != len(case.p["labels"]):
        fail_once(ctx, "%s: %d circuit lines for %d block labels" % (tag, len(sol["sections"][2][1]), len(case.p["labels"])), "circuit-lines", **replay)
    # (v) coordinates
    worst, msg = coordinate_drift(sol, r["pts"]) if not r.get("prev") else (0, None)
    stats["max_coordinate_ulp"] = max(stats["max_coordinate_ulp"], worst)
    if msg:
        fail_once(ctx, "%s: %s" % (tag, msg), "coordinates:" + r["writer"], solution_head=solution_head(r["path"]), **replay)
    # (iii) reader side
    rc, rd, log = run_reader(ctx, r["rkind"], r["path"])
    if rd["ok"] != 1 or not rd["done"]:
        fail_once(ctx, "%s: the post-processor does not open the file its solver wrote (rc=%d): %s" % (tag, rc, log[-200:]),
                  "rejected:" + r["reader"], solution_head=solution_head(r["path"]), **replay)
        return None
    if rd["unit"] != r["unit"]:
        fail_once(ctx, "%s: the solver read length unit %d, the post-processor %d" % (tag, r["unit"], rd["unit"]), "unit", **replay)
    msg = check_reader_side(sol, rd, r["reader"], r["unit"], r["rkind"])
    if msg:
        dis.append(dict(what="%s: reader schema %s vs post-processor: %s" % (tag, r["reader"], msg), signature="reader:" + r["reader"], **replay))
        return None
    msg = check_end_to_end(r["mem"], rd, r["writer"], r["reader"], r["unit"])
    if msg:
        fail_once(ctx, "%s: a field does not arrive with the same meaning: %s" % (tag, msg), "meaning:" + r["writer"],
                  solution_head=solution_head(r["path"]), **replay)
        return None
    if r["fmt"].startswith("ans"):
        msg = check_ages(ctx, tag, replay, sol, rd, r.get("sd"), r["unit"], r["harmonic"])
        if msg:
            dis.append(dict(what="%s: %s" % (tag, msg), signature="ages", **replay))
        stats["ages"] += len(sol["ages"])
        if sol["ages"] and r.get("sd") and not msg:
            e1, e2 = coq_age_exprs(r, sol)
            coqq["age_exprs"] += [e1, e2]
            coqq["age_cases"].append((tag, sol, rd, replay))
    # the previous-solution reader of hsolver: Tprev is the multiset of the previous file's temperatures
    if r.get("tprev") is not None and r.get("prevnodes") is not None:
        a = sorted(r["tprev"]); b = sorted(float(t[2]) for t in r["prevnodes"])
        stats["hsolver_prev"] += 1
        if a != b:
            dis.append(dict(what="%s: HSolver::LoadPrev holds other temperatures than the previous .anh file has" % tag, signature="hsolver-prev", **replay))
    stats["checked"] += 1
    for ft in (case.p or {}).get("features", []):
        stats["features"][ft] = stats["features"].get(ft, 0) + 1
    if r["nn"] <= coqq["limit"] and coqq["room"].get(r["writer"], 0) > 0 and not sol["ages"]:
        coqq["room"][r["writer"]] -= 1
        e1, e2 = coq_exprs(r, sol)
        coqq["exprs"] += [e1, e2]
        coqq["cases"].append((tag, r, sol, rd, replay))
    return r


def solution_head(path, n=12):
    L = open(path, errors="replace").read().split("\n")
    k = next((i for i, l in enumerate(L) if l.strip().lower() == "[solution]"), 0)
    return L[k:k + n]


def previous_solution_cases(ctx, rng, stats, dis, coqq):
    """regression (repaired in /repo 7826e68, 5fed0d3, 0723d07): a static result with a source-current block is re-used as
    previous solution (PrevType 0: mesh re-use; PrevType 1 / 2: incremental / frozen permeability, time-harmonic).
    FSolver::loadPreviousSolution must hold the mesh, the node and EDGE markers and the current density Jprev of the static
    run; the file the second run writes goes through all the checks, Aprev and Jprev must arrive in fpproc."""
    p0 = c05_gen.gen_problem(rng, harmonic=False, size_nodes=25, force=dict(units="centimeters", dosmartmesh=0, pbc=False, boxes=["jblock"]))
    c0 = Case("prev0", "fem", p0, force_s=True)
    r0 = one_case(ctx, c0, stats, dis, coqq)
    if r0 is None:
        return
    el0 = r0["mem"]["elements"]
    replay0 = dict(problem=p0)
    if not any(e["Jprev"] != 0 for e in el0):
        dis.append(dict(what="previous-solution regression: the static run with a source-current block records no current density Jprev",
                        signature="prev-setup", **replay0))
    for ptype, freq in ((0, 0.0), (1, 60.0), (2, 60.0)):
        p1 = copy.deepcopy(p0)
        p1.update(prevsoln=r0["path"], prevtype=ptype, frequency=freq)
        p1["features"] = list(p0["features"]) + ["previous-solution", "prevtype%d" % ptype]
        stats["previous_solution_runs"] += 1
        r1 = one_case(ctx, Case("prev%d_%d" % (ptype, int(freq)), "fem", p1), stats, dis, coqq)
        if r1 is None:
            continue
        el1 = r1["mem"]["elements"]
        rp = dict(problem=p1, previous_problem=p0)
        if [(e["p0"], e["p1"], e["p2"], e["lbl"]) for e in el1] != [(e["p0"], e["p1"], e["p2"], e["lbl"]) for e in el0]:
            fail_once(ctx, "previous solution: the mesh FSolver::loadPreviousSolution holds differs from the one the static run wrote", "prev-mesh", **rp)
        if [(e["e0"], e["e1"], e["e2"]) for e in el1] != [(e["e0"], e["e1"], e["e2"]) for e in el0]:
            fail_once(ctx, "previous solution: the element edge markers after FSolver::loadPreviousSolution differ from those of the static run "
                      "(first element: %r, static run %r)" % ((el1[0]["e0"], el1[0]["e1"], el1[0]["e2"]), (el0[0]["e0"], el0[0]["e1"], el0[0]["e2"])),
                      "previous-solution-loses-edge-markers", **rp)
        if ptype != 0 and [e["Jprev"] for e in el1] != [e["Jprev"] for e in el0]:
            # (with PrevType 0 the static solver recomputes Jprev)
            fail_once(ctx, "previous solution: the current density Jprev of the static run does not arrive in the problem that re-uses it "
                      "(%d non-zero elements in the static run, %d after FSolver::loadPreviousSolution)"
                      % (sum(1 for e in el0 if e["Jprev"] != 0), sum(1 for e in el1 if e["Jprev"] != 0)), "static-solution-omits-Jprev", **rp)
        if ptype != 0:
            stats["incremental_files_checked"] += 1
            if not r1["incr"]:
                dis.append(dict(what="previous-solution regression: PrevType %d did not produce an incremental file" % ptype, signature="prev-setup", **rp))


def correspond(ctx):
    if not T:
        regen(ctx)
    rng = ctx.rng
    stats = dict(solved=0, checked=0, tokens=0, by_writer={}, units={}, features={}, max_coordinate_ulp=0, ages=0, hsolver_prev=0, incremental_files_checked=0,
                 previous_solution_runs=0, pipeline_failures=[], pipeline_failed_problems=[])
    dis = []
    coqq = dict(limit=700 if ctx.quick() else 1500, exprs=[], cases=[], age_exprs=[], age_cases=[],
                room={w: (2 if ctx.quick() else 6) for w in T["writers"]})
    cases = plan(ctx, rng)
    for case in cases:
        one_case(ctx, case, stats, dis, coqq)
    # the repository's air-gap problems (the generators never draw air-gap boundaries)
    age_files = AGE_FILES[:1] if ctx.quick() else AGE_FILES
    for k, rel in enumerate(age_files):
        fp = os.path.join(ctx.snap.src, rel)
        if os.path.exists(fp):
            one_case(ctx, Case("age%d" % k, "fem", None, file=fp), stats, dis, coqq)
    previous_solution_cases(ctx, vlib.Rng(ctx.seed + 11), stats, dis, coqq)
    # (iv) the Coq model on the smaller cases
    nmodel = 0
    if coqq["exprs"]:
        vals = vlib.coq_eval(HEADER, coqq["exprs"], shard=2, timeout=1800)
        for k, (tag, r, sol, rd, replay) in enumerate(coqq["cases"]):
            msg = compare_model_print(vals[2 * k], sol)
            if msg:
                dis.append(dict(what="%s: print_solution (w_%s) vs the written file: %s" % (tag, r["writer"], msg), signature="model-print:" + r["writer"], **replay))
            msg = compare_model_parse(vals[2 * k + 1], rd, r["reader"])
            if msg:
                dis.append(dict(what="%s: parse_solution (r_%s) vs the post-processor: %s" % (tag, r["reader"], msg), signature="model-parse:" + r["reader"], **replay))
            nmodel += 1
    if coqq["age_exprs"]:
        vals = vlib.coq_eval(HEADER, coqq["age_exprs"], shard=2, timeout=1800)
        for k, (tag, sol, rd, replay) in enumerate(coqq["age_cases"]):
            msg = compare_model_ages(vals[2 * k], vals[2 * k + 1], sol, rd)
            if msg:
                dis.append(dict(what="%s: air-gap block, model vs implementation: %s" % (tag, msg), signature="model-ages", **replay))
            nmodel += 1
    seen, uniq = set(), []
    for d in dis:
        if d.get("signature", d["what"]) not in seen:
            seen.add(d.get("signature", d["what"]))
            uniq.append(d)
    if len(stats["pipeline_failures"]) * 10 > len(cases):
        ctx.fail("more than a tenth of the generated problems produced no result file (mesher / solver failed): %s" % stats["pipeline_failures"][0],
                 signature="pipeline", problem=stats["pipeline_failed_problems"][0], all=stats["pipeline_failures"][:20])
    for msg in stats["pipeline_failures"][:5]:
        ctx.res.notes.append("no result file (not checked here): " + msg)
    cov = ctx.res.cov
    cov["evaluations"] = len(cases) + len(age_files) + 1 + stats["previous_solution_runs"]
    cov["distinct_nontrivial"] = stats["checked"]
    cov["rule"] = ("seeded problems: electrostatics (c03 generator: conductors fixed/floating, all boundary types, exterior region), heat flow "
                   "(c04 generators: linear, T-k tables / radiation, time steps from a previous .anh), planar magnetics (c05 generator: "
                   "series/parallel circuits Case 0/1/2, periodic / antiperiodic boundaries, static and harmonic), axisymmetric magnetics "
                   "(c17 generator, static and harmonic), every length unit in turn; the repository's air-gap problems; a static result "
                   "re-used as previous solution (PrevType 0, 1, 2); axisymmetric problems whose only block label is exterior.  Each is meshed, solved by the real solver binary and by the harness, "
                   "and the written [Solution] part is checked (i)-(v); non-trivial = all checks ran to the end")
    cov["input_distribution"] = {k: stats[k] for k in ("by_writer", "units", "features", "ages", "hsolver_prev", "previous_solution_runs",
                                                       "incremental_files_checked", "pipeline_failures")}
    cov["sol_tokens_compared"] = stats["tokens"]
    cov["sol_max_coordinate_ulp"] = stats["max_coordinate_ulp"]
    cov["sol_model_evaluations"] = nmodel
    cov["samples"] = [dict(case=c[0], writer=c[1]["writer"], reader=c[1]["reader"], nodes=c[1]["nn"], head=solution_head(c[1]["path"], 4)) for c in coqq["cases"][:3]]
    cov["sol_schemas"] = dict(writers={n: [(s["name"], [f["name"] for f in s["fields"]]) for s in w["sections"]] for n, w in T["writers"].items()},
                          readers={n: [(s["name"], [f["name"] for f in s["fields"]]) for s in r["sections"]] for n, r in T["readers"].items()})
    return uniq


def search(ctx, broken):
    """a proof or the tie broke: look for a problem whose written file does not arrive"""
    before = len(ctx.failing_inputs)
    stats = dict(solved=0, checked=0, tokens=0, by_writer={}, units={}, features={}, max_coordinate_ulp=0, ages=0, hsolver_prev=0, incremental_files_checked=0,
                 previous_solution_runs=0, pipeline_failures=[], pipeline_failed_problems=[])
    dis = []
    coqq = dict(limit=0, exprs=[], cases=[], room={}, age_exprs=[], age_cases=[])
    for case in plan(ctx, vlib.Rng(ctx.seed + 5)):
        case.name = "s" + case.name
        one_case(ctx, case, stats, dis, coqq)
    found = ctx.failing_inputs[before:]
    del ctx.failing_inputs[before:]
    seen, uniq = set(), []
    for d in dis:
        if d.get("signature", d["what"]) not in seen:
            seen.add(d.get("signature", d["what"]))
            uniq.append(d)
    dis = uniq
    return [dict(f) for f in found] + [dict(d, what="the written solution file does not arrive with the same meaning: " + d["what"]) for d in dis
                                        if d.get("signature", "").startswith(("writer:", "reader:", "ages"))]
