"""C12 — post-processors locate every point and interpolate the solution faithfully.
Model: coq/theories/Locate.v; theorems: Properties_C12.v (proofs in LocateProofs.v).
Correspondence: solution files produced by the real fmesher + esolver/hsolver/fsolver of the
snapshot are loaded by the real post-processor classes (harness/h_locate.cpp), the loaded mesh
is dumped and the same seeded query sequence is run through the implementation and through
the float reading of the model (vm_compute): load-time data (blk, ctr, rsqr, D), the search
state left by the label loop of OpenDocument, found element index and point values.
Property oracle (independent of the Coq model, on the implementation's outputs): exact
rational point-in-mesh decision, exact interpolant, nodal values at vertices, continuity and
history independence on shared edges/vertices, E = -grad V and D = eps E recomputed with numpy,
material of the enclosing block from the generated geometry."""
import os, math, json
from fractions import Fraction
import vlib

# point values beyond Locate.v (magnetics static / harmonic / axisymmetric, exterior regions, k(T)): PointVals.v, theorems in
# Properties_C12_pointvalues.v, harness h_pv.cpp (props/xpv.py)
EXTENSIONS = ["xpv", "xsmooth"]
EXTRA_PROPERTY_FILES = ["C12_pointvalues", "C12_smooth"]
LEVEL = "proof"
COQ_MODULES = ["Locate"]
ASSUMPTIONS = [
    "theorems about geometry, interpolation and fields are about the real-number reading of the model; rounding error "
    "between the float and real readings is not bounded (only the shared-edge gap-freeness of the index-ordered edge "
    "test is proved on binary64 itself, from Coq's FloatAxioms)",
    "point values are modelled with smoothing off and AECF = 1 (planar problems, or axisymmetric without external region): "
    "electrostatics completely (V, D, E, e, nrg); heat flow for constant-conductivity materials (T, F, G, K); magnetics for "
    "planar static problems A and B only (mu, H and energy go through CMMaterialProp and are checked by the run-time oracle only); "
    "smoothing ON (getNodalD / nodal averaging) is not modelled",
    "solution-file parsing is not modelled: the model starts from the node/element/label/material tables the "
    "post-processor holds after OpenDocument (dumped by the harness); eo and LengthConv are taken from the implementation",
    "the model is hand-written; its tie to PostProcessor.cpp/epproc.cpp/hpproc.cpp/fpproc.cpp is the correspondence run here",
]
HEADER = ("From Coq Require Import ZArith List Floats. Import ListNotations. "
          "From XF Require Import Arith Locate. Local Open Scope float_scope.\n")

UNITS = {"inches": 0.0254, "millimeters": 0.001, "centimeters": 0.01, "meters": 1.0, "mils": 2.54e-05,
         "micrometers": 1e-06}
SOLVER = {"e": ("esolver", ".fee", ".res"), "h": ("hsolver", ".feh", ".anh"), "m": ("fsolver", ".fem", ".ans")}


# ------------------------------------------------------------------ problem generation ----
def shapes():
    """Base geometries: points, segments (a, b, bdry id 0=none/1=hi/2=lo), regions (polygon as
    point indices, block index), all in a unit-ish frame; mapped affinely afterwards."""
    S = {}
    S["rect2"] = dict(
        pts=[(0, 0), (1, 0), (2, 0), (2, 1), (1, 1), (0, 1)],
        segs=[(0, 1, 0), (1, 2, 0), (2, 3, 2), (3, 4, 0), (4, 5, 0), (5, 0, 1), (1, 4, 0)],
        regions=[([0, 1, 4, 5], 0), ([1, 2, 3, 4], 1)])
    S["lshape"] = dict(
        pts=[(0, 0), (2, 0), (2, 1), (1, 1), (1, 2), (0, 2)],
        segs=[(0, 1, 0), (1, 2, 2), (2, 3, 0), (3, 4, 0), (4, 5, 1), (5, 0, 0)],
        regions=[([0, 1, 2, 3, 4, 5], 0)])
    S["ushape3"] = dict(       # a U with a third material filling part of the notch
        pts=[(0, 0), (3, 0), (3, 2), (2, 2), (2, 1), (1, 1), (1, 2), (0, 2), (1, 1.5), (2, 1.5)],
        segs=[(0, 1, 1), (1, 2, 0), (2, 3, 2), (3, 9, 0), (9, 4, 0), (4, 5, 0), (5, 8, 0), (8, 6, 0), (6, 7, 2),
              (7, 0, 0), (8, 9, 0)],
        regions=[([0, 1, 2, 3, 9, 4, 5, 8, 6, 7], 0), ([5, 4, 9, 8], 1)])
    S["quad_diag"] = dict(     # a quadrilateral split by a diagonal and a stub: three blocks
        pts=[(0, 0), (2, 0.2), (2.3, 1.6), (0.4, 1.3), (1.2, 0.75)],
        segs=[(0, 1, 1), (1, 2, 0), (2, 3, 2), (3, 0, 0), (0, 4, 0), (4, 2, 0), (4, 1, 0)],
        regions=[([0, 4, 2, 3], 0), ([0, 1, 4], 1), ([1, 2, 4], 2)])
    return S


def affine(rng, ugly):
    if not ugly:
        return (1.0, 0.0, 0.0, 1.0, 0.0, 0.0)
    th = rng.uniform(-math.pi, math.pi)
    s = rng.choice([0.37, 1.0, 2.9, 13.7]) * rng.uniform(0.8, 1.25)
    sh = rng.uniform(-0.3, 0.3)
    a, b = s * math.cos(th), -s * math.sin(th) + sh * s * math.cos(th)
    c, d = s * math.sin(th), s * math.cos(th) + sh * s * math.sin(th)
    return (a, b, c, d, rng.uniform(-5, 5), rng.uniform(-5, 5))


def make_problem(rng, kind, shape, msize, ugly, units, axi=False):
    base = shapes()[shape]
    T = affine(rng, ugly)
    if axi:
        T = (abs(T[0]) if not ugly else 1.3, 0.0, 0.0, 1.0, 0.0, T[5])   # keep r >= 0
    mp = lambda p: (T[0] * p[0] + T[1] * p[1] + T[4], T[2] * p[0] + T[3] * p[1] + T[5])
    pts = [mp(p) for p in base["pts"]]
    scale = math.sqrt(abs(T[0] * T[3] - T[1] * T[2]))
    nblk = 1 + max(b for _, b in base["regions"])
    mats = []
    for b in range(nblk):
        if ugly:
            mats.append((round(rng.uniform(1, 9), 3), round(rng.uniform(1, 9), 3)))
        else:
            mats.append([(4.0, 2.0), (1.0, 1.0), (2.5, 2.5)][b])
    labels = []
    for poly, b in base["regions"]:
        labels.append((label_point([pts[i] for i in poly]), b))
    return dict(kind=kind, shape=shape, pts=pts, segs=base["segs"], regions=[([pts[i] for i in poly], b) for poly, b in base["regions"]],
                labels=labels, mats=mats, msize=msize * scale, units=units, axi=axi,
                vals=(round(rng.uniform(5, 50), 2), round(rng.uniform(-5, 4), 2)) if ugly else (10.0, 0.0))


def label_point(poly):
    """A point strictly inside a simple polygon: centroid of an ear triangle found by brute force."""
    n = len(poly)
    best = None
    for i in range(n):
        a, b, c = poly[i - 1], poly[i], poly[(i + 1) % n]
        g = ((a[0] + b[0] + c[0]) / 3, (a[1] + b[1] + c[1]) / 3)
        if pip(g, poly) and all(not in_tri(poly[j], a, b, c) for j in range(n) if poly[j] not in (a, b, c)):
            ar = abs((b[0] - a[0]) * (c[1] - a[1]) - (c[0] - a[0]) * (b[1] - a[1]))
            if best is None or ar > best[0]:
                best = (ar, g)
    return best[1]


def in_tri(p, a, b, c):
    o = lambda u, v, w: (v[0] - u[0]) * (w[1] - u[1]) - (v[1] - u[1]) * (w[0] - u[0])
    s = [o(a, b, p), o(b, c, p), o(c, a, p)]
    return all(v >= 0 for v in s) or all(v <= 0 for v in s)


def pip(p, poly):
    """point strictly inside polygon (float crossing number)"""
    x, y = p
    inside = False
    n = len(poly)
    for i in range(n):
        x1, y1 = poly[i]
        x2, y2 = poly[(i + 1) % n]
        if (y1 > y) != (y2 > y):
            xi = x1 + (y - y1) * (x2 - x1) / (y2 - y1)
            if x < xi:
                inside = not inside
    return inside


def g17(x):
    return "%.17g" % x


def problem_text(p):
    kind = p["kind"]
    L = []
    if kind == "m":
        L += ["[Format]      =  4.0", "[Frequency]   =  0"]
    else:
        L += ["[Format]      =  1"]
    L += ["[Precision]   =  1e-008", "[MinAngle]    =  30", "[Depth]       =  1",
          "[LengthUnits] =  " + p["units"], "[ProblemType] =  " + ("axisymmetric" if p["axi"] else "planar"),
          "[Coordinates] =  cartesian"]
    if kind == "m":
        L += ["[ACSolver]    =  0", '[PrevSoln]    = ""', "[PrevType]    =  0"]
    if kind == "h":
        L += ['[PrevSoln] = ""', "[dT] = 0"]
    L += ['[Comment]     =  "C12 generated"', "[DoSmartMesh] = 0", "[PointProps]   = 0", "[BdryProps]   = 2"]
    for name, v in (("hi", p["vals"][0]), ("lo", p["vals"][1])):
        L += ["  <BeginBdry>", '    <BdryName> = "%s"' % name, "    <BdryType> = 0"]
        if kind == "e":
            L += ["    <Vs> = " + g17(v), "    <qs> = 0", "    <c0> = 0", "    <c1> = 0"]
        elif kind == "h":
            L += ["    <Tset> = " + g17(300 + 10 * v), "    <qs> = 0", "    <beta> = 0", "    <h> = 0", "    <Tinf> = 0"]
        else:
            L += ["    <A_0> = " + g17(v * 1e-3), "    <A_1> = 0", "    <A_2> = 0", "    <Phi> = 0", "    <c0> = 0", "    <c0i> = 0",
                  "    <c1> = 0", "    <c1i> = 0", "    <Mu_ssd> = 0", "    <Sigma_ssd> = 0", "    <innerangle> = 0", "    <outerangle> = 0"]
        L += ["  <EndBdry>"]
    L += ["[BlockProps]  = %d" % len(p["mats"])]
    for b, (mx, my) in enumerate(p["mats"]):
        L += ["  <BeginBlock>", '    <BlockName> = "m%d"' % b]
        if kind == "e":
            L += ["    <ex> = " + g17(mx), "    <ey> = " + g17(my), "    <qv> = 0"]
        elif kind == "h":
            L += ["    <Kx> = " + g17(mx), "    <Ky> = " + g17(my), "    <Kt> = 0", "    <qv> = 0"]
        else:
            L += ["    <Mu_x> = " + g17(mx), "    <Mu_y> = " + g17(my), "    <H_c> = 0", "    <H_cAngle> = 0", "    <J_re> = 0",
                  "    <J_im> = 0", "    <Sigma> = 0", "    <d_lam> = 0", "    <Phi_h> = 0", "    <Phi_hx> = 0", "    <Phi_hy> = 0",
                  "    <LamType> = 0", "    <LamFill> = 1", "    <NStrands> = 0", "    <WireD> = 0", "    <BHPoints> = 0"]
        L += ["  <EndBlock>"]
    L += ["[CircuitProps]  = 0" if kind == "m" else "[ConductorProps]  = 0"]
    L += ["[NumPoints] = %d" % len(p["pts"])]
    for (x, y) in p["pts"]:
        L += ["%s\t%s\t0\t0" % (g17(x), g17(y)) + ("" if kind == "m" else "\t0")]
    L += ["[NumSegments] = %d" % len(p["segs"])]
    for (a, b, bd) in p["segs"]:
        L += ["%d\t%d\t-1\t%d\t0\t0" % (a, b, bd) + ("" if kind == "m" else "\t0")]
    L += ["[NumArcSegments] = 0", "[NumHoles] = 0", "[NumBlockLabels] = %d" % len(p["labels"])]
    for ((x, y), b) in p["labels"]:
        if kind == "m":
            L += ["%s\t%s\t%d\t%s\t0\t0\t0\t1\t0" % (g17(x), g17(y), b + 1, g17(p["msize"]))]
        else:
            L += ["%s\t%s\t%d\t%s\t0\t0" % (g17(x), g17(y), b + 1, g17(p["msize"]))]
    return "\n".join(L) + "\n"


def solve(ctx, p, name):
    """Write the problem, run the snapshot's fmesher and solver; returns the solution path."""
    tool, ext, sext = SOLVER[p["kind"]]
    d = os.path.join(ctx.work, name)
    os.makedirs(d, exist_ok=True)
    pf = os.path.join(d, name + ext)
    open(pf, "w").write(problem_text(p))
    rc, out, err = vlib.sh([ctx.snap.tool("fmesher"), pf], cwd=d, timeout=120)
    if rc != 0 or not os.path.exists(os.path.join(d, name + ".ele")):
        raise RuntimeError("fmesher failed on generated problem %s: rc=%d %s" % (name, rc, (out + err)[-400:]))
    rc, out, err = vlib.sh([ctx.snap.tool(tool), os.path.join(d, name)], cwd=d, timeout=300)
    sol = os.path.join(d, name + sext)
    if rc != 0 or not os.path.exists(sol):
        raise RuntimeError("%s failed on generated problem %s: rc=%d %s" % (tool, name, rc, (out + err)[-400:]))
    return sol


# ------------------------------------------------------------------------- harness ----
def run_harness(ctx, kind, sol, cmds):
    """cmds: list of ('q', x, y) / ('t', x, y, i).  Returns (rc, mesh dict, results, stderr)."""
    exe = vlib.build_harness(ctx.snap, "h_locate", libs=("epproc", "hpproc", "fpproc", "femm"))
    txt = []
    for c in cmds:
        if c[0] == "q":
            txt.append("q %s %s" % (float(c[1]).hex(), float(c[2]).hex()))
        else:
            txt.append("t %s %s %d" % (float(c[1]).hex(), float(c[2]).hex(), c[3]))
    rc, out, err = vlib.sh([exe, kind, sol], inp="\n".join(txt) + "\n", timeout=600)
    M = dict(nodes=[], elems=[], labels=[], mats=[], kind=kind)
    res = []
    done = False
    for line in out.split("\n"):
        t = line.split()
        if not t:
            continue
        if t[0] == "P" and len(t) == 5:
            M["lc"], M["eo"], M["ptype"] = float(t[1]), float(t[2]), int(t[3])
        elif t[0] == "n" and len(t) == 4 and not done:
            M["nodes"].append(tuple(float(v) for v in t[1:]))
        elif t[0] == "e" and len(t) == 11 and not done:
            M["elems"].append(tuple(int(v) for v in t[1:6]) + tuple(float(v) for v in t[6:]))
        elif t[0] == "l" and len(t) == 5 and not done:
            M["labels"].append((float(t[1]), float(t[2]), int(t[3]), int(t[4])))
        elif t[0] == "m" and len(t) == 3 and not done:
            M["mats"].append((float(t[1]), float(t[2])))
        elif t[0] == "D" and len(t) == 1:
            done = True
        elif t[0] == "r" and done:
            res.append((int(t[1]),) + tuple(float(v) for v in t[2:]))
        elif t[0] == "t" and done and len(t) == 2:
            res.append(int(t[1]))
    M["ok"] = done
    return rc, M, res, err


# ---------------------------------------------------------------------- model side ----
# Anchors: the statements of the C++ the model transcribes (whitespace-insensitive).  A missing
# anchor means the source text moved away from the model: reported as a broken tie.
ANCHORS = {
    "libfemm/PostProcessor.cpp": [
        "static int k=0;", "if ((k < 0) || (k >= sz)) k = 0;", "if (InTriangleTest(x,y,k)) return k;",
        "for(j=0; j<sz; j+=2)", "if (hi >= sz) hi = 0;", "if (lo < 0) lo = sz - 1;",
        "z = (hiCtr.re - x) * (hiCtr.re - x) + (hiCtr.im - y) * (hiCtr.im - y);", "if (z <= meshelems[hi]->rsqr)",
        "z = (loCtr.re-x)*(loCtr.re-x) + (loCtr.im-y)*(loCtr.im-y);", "if (z <= meshelems[lo]->rsqr)",
        "if ((i < 0) || (i >= int(meshelems.size()))) return false;", "if (p_k > p_j)", "if(z<0) return false;",
        "if (z > 0) return false;", "CComplex p(meshnodes[ p_j ]->x/3., meshnodes[ p_j ]->y/3.);",
        "if(!Smooth){ D=elm.D; return; }"],
    "epproc/epproc.cpp": [
        "elm.blk = labellist[elm.lbl]->BlockType;", "e->ctr=Ctr(i);", "e->rsqr=0;", "if(b>e->rsqr) e->rsqr=b;",
        "E-=node->V*(b[i]+I*c[i])/(da*LengthConv[problem->LengthUnits]);",
        "elem->D = eo*(E.re*mat->ex + I*E.im*mat->ey)/AECF(elem);", "double da=(b[0]*c[1]-b[1]*c[0]);",
        "u.e=prop->ex + I*prop->ey;", "u.V+=getMeshNode(n[i])->V*(a[i]+b[i]*x+c[i]*y)/(da);",
        "u.E.re = u.D.re/(u.e.re*eo);", "u.E.im = u.D.im/(u.e.im*eo);", "u.nrg=Re(u.D*conj(u.E))/2.;"],
    "hpproc/hpproc.cpp": [
        "e->ctr=Ctr(i);", "if(b>e->rsqr) e->rsqr=b;", "E-=node->T*(b[i]+I*c[i])/(da*LengthConv[problem->LengthUnits]);",
        "kn+=bprop->GetK(node->T)/3.;", "elem->D=(E.re*kn.re + I*E.im*kn.im)/AECF(elem);",
        "u.T+=getMeshNode(n[i])->T*(a[i]+b[i]*x+c[i]*y)/(da);", "u.G.re = u.F.re/(u.K.re);", "u.G.im = u.F.im/(u.K.im);"],
    "fpproc/fpproc.cpp": [
        "static int k;", "for(j=0; j<sz; j+=2)", "if (hi >= sz) hi = 0;", "if (lo < 0) lo = sz - 1;",
        "if (z <= meshelem[hi].rsqr)", "if (z <= meshelem[lo].rsqr)", "if ((i < 0) || (i >= int(meshelem.size()))) return false;",
        "if (meshelem[i].p[k] > meshelem[i].p[j])", "if(b>meshelem[i].rsqr) meshelem[i].rsqr=b;",
        "elm.B1 += meshnode[n[i]].A * c[i] / (da * LengthConv[LengthUnits]);",
        "elm.B2 -= meshnode[n[i]].A * b[i] / (da * LengthConv[LengthUnits]);",
        "u.A.re += meshnode[n[i]].A.re * (a[i] + b[i] * x + c[i] * y) / (da);"],
}
HP_VARIANT = {"v": "hp"}


def squash(t):
    return "".join(t.split())


def regen(ctx):
    from props import xpv
    xpv.regen(ctx)            # anchors and source variants of the point-value model (PointVals.v)
    """No generated Coq text; checks the anchors and finds out which InTriangleTest HPProc has."""
    import re
    missing = []
    for f, al in ANCHORS.items():
        try:
            txt = squash(open(os.path.join(ctx.snap.src, f), errors="replace").read())
        except OSError:
            raise vlib.TranslateError("C12: source file %s is missing" % f)
        for a in al:
            if squash(a) not in txt:
                missing.append("%s: %s" % (f, a))
    hp = open(os.path.join(ctx.snap.src, "hpproc/hpproc.cpp"), errors="replace").read()
    m = re.search(r"bool\s+HPProc::InTriangleTest\s*\([^)]*\)\s*const\s*\{(.*?)\n\}", hp, re.S)
    if not m:
        # no override any more: the base-class (index-ordered) test is used
        HP_VARIANT["v"] = "ord"
    else:
        body = squash(m.group(1))
        if "PostProcessor::InTriangleTest(x,y,i)" in body:
            HP_VARIANT["v"] = "ord"
        elif squash("if(z<0) InFlag=false;") in body and squash("z=(meshnodes[meshelems[i]->p[k]]->x-meshnodes[meshelems[i]->p[j]]->x)*") in body \
                and "p[k]>" not in body and "p_k>" not in body:
            HP_VARIANT["v"] = "hp"
        else:
            missing.append("hpproc/hpproc.cpp: HPProc::InTriangleTest is neither the unordered loop nor a delegation to the base class")
    TESTFN["h"] = "test_hp FA" if HP_VARIANT["v"] == "hp" else "test_ord FA"
    ctx.res.notes.append("HPProc::InTriangleTest variant in this tree: %s" % HP_VARIANT["v"])
    if missing:
        raise vlib.TranslateError("C12: source statements the model transcribes are no longer present: " + "; ".join(missing[:6]))


TESTFN = {"e": "test_ord FA", "h": "test_hp FA", "m": "test_ord FA"}
LOADFN = {"e": "load FA", "h": "load_h FA", "m": "load_m FA"}
QUERYFN = {"e": "queries FA", "h": "queries_h FA", "m": "queries_m FA"}
NCMP = {"e": 8, "h": 7, "m": 3}     # how many of the printed point values the model covers


def coq_mesh_def(name, M):
    f = vlib.fhex
    nodes = "; ".join("mkNode %s %s %s" % (f(x), f(y), f(v)) for (x, y, v) in M["nodes"])
    rel = "; ".join("mkRelem %d %d %d %d" % (e[0], e[1], e[2], e[3]) for e in M["elems"])
    labs = "; ".join("mkLabel %s %s %d" % (f(l[0]), f(l[1]), l[2]) for l in M["labels"])
    mats = "; ".join("mkMat %s %s" % (f(a), f(b)) for (a, b) in M["mats"])
    return "Definition %s := %s [%s] [%s] [%s] [%s] %s %s.\n" % (name, LOADFN[M["kind"]], nodes, rel, labs, mats, f(M["lc"]), f(M["eo"]))


def coq_points(pts):
    return "[%s]" % "; ".join("(%s, %s)" % (vlib.fhex(x), vlib.fhex(y)) for (x, y) in pts)


def model_exprs(name, M, queries, tests):
    t = TESTFN[M["kind"]]
    k0 = "(label_queries FA (%s) %s 0%%Z (labels %s))" % (t, name, name)
    ex = ["map dump_elem (elems %s)" % name,
          k0,
          "map (flat_result FA) (%s (%s) %s %s %s)" % (QUERYFN[M["kind"]], t, name, k0, coq_points(queries))]
    if tests:
        ex.append("[%s]" % "; ".join("%s %s %s %s (%d)%%Z" % (t, name, vlib.fhex(x), vlib.fhex(y), i) for (x, y, i) in tests))
    return ex


# ------------------------------------------------------------------------ queries ----
def mesh_edges(M):
    ed = {}
    for ei, e in enumerate(M["elems"]):
        for a, b in ((e[0], e[1]), (e[1], e[2]), (e[2], e[0])):
            ed.setdefault((min(a, b), max(a, b)), []).append(ei)
    return ed


def gen_queries(rng, M, budget, edge_heavy=False):
    """Seeded query points of every category; returns a shuffled list of dicts
    {x, y, cat, ...}; a fraction of the points occurs twice (history independence)."""
    N, E = M["nodes"], M["elems"]
    ed = mesh_edges(M)
    inner = [k for k, v in ed.items() if len(v) == 2]
    outer = [k for k, v in ed.items() if len(v) == 1]
    xs = [n[0] for n in N]
    ys = [n[1] for n in N]
    x0, x1, y0, y1 = min(xs), max(xs), min(ys), max(ys)
    diag = math.hypot(x1 - x0, y1 - y0)
    Q = []
    w = dict(interior=0.2, centroid=0.06, vertex=0.12, edge=0.22, near_vertex=0.1, near_boundary=0.14, bbox=0.1, far=0.06)
    if edge_heavy:
        w = dict(interior=0.03, centroid=0.01, vertex=0.03, edge=0.85, near_vertex=0.03, near_boundary=0.03, bbox=0.01, far=0.01)
    for cat, frac in w.items():
        for _ in range(max(2, int(budget * frac))):
            if cat == "interior":
                ei = rng.randrange(len(E))
                l = [rng.random() + 1e-3 for _ in range(3)]
                s = sum(l)
                l = [v / s for v in l]
                p = [N[E[ei][j]] for j in range(3)]
                Q.append(dict(x=l[0] * p[0][0] + l[1] * p[1][0] + l[2] * p[2][0],
                              y=l[0] * p[0][1] + l[1] * p[1][1] + l[2] * p[2][1], cat=cat, elem=ei))
            elif cat == "centroid":
                ei = rng.randrange(len(E))
                p = [N[E[ei][j]] for j in range(3)]
                Q.append(dict(x=(p[0][0] + p[1][0] + p[2][0]) / 3, y=(p[0][1] + p[1][1] + p[2][1]) / 3, cat=cat, elem=ei))
            elif cat == "vertex":
                ni = rng.randrange(len(N))
                Q.append(dict(x=N[ni][0], y=N[ni][1], cat=cat, node=ni))
            elif cat == "edge":
                a, b = rng.choice(inner if (inner and rng.random() < 0.8) else outer)
                if rng.random() < 0.5:
                    a, b = b, a
                t = rng.choice([0.5, 0.25, rng.random(), rng.random(), rng.random() * 1e-3, 1 - rng.random() * 1e-3])
                Q.append(dict(x=N[a][0] + t * (N[b][0] - N[a][0]), y=N[a][1] + t * (N[b][1] - N[a][1]), cat=cat, a=a, b=b, t=t))
            elif cat == "near_vertex":
                ni = rng.randrange(len(N))
                dx, dy = rng.choice([(1, 0), (-1, 0), (0, 1), (0, -1), (1, 1), (1, -1), (-1, 1), (-1, -1)])
                k = rng.choice([1, 1, 2, 5, 1000])
                x, y = N[ni][0], N[ni][1]
                for _ in range(k if k < 10 else 1):
                    if dx:
                        x = math.nextafter(x, math.inf * dx)
                    if dy:
                        y = math.nextafter(y, math.inf * dy)
                if k >= 10:
                    x, y = N[ni][0] + dx * k * math.ulp(N[ni][0]), N[ni][1] + dy * k * math.ulp(N[ni][1])
                Q.append(dict(x=x, y=y, cat=cat, node=ni))
            elif cat == "near_boundary":
                a, b = rng.choice(outer)
                t = rng.random()
                ex, ey = N[b][0] - N[a][0], N[b][1] - N[a][1]
                ln = math.hypot(ex, ey)
                eps = rng.choice([1e-2, 1e-5, 1e-9, 1e-12]) * ln * rng.choice([-1, 1])
                Q.append(dict(x=N[a][0] + t * ex - eps * ey / ln, y=N[a][1] + t * ey + eps * ex / ln, cat=cat, a=a, b=b))
            elif cat == "bbox":
                Q.append(dict(x=rng.uniform(x0, x1), y=rng.uniform(y0, y1), cat=cat))
            else:
                th = rng.uniform(0, 2 * math.pi)
                r = diag * rng.choice([0.8, 2, 50, 1e6])
                Q.append(dict(x=(x0 + x1) / 2 + r * math.cos(th), y=(y0 + y1) / 2 + r * math.sin(th), cat=cat))
    # repeats: the same point after a different history
    rep = [dict(q, repeat=True) for q in Q if rng.random() < 0.25]
    Q += rep
    rng.shuffle(Q)
    return Q[:max(budget, 8)] if len(Q) > budget * 1.4 else Q


# ------------------------------------------------------------------ property oracle ----
TAG_HP = "C12-1:HPProc-InTriangleTest-unordered-edge-gap"


def exact_orients(M, ei, x, y):
    """Exact (rational) values of the three edge functions of element ei at the float point."""
    N = M["nodes"]
    e = M["elems"][ei]
    X, Y = Fraction(x), Fraction(y)
    out = []
    for a, b in ((e[0], e[1]), (e[1], e[2]), (e[2], e[0])):
        xa, ya, xb, yb = Fraction(N[a][0]), Fraction(N[a][1]), Fraction(N[b][0]), Fraction(N[b][1])
        out.append((xb - xa) * (Y - ya) - (yb - ya) * (X - xa))
    return out


def classify(M, Q):
    """For every query: exact list of elements whose closed triangle contains it, and the
    float 'depth' max_e min_i lambda_i (how far inside/outside the meshed region)."""
    import numpy as np
    N = np.array([(n[0], n[1]) for n in M["nodes"]], dtype=float)
    T = np.array([e[:3] for e in M["elems"]], dtype=int)
    P0, P1, P2 = N[T[:, 0]], N[T[:, 1]], N[T[:, 2]]
    da = (P1[:, 0] - P0[:, 0]) * (P2[:, 1] - P0[:, 1]) - (P2[:, 0] - P0[:, 0]) * (P1[:, 1] - P0[:, 1])
    res = []
    chunk = max(1, 2000000 // max(1, len(T)))
    pts = np.array([(q["x"], q["y"]) for q in Q], dtype=float)
    for s in range(0, len(Q), chunk):
        X = pts[s:s + chunk, 0][:, None]
        Y = pts[s:s + chunk, 1][:, None]
        def o(A, B):
            return (B[None, :, 0] - A[None, :, 0]) * (Y - A[None, :, 1]) - (B[None, :, 1] - A[None, :, 1]) * (X - A[None, :, 0])
        with np.errstate(all="ignore"):
            lam = np.minimum(np.minimum(o(P0, P1), o(P1, P2)), o(P2, P0)) / da[None, :]
        for r in range(lam.shape[0]):
            row = lam[r]
            depth = float(np.max(row)) if np.all(np.isfinite(row)) else float("-inf")
            cand = np.nonzero(row > -1e-9)[0]
            q = Q[s + r]
            inside = []
            for ei in cand:
                if all(v >= 0 for v in exact_orients(M, int(ei), q["x"], q["y"])):
                    inside.append(int(ei))
            res.append((inside, depth))
    return res


def near_edges(M, x, y, ed=None):
    """(within rounding distance of an edge shared by two elements, ... of an outer-boundary edge)"""
    N = M["nodes"]
    ed = ed or mesh_edges(M)
    ni = no = False
    for (a, b), els in ed.items():
        ax, ay, bx, by = N[a][0], N[a][1], N[b][0], N[b][1]
        ex, ey = bx - ax, by - ay
        l2 = ex * ex + ey * ey
        t = max(0.0, min(1.0, ((x - ax) * ex + (y - ay) * ey) / l2))
        d = math.hypot(x - (ax + t * ex), y - (ay + t * ey))
        scale = max(abs(ax), abs(ay), abs(bx), abs(by), math.sqrt(l2))
        if d <= 1e-12 * scale:
            if len(els) == 2:
                ni = True
            else:
                no = True
    return ni, no


def exact_interp(M, ei, x, y):
    N = M["nodes"]
    e = M["elems"][ei]
    o = exact_orients(M, ei, x, y)          # o[0]: edge p0p1 -> weight of p2, o[1]: p1p2 -> p0, o[2]: p2p0 -> p1
    da = sum(o)
    return (o[1] * Fraction(N[e[0]][2]) + o[2] * Fraction(N[e[1]][2]) + o[0] * Fraction(N[e[2]][2])) / da


def np_gradient(M, ei):
    """Gradient of the linear interpolant of element ei, by an independent 3x3 solve."""
    import numpy as np
    N = M["nodes"]
    e = M["elems"][ei]
    A = np.array([[1.0, N[e[j]][0], N[e[j]][1]] for j in range(3)])
    # centre the coordinates: better conditioned, same gradient
    A[:, 1] -= A[:, 1].mean()
    A[:, 2] -= A[:, 2].mean()
    c = np.linalg.solve(A, np.array([N[e[j]][2] for j in range(3)]))
    return float(c[1]), float(c[2])


def rel_close(a, b, rel, floor=0.0):
    return abs(a - b) <= rel * max(abs(a), abs(b)) + floor


def oracle(ctx, prob, M, Q, R, stats):
    """Property-level checks on the implementation's own outputs.  Returns list of
    (message, index of failing query, tag)."""
    kind = M["kind"]
    fails = []
    N, E = M["nodes"], M["elems"]
    # hypotheses of the theorems, on the data the implementation actually holds
    for ei, e in enumerate(E):
        p = [N[e[j]] for j in range(3)]
        da = (Fraction(p[1][0]) - Fraction(p[0][0])) * (Fraction(p[2][1]) - Fraction(p[0][1])) - \
             (Fraction(p[2][0]) - Fraction(p[0][0])) * (Fraction(p[1][1]) - Fraction(p[0][1]))
        if da <= 0:
            fails.append(("mesh element %d of the solution is not counter-clockwise (theorem hypothesis mesh_ccw)" % ei, None, None))
            return fails
    cls = classify(M, Q)
    ed = mesh_edges(M)
    vscale = max(abs(n[2]) for n in N) or 1.0
    seen = {}
    lc = M["lc"]
    for qi, (q, r, (inside, depth)) in enumerate(zip(Q, R, cls)):
        x, y = q["x"], q["y"]
        found = r[0] >= 0
        stats["cats"][q["cat"]] = stats["cats"].get(q["cat"], 0) + 1
        if inside:
            stats["inside"] += 1
            if not found:
                # exactly in the closed region but within rounding of the OUTER boundary: no verdict
                ni, no = near_edges(M, x, y, ed)
                if no:
                    stats["inside"] -= 1
                    stats["borderline"] += 1
                    seen.setdefault((x, y), r)
                    continue
                tag = TAG_HP if (kind == "h" and ni and HP_VARIANT["v"] == "hp") else None
                fails.append(("%s: a point of the meshed region (exactly inside/on element %s) is not located"
                              % ({"e": "epproc", "h": "hpproc", "m": "fpproc"}[kind], inside[:3]), qi, tag))
                continue
        elif depth < -1e-7:
            stats["outside"] += 1
            if found:
                fails.append(("a point outside the meshed region (barycentric depth %.3g) is reported in element %d" % (depth, r[0]), qi, None))
                continue
        else:
            stats["borderline"] += 1
        key = (x, y)
        if key in seen and (seen[key][0] >= 0) != found:
            fails.append(("found/not-found of the same point depends on the query history (earlier result %d, now %d)"
                          % (seen[key][0], r[0]), qi,
                          TAG_HP if (kind == "h" and HP_VARIANT["v"] == "hp" and near_edges(M, x, y, ed)[0]) else None))
        if not found:
            seen.setdefault(key, r)
            continue
        ei = r[0]
        if ei >= len(E):
            fails.append(("returned element index %d out of range" % ei, qi, None))
            continue
        o = exact_orients(M, ei, x, y)
        das = sum(o)
        lam_min = float(min(o) / das)
        if lam_min < -1e-9:
            fails.append(("returned element %d does not contain the point (barycentric %.3g)" % (ei, lam_min), qi, None))
            continue
        V = r[1]
        Vx = float(exact_interp(M, ei, x, y))
        e = E[ei]
        p = [N[e[j]] for j in range(3)]
        # forward-error scale of sum V_i (a_i + b_i x + c_i y)/da as the code evaluates it
        mag = 0.0
        for j in range(3):
            n1, n2 = p[(j + 1) % 3], p[(j + 2) % 3]
            mag += abs(p[j][2]) * (abs(n1[0] * n2[1]) + abs(n2[0] * n1[1]) + abs((n1[1] - n2[1]) * x) + abs((n2[0] - n1[0]) * y))
        tol = 64 * 2.3e-16 * mag / abs(float(das)) + 1e-13 * vscale
        if not abs(V - Vx) <= tol:
            fails.append(("potential %r differs from the linear interpolant %r of the corner values of element %d (tol %.3g)"
                          % (V, Vx, ei, tol), qi, None))
            continue
        if q["cat"] == "vertex" and not abs(V - N[q["node"]][2]) <= tol:
            fails.append(("potential at mesh node %d is %r, nodal value %r" % (q["node"], V, N[q["node"]][2]), qi, None))
            continue
        if q["cat"] == "edge":
            blend = (1 - q["t"]) * N[q["a"]][2] + q["t"] * N[q["b"]][2]
            gx, gy = np_gradient(M, ei)
            slack = (abs(gx) * math.ulp(x) + abs(gy) * math.ulp(y)) * 4
            if not abs(V - blend) <= tol + slack + 1e-12 * vscale:
                fails.append(("value on the edge (%d,%d) at t=%r is %r, blend of the two nodal values %r"
                              % (q["a"], q["b"], q["t"], V, blend), qi, None))
                continue
        if key in seen and seen[key][0] >= 0:
            V0 = seen[key][1]
            if not abs(V - V0) <= 2 * tol + 1e-12 * vscale:
                fails.append(("the same point gives potential %r after one history and %r after another (elements %d, %d)"
                              % (V0, V, seen[key][0], ei), qi, None))
                continue
        seen.setdefault(key, r)
        # field = gradient of the interpolant scaled by the element's material
        gx, gy = np_gradient(M, ei)
        gs = math.hypot(gx, gy) / lc + 1e-300
        region_blk = None
        cxy = ((p[0][0] + p[1][0] + p[2][0]) / 3, (p[0][1] + p[1][1] + p[2][1]) / 3)
        for poly, b in prob["regions"]:
            if pip(cxy, poly):
                region_blk = b
        if region_blk is None:
            fails.append(("centroid of returned element %d is in no region of the generated geometry" % ei, qi, None))
            continue
        mx, my = prob["mats"][region_blk]
        if kind == "e":
            Dx, Dy, Ex, Ey, epx, epy, nrg = r[2:9]
            if (epx, epy) != (mx, my):
                fails.append(("material data (%r,%r) are not those of the block containing the point (%r,%r)" % (epx, epy, mx, my), qi, None))
                continue
            if not (abs(Ex + gx / lc) <= 1e-9 * gs and abs(Ey + gy / lc) <= 1e-9 * gs):
                fails.append(("E=(%r,%r) is not minus the gradient of the interpolant (%r,%r)" % (Ex, Ey, -gx / lc, -gy / lc), qi, None))
                continue
            if not (rel_close(Dx, M["eo"] * mx * Ex, 1e-12, 1e-30) and rel_close(Dy, M["eo"] * my * Ey, 1e-12, 1e-30)):
                fails.append(("D=(%r,%r) is not eo*eps*E with the element's material" % (Dx, Dy), qi, None))
                continue
            if not rel_close(nrg, (Dx * Ex + Dy * Ey) / 2, 1e-12, 1e-300):
                fails.append(("nrg=%r is not D.E/2" % nrg, qi, None))
                continue
        elif kind == "h":
            Fx, Fy, Gx, Gy, Kx, Ky = r[2:8]
            if (Kx, Ky) != (mx, my):
                fails.append(("conductivity (%r,%r) is not that of the block containing the point (%r,%r)" % (Kx, Ky, mx, my), qi, None))
                continue
            if not (abs(Gx + gx / lc) <= 1e-9 * gs and abs(Gy + gy / lc) <= 1e-9 * gs):
                fails.append(("G=(%r,%r) is not minus the gradient of the interpolant (%r,%r)" % (Gx, Gy, -gx / lc, -gy / lc), qi, None))
                continue
            if not (rel_close(Fx, mx * Gx, 1e-11, 1e-30 * gs) and rel_close(Fy, my * Gy, 1e-11, 1e-30 * gs)):
                fails.append(("F=(%r,%r) is not k*G with the element's material" % (Fx, Fy), qi, None))
                continue
        else:
            B1, B2, H1, H2, mu1, mu2 = r[2:8]
            if not (rel_close(mu1, mx, 1e-12) and rel_close(mu2, my, 1e-12)):      # GetMu recomputes B/(H muo)
                fails.append(("permeability (%r,%r) is not that of the block containing the point (%r,%r)" % (mu1, mu2, mx, my), qi, None))
                continue
            if not (abs(B1 - gy / lc) <= 1e-9 * gs and abs(B2 + gx / lc) <= 1e-9 * gs):
                fails.append(("B=(%r,%r) is not the curl of the interpolant (%r,%r)" % (B1, B2, gy / lc, -gx / lc), qi, None))
                continue
            muo = M["eo"]       # the harness prints muo in that slot for magnetics
            if not (rel_close(H1, B1 / (mx * muo), 1e-11, 1e-30 * gs) and rel_close(H2, B2 / (my * muo), 1e-11, 1e-30 * gs)):
                fails.append(("H=(%r,%r) is not B/(mu*muo) with the element's material" % (H1, H2), qi, None))
                continue
        stats["field_checked"] += 1
    return fails


def report(ctx, prob, name, sol_kind, Q, fails, rerun):
    """Turn oracle failures into ctx.fail entries with a replayable (shrunk) query sequence."""
    import re
    done = set()
    norm = lambda m: re.sub(r"[-+0-9.e\[\], ]+", "#", m)[:48]
    for msg, qi, tag in fails[:40]:
        if (norm(msg), tag) in done or len(ctx.failing_inputs) >= 4:
            continue
        done.add((norm(msg), tag))
        seq = Q[:qi + 1] if qi is not None else []
        if qi is not None:
            # does the single query fail on a freshly loaded file as well?
            one = [Q[qi]]
            f1 = rerun(one)
            if any(norm(m) == norm(msg) for m, _, _ in f1):
                seq = one
        ctx.fail(msg + " [problem %s]" % name, finding=tag or "", problem=prob, kind=sol_kind,
                 queries=[(float(q["x"]).hex(), float(q["y"]).hex(), q["cat"]) for q in seq[-200:]],
                 failing_query=(float(Q[qi]["x"]).hex(), float(Q[qi]["y"]).hex()) if qi is not None else None)


# --------------------------------------------------------------------- correspondence ----
def problem_plan(ctx, rng):
    """(name, kind, shape, mesh size, ugly, units, axi, centred, for_coq, query budget, edge_heavy)"""
    P = []
    q = ctx.quick()
    nq = 220 if q else 400
    P.append(("e_rect2", "e", "rect2", 0.55, False, "centimeters", False, False, True, nq, False))
    P.append(("e_quad", "e", "quad_diag", 0.30, True, "inches", False, False, True, nq, False))
    P.append(("e_lshape", "e", "lshape", 0.30, True, "millimeters", False, True, True, nq, False))
    P.append(("e_ushape", "e", "ushape3", 0.33, True, "meters", False, False, True, nq, False))
    P.append(("e_axi", "e", "rect2", 0.45, False, "mils", True, False, True, nq, False))
    P.append(("h_quad", "h", "quad_diag", 0.30, True, "centimeters", False, False, True, nq, False))
    P.append(("h_lshape", "h", "lshape", 0.40, False, "meters", False, False, True, nq, False))
    P.append(("m_rect2", "m", "rect2", 0.40, True, "millimeters", False, True, True, nq, False))
    P.append(("m_ushape", "m", "ushape3", 0.40, False, "inches", False, False, True, nq, False))
    big = 2500 if q else 12000
    P.append(("e_fine", "e", "ushape3", 0.07, True, "centimeters", False, False, False, big, False))
    P.append(("h_fine", "h", "lshape", 0.06, True, "millimeters", False, False, False, big, False))
    P.append(("m_fine", "m", "quad_diag", 0.06, True, "meters", False, False, False, big, False))
    # coarse meshes around the origin, many points on shared edges (rounding matters most there)
    eh = 6000 if q else 40000
    P.append(("e_coarse0", "e", "rect2", 0.9, True, "centimeters", False, True, False, eh, True))
    P.append(("h_coarse0", "h", "rect2", 0.9, True, "centimeters", False, True, False, eh, True))
    P.append(("m_coarse0", "m", "rect2", 0.9, True, "centimeters", False, True, False, eh, True))
    if not q:
        for k in range(12):
            kind = "ehm"[k % 3]
            shape = rng.choice(list(shapes().keys()))
            P.append(("r%d_%s" % (k, kind), kind, shape, rng.choice([0.2, 0.3, 0.5]), True,
                      rng.choice(list(UNITS.keys())), False, rng.random() < 0.5, k < 6, 400 if k < 6 else 6000, rng.random() < 0.3))
    return P


def build_problem(rng, spec):
    name, kind, shape, msize, ugly, units, axi, centred, for_coq, budget, eh = spec
    p = make_problem(rng, kind, shape, msize, ugly, units, axi)
    if centred and ugly:
        # move the geometry so that the origin lies inside it (finest float grid inside the mesh)
        cx = sum(x for x, _ in p["pts"]) / len(p["pts"])
        cy = sum(y for _, y in p["pts"]) / len(p["pts"])
        lab = p["labels"][0][0]
        sh = (lab[0] * 0.5 + cx * 0.5, lab[1] * 0.5 + cy * 0.5)
        mv = lambda q: (q[0] - sh[0], q[1] - sh[1])
        p["pts"] = [mv(q) for q in p["pts"]]
        p["regions"] = [([mv(q) for q in poly], b) for poly, b in p["regions"]]
        p["labels"] = [(mv(q), b) for q, b in p["labels"]]
    return p


def compare_model(M, Q, R, tests, Rt, out):
    """Model outputs vs implementation.  Returns (list of messages, bit-identical, compared)."""
    dis = []
    nb = tot = 0
    elems, k0, res = out[0], out[1], out[2]
    kind = M["kind"]
    # load-time data: blk, ctr, rsqr (and D for electrostatics)
    for ei, (a, b) in enumerate(zip(M["elems"], elems)):
        if tuple(a[:5]) != tuple(b[:5]):
            dis.append("element %d: implementation (p,lbl,blk)=%r, model %r" % (ei, a[:5], b[:5]))
            continue
        for j in range(5, 10):
            tot += 1
            if vlib.ulp_diff(a[j], b[j]) == 0:
                nb += 1
            elif not vlib.close(a[j], b[j], 64, 1e-300):
                dis.append("element %d field %s: implementation %r, model %r" % (ei, ["cx", "cy", "rsqr", "Dx", "Dy"][j - 5], a[j], b[j]))
    if len(res) != len(R):
        dis.append("model answered %d queries, implementation %d" % (len(res), len(R)))
        return dis, nb, tot
    for qi, (r, m) in enumerate(zip(R, res)):
        tot += 1
        if r[0] != m[0]:
            dis.append("query %d (%s,%s): implementation found element %d, model %d (model state after the label loop: %r)"
                       % (qi, float(Q[qi]["x"]).hex(), float(Q[qi]["y"]).hex(), r[0], m[0], k0))
            break
        nb += 1
        if r[0] < 0:
            continue
        vals = m[1]
        ncmp = NCMP[kind]
        for j in range(ncmp):
            tot += 1
            if vlib.ulp_diff(r[1 + j], vals[j]) == 0:
                nb += 1
            elif not vlib.close(r[1 + j], vals[j], 64, 1e-300):
                dis.append("query %d (%s,%s) value %d: implementation %r, model %r"
                           % (qi, float(Q[qi]["x"]).hex(), float(Q[qi]["y"]).hex(), j, r[1 + j], vals[j]))
    if tests:
        for (t, a, b) in zip(tests, Rt, out[3]):
            tot += 1
            if bool(a) == bool(b):
                nb += 1
            else:
                dis.append("InTriangleTest(%s,%s,%d): implementation %r, model %r" % (float(t[0]).hex(), float(t[1]).hex(), t[2], a, b))
    return dis, nb, tot


def run_case(ctx, rng, spec, stats, coq_jobs):
    name, kind = spec[0], spec[1]
    for_coq, budget, eh = spec[8], spec[9], spec[10]
    prob = build_problem(rng, spec)
    try:
        sol = solve(ctx, prob, name)
    except RuntimeError as e:
        # the mesher / solver did not produce a solution file: nothing for the post-processor to load
        # (not a C12 matter; e.g. hsolver crashes on meshes with more nodes than elements)
        stats["notes"].append("no solution file for %s: %s" % (name, str(e)[-160:]))
        return
    rc, M, _, err = run_harness(ctx, kind, sol, [])
    if rc != 0 or not M["ok"]:
        ctx.fail("post-processor failed to load a solution produced by the solver (rc=%d) [problem %s]" % (rc, name),
                 problem=prob, stderr=err[-500:])
        return
    stats["meshes"].append((name, len(M["nodes"]), len(M["elems"])))
    Q = gen_queries(rng, M, budget, eh)
    rc, M, R, err = run_harness(ctx, kind, sol, [("q", q["x"], q["y"]) for q in Q])
    if rc != 0 or len(R) != len(Q):
        ctx.fail("post-processor terminated abnormally (rc=%d) during the query sequence [problem %s]" % (rc, name),
                 problem=prob, stderr=err[-500:], queries=[(float(q["x"]).hex(), float(q["y"]).hex()) for q in Q[:len(R) + 1][-50:]])
        return
    stats["queries"] += len(Q)
    stats["found"] += sum(1 for r in R if r[0] >= 0)
    for q in Q:
        stats["distinct"].add((name, q["x"], q["y"]))

    def rerun(seq):
        rc2, M2, R2, _ = run_harness(ctx, kind, sol, [("q", q["x"], q["y"]) for q in seq])
        if rc2 != 0 or len(R2) != len(seq):
            return []
        st = dict(cats={}, inside=0, outside=0, borderline=0, field_checked=0)
        return oracle(ctx, prob, M2, seq, R2, st)

    fails = oracle(ctx, prob, M, Q, R, stats)
    if fails:
        report(ctx, prob, name, kind, Q, fails, rerun)
    if len(stats["samples"]) < 3:
        stats["samples"].append(dict(problem=name, kind=kind, nodes=len(M["nodes"]), elements=len(M["elems"]),
                                     first_queries=[(float(q["x"]).hex(), float(q["y"]).hex(), q["cat"], r[0]) for q, r in zip(Q[:8], R[:8])]))
    if for_coq:
        if len(M["elems"]) > 400:
            stats["notes"].append("mesh %s has %d elements: skipped on the Coq side" % (name, len(M["elems"])))
            return
        # direct InTriangleTest calls, including out-of-range indices for the range-checked copies
        tests = []
        for q in Q[:60]:
            idx = rng.randrange(len(M["elems"]))
            if rng.random() < 0.15:
                idx = rng.choice([-1, -7] + ([len(M["elems"]), len(M["elems"]) + 5] if kind != "h" else []))
            tests.append((q["x"], q["y"], idx))
        rc, _, Rt, _ = run_harness(ctx, kind, sol, [("t",) + t for t in tests])
        coq_jobs.append((name, prob, M, Q, R, tests, Rt))


def correspond(ctx):
    rng = ctx.rng
    stats = dict(meshes=[], queries=0, found=0, distinct=set(), cats={}, inside=0, outside=0, borderline=0,
                 field_checked=0, samples=[], notes=[])
    coq_jobs = []
    dis = []
    if ctx.replay:
        return replay_case(ctx)
    for spec in problem_plan(ctx, rng):
        run_case(ctx, vlib.Rng(ctx.seed * 1000 + sum(map(ord, spec[0]))), spec, stats, coq_jobs)
    # model side: one coqc per mesh
    nb = tot = 0
    for (name, prob, M, Q, R, tests, Rt) in coq_jobs:
        hdr = HEADER + coq_mesh_def("M0", M)
        out = vlib.coq_eval(hdr, model_exprs("M0", M, [(q["x"], q["y"]) for q in Q], tests), name="c12_" + name, timeout=1500)
        d, b, t = compare_model(M, Q, R, tests, Rt, out)
        nb += b
        tot += t
        for msg in d[:3]:
            dis.append(dict(what="Locate correspondence [%s]: %s" % (name, msg), problem=prob, kind=M["kind"],
                            queries=[(float(q["x"]).hex(), float(q["y"]).hex()) for q in Q]))
    cov = ctx.res.cov
    cov["evaluations"] = stats["queries"]
    cov["distinct_nontrivial"] = len(stats["distinct"])
    cov["rule"] = ("problems generated from 4 base geometries (two-material rectangle, L, U with inclusion, split quadrilateral) "
                   "under seeded affine maps, meshed by the snapshot's fmesher and solved by esolver/hsolver/fsolver, loaded by the "
                   "real ElectrostaticsPostProcessor/HPProc/FPProc; per mesh a shuffled seeded query sequence (interior, centroid, "
                   "exactly at nodes, convex combinations of two node coordinates on shared and boundary edges, +-k ulp around "
                   "nodes, just inside/outside the outer boundary, bounding box incl. notches, far outside; 25% of the points "
                   "repeated after a different history).  evaluations = point queries run through the implementation; "
                   "non-trivial distinct = distinct (mesh, x, y)")
    cov["samples"] = stats["samples"]
    cov["input_distribution"] = dict(meshes=stats["meshes"], categories=stats["cats"], found=stats["found"],
                                     exactly_inside=stats["inside"], clearly_outside=stats["outside"],
                                     borderline=stats["borderline"], field_checked=stats["field_checked"])
    cov["model_meshes"] = [j[0] for j in coq_jobs]
    cov["values_compared"] = tot
    cov["bit_identical"] = nb
    ctx.res.notes += stats["notes"]
    from props import ext as extmod
    return list(dis) + extmod.run(ctx, EXTENSIONS)


def replay_case(ctx):
    rp = ctx.replay.get("replay", ctx.replay)
    prob = rp["problem"]
    prob["pts"] = [tuple(p) for p in prob["pts"]]
    prob["regions"] = [([tuple(q) for q in poly], b) for poly, b in prob["regions"]]
    prob["labels"] = [(tuple(q), b) for q, b in prob["labels"]]
    kind = rp.get("kind", prob["kind"])
    sol = solve(ctx, prob, "replay")
    Q = [dict(x=float.fromhex(q[0]), y=float.fromhex(q[1]), cat=(q[2] if len(q) > 2 else "bbox")) for q in rp["queries"]]
    for q in Q:
        if q["cat"] in ("vertex", "edge"):
            q["cat"] = "bbox"
    rc, M, R, err = run_harness(ctx, kind, sol, [("q", q["x"], q["y"]) for q in Q])
    st = dict(cats={}, inside=0, outside=0, borderline=0, field_checked=0)
    fails = oracle(ctx, prob, M, Q, R, st)
    for msg, qi, tag in fails[:3]:
        ctx.fail(msg + " [replay]", finding=tag or "", problem=prob, kind=kind, queries=rp["queries"])
    ctx.res.cov.update(evaluations=len(Q), distinct_nontrivial=len(set((q["x"], q["y"]) for q in Q)),
                       rule="replay of a recorded query sequence", samples=[rp["queries"][:5]])
    return []


def search(ctx, broken):
    """A proof or the correspondence broke: look harder for an input on which the PROPERTY
    fails against the real code (oracle only, more meshes and many more queries)."""
    found = []
    rng = vlib.Rng(ctx.seed + 17)
    stats = dict(meshes=[], queries=0, found=0, distinct=set(), cats={}, inside=0, outside=0, borderline=0,
                 field_checked=0, samples=[], notes=[])
    before = len(ctx.failing_inputs)
    plan = []
    for k in range(9):
        kind = "ehm"[k % 3]
        plan.append(("s%d_%s" % (k, kind), kind, rng.choice(list(shapes().keys())), rng.choice([0.15, 0.3, 0.6, 0.9]), True,
                     rng.choice(list(UNITS.keys())), False, k % 2 == 0, False, 8000, k % 3 == 0))
    for spec in plan:
        run_case(ctx, vlib.Rng(ctx.seed * 77 + sum(map(ord, spec[0]))), spec, stats, [])
        if len(ctx.failing_inputs) > before:
            break
    new = ctx.failing_inputs[before:]
    del ctx.failing_inputs[before:]
    return new
