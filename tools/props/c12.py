"""C12 — post-processors locate every point and interpolate the solution faithfully.
Model: coq/theories/Locate.v; theorems: Properties_C12.v (proofs in LocateProofs.v).
Correspondence: solution files produced by the real fmesher + esolver/hsolver/fsolver of the
snapshot are loaded by the real post-processor classes (harness/h_locate.cpp), the loaded mesh
is dumped and the same seeded query sequence is run through the implementation and through
the float reading of the model (vm_compute): load-time data (blk, ctr, rsqr, D), the search
state left by the label loop of OpenDocument, found element index and point values.
Property oracle (independent of the Coq model, on the implementation's outputs): exact
rational point-in-mesh decision, exact interpolant, nodal values at vertices, continuity and
history independence on shared edges/vertices, E = -grad V and D = eps E recomputed with numpy,
material of the enclosing block from the generated geometry."""
import os, math, json
from fractions import Fraction
import vlib

LEVEL = "proof"
COQ_MODULES = ["Locate"]
ASSUMPTIONS = [
    "theorems about geometry, interpolation and fields are about the real-number reading of the model; rounding error "
    "between the float and real readings is not bounded (only the shared-edge gap-freeness of the index-ordered edge "
    "test is proved on binary64 itself, from Coq's FloatAxioms)",
    "point values are modelled for electrostatics (getPointValues with smoothing off, planar / no external region so that "
    "AECF = 1); for heat flow and magnetics the model covers location (InTriangle, their InTriangleTest variants, ctr, "
    "rsqr) and the potential interpolant, their fields are checked by the run-time oracle only",
    "solution-file parsing is not modelled: the model starts from the node/element/label/material tables the "
    "post-processor holds after OpenDocument (dumped by the harness); eo and LengthConv are taken from the implementation",
    "the model is hand-written; its tie to PostProcessor.cpp/epproc.cpp/hpproc.cpp/fpproc.cpp is the correspondence run here",
]
HEADER = ("From Coq Require Import ZArith List Floats. Import ListNotations. "
          "From XF Require Import Arith Locate. Local Open Scope float_scope.\n")

UNITS = {"inches": 0.0254, "millimeters": 0.001, "centimeters": 0.01, "meters": 1.0, "mils": 2.54e-05,
         "micrometers": 1e-06}
SOLVER = {"e": ("esolver", ".fee", ".res"), "h": ("hsolver", ".feh", ".anh"), "m": ("fsolver", ".fem", ".ans")}


# ------------------------------------------------------------------ problem generation ----
def shapes():
    """Base geometries: points, segments (a, b, bdry id 0=none/1=hi/2=lo), regions (polygon as
    point indices, block index), all in a unit-ish frame; mapped affinely afterwards."""
    S = {}
    S["rect2"] = dict(
        pts=[(0, 0), (1, 0), (2, 0), (2, 1), (1, 1), (0, 1)],
        segs=[(0, 1, 0), (1, 2, 0), (2, 3, 2), (3, 4, 0), (4, 5, 0), (5, 0, 1), (1, 4, 0)],
        regions=[([0, 1, 4, 5], 0), ([1, 2, 3, 4], 1)])
    S["lshape"] = dict(
        pts=[(0, 0), (2, 0), (2, 1), (1, 1), (1, 2), (0, 2)],
        segs=[(0, 1, 0), (1, 2, 2), (2, 3, 0), (3, 4, 0), (4, 5, 1), (5, 0, 0)],
        regions=[([0, 1, 2, 3, 4, 5], 0)])
    S["ushape3"] = dict(       # a U with a third material filling part of the notch
        pts=[(0, 0), (3, 0), (3, 2), (2, 2), (2, 1), (1, 1), (1, 2), (0, 2), (1, 1.5), (2, 1.5)],
        segs=[(0, 1, 1), (1, 2, 0), (2, 3, 2), (3, 9, 0), (9, 4, 0), (4, 5, 0), (5, 8, 0), (8, 6, 0), (6, 7, 2),
              (7, 0, 0), (8, 9, 0)],
        regions=[([0, 1, 2, 3, 9, 4, 5, 8, 6, 7], 0), ([5, 4, 9, 8], 1)])
    S["quad_diag"] = dict(     # a quadrilateral split by a diagonal and a stub: three blocks
        pts=[(0, 0), (2, 0.2), (2.3, 1.6), (0.4, 1.3), (1.2, 0.75)],
        segs=[(0, 1, 1), (1, 2, 0), (2, 3, 2), (3, 0, 0), (0, 4, 0), (4, 2, 0), (4, 1, 0)],
        regions=[([0, 4, 2, 3], 0), ([0, 1, 4], 1), ([1, 2, 4], 2)])
    return S


def affine(rng, ugly):
    if not ugly:
        return (1.0, 0.0, 0.0, 1.0, 0.0, 0.0)
    th = rng.uniform(-math.pi, math.pi)
    s = rng.choice([0.37, 1.0, 2.9, 13.7]) * rng.uniform(0.8, 1.25)
    sh = rng.uniform(-0.3, 0.3)
    a, b = s * math.cos(th), -s * math.sin(th) + sh * s * math.cos(th)
    c, d = s * math.sin(th), s * math.cos(th) + sh * s * math.sin(th)
    return (a, b, c, d, rng.uniform(-5, 5), rng.uniform(-5, 5))


def make_problem(rng, kind, shape, msize, ugly, units, axi=False):
    base = shapes()[shape]
    T = affine(rng, ugly)
    if axi:
        T = (abs(T[0]) if not ugly else 1.3, 0.0, 0.0, 1.0, 0.0, T[5])   # keep r >= 0
    mp = lambda p: (T[0] * p[0] + T[1] * p[1] + T[4], T[2] * p[0] + T[3] * p[1] + T[5])
    pts = [mp(p) for p in base["pts"]]
    scale = math.sqrt(abs(T[0] * T[3] - T[1] * T[2]))
    nblk = 1 + max(b for _, b in base["regions"])
    mats = []
    for b in range(nblk):
        if ugly:
            mats.append((round(rng.uniform(1, 9), 3), round(rng.uniform(1, 9), 3)))
        else:
            mats.append([(4.0, 2.0), (1.0, 1.0), (2.5, 2.5)][b])
    labels = []
    for poly, b in base["regions"]:
        labels.append((label_point([pts[i] for i in poly]), b))
    return dict(kind=kind, shape=shape, pts=pts, segs=base["segs"], regions=[([pts[i] for i in poly], b) for poly, b in base["regions"]],
                labels=labels, mats=mats, msize=msize * scale, units=units, axi=axi,
                vals=(round(rng.uniform(5, 50), 2), round(rng.uniform(-5, 4), 2)) if ugly else (10.0, 0.0))


def label_point(poly):
    """A point strictly inside a simple polygon: centroid of an ear triangle found by brute force."""
    n = len(poly)
    best = None
    for i in range(n):
        a, b, c = poly[i - 1], poly[i], poly[(i + 1) % n]
        g = ((a[0] + b[0] + c[0]) / 3, (a[1] + b[1] + c[1]) / 3)
        if pip(g, poly) and all(not in_tri(poly[j], a, b, c) for j in range(n) if poly[j] not in (a, b, c)):
            ar = abs((b[0] - a[0]) * (c[1] - a[1]) - (c[0] - a[0]) * (b[1] - a[1]))
            if best is None or ar > best[0]:
                best = (ar, g)
    return best[1]


def in_tri(p, a, b, c):
    o = lambda u, v, w: (v[0] - u[0]) * (w[1] - u[1]) - (v[1] - u[1]) * (w[0] - u[0])
    s = [o(a, b, p), o(b, c, p), o(c, a, p)]
    return all(v >= 0 for v in s) or all(v <= 0 for v in s)


def pip(p, poly):
    """point strictly inside polygon (float crossing number)"""
    x, y = p
    inside = False
    n = len(poly)
    for i in range(n):
        x1, y1 = poly[i]
        x2, y2 = poly[(i + 1) % n]
        if (y1 > y) != (y2 > y):
            xi = x1 + (y - y1) * (x2 - x1) / (y2 - y1)
            if x < xi:
                inside = not inside
    return inside


def g17(x):
    return "%.17g" % x


def problem_text(p):
    kind = p["kind"]
    L = []
    if kind == "m":
        L += ["[Format]      =  4.0", "[Frequency]   =  0"]
    else:
        L += ["[Format]      =  1"]
    L += ["[Precision]   =  1e-008", "[MinAngle]    =  30", "[Depth]       =  1",
          "[LengthUnits] =  " + p["units"], "[ProblemType] =  " + ("axisymmetric" if p["axi"] else "planar"),
          "[Coordinates] =  cartesian"]
    if kind == "m":
        L += ["[ACSolver]    =  0", '[PrevSoln]    = ""', "[PrevType]    =  0"]
    if kind == "h":
        L += ['[PrevSoln] = ""', "[dT] = 0"]
    L += ['[Comment]     =  "C12 generated"', "[DoSmartMesh] = 0", "[PointProps]   = 0", "[BdryProps]   = 2"]
    for name, v in (("hi", p["vals"][0]), ("lo", p["vals"][1])):
        L += ["  <BeginBdry>", '    <BdryName> = "%s"' % name, "    <BdryType> = 0"]
        if kind == "e":
            L += ["    <Vs> = " + g17(v), "    <qs> = 0", "    <c0> = 0", "    <c1> = 0"]
        elif kind == "h":
            L += ["    <Tset> = " + g17(300 + 10 * v), "    <qs> = 0", "    <beta> = 0", "    <h> = 0", "    <Tinf> = 0"]
        else:
            L += ["    <A_0> = " + g17(v * 1e-3), "    <A_1> = 0", "    <A_2> = 0", "    <Phi> = 0", "    <c0> = 0", "    <c0i> = 0",
                  "    <c1> = 0", "    <c1i> = 0", "    <Mu_ssd> = 0", "    <Sigma_ssd> = 0", "    <innerangle> = 0", "    <outerangle> = 0"]
        L += ["  <EndBdry>"]
    L += ["[BlockProps]  = %d" % len(p["mats"])]
    for b, (mx, my) in enumerate(p["mats"]):
        L += ["  <BeginBlock>", '    <BlockName> = "m%d"' % b]
        if kind == "e":
            L += ["    <ex> = " + g17(mx), "    <ey> = " + g17(my), "    <qv> = 0"]
        elif kind == "h":
            L += ["    <Kx> = " + g17(mx), "    <Ky> = " + g17(my), "    <Kt> = 0", "    <qv> = 0"]
        else:
            L += ["    <Mu_x> = " + g17(mx), "    <Mu_y> = " + g17(my), "    <H_c> = 0", "    <H_cAngle> = 0", "    <J_re> = 0",
                  "    <J_im> = 0", "    <Sigma> = 0", "    <d_lam> = 0", "    <Phi_h> = 0", "    <Phi_hx> = 0", "    <Phi_hy> = 0",
                  "    <LamType> = 0", "    <LamFill> = 1", "    <NStrands> = 0", "    <WireD> = 0", "    <BHPoints> = 0"]
        L += ["  <EndBlock>"]
    L += ["[CircuitProps]  = 0" if kind == "m" else "[ConductorProps]  = 0"]
    L += ["[NumPoints] = %d" % len(p["pts"])]
    for (x, y) in p["pts"]:
        L += ["%s\t%s\t0\t0" % (g17(x), g17(y)) + ("" if kind == "m" else "\t0")]
    L += ["[NumSegments] = %d" % len(p["segs"])]
    for (a, b, bd) in p["segs"]:
        L += ["%d\t%d\t-1\t%d\t0\t0" % (a, b, bd) + ("" if kind == "m" else "\t0")]
    L += ["[NumArcSegments] = 0", "[NumHoles] = 0", "[NumBlockLabels] = %d" % len(p["labels"])]
    for ((x, y), b) in p["labels"]:
        if kind == "m":
            L += ["%s\t%s\t%d\t%s\t0\t0\t0\t1\t0" % (g17(x), g17(y), b + 1, g17(p["msize"]))]
        else:
            L += ["%s\t%s\t%d\t%s\t0\t0" % (g17(x), g17(y), b + 1, g17(p["msize"]))]
    return "\n".join(L) + "\n"


def solve(ctx, p, name):
    """Write the problem, run the snapshot's fmesher and solver; returns the solution path."""
    tool, ext, sext = SOLVER[p["kind"]]
    d = os.path.join(ctx.work, name)
    os.makedirs(d, exist_ok=True)
    pf = os.path.join(d, name + ext)
    open(pf, "w").write(problem_text(p))
    rc, out, err = vlib.sh([ctx.snap.tool("fmesher"), pf], cwd=d, timeout=120)
    if rc != 0 or not os.path.exists(os.path.join(d, name + ".ele")):
        raise RuntimeError("fmesher failed on generated problem %s: rc=%d %s" % (name, rc, (out + err)[-400:]))
    rc, out, err = vlib.sh([ctx.snap.tool(tool), os.path.join(d, name)], cwd=d, timeout=300)
    sol = os.path.join(d, name + sext)
    if rc != 0 or not os.path.exists(sol):
        raise RuntimeError("%s failed on generated problem %s: rc=%d %s" % (tool, name, rc, (out + err)[-400:]))
    return sol


# ------------------------------------------------------------------------- harness ----
def run_harness(ctx, kind, sol, cmds):
    """cmds: list of ('q', x, y) / ('t', x, y, i).  Returns (rc, mesh dict, results, stderr)."""
    exe = vlib.build_harness(ctx.snap, "h_locate", libs=("epproc", "hpproc", "fpproc", "femm"))
    txt = []
    for c in cmds:
        if c[0] == "q":
            txt.append("q %s %s" % (float(c[1]).hex(), float(c[2]).hex()))
        else:
            txt.append("t %s %s %d" % (float(c[1]).hex(), float(c[2]).hex(), c[3]))
    rc, out, err = vlib.sh([exe, kind, sol], inp="\n".join(txt) + "\n", timeout=600)
    M = dict(nodes=[], elems=[], labels=[], mats=[], kind=kind)
    res = []
    done = False
    for line in out.split("\n"):
        t = line.split()
        if not t:
            continue
        if t[0] == "P" and len(t) == 5:
            M["lc"], M["eo"], M["ptype"] = float(t[1]), float(t[2]), int(t[3])
        elif t[0] == "n" and len(t) == 4 and not done:
            M["nodes"].append(tuple(float(v) for v in t[1:]))
        elif t[0] == "e" and len(t) == 11 and not done:
            M["elems"].append(tuple(int(v) for v in t[1:6]) + tuple(float(v) for v in t[6:]))
        elif t[0] == "l" and len(t) == 5 and not done:
            M["labels"].append((float(t[1]), float(t[2]), int(t[3]), int(t[4])))
        elif t[0] == "m" and len(t) == 3 and not done:
            M["mats"].append((float(t[1]), float(t[2])))
        elif t[0] == "D" and len(t) == 1:
            done = True
        elif t[0] == "r" and done:
            res.append((int(t[1]),) + tuple(float(v) for v in t[2:]))
        elif t[0] == "t" and done and len(t) == 2:
            res.append(int(t[1]))
    M["ok"] = done
    return rc, M, res, err


# ---------------------------------------------------------------------- model side ----
TESTFN = {"e": "test_ord FA", "h": "test_hp FA", "m": "test_ord FA"}


def coq_mesh_def(name, M):
    f = vlib.fhex
    nodes = "; ".join("mkNode %s %s %s" % (f(x), f(y), f(v)) for (x, y, v) in M["nodes"])
    rel = "; ".join("mkRelem %d %d %d %d" % (e[0], e[1], e[2], e[3]) for e in M["elems"])
    labs = "; ".join("mkLabel %s %s %d" % (f(l[0]), f(l[1]), l[2]) for l in M["labels"])
    mats = "; ".join("mkMat %s %s" % (f(a), f(b)) for (a, b) in M["mats"])
    return "Definition %s := load FA [%s] [%s] [%s] [%s] %s %s.\n" % (name, nodes, rel, labs, mats, f(M["lc"]), f(M["eo"]))


def coq_points(pts):
    return "[%s]" % "; ".join("(%s, %s)" % (vlib.fhex(x), vlib.fhex(y)) for (x, y) in pts)


def model_exprs(name, M, queries, tests):
    t = TESTFN[M["kind"]]
    k0 = "(label_queries FA (%s) %s 0%%Z (labels %s))" % (t, name, name)
    ex = ["map dump_elem (elems %s)" % name,
          k0,
          "map (flat_result FA) (queries FA (%s) %s %s %s)" % (t, name, k0, coq_points(queries))]
    if tests:
        ex.append("[%s]" % "; ".join("%s %s %s %s %d%%Z" % (t, name, vlib.fhex(x), vlib.fhex(y), i) for (x, y, i) in tests))
    return ex
