"""XPV — point values of the post-processors beyond what Locate.v models (extension of C12).
Model: coq/theories/PointVals.v (on top of IntegralsE/H/M.v and KT.v); theorems: Properties_C12_pointvalues.v (proofs in
PointValsProofs.v).
Correspondence: generated problems (C05's planar magnetics generator, static and time-harmonic; XAXI's axisymmetric
magnetics generator incl. exterior region, wire-type blocks, magnets; axisymmetric electrostatic / heat problems with an
exterior region and T-k tables) are meshed and solved by the real femmcli; the solution is opened by the REAL FPProc /
ElectrostaticsPostProcessor / HPProc (harness/h_pv.cpp), everything they hold is dumped, a seeded query sequence
(interior points, nodes, points of shared edges asked from BOTH adjacent elements, centroids, points on the axis) is
answered by the real InTriangle + getPointValues, and every returned number is compared bit for bit with the float
reading of the model evaluated on the dumped data (libm values - exp in H_c e^{j theta}, tanh/sqrt in mu_fd, the wire
models in o / mu - are inputs taken from the implementation).
Oracle on the implementation's outputs, independent of the Coq model (plain Python): potential = nodal value at
nodes, = linear interpolant inside (planar) / = the P2 interpolant written in barycentric shape functions
(axisymmetric), continuous across shared edges; B = curl of the interpolant (planar); H = B / (mu mu0) with mu rebuilt
from the PROBLEM FILE's material of the block (lamination formulas, exterior-region factor); energy density = B.H/2
(linear, no magnet, no wire, interior region); harmonic: w = Re(H.B*)/4, Ph = pi f Im(H.B*), Je = -j w sigma A,
Pe = |Js+Je|^2/(2 sigma); electrostatics / heat: D = eo e E resp. F = K G with the returned e / K, e resp. K scaled by
the exterior-region factor at the point."""
import os, math, json, time
import vlib, femgen
from props import xint, c05_gen, xaxi

LEVEL = "proof"
COQ_MODULES = ["PointVals"]
ASSUMPTIONS = [
    "theorems are about the real-number reading of the point-value model; rounding is not bounded",
    "modelled: FPProc::GetPointValues for Frequency = 0 and != 0, planar and axisymmetric (quadratic interpolation of the stored flux "
    "2 pi r A), LINEAR materials (BHpoints = 0) with lamination types 0-2 and wire types 3-6, exterior region (AECF), circuits "
    "(voltage-gradient and current-density cases), permanent magnets with d_ShiftH = true; ElectrostaticsPostProcessor / HPProc "
    "getPointValues with the exterior-region factor at the point and temperature-dependent conductivity; smoothing OFF",
    "not modelled: BH curves, incremental / frozen-permeability problems, d_ShiftH = false, smoothing ON (GetNodalB / getNodalD), "
    "point location (Locate.v / C12 proper: the element index found by the real InTriangle is an input of the point-value model)",
    "the file reader and the load-time derived data are not modelled: the model starts from what the post-processor holds after "
    "OpenDocument (dumped by the harness), incl. the libm-dependent mu_fdx / mu_fdy, o, mu, FillFactor and H_c e^{j theta}",
    "a CMPointVals object is freshly constructed for every query (the harmonic branch does not reset u.Je for wound regions)",
    "the model is hand-written; its tie to fpproc.cpp / epproc.cpp / hpproc.cpp / CMaterialProp.cpp is the correspondence run here "
    "plus the source anchors checked by regen",
]
HEADER = ("From Coq Require Import ZArith List Floats. Import ListNotations. "
          "From XF Require Import Arith Sparse AsmE KT Integrals IntegralsE IntegralsH IntegralsM PointVals.")
EXE = {}
WIREFIX = {"value": "false"}

ANCHORS = [
    ("fpproc/fpproc.cpp", "u.A.re += meshnode[n[i]].A.re * (a[i] + b[i] * x + c[i] * y) / (da);"),
    ("fpproc/fpproc.cpp", "v[1]=(R[1]*(3.*v[0] + v[2]) + R[0]*(v[0] + 3.*v[2]))/"),
    ("fpproc/fpproc.cpp", "p=(b[1]*x+c[1]*y + a[1])/da;"),
    ("fpproc/fpproc.cpp", "u.A.re = v[0] - p*(3.*v[0] - 4.*v[1] + v[2]) +"),
    ("fpproc/fpproc.cpp", "4.*p*q*(v[0] - v[1] + v[3] - v[5]);"),
    ("fpproc/fpproc.cpp", "GetMu(u.B1.re, u.B2.re, u.mu1.re, u.mu2.re, k);"),
    ("fpproc/fpproc.cpp", "u.H1 = u.B1 / (Re(u.mu1)*muo);"),
    ("fpproc/fpproc.cpp", "u.Js=blockproplist[meshelem[k].blk].J.re;"),
    ("fpproc/fpproc.cpp", "u.Js-=Re(blocklist[meshelem[k].lbl].o)*"),
    ("fpproc/fpproc.cpp", "ravg+=(1./R[tn])*(a[tn]+b[tn]*x+c[tn]*y)/(da);"),
    ("fpproc/fpproc.cpp", "if (R[tn]<1.e-6) R[tn]=ravg;"),
    ("fpproc/fpproc.cpp", "u.c=Re(blocklist[meshelem[k].lbl].o);"),
    ("fpproc/fpproc.cpp", "u.E=blockproplist[meshelem[k].blk].DoEnergy(u.B1.re,u.B2.re);"),
    ("fpproc/fpproc.cpp", "u.E = 0.5*muo*(u.mu1.re*u.H1.re*u.H1.re + u.mu2.re*u.H2.re*u.H2.re);"),
    ("fpproc/fpproc.cpp", "J=u.Js*1.e6;"),
    ("fpproc/fpproc.cpp", "u.A+=meshnode[n[i]].A*(a[i]+b[i]*x+c[i]*y)/(da);"),
    ("fpproc/fpproc.cpp", "GetMu(u.B1,u.B2,u.mu1,u.mu2,k);"),
    ("fpproc/fpproc.cpp", "u.H1 = u.B1/(u.mu1*muo);"),
    ("fpproc/fpproc.cpp", "u.Js-=blocklist[meshelem[k].lbl].o*blocklist[lbl].dVolts;"),
    ("fpproc/fpproc.cpp", "u.c=1./Re(1./(blocklist[meshelem[k].lbl].o));"),
    ("fpproc/fpproc.cpp", "if (blockproplist[meshelem[k].blk].Lam_d!=0) u.c=0;"),
    ("fpproc/fpproc.cpp", "u.Je=-I*Frequency*2.*PI*u.c*u.A;"),
    ("fpproc/fpproc.cpp", "u.Je/=(2.*PI*x*LengthConv[LengthUnits]);"),
    ("fpproc/fpproc.cpp", "z=(u.H1*u.B1.Conj()) + (u.H2*u.B2.Conj());"),
    ("fpproc/fpproc.cpp", "u.E=0.25*z.re;"),
    ("fpproc/fpproc.cpp", "u.E += Re(J*conj(J))*(Im(1./blocklist[meshelem[k].lbl].o)/(2.e6*PI*Frequency))/4.;"),
    ("fpproc/fpproc.cpp", "u.Ph=Frequency*PI*z.im;"),
    ("fpproc/fpproc.cpp", "u.Pe=1.e06*(z.re*z.re + z.im*z.im)/(u.c*2.);"),
    ("fpproc/fpproc.cpp", "mu1=blocklist[meshelem[i].lbl].mu;"),
    ("fpproc/fpproc.cpp", "B1=elm.B1;"),
    ("fpproc/fpproc.cpp", "return (r*r*extRi)/(extRo*extRo*extRo);"),
    ("fpproc/fpproc.cpp", "d_ShiftH = true;"),
    ("libfemm/CMaterialProp.cpp", "mu1=((1.+LamFill*(mu_x-1.))*muo);"),
    ("libfemm/CMaterialProp.cpp", "mu2=1./(LamFill/(mu_y*muo) + (1. - LamFill)/muo);"),
    ("libfemm/CMaterialProp.cpp", "mu1=1./(LamFill/(mu_x*muo) + (1. - LamFill)/muo);"),
    ("libfemm/CMaterialProp.cpp", "mu1=mu_fdx;"),
    ("libfemm/CMaterialProp.cpp", "mu1 /= muo;"),
    ("libfemm/PostProcessor.cpp", "double r=abs(p-I*problem->extZo);"),
    ("libfemm/PostProcessor.cpp", "if (r==0) return AECF(elem);"),
    ("libfemm/PostProcessor.cpp", "return (r*r)/(problem->extRo*problem->extRi);"),
    ("libfemm/PostProcessor.cpp", "if(!Smooth){ D=elm.D; return; }"),
    ("epproc/epproc.cpp", "u.e=prop->ex + I*prop->ey;"),
    ("epproc/epproc.cpp", "u.e/=AECF(elem,x+I*y);"),
    ("epproc/epproc.cpp", "u.V+=getMeshNode(n[i])->V*(a[i]+b[i]*x+c[i]*y)/(da);"),
    ("epproc/epproc.cpp", "u.E.re = u.D.re/(u.e.re*eo);"),
    ("epproc/epproc.cpp", "u.nrg=Re(u.D*conj(u.E))/2.;"),
    ("hpproc/hpproc.cpp", "u.T+=getMeshNode(n[i])->T*(a[i]+b[i]*x+c[i]*y)/(da);"),
    ("hpproc/hpproc.cpp", "u.K=mat->GetK(u.T);"),
    ("hpproc/hpproc.cpp", "u.K/=AECF(elem,x+I*y);"),
    ("hpproc/hpproc.cpp", "u.G.re = u.F.re/(u.K.re);"),
]


def regen(ctx):
    """no generated Coq text: checks that the statements the model transcribes are still in the sources and reads the
    two source variants the model is parametrised by (DoEnergy's lamination lines: xint; the element whose label the
    static wire-energy term reads)"""
    cache = {}
    sq = xint.squeeze
    missing = None
    for f, snip in ANCHORS:
        if f not in cache:
            cache[f] = sq(open(os.path.join(ctx.snap.src, f), errors="replace").read())
        if sq(snip) not in cache[f] and not missing:
            missing = "%s no longer contains `%s`: the point-value model (PointVals.v) transcribes it" % (f, snip)
    # the source variants first (the correspondence still runs when an anchor is gone, and must use the right variants)
    try:
        xint.regen(ctx)                   # sets xint.LAMFIX (and checks IntegralsM's anchors: im_B, im_aecf, im_do_energy are reused)
    except vlib.TranslateError as e:
        missing = missing or str(e)
    src = cache["fpproc/fpproc.cpp"]
    asis = sq("u.E+=Re(J*J)*Im(blocklist[meshelem[i].lbl].o)/2.;") in src
    fixed = sq("u.E+=Re(J*J)*Im(blocklist[meshelem[k].lbl].o)/2.;") in src
    if asis and not fixed:
        WIREFIX["value"] = "false"
    elif fixed and not asis:
        WIREFIX["value"] = "true"
    else:
        raise vlib.TranslateError("fpproc.cpp GetPointValues: the static local-energy line of wire regions matches neither "
                                  "`...blocklist[meshelem[i].lbl].o...` (as shipped) nor `...meshelem[k]...`")
    # the Hc / ff resets come before the frequency branches; the static loops leave i == 3
    i0 = src.find(sq("bool FPProc::GetPointValues(double x, double y, int k, CMPointVals &u)"))
    i1 = src.find(sq("if (Frequency==0)"), i0)
    if not (0 <= i0 < i1 and sq("u.Hc=0;") in src[i0:i1] and sq("u.ff=blocklist[meshelem[k].lbl].FillFactor;") in src[i0:i1]):
        raise vlib.TranslateError("fpproc.cpp GetPointValues: u.Hc=0 / u.ff=... are no longer set before the frequency branches")
    if missing:
        raise vlib.TranslateError(missing)


# --------------------------------------------------------------------------- harness ----
def harness(ctx):
    if "exe" not in EXE:
        EXE["exe"] = vlib.build_harness(ctx.snap, "h_pv", libs=("epproc", "hpproc", "fpproc", "femm"))
    return EXE["exe"]


def hx(v):
    return float(v).hex()


def run_harness(ctx, kind, sol, cmds):
    rc, out, err = vlib.sh([harness(ctx), {"fee": "e", "feh": "h", "fem": "m"}[kind], sol], inp="\n".join(cmds) + "\n", timeout=300)
    d = dict(nodes=[], elems=[], labels=[], mats=[], circs=[], res=[], nodal=[], ok=False)
    for line in out.split("\n"):
        t = line.split()
        if not t:
            continue
        k = t[0]
        try:
            if k == "O":
                d["ok"] = t[1] == "1"
            elif k == "P":
                d["P"] = [float(x) for x in t[1:]]
            elif k == "n":
                d["nodes"].append([float(x) for x in t[1:]])
            elif k == "e":
                d["elems"].append([int(x) for x in t[1:6]] + [float(x) for x in t[6:]])
            elif k == "l":
                d["labels"].append([float(x) for x in t[1:]])
            elif k == "m":
                d["mats"].append([float(x) for x in t[1:]])
            elif k == "c" and len(t) > 1:
                d["circs"].append([float(x) for x in t[1:]])
            elif k == "r":
                d["res"].append((int(t[1]), [float(x) for x in t[2:]]))
            elif k == "b":
                d["nodal"].append((int(t[1]), [float(x) for x in t[2:]]))
        except ValueError:
            continue
    if rc != 0 or not d["ok"] or "P" not in d:
        return None, "h_pv failed (rc=%d): %s" % (rc, (out[-300:] + err[-300:]))
    return d, None


# ------------------------------------------------------------------------- to Coq ----
def compact(d, ks):
    """The point-value model reads, of the mesh, only the queried elements, their three nodes and (magnetics, static wire
    term as shipped) element 3: hand the model a mesh that holds elements 0..3 at their places followed by the queried ones,
    with the nodes renumbered (labels / materials / everything else unchanged).  Returns (d', element index map, kept elements)."""
    kept = [i for i in range(min(4, len(d["elems"])))]
    for k in ks:
        if k not in kept:
            kept.append(k)
    kmap = {k: i for i, k in enumerate(kept)}
    nmap = {}
    nodes, elems = [], []
    for k in kept:
        e = list(d["elems"][k])
        for j in range(3):
            if e[j] not in nmap:
                nmap[e[j]] = len(nodes)
                nodes.append(d["nodes"][e[j]])
            e[j] = nmap[e[j]]
        elems.append(e)
    d2 = dict(d)
    d2["nodes"], d2["elems"] = nodes, elems
    return d2, kmap, kept


def cpx(re, im):
    f = vlib.fhexs
    return "(%s, %s)" % (f(re), f(im))


def m_prob_coq(d, depth_file):
    f = vlib.fhexs
    axi, lc, depth, zo, ro, ri, mu0 = d["P"][:7]
    freq = d["P"][8]
    nodes = "; ".join("mkIMNode %s %s %s" % (f(n[0]), f(n[1]), cpx(n[2], n[3])) for n in d["nodes"])
    elems = "; ".join("mkIMElem (%d, %d, %d) %d %d %s" % (e[0], e[1], e[2], e[3], e[4], cpx(e[11], e[12])) for e in d["elems"])
    labels = "; ".join("mkIMLabel %s %d %s %s %s %s %s" % (("(Some %d)" % int(l[5])) if l[5] >= 0 else "None", int(l[6]), cpx(l[7], l[8]),
                                                        cpx(l[9], l[10]), f(l[11]), "true" if l[3] else "false", cpx(l[12], l[13]))
                       for l in d["labels"])
    mats = "; ".join("mkIMMat %s %s %s %s %s %s %d %s" % (f(m[0]), f(m[1]), f(m[2]), cpx(m[3], m[4]), f(m[5]), f(m[6]), int(m[7]), f(m[8]))
                     for m in d["mats"])
    amps = "; ".join(cpx(c[0], c[1]) for c in d["circs"])
    P = "(mkIMProb %s %s %s %s %s %s %s [%s] [%s] [%s] [%s] [%s] %s)" % ("true" if axi else "false", f(lc), f(depth_file), f(zo), f(ro), f(ri),
                                                                     f(mu0), nodes, elems, labels, mats, amps, xint.LAMFIX["value"])
    mufd = "; ".join("(%s, %s)" % (cpx(m[10], m[11]), cpx(m[12], m[13])) for m in d["mats"])
    lmu = "; ".join(cpx(l[15], l[16]) for l in d["labels"])
    return "(mkPMProb %s %s [%s] [%s] %s)" % (P, f(freq), mufd, lmu, WIREFIX["value"])


def m_to_coq(d, depth_file, Q):
    qs = "; ".join("(%d, %s, %s)" % (k, vlib.fhexs(x), vlib.fhexs(y)) for (k, x, y) in Q)
    return ("let Q := %s in (map (fun q => match q with (k, x, y) => mpv_list (pm_point FA Q k x y) end) [%s], "
            "map (fun el => im_aecf FA (pm_P Q) el) (im_elems (pm_P Q)))" % (m_prob_coq(d, depth_file), qs))


def e_prob_coq(d, depth_file):
    f = vlib.fhexs
    axi, lc, depth, zo, ro, ri, eo = d["P"][:7]
    nodes = "; ".join("mkIENode %s %s %s (%d)%%Z" % (f(n[0]), f(n[1]), f(n[2]), int(n[3])) for n in d["nodes"])
    elems = "; ".join("mkIEElem (%d, %d, %d) %d %d" % tuple(e[:5]) for e in d["elems"])
    ext = xint.blist([l[3] for l in d["labels"]])
    mats = "; ".join("(%s, %s)" % (f(m[0]), f(m[1])) for m in d["mats"])
    return "(mkIEProb %s %s %s %s %s %s %s [%s] [%s] %s [%s])" % ("true" if axi else "false", f(lc), f(depth_file), f(zo), f(ro), f(ri),
                                                              f(eo), nodes, elems, ext, mats)


def h_prob_coq(d, depth_file):
    f = vlib.fhexs
    axi, lc, depth, zo, ro, ri = d["P"][:6]
    nodes = "; ".join("mkIENode %s %s %s (%d)%%Z" % (f(n[0]), f(n[1]), f(n[2]), int(n[3])) for n in d["nodes"])
    elems = "; ".join("mkIEElem (%d, %d, %d) %d %d" % tuple(e[:5]) for e in d["elems"])
    ext = xint.blist([l[3] for l in d["labels"]])
    mats = "; ".join("mkIHMat %s %s [%s]" % (f(m[0]), f(m[1]), "; ".join("(%s, %s)" % (f(m[3 + 2 * i]), f(m[4 + 2 * i])) for i in range(int(m[2]))))
                     for m in d["mats"])
    return "(mkIHProb %s %s %s %s %s %s [%s] [%s] %s [%s])" % ("true" if axi else "false", f(lc), f(depth_file), f(zo), f(ro), f(ri),
                                                           nodes, elems, ext, mats)


def s_to_coq(kind, d, depth_file, Q):
    qs = "; ".join("(%d, %s, %s)" % (k, vlib.fhexs(x), vlib.fhexs(y)) for (k, x, y) in Q)
    if kind == "fee":
        return "let P := %s in map (fun q => match q with (k, x, y) => pe_point FA P k x y end) [%s]" % (e_prob_coq(d, depth_file), qs)
    return "let P := %s in map (fun q => match q with (k, x, y) => ph_point FA P k x y end) [%s]" % (h_prob_coq(d, depth_file), qs)


# ------------------------------------------------------------------------- queries ----
def mesh_edges(d):
    ed = {}
    for ei, e in enumerate(d["elems"]):
        for a, b in ((e[0], e[1]), (e[1], e[2]), (e[2], e[0])):
            ed.setdefault((min(a, b), max(a, b)), []).append(ei)
    return ed


def gen_queries(rng, d, budget):
    """list of dicts: cmd ('q' located by the real InTriangle | 'Q' element given), x, y, cat, extra"""
    N, E = d["nodes"], d["elems"]
    ed = mesh_edges(d)
    inner = sorted(k for k, v in ed.items() if len(v) == 2)
    node_el = {}
    for ei, e in enumerate(E):
        for j in range(3):
            node_el.setdefault(e[j], []).append(ei)
    Q = []
    for _ in range(max(3, budget * 3 // 10)):
        ei = rng.randrange(len(E))
        l = [rng.random() + 1e-3 for _ in range(3)]
        s = sum(l)
        l = [v / s for v in l]
        p = [N[E[ei][j]] for j in range(3)]
        Q.append(dict(cmd="q", x=l[0] * p[0][0] + l[1] * p[1][0] + l[2] * p[2][0], y=l[0] * p[0][1] + l[1] * p[1][1] + l[2] * p[2][1],
                      cat="interior", elem=ei))
    for _ in range(max(2, budget // 10)):
        ei = rng.randrange(len(E))
        Q.append(dict(cmd="Q", x=E[ei][5], y=E[ei][6], cat="centroid", elem=ei, k=ei))
    for _ in range(max(3, budget * 2 // 10)):
        ni = rng.randrange(len(N))
        # the node asked from every element around it
        els = node_el.get(ni, [])
        for ei in (els if len(els) <= 3 else rng.sample(els, 3)):
            Q.append(dict(cmd="Q", x=N[ni][0], y=N[ni][1], cat="vertex", node=ni, k=ei))
    for _ in range(max(3, budget * 2 // 10)):
        if not inner:
            break
        a, b = rng.choice(inner)
        t = rng.choice([0.5, 0.25, rng.random(), rng.random()])
        x = N[a][0] + t * (N[b][0] - N[a][0]); y = N[a][1] + t * (N[b][1] - N[a][1])
        grp = len(Q)
        for ei in ed[(a, b)]:
            Q.append(dict(cmd="Q", x=x, y=y, cat="edge", a=a, b=b, t=t, k=ei, grp=grp))
    if d["P"][0]:
        # points on the axis r = 0 (the x != 0 test of the eddy-current density, R < 1e-6 branches)
        ax = [i for i, n in enumerate(N) if n[0] == 0.0]
        for ni in ax[:4]:
            for ei in node_el.get(ni, [])[:2]:
                Q.append(dict(cmd="Q", x=0.0, y=N[ni][1], cat="axis", node=ni, k=ei))
    for _ in range(max(2, budget // 10)):
        Q.append(dict(cmd="q", x=rng.uniform(min(n[0] for n in N), max(n[0] for n in N)),
                      y=rng.uniform(min(n[1] for n in N), max(n[1] for n in N)), cat="bbox"))
    rng.shuffle(Q)
    return Q


def commands(Q):
    out = []
    for q in Q:
        if q["cmd"] == "q":
            out.append("q %s %s" % (hx(q["x"]), hx(q["y"])))
        else:
            out.append("Q %s %s %d" % (hx(q["x"]), hx(q["y"]), q["k"]))
    return out


# --------------------------------------------------------------------------- oracle ----
def bary(d, ei, x, y):
    N = d["nodes"]; e = d["elems"][ei]
    (x0, y0), (x1, y1), (x2, y2) = [(N[e[j]][0], N[e[j]][1]) for j in range(3)]
    det = (x1 - x0) * (y2 - y0) - (x2 - x0) * (y1 - y0)
    l1 = ((x - x0) * (y2 - y0) - (x2 - x0) * (y - y0)) / det
    l2 = ((x1 - x0) * (y - y0) - (x - x0) * (y1 - y0)) / det
    return 1 - l1 - l2, l1, l2


def mid_py(Ra, Rb, va, vb):
    if Ra < 1e-6 and Rb < 1e-6:
        return (va + vb) / 2
    return (Rb * (3 * va + vb) + Ra * (va + 3 * vb)) / (4 * (Ra + Rb))


def potential_ref(d, ei, x, y, axi):
    """independent evaluation of the potential: barycentric P1 / P2 shape functions"""
    N = d["nodes"]; e = d["elems"][ei]
    v = [complex(N[e[j]][2], N[e[j]][3]) for j in range(3)]
    L = bary(d, ei, x, y)
    if not axi:
        return sum(v[j] * L[j] for j in range(3)), sum(abs(v[j] * L[j]) for j in range(3))
    R = [N[e[j]][0] for j in range(3)]
    m01 = mid_py(R[0], R[1], v[0], v[1]); m12 = mid_py(R[1], R[2], v[1], v[2]); m20 = mid_py(R[2], R[0], v[2], v[0])
    terms = [v[j] * L[j] * (2 * L[j] - 1) for j in range(3)] + [4 * m01 * L[0] * L[1], 4 * m12 * L[1] * L[2], 4 * m20 * L[2] * L[0]]
    return sum(terms), sum(abs(t) for t in terms)


def mu_from_file(bp, mu0):
    """relative permeabilities of a linear block as CMMaterialProp::GetMu(double) defines them, from the PROBLEM FILE's block"""
    lt = int(bp.get("lamtype", 0)); t = bp.get("lamfill", 1.0)
    mx, my = bp.get("mu_x", 1.0), bp.get("mu_y", 1.0)
    if lt == 0:
        return 1 + t * (mx - 1), 1 + t * (my - 1)
    if lt == 1:
        return 1 + t * (mx - 1), 1 / (t / my + (1 - t))
    if lt == 2:
        return 1 / (t / mx + (1 - t)), 1 + t * (my - 1)
    return 1.0, 1.0


def rel(a, b, tol, floor=0.0):
    return abs(a - b) <= tol * max(abs(a), abs(b)) + floor


def oracle_m(ctx, p, d, Q, R, stats, notes):
    axi, lc, depth, zo, ro, ri, mu0 = d["P"][:7]
    freq = d["P"][8]
    N, E = d["nodes"], d["elems"]
    vs = max(max(abs(n[2]), abs(n[3])) for n in N) or 1.0
    groups = {}
    for q, (k, v) in zip(Q, R):
        if k < 0:
            continue
        if k >= len(E) or len(v) != 25:
            ctx.fail("fpproc: malformed answer (element %d, %d values)" % (k, len(v)), problem=p); return
        x, y = q["x"], q["y"]
        Aret = complex(v[0], v[1]); B1 = complex(v[2], v[3]); B2 = complex(v[4], v[5])
        mu1 = complex(v[6], v[7]); mu2 = complex(v[8], v[9]); H1 = complex(v[10], v[11]); H2 = complex(v[12], v[13])
        Je = complex(v[14], v[15]); Js = complex(v[16], v[17]); c, En, Ph, Pe = v[18], v[19], v[20], v[21]
        Hc = complex(v[22], v[23])
        e = E[k]; lab = d["labels"][e[3]]; mat = d["mats"][e[4]]
        fb = p["blockprops"][e[4]]
        where = "element %d at (%s, %s) [%s]" % (k, hx(x), hx(y), q["cat"])
        # ---- potential
        Aref, scale = potential_ref(d, k, x, y, axi)
        tolA = 1e-9 * scale + 1e-13 * vs
        if abs(Aret - Aref) > tolA:
            ctx.fail("fpproc: potential %r differs from the %s interpolant %r of the corner values, %s" % (Aret, "quadratic (2 pi r A)" if axi else "linear", Aref, where),
                     problem=p, query=[hx(x), hx(y), k]); return
        if q["cat"] in ("vertex", "axis"):
            nv = complex(N[q["node"]][2], N[q["node"]][3])
            if abs(Aret - nv) > tolA:
                ctx.fail("fpproc: potential at mesh node %d is %r, nodal value %r, %s" % (q["node"], Aret, nv, where), problem=p, query=[hx(x), hx(y), k]); return
        if q["cat"] == "edge":
            g = groups.setdefault(q["grp"], [])
            g.append((k, Aret, tolA))
        stats["A"] += 1
        # ---- B = curl of the interpolant (planar)
        if not axi:
            (x0, y0), (x1, y1), (x2, y2) = [(N[e[j]][0], N[e[j]][1]) for j in range(3)]
            vv = [complex(N[e[j]][2], N[e[j]][3]) for j in range(3)]
            det = (x1 - x0) * (y2 - y0) - (x2 - x0) * (y1 - y0)
            gx = (vv[0] * (y1 - y2) + vv[1] * (y2 - y0) + vv[2] * (y0 - y1)) / det
            gy = (vv[0] * (x2 - x1) + vv[1] * (x0 - x2) + vv[2] * (x1 - x0)) / det
            sg = (abs(vv[0] * (y1 - y2)) + abs(vv[1] * (y2 - y0)) + abs(vv[2] * (y0 - y1)) + abs(vv[0] * (x2 - x1)) + abs(vv[1] * (x0 - x2)) + abs(vv[2] * (x1 - x0))) / abs(det) / lc
            if abs(B1 - gy / lc) > 1e-9 * sg + 1e-300 or abs(B2 + gx / lc) > 1e-9 * sg + 1e-300:
                ctx.fail("fpproc: B=(%r,%r) is not the curl (%r,%r) of the interpolant, %s" % (B1, B2, gy / lc, -gx / lc, where), problem=p, query=[hx(x), hx(y), k]); return
            stats["B"] += 1
        # ---- material of the block containing the point, H = B/(mu mu0)
        aecf = e[13]
        wire = int(mat[7]) > 2
        if freq == 0:
            m1, m2 = mu_from_file(fb, mu0)
            if not (rel(mu1.real * aecf, m1, 1e-12) and rel(mu2.real * aecf, m2, 1e-12) and mu1.imag == 0 and mu2.imag == 0):
                ctx.fail("fpproc: permeability (%r,%r) x AECF %r is not that of the block's material in the problem file (%r,%r), %s"
                         % (mu1, mu2, aecf, m1, m2, where), problem=p, query=[hx(x), hx(y), k]); return
        else:
            mf = (complex(lab[15], lab[16]),) * 2 if wire else (complex(mat[10], mat[11]), complex(mat[12], mat[13]))
            if not (rel(mu1 * aecf, mf[0], 1e-12) and rel(mu2 * aecf, mf[1], 1e-12)):
                ctx.fail("fpproc: complex permeability (%r,%r) x AECF is not the block's (%r,%r), %s" % (mu1, mu2, mf[0], mf[1], where), problem=p,
                         query=[hx(x), hx(y), k]); return
            # frequency-dependent permeability of a linear block without on-edge laminations, re-derived from the problem file with
            # the formula of the FEMM manual: mu e^{-j phi}; laminated in plane (d_lam > 0): (mu e^{-j phi} tanh(K)/K) fill + (1 - fill)
            # with K = e^{-j phi/2} (1+j) d / (2 delta), delta = sqrt(2 / (omega sigma mu mu0)) (sigma = 0: tanh(K)/K -> 1), for
            # EACH direction with its own mu and hysteresis angle
            if not wire and int(fb.get("lamtype", 0)) == 0 and not fb.get("bh"):
                import cmath
                def mu_fd(mu, phi):
                    e = mu * cmath.exp(-1j * math.radians(phi))
                    d = fb.get("d_lam", 0.0)
                    if d == 0:
                        return e
                    fill = fb.get("lamfill", 1.0)
                    sig = fb.get("sigma", 0.0)
                    if sig == 0:
                        return e * fill + (1 - fill)
                    delta = math.sqrt(2.0 / (2 * math.pi * freq * sig * 1e6 * mu * mu0))
                    K = cmath.exp(-1j * math.radians(phi) / 2) * (1 + 1j) * d * 1e-3 / (2 * delta)
                    return e * cmath.tanh(K) / K * fill + (1 - fill)
                for nm, got, want in (("mu_fdx", mf[0], mu_fd(fb.get("mu_x", 1.0), fb.get("phi_hx", 0.0))),
                                      ("mu_fdy", mf[1], mu_fd(fb.get("mu_y", 1.0), fb.get("phi_hy", 0.0)))):
                    stats["mu_fd_checked"] = stats.get("mu_fd_checked", 0) + 1
                    if not rel(got, want, 1e-9):
                        ctx.fail("fpproc: %s %r of a linear block (mu %r/%r, d_lam %r, sigma %r, fill %r) is not the frequency-dependent "
                                 "permeability of that direction %r" % (nm, got, fb.get("mu_x"), fb.get("mu_y"), fb.get("d_lam", 0.0),
                                                                        fb.get("sigma", 0.0), fb.get("lamfill", 1.0), want), problem=p); return
        Hs = (Hc.real, Hc.imag) if freq == 0 else (0.0, 0.0)
        ok = True
        for (B, mu, H, hc) in ((B1, mu1, H1, Hs[0]), (B2, mu2, H2, Hs[1])):
            if mu == 0:
                continue
            want = B / (mu * mu0) - hc
            if abs(H - want) > 1e-11 * (abs(B / (mu * mu0)) + abs(hc)) + 1e-300:
                ok = False
        if not ok:
            ctx.fail("fpproc: H=(%r,%r) is not B/(mu mu0) - Hc with the returned mu, %s" % (H1, H2, where), problem=p, query=[hx(x), hx(y), k]); return
        stats["H"] += 1
        # ---- energy density and losses
        if freq == 0:
            if mat[2] == 0 and not wire and (int(mat[7]) == 0 or xint.LAMFIX["value"] == "true"):
                want = (B1.real * H1.real + B2.real * H2.real) / 2 / aecf
                if abs(En - want) > 1e-11 * (abs(B1.real * H1.real) + abs(B2.real * H2.real)) / aecf + 1e-300:
                    ctx.fail("fpproc: energy density %r is not B.H/2 (/AECF) = %r, %s" % (En, want, where), problem=p, query=[hx(x), hx(y), k]); return
                stats["E"] += 1
            if wire and mat[2] == 0:
                base = (B1.real * H1.real + B2.real * H2.real) / 2 / aecf
                own = base + ((Js.real * 1e6) ** 2 - (Js.imag * 1e6) ** 2) * lab[13] / 2
                if abs(En - own) > 1e-9 * (abs(base) + abs(own)) + 1e-300:
                    msg = ("fpproc GetPointValues (static): the energy density %r in a wire region differs from B.H/2 + Re(J^2) Im(o)/2 = %r "
                           "with o of the point's own block label (the code reads blocklist[meshelem[i].lbl] with i == 3), %s" % (En, own, where))
                    if WIREFIX["value"] == "true":
                        ctx.fail(msg, problem=p, query=[hx(x), hx(y), k]); return
                    if len(notes) < 6:
                        notes.append(dict(what="XPV-1 " + msg, features=p["features"], query=[hx(x), hx(y), k]))
                    stats["wire_energy_off"] += 1
                else:
                    stats["wire_energy_ok"] += 1
        else:
            z = H1 * B1.conjugate() + H2 * B2.conjugate()
            w = z.real / 4
            if wire:
                o = complex(lab[12], lab[13])
                J = Js * 1e6
                w += abs(J) ** 2 * ((1 / o).imag / (2e6 * math.pi * freq)) / 4
            if abs(En - w) > 1e-10 * (abs(H1 * B1) + abs(H2 * B2) + abs(w)) + 1e-300:
                ctx.fail("fpproc: time-average energy density %r is not Re(H.B*)/4 (+ wire term) = %r, %s" % (En, w, where), problem=p, query=[hx(x), hx(y), k]); return
            if abs(Ph - freq * math.pi * z.imag) > 1e-10 * freq * math.pi * (abs(H1 * B1) + abs(H2 * B2)) + 1e-300:
                ctx.fail("fpproc: hysteresis loss density %r is not pi f Im(H.B*) = %r, %s" % (Ph, freq * math.pi * z.imag, where), problem=p, query=[hx(x), hx(y), k]); return
            # eddy currents: only in solid regions
            wantJe = 0j
            if lab[11] < 0:
                wantJe = -1j * 2 * math.pi * freq * c * Aret
                if axi:
                    wantJe = wantJe / (2 * math.pi * x * lc) if x != 0 else 0j
            if abs(Je - wantJe) > 1e-10 * abs(wantJe) + 1e-300:
                ctx.fail("fpproc: eddy current density %r is not -j w sigma A%s = %r, %s" % (Je, "/(2 pi r)" if axi else "", wantJe, where), problem=p, query=[hx(x), hx(y), k]); return
            wantPe = 1e6 * abs(Js + Je) ** 2 / (2 * c) if c != 0 else 0.0
            if abs(Pe - wantPe) > 1e-10 * abs(wantPe) + 1e-300:
                ctx.fail("fpproc: ohmic loss density %r is not |Js+Je|^2/(2 sigma) = %r, %s" % (Pe, wantPe, where), problem=p, query=[hx(x), hx(y), k]); return
            stats["E"] += 1
    for grp, g in groups.items():
        if len(g) == 2:
            (k0, a0, t0), (k1, a1, t1) = g
            if abs(a0 - a1) > t0 + t1:
                ctx.fail("fpproc: the potential is discontinuous across the edge shared by elements %d and %d: %r vs %r" % (k0, k1, a0, a1), problem=p); return
            stats["edge_pairs"] += 1


def oracle_s(ctx, kind, p, d, Q, R, stats):
    axi, lc, depth, zo, ro, ri = d["P"][:6]
    eo = d["P"][6] if kind == "fee" else 1.0
    N, E = d["nodes"], d["elems"]
    who = "epproc" if kind == "fee" else "hpproc"
    vs = max(abs(n[2]) for n in N) or 1.0
    groups = {}
    for q, (k, v) in zip(Q, R):
        if k < 0:
            continue
        x, y = q["x"], q["y"]
        e = E[k]
        where = "element %d at (%s, %s) [%s]" % (k, hx(x), hx(y), q["cat"])
        L = bary(d, k, x, y)
        vv = [N[e[j]][2] for j in range(3)]
        ref = sum(a * b for a, b in zip(vv, L)); sc = sum(abs(a * b) for a, b in zip(vv, L))
        tol = 1e-9 * sc + 1e-13 * vs
        if abs(v[0] - ref) > tol:
            ctx.fail("%s: potential %r differs from the linear interpolant %r, %s" % (who, v[0], ref, where), problem=p, query=[hx(x), hx(y), k]); return
        if q["cat"] in ("vertex", "axis") and abs(v[0] - N[q["node"]][2]) > tol:
            ctx.fail("%s: potential at node %d is %r, nodal value %r" % (who, q["node"], v[0], N[q["node"]][2]), problem=p, query=[hx(x), hx(y), k]); return
        if q["cat"] == "edge":
            groups.setdefault(q["grp"], []).append((k, v[0], tol))
        # exterior-region factor at the point
        ext = bool(d["labels"][e[3]][3]) and bool(axi)
        kl = 1.0
        if ext:
            r2 = x * x + (y - zo) ** 2
            kl = r2 / (ro * ri) if r2 != 0 else e[11]
        if ext:
            stats["exterior"] += 1
        if kind == "fee":
            fb = p["blockprops"][e[4]]
            Dx, Dy, Ex, Ey, ex, ey, nrg = v[1:8]
            if not (rel(ex * kl, fb["ex"], 1e-12) and rel(ey * kl, fb["ey"], 1e-12)):
                ctx.fail("epproc: permittivity (%r,%r) x exterior factor %r is not the block's (%r,%r), %s" % (ex, ey, kl, fb["ex"], fb["ey"], where), problem=p,
                         query=[hx(x), hx(y), k]); return
            if not (rel(Dx, eo * ex * Ex, 1e-12, 1e-300) and rel(Dy, eo * ey * Ey, 1e-12, 1e-300)):
                ctx.fail("epproc: D=(%r,%r) is not eo e E with the returned e and E, %s" % (Dx, Dy, where), problem=p, query=[hx(x), hx(y), k]); return
            if not rel(nrg, (Dx * Ex + Dy * Ey) / 2, 1e-12, 1e-300):
                ctx.fail("epproc: nrg=%r is not D.E/2, %s" % (nrg, where), problem=p, query=[hx(x), hx(y), k]); return
            # E against -grad V: exact at interior points, scaled by AECF(p)/AECF(ctr) in the exterior region
            (x0, y0), (x1, y1), (x2, y2) = [(N[e[j]][0], N[e[j]][1]) for j in range(3)]
            det = (x1 - x0) * (y2 - y0) - (x2 - x0) * (y1 - y0)
            gx = (vv[0] * (y1 - y2) + vv[1] * (y2 - y0) + vv[2] * (y0 - y1)) / det / lc
            gy = (vv[0] * (x2 - x1) + vv[1] * (x0 - x2) + vv[2] * (x1 - x0)) / det / lc
            sg = (abs(vv[0] * (y1 - y2)) + abs(vv[1] * (y2 - y0)) + abs(vv[2] * (y0 - y1)) + abs(vv[0] * (x2 - x1)) + abs(vv[1] * (x0 - x2)) + abs(vv[2] * (x1 - x0))) / abs(det) / lc
            f = kl / e[11]
            if abs(Ex + gx * f) > 1e-9 * sg * f + 1e-300 or abs(Ey + gy * f) > 1e-9 * sg * f + 1e-300:
                ctx.fail("epproc: E=(%r,%r) is not -grad V x AECF(p)/AECF(centroid) = (%r,%r), %s" % (Ex, Ey, -gx * f, -gy * f, where), problem=p,
                         query=[hx(x), hx(y), k]); return
            stats["field"] += 1
        else:
            Fx, Fy, Gx, Gy, Kx, Ky = v[1:7]
            m = d["mats"][e[4]]
            kx, ky = xint.getk_py(m, v[0])
            if not (rel(Kx * kl, kx, 1e-12) and rel(Ky * kl, ky, 1e-12)):
                ctx.fail("hpproc: conductivity (%r,%r) x exterior factor %r is not k(T=%r) = (%r,%r) of the block, %s" % (Kx, Ky, kl, v[0], kx, ky, where), problem=p,
                         query=[hx(x), hx(y), k]); return
            if not (rel(Fx, Kx * Gx, 1e-12, 1e-300) and rel(Fy, Ky * Gy, 1e-12, 1e-300)):
                ctx.fail("hpproc: F=(%r,%r) is not K G with the returned K and G, %s" % (Fx, Fy, where), problem=p, query=[hx(x), hx(y), k]); return
            if int(m[2]) > 0:
                stats["tk"] += 1
            stats["field"] += 1
    for grp, g in groups.items():
        if len(g) == 2:
            (k0, a0, t0), (k1, a1, t1) = g
            if abs(a0 - a1) > t0 + t1:
                ctx.fail("%s: the potential is discontinuous across the edge shared by elements %d and %d: %r vs %r" % (who, k0, k1, a0, a1), problem=p); return
            stats["edge_pairs"] += 1


# ------------------------------------------------------------------------- problems ----
def scalar_problem(rng, kind, k, quick):
    box = [None, "material", "cfix", "material", "hole-fix", "cfloat"][k % 6]
    axi = (k % 4 != 3)
    p = femgen.gen_scalar_problem(rng, kind, axi=axi, size_nodes=rng.choice([25, 40]) if quick else rng.choice([40, 100, 200]), box=box)
    p["dosmartmesh"] = 0
    if kind == "feh" and k % 2 == 0:
        b = rng.choice(p["blockprops"])
        b["tk"] = [(200.0, rng.choice([1.0, 2.0])), (300.0, rng.choice([2.5, 4.0])), (350.0, 5.0), (500.0, rng.choice([5.0, 8.0]))]
        p["features"].append("T-k table")
    if p.get("problemtype") == "axisymmetric" and len(p["labels"]) >= 2 and k % 3 != 2:
        ys = [q["y"] for q in p["points"]]
        p.update(extRo=rng.choice([3.0, 5.0]), extRi=rng.choice([2.0, 2.5]), extZo=min(ys) - rng.choice([0.5, 1.0]))
        lab = p["labels"][rng.randrange(len(p["labels"]))]
        lab["external"] = 1
        b = p["blockprops"][lab["block"] - 1]
        if kind == "fee":
            b["ey"] = b["ex"]
        else:
            b["ky"] = b["kx"]
        p["features"].append("external")
    return p


def m_problems(rng, quick):
    ps = []
    for k in range(3 if quick else 12):
        ps.append(c05_gen.gen_problem(rng, harmonic=False, size_nodes=rng.choice([25, 40]) if quick else rng.choice([40, 100, 250]),
                                      force=(dict(main_iron=True) if k % 3 == 1 else {})))
    for k in range(3 if quick else 12):
        # k % 3 == 1: the main region is grain-oriented, conducting, laminated iron (mu_x != mu_y, d_lam > 0, sigma > 0, fill < 1): each
        # direction has its own skin depth in the frequency-dependent permeability
        ps.append(c05_gen.gen_problem(rng, harmonic=True, size_nodes=rng.choice([25, 40]) if quick else rng.choice([40, 100, 250]),
                                      force=(dict(main_iron=True, iron=dict(mu_x=rng.choice([2000.0, 500.0]), mu_y=rng.choice([150.0, 40.0]),
                                                                             lamtype=0, d_lam=rng.choice([0.5, 0.35]), sigma=rng.choice([2.0, 5.0]),
                                                                             lamfill=rng.choice([0.95, 0.9]), phi_hx=rng.choice([0.0, 10.0]),
                                                                             phi_hy=rng.choice([0.0, 15.0])))
                                             if k % 3 == 1 else {})))
    strata_s = [5, 6, 4, 7, 1, 3, 2, 0] if quick else [5, 6, 4, 7, 1, 3, 2, 0, 9, 11, 8, 10] * 2
    for k in (strata_s[:4] if quick else strata_s):
        ps.append(xaxi.gen_problem(rng, harmonic=False, size_nodes=rng.choice([16, 24, 36]) if quick else rng.choice([30, 80, 200]),
                                   force=dict(xaxi.STRATA.get(k, {}))))
    strata_h = [9, 11, 4, 5] if quick else [9, 11, 4, 5, 1, 6, 0, 3] * 2
    for k in (strata_h[:3] if quick else strata_h):
        f = dict(xaxi.STRATA.get(k, {}))
        if "boxes" in f:
            f["boxes"] = [("solid" if b == "magnet" else b) for b in f["boxes"]]
        ps.append(xaxi.gen_problem(rng, harmonic=True, size_nodes=rng.choice([16, 24, 36]) if quick else rng.choice([30, 80, 200]), force=f))
    for p in ps:
        # femmcli's mi_analyze refuses materials with mu_x != mu_y in the exterior region of axisymmetric problems
        # (XAXI drives the solver directly and generates them): make the exterior block's material isotropic
        for l in p["labels"]:
            if l.get("external"):
                b = p["blockprops"][l["block"] - 1]
                if b.get("mu_x", 1.0) != b.get("mu_y", 1.0):
                    b["mu_y"] = b["mu_x"]
                    p["features"] = [f.replace(":aniso", "") if f.startswith("iron:") else f for f in p["features"]] + ["exterior-material-made-isotropic"]
    return ps


# ------------------------------------------------------------------- correspondence ----
def compare(tally, tag, Q, R, model, names, dis, p):
    bad = None
    if len(model) != len(R):
        bad = "model answered %d queries, implementation %d" % (len(model), len(R))
    else:
        for q, (k, v), m in zip(Q, R, model):
            if len(m) != len(v):
                bad = bad or "query at (%s,%s): %d model values, %d implementation values" % (hx(q["x"]), hx(q["y"]), len(m), len(v))
                continue
            for nm, a, b in zip(names, v, m):
                if not tally.cmp(a, b, "%s %s" % (tag, nm)) and not bad:
                    bad = "%s of element %d at (%s, %s) [%s]: implementation %r, model %r" % (nm, k, hx(q["x"]), hx(q["y"]), q["cat"], a, float(b))
    if bad:
        dis.append(dict(what="%s point-value correspondence: %s" % (tag, bad), problem=p))


M_NAMES = ["A.re", "A.im", "B1.re", "B1.im", "B2.re", "B2.im", "mu1.re", "mu1.im", "mu2.re", "mu2.im", "H1.re", "H1.im", "H2.re", "H2.im",
           "Je.re", "Je.im", "Js.re", "Js.im", "c", "E", "Ph", "Pe", "Hc.re", "Hc.im", "ff"]
E_NAMES = ["V", "D.re", "D.im", "E.re", "E.im", "e.re", "e.im", "nrg"]
H_NAMES = ["T", "F.re", "F.im", "G.re", "G.im", "K.re", "K.im"]


def correspond(ctx):
    rng = ctx.rng
    tally = xint.Tally()
    dis, feats, samples, notes = [], {}, [], []
    stats = dict(A=0, B=0, H=0, E=0, edge_pairs=0, wire_energy_off=0, wire_energy_ok=0, exterior=0, field=0, tk=0)
    nq = 36 if ctx.quick() else 120
    exprs, cases = [], []
    evals = 0
    distinct = set()
    T = dict(solve=0.0, harness=0.0, oracle=0.0, coq=0.0)
    # ---- magnetics
    for k, p in enumerate(m_problems(rng, ctx.quick())):
        for ft in p["features"]:
            feats["M:" + str(ft)] = feats.get("M:" + str(ft), 0) + 1
        t0 = time.time()
        sol, err = xint.solve(ctx, p, "pvm%d" % k, writer=c05_gen.write)
        T["solve"] += time.time() - t0
        if err:
            ctx.fail("magnetics run failed on a well-formed problem: " + err, problem=p); continue
        d, err = run_harness(ctx, "fem", sol, [])
        if err:
            ctx.fail(err, problem=p); continue
        if d["P"][9] != 0 or d["P"][10] != 1 or any(m[9] != 0 or m[16] != 0 for m in d["mats"]):
            continue                    # incremental / BH curve / d_ShiftH off: outside the modelled class (never generated)
        Q = gen_queries(vlib.Rng(ctx.seed * 131 + k), d, nq)
        d2, err = run_harness(ctx, "fem", sol, commands(Q))
        if err or len(d2["res"]) != len(Q):
            ctx.fail("h_pv: the query sequence was not answered completely (%s)" % err, problem=p); continue
        R = d2["res"]
        evals += len(Q)
        for q, (kk, v) in zip(Q, R):
            distinct.add(("m", k, q["x"], q["y"], kk))
        oracle_m(ctx, p, d, Q, R, stats, notes)
        QQ = [(q, r) for q, r in zip(Q, R) if r[0] >= 0]
        dc, kmap, kept = compact(d, [r[0] for _, r in QQ])
        exprs.append(m_to_coq(dc, p.get("depth", 1), [(kmap[r[0]], q["x"], q["y"]) for q, r in QQ]))
        cases.append(("fem", p, dc, [q for q, _ in QQ], [r for _, r in QQ]))
        if len(samples) < 6:
            samples.append(dict(physics="magnetics", features=p["features"], nodes=len(d["nodes"]), elements=len(d["elems"]),
                                first_queries=[(hx(q["x"]), hx(q["y"]), q["cat"], r[0]) for q, r in zip(Q[:4], R[:4])]))
    # ---- electrostatics / heat
    for kind in ("fee", "feh"):
        for k in range(4 if ctx.quick() else 16):
            p = scalar_problem(rng, kind, k, ctx.quick())
            for ft in p["features"]:
                feats[kind + ":" + str(ft)] = feats.get(kind + ":" + str(ft), 0) + 1
            t0 = time.time()
            sol, err = xint.solve(ctx, p, "pv%s%d" % (kind[2], k))
            T["solve"] += time.time() - t0
            if err:
                ctx.fail("%s run failed on a well-formed problem: %s" % (kind, err), problem=p); continue
            d, err = run_harness(ctx, kind, sol, [])
            if err:
                ctx.fail(err, problem=p); continue
            Q = gen_queries(vlib.Rng(ctx.seed * 137 + k), d, nq)
            d2, err = run_harness(ctx, kind, sol, commands(Q))
            if err or len(d2["res"]) != len(Q):
                ctx.fail("h_pv: the query sequence was not answered completely (%s)" % err, problem=p); continue
            R = d2["res"]
            evals += len(Q)
            for q, (kk, v) in zip(Q, R):
                distinct.add((kind, k, q["x"], q["y"], kk))
            oracle_s(ctx, kind, p, d, Q, R, stats)
            QQ = [(q, r) for q, r in zip(Q, R) if r[0] >= 0]
            dc, kmap, kept = compact(d, [r[0] for _, r in QQ])
            exprs.append(s_to_coq(kind, dc, p.get("depth", 1), [(kmap[r[0]], q["x"], q["y"]) for q, r in QQ]))
            cases.append((kind, p, dc, [q for q, _ in QQ], [r for _, r in QQ]))
            if len(samples) < 10:
                samples.append(dict(physics=kind, features=p["features"], nodes=len(d["nodes"]), elements=len(d["elems"])))
    t0 = time.time()
    model = vlib.coq_eval(HEADER, exprs, shard=8, timeout=1800, name="xpv") if exprs else []
    T["coq"] = time.time() - t0
    for (kind, p, d, Q, R), m in zip(cases, model):
        if kind == "fem":
            pts, aecfs = m
            compare(tally, "fpproc", Q, R, pts, M_NAMES, dis, p)
            for i, (e, a) in enumerate(zip(d["elems"], aecfs)):
                if not tally.cmp(e[13], a, "fpproc AECF"):
                    dis.append(dict(what="fpproc AECF of element %d: implementation %r, model %r" % (i, e[13], float(a)), problem=p))
                    break
        elif kind == "fee":
            compare(tally, "epproc", Q, R, m, E_NAMES, dis, p)
        else:
            compare(tally, "hpproc", Q, R, m, H_NAMES, dis, p)
    cov = ctx.res.cov
    cov["evaluations"] = evals
    cov["distinct_nontrivial"] = len(distinct)
    cov["rule"] = ("generated solved problems: planar magnetics static and time-harmonic (C05's generator: laminated / anisotropic iron, coils in "
                   "series / parallel circuits, solid conductors, magnets with constant and Lua directions, hysteresis angles, all boundary "
                   "types), axisymmetric magnetics static and time-harmonic (XAXI's generator, strata: exterior region + magnet, wire-type "
                   "blocks LamType 3-6, solid conductor / coils on the axis), axisymmetric and planar electrostatics and heat flow with an "
                   "exterior region and T-k tables; all length units; meshed and solved by the real femmcli, opened by the real post-processor "
                   "classes; per problem a shuffled seeded query sequence: interior points and bounding-box points located by the real "
                   "InTriangle, centroids, nodes asked from up to three surrounding elements, points of shared edges asked from both adjacent "
                   "elements, nodes on the axis; every returned value (25 per magnetics query, 8 electrostatics, 7 heat) compared with the "
                   "float reading of PointVals.v; evaluations = point queries, non-trivial distinct = distinct (problem, point, element)")
    cov["input_distribution"] = feats
    cov["oracle_checks"] = stats
    cov["seconds"] = {k: round(v, 1) for k, v in T.items()}
    cov["samples"] = samples
    cov["observations"] = notes
    cov["wire_energy_variant"] = ("static wire-region energy term reads blocklist[meshelem[k].lbl]" if WIREFIX["value"] == "true"
                                  else "static wire-region energy term reads blocklist[meshelem[i].lbl] with i == 3 (as shipped, finding XPV-1)")
    cov["values_compared"] = tally.tot
    cov["bit_identical"] = tally.bit
    cov["bit_identical_fraction"] = round(tally.bit / max(tally.tot, 1), 6)
    cov["worst_ulp"] = tally.worst
    cov["not_bit_identical"] = [dict(what=w, implementation=a, model=b, ulps=u) for (w, a, b, u) in tally.off]
    return dis


def search(ctx, broken):
    """a proof or the correspondence broke: run the oracles alone (they do not use the model) on more problems"""
    before = len(ctx.failing_inputs)
    saved = ctx.tier
    rng = vlib.Rng(ctx.seed + 23)
    stats = dict(A=0, B=0, H=0, E=0, edge_pairs=0, wire_energy_off=0, wire_energy_ok=0, exterior=0, field=0, tk=0)
    try:
        for rnd in range(3):
            for k, p in enumerate(m_problems(rng, True)):
                sol, err = xint.solve(ctx, p, "pvs%d_%d" % (rnd, k), writer=c05_gen.write)
                if err:
                    continue
                d, err = run_harness(ctx, "fem", sol, [])
                if err:
                    continue
                Q = gen_queries(vlib.Rng(ctx.seed * 139 + k + 100 * rnd), d, 80)
                d2, err = run_harness(ctx, "fem", sol, commands(Q))
                if err or len(d2["res"]) != len(Q):
                    continue
                oracle_m(ctx, p, d, Q, d2["res"], stats, [])
            for kind in ("fee", "feh"):
                for k in range(4):
                    p = scalar_problem(rng, kind, k, True)
                    sol, err = xint.solve(ctx, p, "pvs%s%d_%d" % (kind[2], rnd, k))
                    if err:
                        continue
                    d, err = run_harness(ctx, kind, sol, [])
                    if err:
                        continue
                    Q = gen_queries(vlib.Rng(ctx.seed * 149 + k + 100 * rnd), d, 80)
                    d2, err = run_harness(ctx, kind, sol, commands(Q))
                    if err or len(d2["res"]) != len(Q):
                        continue
                    oracle_s(ctx, kind, p, d, Q, d2["res"], stats)
            if len(ctx.failing_inputs) > before:
                break
    finally:
        ctx.tier = saved
    found = ctx.failing_inputs[before:]
    del ctx.failing_inputs[before:]
    return found
