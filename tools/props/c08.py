"""C08 — no memory error or undefined behaviour on well-formed problems and scripts.
No executable Gallina model expresses "reads freed memory"; what is logic — index arithmetic of the
modelled routines — is proved (Properties_C08.v collects the in-range / well-formedness theorems of
the other models).  The runtime part is exhibited, not proved: every family of generated problems
and edit scripts used by the other checks is replayed on an ASan+UBSan build of the working tree
(any sanitizer report is a violation with that input as replay), and each case is run twice with
different allocator perturbation, the output files being byte-compared."""
import os, json, shutil, hashlib, re
import vlib, femgen, femmrun, geomgen

# theorems about the renumbering model Renumber.v that belong to this property (its correspondence runs with C02: props/xcm.py)
EXTRA_PROPERTY_FILES = ["C08_renumber", "C08_load"]
LEVEL = "proof"
COQ_MODULES = []
ASSUMPTIONS = [
    "partial: only the index arithmetic of modelled routines is proved; use-after-free, uninitialised reads and undefined casts are exhibited by sanitizer replays on explored inputs, not excluded by a theorem",
    "the sanitizer build uses -fsanitize=address,undefined -fno-sanitize-recover=all -D_GLIBCXX_ASSERTIONS; MSan is not available for g++: uninitialised reads are looked for by determinism under MALLOC_PERTURB_ and by valgrind memcheck runs of femmcli (plain build) on a few problems",
]
SAN_RE = re.compile(r"(Assertion '[^']*' failed|ERROR: AddressSanitizer|runtime error:|ERROR: LeakSanitizer|AddressSanitizer:DEADLYSIGNAL|heap-buffer-overflow|stack-buffer-overflow|use-after-free)")
EXT = {"fee": ".fee", "feh": ".feh", "fem": ".fem"}
RES = {"fee": ".res", "feh": ".anh", "fem": ".ans"}
SOLVER = {"fee": "esolver", "feh": "hsolver", "fem": "fsolver"}


def regen(ctx):
    from props import xload
    xload.regen(ctx)          # gen/LoadConsts.v + anchors of the LoadMesh model (Properties_C08_load.v)


def san_env(perturb):
    return {"ASAN_OPTIONS": "detect_leaks=0:abort_on_error=0:halt_on_error=1", "UBSAN_OPTIONS": "print_stacktrace=1:halt_on_error=1",
            "MALLOC_PERTURB_": str(perturb)}


def run_tool(snap, tool, args, cwd, perturb=0, timeout=600):
    rc, out, err = vlib.sh([snap.tool(tool)] + args, cwd=cwd, env=san_env(perturb), timeout=timeout)
    m = SAN_RE.search(err) or SAN_RE.search(out)
    rep = None
    if m:
        i = (err if SAN_RE.search(err) else out).find(m.group(0))
        rep = (err if SAN_RE.search(err) else out)[max(0, i - 200):i + 1500]
    return rc, rep, (out + err)[-300:]


def digest(path):
    return hashlib.sha256(open(path, "rb").read()).hexdigest() if os.path.exists(path) else None


def pipeline(ctx, san, plain, k, p):
    """mesh + solve + post-process one problem on the sanitizer build; twice, compare outputs"""
    kind = p["kind"]
    outs = []
    for rep_i, perturb in enumerate((0x5a, 0xa5)):
        wd = os.path.join(ctx.work, "p%d_%d" % (k, rep_i))
        os.makedirs(wd, exist_ok=True)
        f = os.path.join(wd, "prob" + EXT[kind])
        femgen.write(p, f)
        rc, rep, tail = run_tool(san, "fmesher", [f], wd, perturb)
        if rep:
            return "sanitizer report in fmesher:\n" + rep
        if rc != 0:
            return "fmesher failed (rc=%d) on a well-formed problem: %s" % (rc, tail)
        mesh = {e: digest(os.path.join(wd, "prob" + e)) for e in (".node", ".ele", ".edge", ".pbc")}
        rc, rep, tail = run_tool(san, SOLVER[kind], [os.path.join(wd, "prob")], wd, perturb)
        if rep:
            return "sanitizer report in %s:\n%s" % (SOLVER[kind], rep)
        if rc != 0:
            return "%s failed (rc=%d) on a well-formed problem: %s" % (SOLVER[kind], rc, tail)
        # post-processing through femmcli on the sanitizer build (no re-analysis)
        lab = p["labels"][0]
        q = [("nodes",), ("point", lab["x"], lab["y"]), ("block", [(lab["x"], lab["y"])], {"fee": 0, "feh": 1, "fem": 2}[kind])]
        lua = os.path.join(wd, "post.lua")
        open(lua, "w").write(femmrun.query_script(kind, f, q, analyze=False))
        rc, rep, tail = run_tool(san, "femmcli", ["--lua-script=" + lua], wd, perturb)
        if rep:
            return "sanitizer report in femmcli (load solution / queries):\n" + rep
        if rc != 0:
            return "femmcli post-processing failed (rc=%d): %s" % (rc, tail)
        outs.append((mesh, digest(os.path.join(wd, "prob" + RES[kind]))))
    if outs[0] != outs[1]:
        return "two runs of the same input with different allocator perturbation produced different output files"
    return None


EDIT_SCRIPT = '''
newdocument(%(doc)d)
%(pi)s_probdef(%(probdef)s)
%(pi)s_addnode(0,0)
%(pi)s_addnode(4,0)
%(pi)s_addnode(4,3)
%(pi)s_addnode(0,3)
%(pi)s_addsegment(0,0,4,0)
%(pi)s_addsegment(4,0,4,3)
%(pi)s_addsegment(4,3,0,3)
%(pi)s_addsegment(0,3,0,0)
%(pi)s_addnode(1,1)
%(pi)s_addnode(2,1)
%(pi)s_addsegment(1,1,2,1)
%(pi)s_addarc(2,1,1,1,180,10)
%(pi)s_addblocklabel(0.5,0.5)
%(pi)s_addblocklabel(1.5,1.2)
%(pi)s_seteditmode("nodes")
%(pi)s_selectnode(1,1)
%(pi)s_selectnode(2,1)
%(pi)s_copytranslate(0.25,1.0,%(ncopy)d)
%(pi)s_clearselected()
%(pi)s_seteditmode("segments")
%(pi)s_selectsegment(1.5,1)
%(pi)s_copytranslate(1.5,0.125,2)
%(pi)s_clearselected()
%(pi)s_seteditmode("arcsegments")
%(pi)s_selectarcsegment(1.5,1.5)
%(pi)s_copytranslate(0.125,1.25,2)
%(pi)s_clearselected()
%(pi)s_seteditmode("blocks")
%(pi)s_selectlabel(1.5,1.2)
%(pi)s_copyrotate(2,1.5,30,%(ncopy)d)
%(pi)s_clearselected()
%(pi)s_seteditmode("nodes")
%(pi)s_selectnode(1,1)
%(pi)s_mirror(2,0,2,3)
%(pi)s_clearselected()
%(pi)s_seteditmode("segments")
%(pi)s_selectsegment(2,0)
%(pi)s_moverotate(2,1.5,0.0)
%(pi)s_clearselected()
%(pi)s_seteditmode("blocks")
%(pi)s_selectlabel(0.5,0.5)
%(pi)s_movetranslate(0.0625,0.03125)
%(pi)s_clearselected()
%(pi)s_saveas("%(out)s")
print("R done")
'''


EDIT_OPS = [("copytranslate", "%(pi)s_copytranslate(20,0.5,2)"), ("copyrotate", "%(pi)s_copyrotate(-50,-50,7,2)"),
            ("mirror", "%(pi)s_mirror(-5,0,-5,1)"), ("movetranslate", "%(pi)s_movetranslate(20,0.25)"),
            ("moverotate", "%(pi)s_moverotate(-50,-50,7)"), ("scale", "%(pi)s_scale(-50,-50,1.5)"),
            ("deleteselected", "%(pi)s_deleteselected()")]
EDIT_MODES = ["nodes", "segments", "arcsegments", "blocks", "group"]


def edit_matrix_script(kind, op, mode, n, first_only):
    """a fresh document with n segments, n arcs, n labels and 4n points — n a power of two, so that every list is exactly at the
    capacity its vector reached by doubling: the first push_back of a copy command reallocates the list the command iterates —
    then one edit command on everything (or only the first entity) of one edit mode"""
    pi = femmrun.PRE[kind][0]
    doc = {"fem": 0, "fee": 1, "feh": 2}[kind]
    L = ["newdocument(%d)" % doc]
    for i in range(n):
        y = 3.0 * i
        L += ["%s_addnode(0,%g)" % (pi, y), "%s_addnode(1,%g)" % (pi, y), "%s_addsegment(0,%g,1,%g)" % (pi, y, y),
              "%s_addnode(3,%g)" % (pi, y), "%s_addnode(4,%g)" % (pi, y), "%s_addarc(4,%g,3,%g,180,10)" % (pi, y, y),
              "%s_addblocklabel(6,%g)" % (pi, y)]
    L.append('%s_seteditmode("%s")' % (pi, mode))
    rows = [0] if first_only else list(range(n))
    if mode == "group":
        L.append("%s_selectgroup(0)" % pi)
    for i in rows:
        y = 3.0 * i
        if mode == "nodes":
            L += ["%s_selectnode(0,%g)" % (pi, y), "%s_selectnode(3,%g)" % (pi, y)]
        elif mode == "segments":
            L.append("%s_selectsegment(0.5,%g)" % (pi, y))
        elif mode == "arcsegments":
            L.append("%s_selectarcsegment(3.5,%g)" % (pi, y + 0.5))
        elif mode == "blocks":
            L.append("%s_selectlabel(6,%g)" % (pi, y))
    L.append(dict(EDIT_OPS)[op] % dict(pi=pi))
    L.append("%s_clearselected()" % pi)
    return L


def edit_matrix(ctx, san, kinds):
    """every copy / move / mirror / rotate / scale / delete command in every edit mode on lists that are exactly at capacity
    (1, 2, 4, 8 entities per kind), everything or only the first entity selected, on the sanitizer build; one femmcli process per
    (physics, command): the sanitizer stops at the first report"""
    runs = 0
    for kind in kinds:
        for op, _ in EDIT_OPS:
            L = []
            for mode in EDIT_MODES:
                for n in (1, 2, 4, 8):
                    for first_only in ((False, True) if n > 1 else (False,)):
                        L += edit_matrix_script(kind, op, mode, n, first_only)
            L.append('print("R done")')
            wd = os.path.join(ctx.work, "editm-%s-%s" % (kind, op))
            os.makedirs(wd, exist_ok=True)
            lua = os.path.join(wd, "edit.lua")
            open(lua, "w").write("\n".join(L) + "\n")
            rc, rep, tail = run_tool(san, "femmcli", ["--lua-script=" + lua], wd, 0x5a)
            runs += 1
            if rep or rc != 0:
                # find the first (mode, n, selection) block that fails on its own, for a short replay
                small = None
                for mode in EDIT_MODES:
                    for n in (1, 2, 4, 8):
                        for first_only in ((False, True) if n > 1 else (False,)):
                            S = edit_matrix_script(kind, op, mode, n, first_only)
                            open(lua, "w").write("\n".join(S) + "\n")
                            rc2, rep2, tail2 = run_tool(san, "femmcli", ["--lua-script=" + lua], wd, 0x5a)
                            if rep2 or rc2 != 0:
                                small = (S, rep2 or tail2, mode, n, first_only)
                                break
                        if small:
                            break
                    if small:
                        break
                S, r2, mode, n, fo = small if small else (L, rep or tail, "?", 0, False)
                ctx.fail("memory safety: %s in femmcli for %s in edit mode %s on a drawing with %d entities of each kind (%s selected):\n%s"
                         % ("sanitizer report" if (rep or (small and small[1])) else "abnormal exit", op, mode, n,
                            "the first" if fo else "all", (r2 or "")[:1800]), script=S, kind=kind, signature="edit-matrix:%s:%s" % (kind, op))
    return runs


def edit_replay(ctx, san, k, kind, ncopy):
    pi = femmrun.PRE[kind][0]
    wd = os.path.join(ctx.work, "edit%d" % k)
    os.makedirs(wd, exist_ok=True)
    probdef = {"fem": '0,"millimeters","planar",1e-8,1,30', "fee": '"millimeters","planar",1e-8,1,30', "feh": '"millimeters","planar",1e-8,1,30'}[kind]
    doc = {"fem": 0, "fee": 1, "feh": 2}[kind]
    txt = EDIT_SCRIPT % dict(pi=pi, doc=doc, probdef=probdef, ncopy=ncopy, out=os.path.join(wd, "out" + EXT[kind]))
    lua = os.path.join(wd, "edit.lua")
    open(lua, "w").write(txt)
    rc, rep, tail = run_tool(san, "femmcli", ["--lua-script=" + lua], wd, 0x33)
    if rep:
        return "sanitizer report in femmcli while editing (copy/mirror/rotate/move):\n" + rep, txt
    if rc != 0:
        return "femmcli edit script failed (rc=%d): %s" % (rc, tail), txt
    return None, txt


def sample_inputs(ctx, san):
    """the repository's own example problems (cfemm/*/test) through mesher and solver of the sanitizer build;
    a non-zero exit status is acceptable here (some are error tests), a sanitizer / libstdc++ assertion
    report or a signal is not"""
    import glob
    n = 0
    for tdir in sorted(glob.glob(os.path.join(ctx.snap.src, "*", "test"))):
        files = sorted(f for f in os.listdir(tdir) if f.endswith((".fem", ".fee", ".feh")))
        if not files:
            continue
        wd = os.path.join(ctx.work, "samples_" + os.path.basename(os.path.dirname(tdir)))
        os.makedirs(wd, exist_ok=True)
        for f in files:
            shutil.copy(os.path.join(tdir, f), wd)
        for f in files:
            kind = f[-3:]
            base = os.path.join(wd, f[:-4])
            n += 1
            for tool, args in (("fmesher", [os.path.join(wd, f)]), (SOLVER[kind], [base])):
                rc, rep, tail = run_tool(san, tool, args, wd, 0x6b, timeout=1200)
                if rep or rc < 0:
                    ctx.fail("memory safety: %s on the repository's example %s/%s: %s" %
                             (tool, os.path.basename(os.path.dirname(tdir)), f, rep or ("killed by signal %d: %s" % (-rc, tail))),
                             sample=os.path.join(os.path.basename(os.path.dirname(tdir)), "test", f), tool=tool,
                             signature="sample:%s:%s" % (f, tool))
                    break
                if rc != 0:
                    break
    return n


VG_TYPES = {"fee": list(range(0, 7)), "feh": list(range(0, 5)), "fem": list(range(0, 24))}


def valgrind_post(ctx, plain, k, kind, axi, san=None):
    """uninitialised reads (invisible to ASan/UBSan): femmcli of the plain build under valgrind memcheck,
    analysis + every block integral type, line integrals, point values, conductor properties"""
    from props import c13
    p = c13.build(ctx.rng, kind, axi)
    # one point property carried by several points (post-processing scratch arrays are sized from such counts)
    pp = dict(fee=dict(name="pp", V=0.0, q=1e-10), feh=dict(name="pp", V=0.0, q=0.5), fem=dict(name="pp", A_re=0.0, I_re=0.25))[kind]
    p["pointprops"].append(pp)
    ox0, oy0, ox1, oy1 = p["outer"]
    for fx, fy in ((0.45, 0.3), (0.45, 0.75), (0.95, 0.5)):
        p["points"].append(dict(x=ox0 + (ox1 - ox0) * fx, y=oy0 + (oy1 - oy0) * fy, prop=len(p["pointprops"])))
    wd = os.path.join(ctx.work, "vg%d" % k)
    os.makedirs(wd, exist_ok=True)
    f = os.path.join(wd, "prob" + EXT[kind])
    femgen.write(p, f)
    r1, r2 = p["regs"]
    A = ((r1[0] + r1[2]) / 2, (r1[1] + r1[3]) / 2)
    Bp = ((r2[0] + r2[2]) / 2, (r2[1] + r2[3]) / 2)
    q = [("nodes",), ("point", A[0], A[1]), ("point", r1[0], r1[1])]
    q += [("block", [A], t) for t in VG_TYPES[kind]] + [("block", [A, Bp], VG_TYPES[kind][-1])]
    q += [("line", [(r1[0], r1[1]), (r1[2], r1[1]), (r1[2], r1[3])], t) for t in range(0, 3)]
    q += [("cond", "c1")] if kind != "fem" else []
    lua = os.path.join(wd, "post.lua")
    open(lua, "w").write(femmrun.query_script(kind, f, q))
    if san is not None:
        rc, rep, tail = run_tool(san, "femmcli", ["--lua-script=" + lua], wd, 0x3c, timeout=1200)
        if rep:
            return "sanitizer report in femmcli (analysis + every block / line integral):\n" + rep, p
        if rc != 0:
            return "femmcli (sanitizer build) failed (rc=%d): %s" % (rc, tail), p
    rc, out, err = vlib.sh(["valgrind", "--error-exitcode=97", "-q", "--track-origins=no", plain.tool("femmcli"), "--lua-script=" + lua],
                           cwd=wd, timeout=3000)
    m = re.search(r"==\d+== (Conditional jump or move depends on uninitialised|Use of uninitialised|Invalid (read|write)|Syscall param)[^\n]*(\n==\d+==[^\n]*){0,8}", err)
    if rc == 97 or m:
        return "valgrind memcheck report in femmcli (%s, %s):\n%s" % (kind, "axisymmetric" if axi else "planar", m.group(0) if m else err[-1500:]), p
    if rc != 0:
        return "femmcli under valgrind failed (rc=%d): %s" % (rc, (out + err)[-400:]), p
    return None, p


def history_session(ctx, san, k, kind):
    """one femmcli process that post-processes a LARGE solution, then a small one, then the large one again (function-level
    statics, caches and scratch arrays sized for an earlier document must not leak into the next): sanitizer reports are
    violations, and the small problem's answers must be those of a fresh process."""
    rng = vlib.Rng(ctx.seed * 7 + k)
    if kind != "fem":
        big = femgen.gen_scalar_problem(rng, kind, size_nodes=2500, box="material")
        small = femgen.gen_scalar_problem(rng, kind, size_nodes=25, box=None)
    else:
        kf = [j for j in range(40) if geomgen.KINDS[(j // len(geomgen.FAMS) + j) % 3] == "fem"]
        big = geomgen.gen_any(rng, kf[1], quick=False)
        small = geomgen.gen_any(rng, kf[0], quick=True)
    for q in (big, small):
        q["dosmartmesh"] = 0
    wd = os.path.join(ctx.work, "hist%d" % k)
    os.makedirs(wd, exist_ok=True)
    files = []
    for nm, q in (("big", big), ("small", small)):
        f = os.path.join(wd, nm + EXT[q["kind"]])
        femgen.write(q, f)
        for tool, args in (("fmesher", [f]), (SOLVER[q["kind"]], [f[:-4]])):
            rc, rep, tail = run_tool(san, tool, args, wd)
            if rep or rc != 0:
                return ("sanitizer report in %s:\n%s" % (tool, rep)) if rep else "%s failed (rc=%d): %s" % (tool, rc, tail), dict(big=big, small=small)
        files.append((f, q))

    def probes(q):
        pts = []
        for lab in q["labels"][:3]:
            pts.append((lab["x"], lab["y"]))
        xs = [pt["x"] for pt in q["points"]]
        ys = [pt["y"] for pt in q["points"]]
        pts.append((max(xs) + 1.0, max(ys) + 1.0))           # outside the mesh: the search visits every element
        for pt in q["points"][:3]:
            pts.append((pt["x"], pt["y"]))                   # drawn points (mesh vertices)
        return [("nodes",)] + [("point", x, y) for (x, y) in pts] + [("block", [(q["labels"][0]["x"], q["labels"][0]["y"])], {"fee": 0, "feh": 1, "fem": 5}[q["kind"]])]

    def part(f, q):
        txt = femmrun.query_script(q["kind"], f, probes(q), analyze=False)
        return txt.replace('print("R done")\n', "")
    head = part(files[0][0], big)
    lua_hist = os.path.join(wd, "hist.lua")
    # the out() helper is defined by every part; parts are separated by a marker line
    open(lua_hist, "w").write(head + 'print("R mark1")\n' + part(files[1][0], small) + 'print("R mark2")\n' + part(files[0][0], big) + 'print("R done")\n')
    lua_fresh = os.path.join(wd, "fresh.lua")
    open(lua_fresh, "w").write(part(files[1][0], small) + 'print("R done")\n')
    outs = {}
    for nm, lua in (("hist", lua_hist), ("fresh", lua_fresh)):
        rc, out, err = vlib.sh([san.tool("femmcli"), "--lua-script=" + lua], cwd=wd, env=san_env(0xa5), timeout=900)
        m = SAN_RE.search(err) or SAN_RE.search(out)
        if m:
            t = err if SAN_RE.search(err) else out
            i = t.find(m.group(0))
            return "sanitizer report in femmcli (second solution loaded in one session):\n" + t[max(0, i - 200):i + 1500], dict(big=big, small=small, script=open(lua).read().split("\n")[-40:])
        if rc != 0 or "R done" not in out:
            return "femmcli failed (rc=%d) in a session that loads a second solution: %s" % (rc, (out + err)[-300:]), dict(big=big, small=small)
        outs[nm] = [l for l in out.split("\n") if l.startswith("R ")]
    h = outs["hist"]
    mid = h[h.index("R mark1") + 1:h.index("R mark2")]
    fresh = [l for l in outs["fresh"] if l != "R done"]
    if mid != fresh:
        d = [(a, b) for a, b in zip(mid, fresh) if a != b][:3]
        return "answers for a solution depend on what the session loaded before: %r" % (d or (len(mid), len(fresh)),), dict(big=big, small=small)
    first, last = h[:h.index("R mark1")], [l for l in h[h.index("R mark2") + 1:] if l != "R done"]
    if first != last:
        d = [(a, b) for a, b in zip(first, last) if a != b][:3]
        return "answers for a solution differ when it is loaded a second time in one session: %r" % (d,), dict(big=big, small=small)
    return None, None


def correspond(ctx):
    rng = ctx.rng
    try:
        san = vlib.snapshot("san")
    except vlib.BuildError as e:
        ctx.fail("sanitizer build of the working tree failed", error=str(e)[-800:])
        return []
    plain = ctx.snap
    count = 9 if ctx.quick() else 60
    feats, n, samples = {}, 0, []
    for k in range(count):
        if k % 3 == 2:
            p = femgen.gen_scalar_problem(rng, ["fee", "feh"][k % 2], size_nodes=30, box=[None, "cfloat", "cfix", "material"][k % 4])
            p["dosmartmesh"] = 0
            p["features"] = ["scalar-rect", p["kind"]] + p["features"]
            if p["kind"] == "feh" and k % 6 == 5:
                # transient step needs a previous solution: keep steady here (C04 covers transient)
                pass
        else:
            p = geomgen.gen_any(rng, k, quick=True)
        for ft in p.get("features", [])[:3]:
            feats[ft] = feats.get(ft, 0) + 1
        msg = pipeline(ctx, san, plain, k, p)
        n += 1
        if msg:
            ctx.fail("memory safety / determinism: " + msg[:2500], problem=p)
        if len(samples) < 3:
            samples.append(dict(features=p.get("features"), kind=p["kind"]))
    for k, (kind, ncopy) in enumerate([("fee", 3), ("fem", 12), ("feh", 25)] if ctx.quick() else
                                      [(kd, nc) for kd in ("fee", "fem", "feh") for nc in (1, 3, 12, 25, 60)]):
        msg, txt = edit_replay(ctx, san, k, kind, ncopy)
        n += 1
        feats["edit-script"] = feats.get("edit-script", 0) + 1
        if msg:
            ctx.fail("memory safety: " + msg[:2500], script=txt.split("\n"), kind=kind, signature="edit-script:" + kind)
    nm = edit_matrix(ctx, san, ["fem"] if ctx.quick() else ["fem", "fee", "feh"])
    n += nm
    feats["edit-matrix-runs"] = nm
    ns = sample_inputs(ctx, san)
    n += ns
    feats["repository-sample"] = ns
    for k, (kind, axi) in enumerate([("fee", False), ("fem", False), ("feh", True)] if ctx.quick() else
                                    [(kd, ax) for kd in ("fee", "fem", "feh") for ax in (False, True)]):
        msg, p = valgrind_post(ctx, plain, k, kind, axi, san)
        n += 1
        feats["valgrind-post"] = feats.get("valgrind-post", 0) + 1
        if msg:
            ctx.fail("uninitialised / invalid memory use: " + msg[:2500], problem=p, signature="valgrind:" + kind)
    for k, kind in enumerate(("fee", "feh", "fem")):
        msg, rp = history_session(ctx, san, k, kind)
        n += 1
        feats["session-with-history"] = feats.get("session-with-history", 0) + 1
        if msg:
            ctx.fail("memory safety / history independence: " + msg[:2500], signature="history:" + kind, **(rp or {}))
    cov = ctx.res.cov
    cov["evaluations"] = n
    cov["distinct_nontrivial"] = n
    cov["rule"] = ("generated problems of every family used by the other checks (rectangles with interfaces / conductors, nested polygons, "
                   "circles and arcs, annuli, stadium; all file types) meshed, solved and post-processed by the ASan+UBSan build, each "
                   "twice with different MALLOC_PERTURB_ and byte-compared; Lua edit scripts with copy/mirror/rotate/move and repeated "
                   "copies that grow the lists; the repository's own example problems through mesher and solver of the sanitizer "
                   "build (libstdc++ assertions on); femmcli of the plain build under valgrind memcheck (analysis, every block "
                   "integral type, line integrals, point values) for uninitialised reads; per physics one femmcli session of the sanitizer "
                   "build that post-processes a large solution, a small one and the large one again (answers must equal those of a "
                   "fresh process)")
    cov["input_distribution"] = feats
    cov["samples"] = samples
    return []
