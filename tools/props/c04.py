"""C04 — heat-flow solution satisfies the discrete conduction equations and heat balance.
Model: coq/theories/AsmH.v + KT.v (HSolver::AnalyzeProblem, ChargeOnConductor,
CHMaterialProp::GetK); theorems: Properties_C04.v.

Correspondence (hook-free): generated .feh problems -> real fmesher -> harness h_hsolver, which
calls the unmodified HSolver pipeline three times:
  RUN1  the genuine run (written temperatures V1, flags, conductor heat flows, number of outer
        iterations counted from the solver's own "Iteration(k)" output);
  RUN2  ONE pass of AnalyzeProblem at a known previous iterate: L.V preset to V1 and the member
        HSolver::Precision (only used by the outer convergence test) set to 1e300.  The system
        left in L is the one assembled with Vo = V1 exactly, i.e. with k(T) and the radiation
        linearisation evaluated at the written temperatures.  The float reading of [hpass] must
        reproduce that matrix and right-hand side, the Q flags and the conductor heat flows;
  RUN3  as RUN2 with the real Precision: one pass iff the convergence test accepts (V1 -> V2);
        the model's [outer_converged] must take the same decision.
The initial "is any element nonlinear" scan is compared through its only observable effect:
the genuine run prints "Iteration(" iff IsNonlinear was set (scan or a radiation edge).
Which loop bound the scan has (NumNodes as shipped = defect D1, NumEls after the fix) is read from
the source on every run and selects [scan_bound_asis] / [scan_bound_fixed].

Property oracle: an independent SI-unit P1 assembly (numpy) with k evaluated at the WRITTEN
temperatures; previous temperatures are matched to nodes by coordinates from the .anh file."""
import os, math, json, re, copy
import numpy as np
import vlib, femgen

LEVEL = "proof"
COQ_MODULES = ["KT", "AsmH"]
ASSUMPTIONS = [
    "theorems are about the real-number reading of the assembly model; rounding is not bounded",
    "Triangle, the file readers and Cuthill-McKee renumbering are not modelled: the model starts from the solver's in-memory mesh after LoadMesh+LoadPrev+Cuthill (dumped by the harness)",
    "the linear solve itself is C09's subject; each outer iterate's solution is taken from the implementation and the written temperatures are checked against an independent assembly",
    "libm pow() values of the radiation linearisation are inputs of the float model (pow(x,3.) equals x*x*x bit for bit in only ~75% of the cases); the real reading uses x*x*x and x*x*x*x",
    "the oracle uses the discretisation the solver documents: element conductivity = mean of the three nodal k(T), row-sum-lumped heat capacity, centroid radius for axisymmetric volume terms, radiation linearised (Newton) about the edge-mean written temperature",
    "meshes with fewer elements than nodes make the as-shipped nonlinear scan read past the element vector (undefined behaviour, C08's subject); the model reads such an index as 'no table'",
]
HEADER = ("From Coq Require Import ZArith List Floats. Import ListNotations. "
          "From XF Require Import Arith Sparse AsmE KT AsmH.")
UNIT_M = [0.0254, 0.001, 0.01, 1.0, 2.54e-5, 1e-6]
KSB = 5.67032e-8
D1_SIGNATURE = "D1-nonlinear-scan-misses-elements-beyond-NumNodes"
F2_SIGNATURE = "F2-conductor-heat-flow-ignores-external-region-scaling"


# ---------------------------------------------------------------------------- dump ----
def parse_dump(path):
    d = dict(nodes=[], elems=[], blocks=[], lines=[], points=[], circs=[], labels=[], pbcs=[],
             rows1={}, rows2={}, fail=None, tprev=None, pows=[])
    for line in open(path):
        t = line.split()
        if not t:
            continue
        k = t[0]
        if k == "FAIL":
            d["fail"] = " ".join(t[1:])
        elif k == "PROB":
            d.update(axi=int(t[1]), depth=float(t[2]), unit=int(t[3]), extRo=float(t[4]), extRi=float(t[5]), extZo=float(t[6]),
                     dt=float(t[7]), prec=float(t[8]), bw=int(t[9]), nn=int(t[10]), ne=int(t[11]), nc=int(t[12]))
        elif k == "NODE":
            d["nodes"].append((float(t[1]), float(t[2]), int(t[3]), int(t[4])))
        elif k == "ELEM":
            d["elems"].append(tuple(int(x) for x in t[1:9]))
        elif k == "BLOCK":
            npts = int(t[5])
            tk = [(float(t[6 + 2 * i]), float(t[7 + 2 * i])) for i in range(npts)]
            d["blocks"].append((float(t[1]), float(t[2]), float(t[3]), float(t[4]), tk))
        elif k == "LINE":
            d["lines"].append((int(t[1]),) + tuple(float(x) for x in t[2:7]))      # fmt Tset Tinf qs beta h
        elif k == "POINT":
            d["points"].append((float(t[1]), float(t[2])))
        elif k == "CIRC":
            d["circs"].append((int(t[1]), float(t[2]), float(t[3])))
        elif k == "LABEL":
            d["labels"].append(int(t[1]))
        elif k == "PBC":
            d["pbcs"].append((int(t[1]), int(t[2]), int(t[3])))
        elif k == "TPREV":
            d["tprev"] = [float(x) for x in t[1:]]
        elif k == "KSB":
            d["ksb"] = float(t[1])
        elif k == "POWS":
            v = [float(x) for x in t[1:]]
            d["pows"] = [tuple(v[3 * i:3 * i + 3]) for i in range(len(v) // 3)]
        elif k == "SOLVED1":
            d["solved1"] = int(t[1]); d["iters"] = int(t[2]); d["depth_after"] = float(t[3])
        elif k == "SOLVED2":
            d["solved2"] = int(t[1]); d["iters2"] = int(t[2])
        elif k == "SOLVED3":
            d["solved3"] = int(t[1]); d["iters3"] = int(t[2])
        elif k in ("ROW1", "ROW2"):
            i, cnt = int(t[1]), int(t[2])
            d["rows" + k[3]][i] = [(int(t[3 + 2 * j]), float(t[4 + 2 * j])) for j in range(cnt)]
        elif k in ("B1", "B2", "V1", "V2"):
            d[k] = [float(x) for x in t[1:]]
        elif k in ("Q1", "Q2"):
            d[k] = [int(x) for x in t[1:]]
        elif k == "CHARGE":
            d["charge"] = [float(x) for x in t[1:]]
        elif k == "CHARGEALL":
            d["chargeall"] = [float(x) for x in t[1:]]
    return d


def opt(n):
    return "None" if n < 0 else "(Some %d)" % n


def clist(items):
    return "[%s]" % "; ".join(items)


def nat(n):
    """nat literals are unary terms: large ones are written through Z"""
    return "%d" % n if n < 16 else "(Z.to_nat %d)" % n


def coq_defs(d):
    """top-level definitions of one case (one big let-expression elaborates far slower)"""
    f = vlib.fhexs
    nodes = clist("mkENode %s %s %s %s" % (f(x), f(y), opt(bm), opt(c)) for (x, y, bm, c) in d["nodes"])
    elems = clist("mkEElem (%s, %s, %s) (%s, %s, %s) %d %d" % (nat(e[0]), nat(e[1]), nat(e[2]), opt(e[3]), opt(e[4]), opt(e[5]), e[6], e[7])
                  for e in d["elems"])
    blocks = clist("mkHBlock %s %s %s %s %s" % (f(b[0]), f(b[1]), f(b[2]), f(b[3]),
                                               clist("(%s, %s)" % (f(t), f(k)) for (t, k) in b[4])) for b in d["blocks"])
    lines = clist("mkHLine %d %s %s %s %s %s" % ((l[0],) + tuple(f(x) for x in l[1:])) for l in d["lines"])
    points = clist("mkEPoint %s %s" % (f(p[0]), f(p[1])) for p in d["points"])
    circs = clist("mkECirc %d %s %s" % (c[0], f(c[1]), f(c[2])) for c in d["circs"])
    labels = clist("true" if l else "false" for l in d["labels"])
    pbcs = clist("(%s, %s, %d)" % (nat(p[0]), nat(p[1]), p[2]) for p in d["pbcs"])
    tprev = clist(f(v) for v in (d["tprev"] or []))
    n = d["nn"] + d["nc"]
    out = []
    out.append("Definition c_nodes : list (enode (F:=float)) := %s." % nodes)
    out.append("Definition c_elems : list eelem := %s." % elems)
    out.append("Definition c_tprev : list float := %s." % tprev)
    out.append("Definition P : hprob (F:=float) := mkHProb %s %s %d %s %s %s %s %s c_nodes c_elems %s %s %s %s %s %s c_tprev."
               % ("true" if d["axi"] else "false", f(d["depth"]), d["unit"], f(d["extRo"]), f(d["extRi"]), f(d["extZo"]),
                  f(d["dt"]), f(d["prec"]), blocks, lines, points, circs, labels, pbcs))
    out.append("Definition V1 : list float := %s." % clist(f(v) for v in d["V1"]))
    out.append("Definition V2 : list float := %s." % clist(f(v) for v in d["V2"]))
    out.append("Definition c_pows : list (float * float * float) := %s."
               % clist("(%s, %s, %s)" % (f(a), f(b), f(c)) for (a, b, c) in d["pows"]))
    out.append("Definition L0 := lcreate FA %s %s %s (adec FA 15 (-1))." % (nat(n), nat(d["bw"]), f(d["prec"])))
    out.append("Definition L := mkLin %s %s (lM L0) (lb L0) V1 (lprec L0) (llam L0)." % (nat(n), nat(d["bw"])))
    out.append("Definition D0 := PrimFloat.mul (hdepth_raw P) (nth (hunit_idx P) (hunits FA) 1%float).")
    return "\n".join(out)


def to_coq(d, bound, extfix="false"):
    """model of the single pass at Vo = V1 (RUN2), of the conductor heat flows at V1 and of the
    decisions of the outer loop; returns (definitions, expression)"""
    f = vlib.fhexs
    charges = "; ".join("heat_on_conductor FA P %s %s V1 %s" % (extfix, f(d["depth_after"]), nat(i)) for i in range(d["nc"]))
    expr = ("let r := hpass FA P L D0 c_pows in "
            "(dump_rows FA (lM (fst (fst (fst r)))) ++ lb (fst (fst (fst r))), snd (fst (fst r)), [%s], "
            "[nonlinear_scan P (%s P); snd r; outer_converged FA P (firstn %s V1) V2], [D0; snd (fst r); ksb FA])"
            % (charges, bound, nat(d["nn"])))
    return coq_defs(d), expr


def model_eval(d, bound, extfix="false", timeout=1800):
    defs, expr = to_coq(d, bound, extfix)
    return vlib.coq_eval(HEADER + "\n" + defs, [expr], timeout=timeout)[0]


def flatten_impl(d, which):
    out = []
    n = d["nn"] + d["nc"]
    for i in range(n):
        r = d["rows" + which][i]
        out.append(float(len(r)))
        for c, x in r:
            out += [float(c), x]
    return out + d["B" + which]


def compare(d, m):
    """returns (disagreement or None, values compared, bit-identical)"""
    sysm, Qm, chm, flags, misc = m
    impl = flatten_impl(d, "2")
    tot = nb = 0
    bad = None
    if len(sysm) != len(impl):
        return "assembled system has a different sparsity structure (%d vs %d numbers)" % (len(impl), len(sysm)), 0, 0
    for idx, (a, b) in enumerate(zip(impl, sysm)):
        tot += 1
        if vlib.ulp_diff(a, float(b)) == 0:
            nb += 1
        elif not vlib.close(a, float(b), 64, 1e-300):
            return "assembled system (one pass at the written temperatures) differs at flat index %d: implementation %r, model %r" % (idx, a, b), tot, nb
    if [int(q) for q in Qm] != d["Q2"]:
        return "node flags Q differ", tot, nb
    for c, (a, b) in enumerate(zip(d["chargeall"], chm)):
        tot += 1
        if vlib.ulp_diff(a, float(b)) == 0:
            nb += 1
        elif not vlib.close(a, float(b), 64, 1e-300):
            return "ChargeOnConductor(%d): implementation %r, model %r" % (c, a, b), tot, nb
    scan, rad, conv = [bool(x) for x in flags]
    if (scan or rad) != (d["iters"] > 0):
        return ("outer iteration: the solver %s (it printed %d 'Iteration' lines) but the model's IsNonlinear is %s "
                "(scan %s, radiation edge %s)" % ("iterated" if d["iters"] > 0 else "made a single pass", d["iters"],
                                                  scan or rad, scan, rad)), tot, nb
    if d["iters"] > 0 and conv != (d["iters3"] == 1):
        return "outer convergence test: model says %s, the solver made %d passes from the written temperatures" % (conv, d["iters3"]), tot, nb
    tot += 3
    D0, Dafter, ksb = [float(x) for x in misc]
    for a, b, what in ((d["depth_after"], Dafter, "member Depth after the pass"), (d["ksb"], ksb, "Ksb")):
        if vlib.ulp_diff(a, b) == 0:
            nb += 1
        elif not vlib.close(a, b, 64, 1e-300):
            return "%s: implementation %r, model %r" % (what, a, b), tot, nb
    nb += 1
    return None, tot, nb


# ---------------------------------------------------- independent SI assembly (oracle) ----
def k_of_T(block, T):
    """conductivity of a block at temperature T: (kx, ky); table = piecewise linear, clamped"""
    kx, ky, kt, qv, tk = block
    if not tk:
        return kx, ky
    ts = [p[0] for p in tk]; ks = [p[1] for p in tk]
    k = float(np.interp(T, ts, ks))          # clamps outside the table
    return k, k


def read_anh(path):
    """nodes (x, y, T) of the [Solution] block of an .anh file (file length units)"""
    with open(path) as f:
        L = f.read().split("\n")
    i = next(k for k, l in enumerate(L) if l.strip().lower() == "[solution]")
    n = int(L[i + 1])
    out = []
    for l in L[i + 2:i + 2 + n]:
        t = l.split()
        out.append((float(t[0]), float(t[1]), float(t[2]), int(t[3])))
    rest = L[i + 2 + n:]
    ne = int(rest[0])
    nc = int(rest[1 + ne])
    circ = [tuple(float(x) for x in l.split()) for l in rest[2 + ne:2 + ne + nc]]
    return out, circ


def previous_by_coordinates(d, prev):
    """temperature of the previous solution at each current node, matched by position"""
    cf = UNIT_M[d["unit"]]
    P = np.array([(x * cf, y * cf) for (x, y, T, q) in prev])
    Tp = np.array([T for (x, y, T, q) in prev])
    X = np.array([(x, y) for (x, y, _, _) in d["nodes"]])
    scale = max(np.ptp(X[:, 0]), np.ptp(X[:, 1]), 1e-300)
    out = np.zeros(len(X))
    for i in range(len(X)):
        dd = np.hypot(P[:, 0] - X[i, 0], P[:, 1] - X[i, 1])
        j = int(np.argmin(dd))
        if dd[j] > 1e-9 * scale:
            return None
        out[i] = Tp[j]
    return out


def si_system(d, T, Tprev, warp=True):
    """Textbook P1 system in SI units from the dumped mesh and properties, conductivities at the
    temperatures T:  (Ks + Km + C/dt) T = f + C/dt Tprev  at free nodes.
    returns (Ks, Km, Cdt, f, presc dict node->T, floating dict c->[nodes])."""
    nn = d["nn"]
    X = np.array([(x, y) for (x, y, _, _) in d["nodes"]])                  # metres already
    depth = d["depth"] * UNIT_M[d["unit"]]
    Ks = np.zeros((nn, nn)); Km = np.zeros((nn, nn)); Cdt = np.zeros(nn); f = np.zeros(nn)
    presc = {}
    for i, (x, y, bm, c) in enumerate(d["nodes"]):
        if bm >= 0 and d["points"][bm][1] == 0:
            presc[i] = d["points"][bm][0]
        if c >= 0 and d["circs"][c][0] == 1:
            presc[i] = d["circs"][c][1]
    for e in d["elems"]:
        n = e[0:3]
        for j in range(3):
            if e[3 + j] >= 0 and d["lines"][e[3 + j]][0] == 0:
                presc[n[j]] = d["lines"][e[3 + j]][1]
                presc[n[(j + 1) % 3]] = d["lines"][e[3 + j]][1]
    for e in d["elems"]:
        n = e[0:3]
        P = X[list(n)]
        bb = np.array([P[1, 1] - P[2, 1], P[2, 1] - P[0, 1], P[0, 1] - P[1, 1]])
        cc = np.array([P[2, 0] - P[1, 0], P[0, 0] - P[2, 0], P[1, 0] - P[0, 0]])
        area = (bb[0] * cc[1] - bb[1] * cc[0]) / 2
        blk = d["blocks"][e[6]]
        kxy = [k_of_T(blk, T[i]) for i in n]
        kx = sum(k[0] for k in kxy) / 3; ky = sum(k[1] for k in kxy) / 3
        rbar = P[:, 0].mean()
        dep = 2 * math.pi * rbar if d["axi"] else depth
        kl = 1.0
        if warp and d["axi"] and d["labels"][e[7]]:
            u = UNIT_M[d["unit"]]
            z = P[:, 1].mean() - d["extZo"] * u
            kl = (rbar * rbar + z * z) / (d["extRi"] * u * d["extRo"] * u)
        gx = bb / (2 * area); gy = cc / (2 * area)
        Ke = dep * area * (kx * np.outer(gx, gx) + ky * np.outer(gy, gy)) / kl
        for a_ in range(3):
            f[n[a_]] += blk[3] * dep * area / 3                                   # volume heat generation
            if d["dt"] != 0:
                Cdt[n[a_]] += blk[2] * dep * area / 3 / d["dt"]                   # lumped heat capacity / dt
            for b_ in range(3):
                Ks[n[a_], n[b_]] += Ke[a_, b_]
        for j in range(3):
            if e[3 + j] < 0:
                continue
            k = (j + 1) % 3
            fmt, Tset, Tinf, qs, beta, h = d["lines"][e[3 + j]]
            ln = math.hypot(P[k, 0] - P[j, 0], P[k, 1] - P[j, 1])
            # boundary law  k dT/dn + g0 + g1*T = 0
            if fmt == 1:
                g1, g0 = 0.0, qs
            elif fmt == 2:
                g1, g0 = h, -h * Tinf
            elif fmt == 3:
                Tm = (T[n[j]] + T[n[k]]) / 2
                q = beta * KSB * (Tm ** 4 - Tinf ** 4); dq = 4 * beta * KSB * Tm ** 3
                g1, g0 = dq, q - dq * Tm
            else:
                continue
            if d["axi"]:
                rj, rk = P[j, 0], P[k, 0]
                # exact edge integrals of r*phi_a*phi_b and r*phi_a for linear r
                mjj = 2 * math.pi * ln * (3 * rj + rk) / 12; mkk = 2 * math.pi * ln * (rj + 3 * rk) / 12
                mjk = 2 * math.pi * ln * (rj + rk) / 12
                fj = 2 * math.pi * ln * (2 * rj + rk) / 6; fk = 2 * math.pi * ln * (rj + 2 * rk) / 6
            else:
                mjj = mkk = depth * ln / 3; mjk = depth * ln / 6
                fj = fk = depth * ln / 2
            Km[n[j], n[j]] += g1 * mjj; Km[n[k], n[k]] += g1 * mkk
            Km[n[j], n[k]] += g1 * mjk; Km[n[k], n[j]] += g1 * mjk
            f[n[j]] -= g0 * fj; f[n[k]] -= g0 * fk
    for i, (x, y, bm, c) in enumerate(d["nodes"]):
        if bm >= 0 and i not in presc and d["points"][bm][1] != 0:
            dp = 2 * math.pi * x if d["axi"] else depth
            f[i] += d["points"][bm][1] * dp
    if d["dt"] != 0:
        f = f + Cdt * Tprev
    floating = {}
    for i, (x, y, bm, c) in enumerate(d["nodes"]):
        if c >= 0 and d["circs"][c][0] == 0 and i not in presc:
            floating.setdefault(c, []).append(i)
    return Ks, Km, Cdt, f, presc, floating


def is_nonlinear_problem(d):
    used = set(e[6] for e in d["elems"])
    if any(d["blocks"][b][4] for b in used):
        return True
    return any(e[3 + j] >= 0 and d["lines"][e[3 + j]][0] == 3 for e in d["elems"] for j in range(3))


def oracle(d, prev=None):
    """None, or (message, signature-or-None)"""
    nn = d["nn"]
    T = np.array(d["V1"][:nn])
    if not np.all(np.isfinite(T)):
        return "non-finite temperatures in the solution", None
    Tprev = None
    if d["dt"] != 0:
        if prev is None:
            return "transient problem without a previous solution", None
        Tprev = previous_by_coordinates(d, prev)
        if Tprev is None:
            return "previous solution has no node at the position of a mesh node", None
    Ks, Km, Cdt, f, presc, floating = si_system(d, T, Tprev)
    nonlin = is_nonlinear_problem(d)
    tol = 5e-4 if nonlin else 2e-6
    scaleT = max(np.max(np.abs(T)), 1e-30)
    for i, v in presc.items():
        if abs(T[i] - v) > 1e-6 * max(scaleT, abs(v)):
            return "prescribed temperature not met at node %d: %.12g vs %.12g" % (i, T[i], v), None
    A = Ks + Km + np.diag(Cdt)
    r = A @ T - f
    mag = np.abs(A) @ np.abs(T) + np.abs(f)
    free = [i for i in range(nn) if i not in presc and not any(i in m for m in floating.values())]
    if free:
        rel = np.linalg.norm(r[free]) / max(np.linalg.norm(mag[free]), 1e-300)
        if rel > tol:
            worst = max(free, key=lambda i: abs(r[i]) / max(mag[i], 1e-300))
            sig = None
            used = set(e[6] for e in d["elems"])
            if any(d["blocks"][b][4] for b in used) and d["iters"] == 0:
                # a block with a T-k table is present but the solver made a single pass
                sig = D1_SIGNATURE
            return ("free-node residual of the conduction equations %.3g (relative) too large with k evaluated at the "
                    "written temperatures; worst node %d%s" % (rel, worst, "; the solver made a single pass although a "
                    "material has a T-k table" if sig else "")), sig
    for c, mem in floating.items():
        vc = d["V1"][nn + c]
        for i in mem:
            if abs(T[i] - vc) > 1e-6 * scaleT:
                return "floating conductor %d not isothermal at node %d (%.12g vs %.12g)" % (c, i, T[i], vc), None
        # the conductor's heat flow is measured as the flux the temperatures imply, i.e. the
        # stiffness reaction of its nodes (this is also what ChargeOnConductor reports)
        q = sum((Ks @ T)[i] for i in mem)
        want = d["circs"][c][2]
        if abs(q - want) > max(tol, 2e-6) * max(sum((np.abs(Ks) @ np.abs(T))[i] for i in mem), abs(want)):
            return "floating conductor %d carries %.6g W instead of the prescribed %.6g W" % (c, q, want), None
    for c in range(d["nc"]):
        mem = [i for i, nd in enumerate(d["nodes"]) if nd[3] == c]
        if not mem:
            continue
        react = sum((Ks @ T)[i] for i in mem)
        rep = d["chargeall"][c]
        sc = sum((np.abs(Ks) @ np.abs(T))[i] for i in mem)
        if abs(react - rep) > 1e-9 * max(sc, 1e-300):
            # the same reaction with the un-warped conductivity in the external region
            Ks0 = si_system(d, T, Tprev, warp=False)[0]
            react0 = sum((Ks0 @ T)[i] for i in mem)
            sig = F2_SIGNATURE if abs(react0 - rep) <= 1e-9 * max(sc, abs(react0), 1e-300) else None
            return ("heat flow reported for conductor %d (%.9g) differs from the flux the temperatures imply (%.9g)%s"
                    % (c, rep, react, "; it equals the flux computed without the external-region scaling of the "
                       "conductivity that the assembled equations use" if sig else "")), sig
        if d["circs"][c][0] == 1 and abs(d["charge"][c] - rep) > 1e-12 * max(abs(rep), 1e-300):
            return "heat flow stored for fixed-temperature conductor %d differs from ChargeOnConductor" % c, None
    # heat balance: the conduction part has vanishing column sums
    s = float(np.sum(Ks @ T))
    if abs(s) > 1e-9 * float(np.sum(np.abs(Ks) @ np.abs(T)) or 1.0):
        return "heat flows do not balance: sum of all nodal conduction reactions = %.3g" % s, None
    # global balance: generated + exchanged + stored = heat leaving through prescribed nodes/conductors
    return None, None


# ---------------------------------------------------------------------- generators ----
def table_for(rng, around=300.0):
    """strictly increasing T-k table; sometimes it does not cover the temperature range"""
    n = rng.choice([1, 2, 3, 5])
    lo = rng.choice([0.0, 150.0, 260.0, 310.0])
    step = rng.choice([20.0, 50.0, 120.0])
    k0 = rng.choice([0.5, 2.0, 30.0])
    slope = rng.choice([0.6, 1.5, 2.5, 0.3])
    return [(lo + i * step, k0 * (slope ** i if slope > 1 else 1 + i * slope)) for i in range(n)]


def used_bdry(p):
    return set(s_.get("bdry", 0) for s_ in p["segments"]) - {0}


def used_blocks(p):
    return set(l.get("block", 0) for l in p["labels"]) - {0}


def well_posed(p):
    """some temperature reference exists (fixed temperature, convection, radiation or a
    fixed-temperature conductor/point): otherwise the steady problem is singular"""
    for i in used_bdry(p):
        if p["bdryprops"][i - 1].get("type", 0) in (0, 2, 3):
            return True
    fixed_cond = set(i + 1 for i, c in enumerate(p["circuits"]) if c.get("type", 1) == 1)
    if any(s_.get("cond", 0) in fixed_cond for s_ in p["segments"] + p["points"]):
        return True
    for q in p["points"]:
        if q.get("prop", 0) > 0 and p["pointprops"][q["prop"] - 1].get("q", 0) == 0:
            return True
    return False


def gen_problem(rng, quick, family, k=0):
    box = [None, "cfloat", "cfix", "material", "cfloat", "hole-fix"][k % 6]
    size = rng.choice([25, 40, 60]) if quick else rng.choice([40, 100, 250])
    nonlinear = family in ("nonlinear", "transient-nonlinear")
    what = rng.choice(["tk", "rad", "both"]) if nonlinear else None
    for attempt in range(20):
        p = femgen.gen_scalar_problem(rng, "feh", size_nodes=size, box=box)
        if not well_posed(p):
            continue
        if what in ("rad", "both"):
            # a flux or convection boundary must be in use so that it can be turned into radiation
            names = {i + 1: bp["name"] for i, bp in enumerate(p["bdryprops"])}
            if not any(names.get(b) in ("flux", "conv") for b in used_bdry(p)):
                continue
        break
    p["dosmartmesh"] = 0 if rng.random() < (0.9 if quick else 0.8) else 1
    p["dt"] = 0.0
    p["family"] = family
    if p["problemtype"] == "axisymmetric" and rng.random() < 0.4:
        # one region is declared part of the conformally mapped external region (its
        # conductivity is divided by (r^2+z^2)/(Ri*Ro))
        ys = [q["y"] for q in p["points"]]
        p.update(extRo=rng.choice([3.0, 5.0]), extRi=rng.choice([2.0, 2.5]), extZo=min(ys) - rng.choice([0.5, 1.0]))
        p["labels"][rng.randrange(len(p["labels"]))]["external"] = 1
        p["features"].append("external")
    if what in ("tk", "both"):
        for i in sorted(used_blocks(p)):
            if rng.random() < 0.6:
                p["blockprops"][i - 1]["tk"] = table_for(rng)
        if not any(p["blockprops"][i - 1].get("tk") for i in used_blocks(p)):
            p["blockprops"][rng.choice(sorted(used_blocks(p))) - 1]["tk"] = table_for(rng)
        p["features"].append("tk")
    if what in ("rad", "both"):
        # turn the flux and/or convection boundary property in use into a radiation boundary
        cand = [i for i in sorted(used_bdry(p)) if p["bdryprops"][i - 1]["name"] in ("flux", "conv")]
        chosen = [i for i in cand if rng.random() < 0.7] or cand[:1]
        for i in chosen:
            p["bdryprops"][i - 1].update(type=3, beta=rng.choice([0.3, 0.8, 1.0]), Tinf=femgen.rnd_nice(rng, 250, 400))
        if chosen:
            p["features"].append("rad")
    return p


def gen_d1_probe(rng):
    """two materials side by side; only the one that the renumbering visits last has a T-k
    table.  With the scan bounded by NumNodes none of its elements is examined."""
    B = femgen.Builder("feh")
    p = B.p
    p.update(problemtype="planar", units="meters", depth=1.0, precision=1e-8, minangle=30, dosmartmesh=0, dt=0.0)
    B.prop("blockprops", name="lin", kx=10.0, ky=10.0, kt=0.0, qv=0.0)
    B.prop("blockprops", name="tk", kx=1.0, ky=1.0, kt=0.0, qv=2000.0,
           tk=[(250.0, 1.0), (300.0, 2.0), (350.0, 6.0), (500.0, 20.0)])
    hot = B.prop("bdryprops", name="hot", type=0, Tset=400.0)
    cold = B.prop("bdryprops", name="cold", type=0, Tset=300.0)
    a = B.point(0.0, 0.0); b = B.point(3.5, 0.0); c = B.point(4.0, 0.0)
    e = B.point(4.0, 1.0); f = B.point(3.5, 1.0); g = B.point(0.0, 1.0)
    B.seg(a, b); B.seg(b, c); B.seg(c, e, bdry=hot); B.seg(e, f); B.seg(f, g); B.seg(g, a, bdry=cold); B.seg(b, f)
    dd = femgen.mesh_diameter(0.03)
    B.label(1.75, 0.5, 1, maxarea=dd)
    B.label(3.75, 0.5, 2, maxarea=dd)
    p["features"] = ["d1-probe", "planar", "meters", "tk"]
    p["family"] = "d1-probe"
    return p


def transient_pair(rng, quick, k):
    """(previous steady problem, transient problem): same geometry and mesh parameters, the
    transient step starts from the steady solution of a problem with other boundary values"""
    fam = "transient-nonlinear" if rng.random() < 0.35 else "transient"
    cur = gen_problem(rng, quick, fam, k)
    prev = copy.deepcopy(cur)
    prev["family"] = "previous"
    for bp in prev["bdryprops"]:
        if bp.get("type", 0) == 0:
            bp["Tset"] = femgen.rnd_nice(rng, 250, 400)
        if bp.get("type", 0) == 2:
            bp["Tinf"] = femgen.rnd_nice(rng, 280, 320)
    for b in prev["blockprops"]:
        b["qv"] = rng.choice([0.0, 1e3])
    for b in cur["blockprops"]:
        if b.get("kt", 0) == 0 and rng.random() < 0.8:
            b["kt"] = rng.choice([1.0, 3.5, 0.02])
    # time step from a Fourier number so that the capacity term is comparable with conduction
    # whatever the length unit: dt = C L^2 / (k Fo)
    u = femgen.UNIT_M[cur["units"]]
    L_ = max(max(q["x"] for q in cur["points"]) - min(q["x"] for q in cur["points"]),
             max(q["y"] for q in cur["points"]) - min(q["y"] for q in cur["points"])) * u
    kts = [b.get("kt", 0) for b in cur["blockprops"] if b.get("kt", 0) != 0] or [1.0]
    kxs = [b.get("kx", 1) for b in cur["blockprops"]]
    fo = rng.choice([0.5, 5.0, 50.0, 500.0])
    cur["dt"] = float("%.3g" % (max(kts) * L_ * L_ / (max(kxs) * fo)))
    cur["features"] = cur["features"] + ["Fo=%g" % fo]
    return prev, cur


# ------------------------------------------------------------------------ run cases ----
def mesh(ctx, f):
    rc, out, err = vlib.sh([ctx.snap.tool("fmesher"), f], timeout=120)
    if rc != 0:
        return "fmesher failed (rc=%d) on a well-formed problem: %s" % (rc, (out + err)[-300:])
    return None


def run_case(ctx, k, p, prev_problem=None):
    """returns (dump dict, previous-solution nodes or None, message or None)"""
    exe = vlib.build_harness(ctx.snap, "h_hsolver", libs=("hsolver", "femm"))
    prev = None
    if prev_problem is not None:
        fp = os.path.join(ctx.work, "c%dprev.feh" % k)
        femgen.write(prev_problem, fp)
        msg = mesh(ctx, fp)
        if msg:
            return None, None, msg
        rc, out, err = vlib.sh([ctx.snap.tool("hsolver"), fp[:-4]], timeout=150, cwd=ctx.work)
        if rc != 0 or not os.path.exists(fp[:-4] + ".anh"):
            return None, None, "hsolver failed (rc=%d) on a well-formed steady problem: %s" % (rc, (out + err)[-300:])
        prev, _ = read_anh(fp[:-4] + ".anh")
        p = dict(p, prevsoln=fp[:-4] + ".anh")
    f = os.path.join(ctx.work, "c%d.feh" % k)
    femgen.write(p, f)
    msg = mesh(ctx, f)
    if msg:
        return None, None, msg
    dump = f[:-4] + ".dump"
    rc, out, err = vlib.sh([exe, f[:-4], dump], timeout=150)
    if not os.path.exists(dump):
        return None, None, "harness crashed (rc=%d): %s" % (rc, err[-300:])
    d = parse_dump(dump)
    if d["fail"] or rc != 0:
        return None, None, "solver pipeline failed on a well-formed problem: %s rc=%d %s" % (d["fail"], rc, err[-200:])
    d["path"] = f[:-4]
    return d, prev, None


def binary_agrees(ctx, d):
    """the real hsolver binary writes the temperatures and conductor heat flows the harness saw"""
    rc, out, err = vlib.sh([ctx.snap.tool("hsolver"), d["path"]], timeout=150, cwd=ctx.work)
    anh = d["path"] + ".anh"
    if rc != 0 or not os.path.exists(anh):
        return "hsolver binary failed (rc=%d) where the harness succeeded: %s" % (rc, (out + err)[-300:])
    nodes, circ = read_anh(anh)
    if [t[2] for t in nodes] != d["V1"][:d["nn"]]:
        return "temperatures written by the hsolver binary differ from those of the harness run"
    if [t[3] for t in nodes] != d["Q1"][:d["nn"]]:
        return "Q flags written by the hsolver binary differ from those of the harness run"
    for c, row in enumerate(circ):
        if row[0] != d["V1"][d["nn"] + c] or row[1] != d["charge"][c]:
            return "conductor %d: the .anh file has (T, q) = %r, the harness run (%r, %r)" % (c, row, d["V1"][d["nn"] + c], d["charge"][c])
    return None


def scan_variant(ctx):
    """which bound the 'any nonlinear element' scan has in the source being checked"""
    src = open(os.path.join(ctx.snap.src, "hsolver", "hsolver.cpp"), "rb").read().decode("latin1")
    m = re.search(r"for\s*\(\s*i\s*=\s*0\s*;\s*i\s*<\s*(\w+)\s*;\s*i\+\+\s*\)\s*\{\s*if\s*\(\s*blockproplist\[meshele\[i\]\.blk\]\.npts\s*>\s*0\s*\)", src)
    if not m:
        raise vlib.TranslateError("hsolver.cpp: the scan 'for(i=0;i<BOUND;i++){ if (blockproplist[meshele[i].blk].npts>0)' was not found")
    if m.group(1) == "NumNodes":
        return "scan_bound_asis"
    if m.group(1) == "NumEls":
        return "scan_bound_fixed"
    raise vlib.TranslateError("hsolver.cpp: the nonlinear scan is bounded by %s (NumNodes or NumEls expected)" % m.group(1))


def flow_variant(ctx):
    """does HSolver::ChargeOnConductor apply the external-region scaling?"""
    src = open(os.path.join(ctx.snap.src, "hsolver", "hsolver.cpp"), "rb").read().decode("latin1")
    i = src.find("double HSolver::ChargeOnConductor")
    if i < 0:
        raise vlib.TranslateError("hsolver.cpp: HSolver::ChargeOnConductor not found")
    j = src.find("\n}", i)
    return "true" if "IsExternal" in src[i:j] else "false"


def regen(ctx):
    ctx.scan_bound = scan_variant(ctx)
    ctx.extfix = flow_variant(ctx)


def plan(ctx):
    """list of (family, k) cases of this tier"""
    if ctx.quick():
        fams = ["d1-probe"] + ["linear"] * 12 + ["nonlinear"] * 10 + ["transient"] * 8
    else:
        fams = ["d1-probe"] + ["linear"] * 40 + ["nonlinear"] * 30 + ["transient"] * 20
    return fams


def make_case(ctx, rng, fam, k):
    if fam == "d1-probe":
        return gen_d1_probe(rng), None
    if fam == "transient":
        prev, cur = transient_pair(rng, ctx.quick(), k)
        return cur, prev
    return gen_problem(rng, ctx.quick(), fam, k), None


def correspond(ctx):
    rng = ctx.rng
    bound = getattr(ctx, "scan_bound", None) or scan_variant(ctx)
    extfix = getattr(ctx, "extfix", None) or flow_variant(ctx)
    dis = []
    cases = []
    feats = {}
    fams = plan(ctx)
    solved = 0
    iters = []
    for k, fam in enumerate(fams):
        p, pprev = make_case(ctx, rng, fam, k)
        for ft in p["features"] + ["family:" + p["family"]]:
            feats[ft] = feats.get(ft, 0) + 1
        replay = dict(problem=p, previous=pprev)
        d, prev, msg = run_case(ctx, k, p, pprev)
        if msg:
            ctx.fail(msg, **replay)
            continue
        solved += 1
        iters.append(d["iters"])
        msg, sig = oracle(d, prev)
        if msg:
            if sig:
                ctx.fail("hsolver: " + msg, signature=sig, **replay)
            else:
                ctx.fail("hsolver: " + msg, **replay)
        if k < 3 or fam == "transient":
            msg = binary_agrees(ctx, d)
            if msg:
                ctx.fail(msg, **replay)
        if d["nn"] <= (700 if ctx.quick() else 1500):
            cases.append((p, d, replay))
    model = [model_eval(d, bound, extfix) for (p, d, replay) in cases]
    nb = tot = 0
    for (p, d, replay), m in zip(cases, model):
        bad, t, b = compare(d, m)
        tot += t; nb += b
        if bad:
            dis.append(dict(what="hsolver correspondence: " + bad, **replay))
    cov = ctx.res.cov
    cov["evaluations"] = len(fams)
    cov["distinct_nontrivial"] = len(set(json.dumps(c[0], sort_keys=True) for c in cases))
    cov["rule"] = ("seeded well-formed .feh problems (rectangle, optional material interface, inner box as fixed/floating "
                   "conductor, hole with fixed boundary or third material, point property; boundary types 0-3, T-k tables, "
                   "time steps from a previous solution written by the real hsolver, planar/axisymmetric, all six units) "
                   "meshed by the real fmesher and assembled by the real HSolver; non-trivial = meshed, solved and "
                   "evaluated in the model, distinct = distinct problem description")
    cov["input_distribution"] = feats
    cov["samples"] = [dict(features=c[0]["features"], family=c[0]["family"], nodes=c[1]["nn"], elements=c[1]["ne"],
                           outer_iterations=c[1]["iters"]) for c in cases[:3]]
    cov["values_compared"] = tot
    cov["bit_identical"] = nb
    cov["mesh_sizes"] = [c[1]["nn"] for c in cases]
    cov["solved"] = solved
    cov["outer_iterations"] = iters
    cov["nonlinear_cases"] = sum(1 for c in cases if is_nonlinear_problem(c[1]))
    cov["transient_cases"] = sum(1 for c in cases if c[1]["dt"] != 0)
    cov["radiation_edges"] = sum(len(c[1]["pows"]) for c in cases)
    cov["conductor_flow_variant"] = ("ChargeOnConductor applies the external-region scaling" if extfix == "true"
                                     else "ChargeOnConductor ignores the external-region scaling (finding F2 present)")
    cov["nonlinear_scan_variant"] = bound + (" (loop bound NumNodes: defect D1 present)" if bound == "scan_bound_asis"
                                             else " (loop bound NumEls)")
    return dis


def search(ctx, broken):
    found = []
    rng = vlib.Rng(ctx.seed + 3)
    fams = ["linear", "nonlinear", "transient", "linear", "nonlinear"] * 8
    for k, fam in enumerate(fams):
        p, pprev = make_case(ctx, rng, fam, k)
        d, prev, msg = run_case(ctx, 1000 + k, p, pprev)
        if msg:
            found.append(dict(what=msg, problem=p, previous=pprev)); break
        msg, sig = oracle(d, prev)
        if msg:
            found.append(dict(what="hsolver: " + msg, problem=p, previous=pprev)); break
    return found
