"""C15 — entities keep the property the script gave them through any edit history.
Model: coq/theories/PropRefs.v (two variants: fx=false the code as it stands, fx=true with
findings/C15-D5-fix.diff); theorems: Properties_C15.v.
Correspondence: command histories rendered as Lua and run through the real `femmcli` of the
snapshot; every saved .fee/.fem/.feh is parsed independently here and compared with the
model's `save_out` for the same history (exact equality of property lists, written indices and
entity order).  Property oracle (independent of the Coq model): a name-level tracker computes
the set of associations the property text allows; the meaning read from the saved file (and,
for electrostatics, what the analysis actually used) must be in that set."""
import os, re, math, json, itertools
import vlib

LEVEL = "proof"
COQ_MODULES = ["PropRefs"]
ASSUMPTIONS = [
    "the model is hand-written; its tie to the Lua handlers, FemmProblem and FemmReader is the history correspondence run here",
    "property names equal to the reserved strings \"<None>\", \"<No Mesh>\", \"<Inf>\" and \"\" are excluded (hypothesis `ordinary` of the theorems)",
    "entity identity is the coordinate pair (ghost id in the model); geometry (merging of coincident entities, "
    "splitting of segments) is not modelled: histories keep all entities apart",
    "duplicates of one property name are not distinguished by the specification (it is name-level)",
    "arc segments are not exercised for heat-flow documents (no hi_setarcsegmentprop command is registered)",
    "copy commands are only issued for the last entity of its list: FemmProblem::translateCopy iterates a vector "
    "while pushing into it (defect D4) and crashes otherwise",
]
HEADER = ("From Coq Require Import List String Bool Arith. Import ListNotations. "
          "From XF Require Import PropRefs. Local Open Scope string_scope.")

KINDS = ["block", "bdry", "point", "circ"]
TYPES = ["node", "seg", "arc", "label"]
KCOQ = {"block": "KBlock", "bdry": "KBdry", "point": "KPoint", "circ": "KCirc"}
TCOQ = {"node": "TNode", "seg": "TSeg", "arc": "TArc", "label": "TLabel"}
PHCOQ = {"mag": "Mag", "elec": "Elec", "heat": "Heat"}
PREFIX = {"mag": "mi", "elec": "ei", "heat": "hi"}
EXT = {"mag": ".fem", "elec": ".fee", "heat": ".feh"}
DOCNUM = {"mag": 0, "elec": 1, "heat": 2}
K1 = {"node": "point", "seg": "bdry", "arc": "bdry", "label": "block"}
MODE = {"node": 0, "seg": 1, "label": 2, "arc": 3}
DEFAULT1 = {"node": "<None>", "seg": "<None>", "arc": "<None>", "label": "<No Mesh>"}
CLEARED = ("cleared",)          # possibility token: the association was dropped for good


def has_slot(ph, t, second):
    if not second:
        return True
    return (ph == "mag") if t == "label" else (ph != "mag")


# ------------------------------------------------------------------------------------------
# name-level tracker: independent statement of what the property allows, plus the geometry
# needed to render select commands
# ------------------------------------------------------------------------------------------
class Ent:
    __slots__ = ("id", "t", "sel", "xy", "ends", "names", "poss")

    def __init__(self, id, t, xy=None, ends=None):
        self.id, self.t, self.sel, self.xy, self.ends = id, t, False, xy, ends
        self.names = [DEFAULT1[t], "<None>"]
        self.poss = [{DEFAULT1[t]}, {"<None>"}]

    def clone(self, id, xy=None, ends=None):
        e = Ent(id, self.t, xy, ends)
        e.names = list(self.names)
        e.poss = [set(self.poss[0]), set(self.poss[1])]
        return e


class Tracker:
    def __init__(self, ph):
        self.ph = ph
        self.props = {k: [] for k in KINDS}          # list of (name, value) — value identifies the instance
        self.ents = {t: [] for t in TYPES}
        self.next = 0
        self.ncopy = 0
        self.nmove = 0
        self.ninst = 0
        self.reopened = False

    # -- helpers
    def names(self, k):
        return [n for n, _ in self.props[k]]

    def find(self, t, id):
        for e in self.ents[t]:
            if e.id == id:
                return e
        return None

    def pos(self, e):
        """coordinates used to select the entity"""
        if e.t in ("node", "label"):
            return e.xy
        a, b = self.find("node", e.ends[0]), self.find("node", e.ends[1])
        return ((a.xy[0] + b.xy[0]) / 2.0, (a.xy[1] + b.xy[1]) / 2.0)

    def meaning(self, k, s):
        return s if (s is not CLEARED and s in self.names(k)) else None

    def strict(self, e, second):
        """the Coq specification `aassoc` (release on rename, late binding)"""
        if second:
            if e.t == "label" and self.meaning("block", e.names[0]) is None:
                return None
            return self.meaning("circ", e.names[1])
        return self.meaning(K1[e.t], e.names[0])

    def allowed(self, e, second):
        """every association the property text allows for this reference"""
        k = "circ" if second else K1[e.t]
        out = {self.meaning(k, s) for s in e.poss[1 if second else 0]}
        if second and e.t == "label":
            blk = {self.meaning("block", s) for s in e.poss[0]}
            if None in blk:
                out = out | {None} if len(blk) > 1 else {None}
        return out

    def unselect(self):
        for t in TYPES:
            for e in self.ents[t]:
                e.sel = False

    # -- one command
    def step(self, op):
        o = op[0]
        ph = self.ph
        if o == "add":
            self.props[op[1]].append((op[2], self.ninst))
            self.ninst += 1
        elif o == "del":
            k, n = op[1], op[2]
            self.props[k] = [p for p in self.props[k] if p[0] != n]
            for e, s in self.refs(k):
                if n in e.poss[s]:
                    e.poss[s].add(CLEARED)
        elif o == "ren":
            k, n, n2 = op[1], op[2], op[3]
            idx = [i for i, p in enumerate(self.props[k]) if p[0] == n]
            if idx:
                i = idx[-1] if k == "circ" else idx[0]
                self.props[k][i] = (n2, self.props[k][i][1])
                for e, s in self.refs(k):
                    if n in e.poss[s]:
                        e.poss[s].add(n2)       # a renamed property may keep its entities
        elif o == "ent":
            t = op[1]
            e = Ent(self.next, t, xy=op[4] if t in ("node", "label") else None,
                    ends=(op[2], op[3]) if t in ("seg", "arc") else None)
            self.next += 1
            self.ents[t].append(e)
            if t in ("seg", "arc"):
                self.unselect()
        elif o == "sel":
            e = self.find(op[1], op[2])
            if e:
                e.sel = not e.sel
        elif o in ("clr", "move"):
            if o == "move":
                self.nmove += 1
                d = (0.001 * self.nmove, 0.0007 * self.nmove)
                for e in self.ents[op[1]]:
                    if e.sel and e.xy:
                        e.xy = (e.xy[0] + d[0], e.xy[1] + d[1])
            self.unselect()
        elif o in ("setnode", "setseg", "setarc", "setlabel"):
            t = {"setnode": "node", "setseg": "seg", "setarc": "arc", "setlabel": "label"}[o]
            d1 = "" if t == "arc" else "<None>"
            n1 = op[1] if op[1] is not None else d1
            n2 = op[2] if op[2] is not None else "<None>"
            for e in self.ents[t]:
                if e.sel:
                    e.names[0] = n1
                    e.poss[0] = {n1}
                    if has_slot(ph, t, True):
                        e.names[1] = n2
                        e.poss[1] = {n2}
        elif o == "copy":
            t = op[1]
            self.ncopy += 1
            d = self.copy_shift(self.ncopy)
            for e in list(self.ents[t]):
                if e.sel:
                    if t in ("node", "label"):
                        self.ents[t].append(e.clone(self.next, xy=(e.xy[0] + d[0], e.xy[1] + d[1])))
                        self.next += 1
                    else:
                        ids = []
                        for nid in e.ends:
                            nd = self.find("node", nid)
                            self.ents["node"].append(nd.clone(self.next, xy=(nd.xy[0] + d[0], nd.xy[1] + d[1])))
                            ids.append(self.next)
                            self.next += 1
                        self.ents[t].append(e.clone(self.next, ends=tuple(ids)))
                        self.next += 1
            self.unselect()
        elif o == "save":
            pass
        elif o == "reopen":
            self.reopened = True
            for t in TYPES:
                for e in self.ents[t]:
                    e.sel = False
                    if t == "label" and self.meaning("block", e.names[0]) is None:
                        e.names = ["<No Mesh>", "<None>"]
                    else:
                        for s, k in ((0, K1[t]), (1, "circ")):
                            if self.meaning(k, e.names[s]) is None:
                                e.names[s] = DEFAULT1[t] if s == 0 else "<None>"
                    # possibilities: what is not representable in the file comes back as "none"
                    blk_none = t == "label" and None in {self.meaning("block", s) for s in e.poss[0]}
                    for s, k in ((0, K1[t]), (1, "circ")):
                        e.poss[s] = {(x if self.meaning(k, x) is not None else "<None>") for x in e.poss[s]}
                    if blk_none:
                        e.poss[1].add("<None>")
            # holes are listed first in the file
            lab = self.ents["label"]
            self.ents["label"] = [e for e in lab if self.meaning("block", e.names[0]) is None] + \
                                 [e for e in lab if self.meaning("block", e.names[0]) is not None]
        else:
            raise ValueError(op)

    def refs(self, k):
        for t in TYPES:
            for e in self.ents[t]:
                if K1[t] == k:
                    yield e, 0
                if k == "circ":
                    yield e, 1

    @staticmethod
    def copy_shift(k):
        return (7.1 * k + 0.013 * k * k, 3.0 * k)


# ------------------------------------------------------------------------------------------
# rendering
# ------------------------------------------------------------------------------------------
def lstr(a):
    return "nil" if a is None else '"%s"' % a


def num(x):
    return repr(float(x))


def render_op(tr, op, savepath=None):
    """Lua text of one command; must be called BEFORE tr.step(op)."""
    p = PREFIX[tr.ph]
    ph = tr.ph
    o = op[0]
    if o == "add":
        k, n, v = op[1], op[2], tr.ninst
        if k == "block":
            if ph == "elec":
                return '%s_addmaterial("%s",%d,%d,1e-9)' % (p, n, 2 + v, 2 + v)
            if ph == "heat":
                return '%s_addmaterial("%s",%d,%d,0,0)' % (p, n, 2 + v, 2 + v)
            return '%s_addmaterial("%s",%d,%d,0,0,0,0,0,1,0,0,0)' % (p, n, 2 + v, 2 + v)
        if k == "bdry":
            if ph == "elec":
                return '%s_addboundprop("%s",%d,0,0,0,0)' % (p, n, 1000 + 17 * v)
            if ph == "heat":
                return '%s_addboundprop("%s",0,%d,0,0,0,0)' % (p, n, 300 + v)
            return '%s_addboundprop("%s",%d,0,0,0,0,0,0,0,0)' % (p, n, v)
        if k == "point":
            return '%s_addpointprop("%s",%d,0)' % (p, n, v)
        if ph == "mag":
            return '%s_addcircprop("%s",%d,1)' % (p, n, v)
        return '%s_addconductorprop("%s",%d,0,1)' % (p, n, v)
    if o == "del":
        f = {"block": "deletematerial", "bdry": "deleteboundprop", "point": "deletepointprop",
             "circ": "deletecircuit" if ph == "mag" else "deleteconductor"}[op[1]]
        return '%s_%s("%s")' % (p, f, op[2])
    if o == "ren":
        f = {"block": "modifymaterial", "bdry": "modifyboundprop", "point": "modifypointprop",
             "circ": "modifycircprop" if ph == "mag" else "modifyconductorprop"}[op[1]]
        cmd = '%s_%s("%s",0,"%s")' % (p, f, op[2], op[3])
        if ph == "heat" and op[1] == "bdry":
            # hi_modifyboundprop raises a Lua error for an unknown name (the others return silently)
            return 'call(function() %s end, {}, "x")' % cmd
        return cmd
    if o == "ent":
        t = op[1]
        if t == "node":
            return "%s_addnode(%s,%s)" % (p, num(op[4][0]), num(op[4][1]))
        if t == "label":
            return "%s_addblocklabel(%s,%s)" % (p, num(op[4][0]), num(op[4][1]))
        a, b = tr.find("node", op[2]), tr.find("node", op[3])
        if t == "seg":
            return "%s_addsegment(%s,%s,%s,%s)" % (p, num(a.xy[0]), num(a.xy[1]), num(b.xy[0]), num(b.xy[1]))
        return "%s_addarc(%s,%s,%s,%s,90,5)" % (p, num(a.xy[0]), num(a.xy[1]), num(b.xy[0]), num(b.xy[1]))
    if o == "sel":
        e = tr.find(op[1], op[2])
        x, y = tr.pos(e)
        f = {"node": "selectnode", "seg": "selectsegment", "arc": "selectarcsegment", "label": "selectlabel"}[op[1]]
        return "%s_%s(%s,%s)" % (p, f, num(x), num(y))
    if o == "clr":
        return "%s_clearselected()" % p
    if o == "setnode":
        if ph == "mag":
            return "%s_setnodeprop(%s,0)" % (p, lstr(op[1]))
        return "%s_setnodeprop(%s,0,%s)" % (p, lstr(op[1]), lstr(op[2]))
    if o == "setseg":
        if ph == "mag":
            return "%s_setsegmentprop(%s,0,1,0,0)" % (p, lstr(op[1]))
        return "%s_setsegmentprop(%s,0,1,0,0,%s)" % (p, lstr(op[1]), lstr(op[2]))
    if o == "setarc":
        if ph == "mag":
            return "%s_setarcsegmentprop(5,%s,0,0)" % (p, lstr(op[1]))
        return "%s_setarcsegmentprop(5,%s,0,0,%s)" % (p, lstr(op[1]), lstr(op[2]))
    if o == "setlabel":
        if ph == "mag":
            return "%s_setblockprop(%s,1,0,%s,0,0,1)" % (p, lstr(op[1]), lstr(op[2]))
        return "%s_setblockprop(%s,1,0,0)" % (p, lstr(op[1]))
    if o == "copy":
        d = Tracker.copy_shift(tr.ncopy + 1)
        return "%s_copytranslate(%s,%s,1,%d)" % (p, num(d[0]), num(d[1]), MODE[op[1]])
    if o == "move":
        m = tr.nmove + 1
        return "%s_movetranslate(%s,%s,%d)" % (p, num(0.001 * m), num(0.0007 * m), MODE[op[1]])
    if o == "save":
        return '%s_saveas("%s")' % (p, savepath)
    raise ValueError(op)


def coq_op(op):
    o = op[0]
    s = lambda a: "None" if a is None else '(Some "%s")' % a
    if o == "add":
        return 'Add %s "%s"' % (KCOQ[op[1]], op[2])
    if o == "del":
        return 'Del %s "%s"' % (KCOQ[op[1]], op[2])
    if o == "ren":
        return 'Rename %s "%s" "%s"' % (KCOQ[op[1]], op[2], op[3])
    if o == "ent":
        return "AddEnt %s %d %d" % (TCOQ[op[1]], op[2], op[3])
    if o == "sel":
        return "Select %s %d" % (TCOQ[op[1]], op[2])
    if o == "clr":
        return "ClearSel"
    if o == "setnode":
        return "SetNode %s %s" % (s(op[1]), s(op[2]))
    if o == "setseg":
        return "SetSeg %s %s" % (s(op[1]), s(op[2]))
    if o == "setarc":
        return "SetArc %s %s" % (s(op[1]), s(op[2]))
    if o == "setlabel":
        return "SetLabel %s %s" % (s(op[1]), s(op[2]))
    if o == "copy":
        return "Copy %s" % TCOQ[op[1]]
    if o == "move":
        return "Move %s" % TCOQ[op[1]]
    if o == "save":
        return "Save"
    if o == "reopen":
        return "Reopen"
    raise ValueError(op)


def coq_history(ops):
    return "[" + "; ".join(coq_op(o) for o in ops) + "]"


def lua_text(ph, ops):
    """human-readable replay script (paths shortened)"""
    tr = Tracker(ph)
    L = ["newdocument(%d)" % DOCNUM[ph]]
    k = 0
    for op in ops:
        if op[0] == "reopen":
            L.append('open("save%d%s")' % (k - 1, EXT[ph]))
        else:
            L.append(render_op(tr, op, "save%d%s" % (k, EXT[ph])))
            if op[0] == "save":
                k += 1
        tr.step(op)
    return L


# ------------------------------------------------------------------------------------------
# independent reader of the saved file
# ------------------------------------------------------------------------------------------
NAME_TAGS = {"point": "<pointname>", "bdry": "<bdryname>", "block": "<blockname>"}


def parse_saved(path, ph):
    """-> dict(props={kind: [names]}, counts={kind: n}, nodes=[(x,y,w1,w2)], segs=[(n0,n1,w1,w2)],
    arcs=[...], holes=[(x,y)], labels=[(x,y,w1,w2)])"""
    txt = open(path).read().split("\n")
    props = {k: [] for k in KINDS}
    counts = {k: 0 for k in KINDS}
    sect_of = {"[pointprops]": "point", "[bdryprops]": "bdry", "[blockprops]": "block",
               "[circuitprops]": "circ", "[conductorprops]": "circ"}
    cur = None
    i = 0
    out = dict(props=props, counts=counts, nodes=[], segs=[], arcs=[], holes=[], labels=[])
    cond = ph != "mag"
    while i < len(txt):
        line = txt[i].strip()
        i += 1
        low = line.lower()
        m = re.match(r"(\[[a-z]+\])\s*=\s*(.*)$", low)
        if m:
            key, val = m.group(1), m.group(2)
            if key in sect_of:
                cur = sect_of[key]
                counts[cur] = int(val)
                continue
            cur = None
            if key in ("[numpoints]", "[numsegments]", "[numarcsegments]", "[numholes]", "[numblocklabels]"):
                n = int(val)
                rows = [txt[i + j].split() for j in range(n)]
                i += n
                for r in rows:
                    if key == "[numpoints]":
                        out["nodes"].append((float(r[0]), float(r[1]), int(r[2]), int(r[4]) if cond else 0))
                    elif key == "[numsegments]":
                        out["segs"].append((int(r[0]), int(r[1]), int(r[3]), int(r[6]) if cond else 0))
                    elif key == "[numarcsegments]":
                        out["arcs"].append((int(r[0]), int(r[1]), int(r[4]), int(r[7]) if cond else 0))
                    elif key == "[numholes]":
                        out["holes"].append((float(r[0]), float(r[1])))
                    else:
                        out["labels"].append((float(r[0]), float(r[1]), int(r[2]), int(r[4]) if ph == "mag" else 0))
            continue
        if cur:
            m = re.match(r"<(\w+)>\s*=\s*\"(.*)\"\s*$", line)
            if m and m.group(1).lower() in ("pointname", "bdryname", "blockname", "circuitname", "conductorname"):
                props[cur].append(m.group(2))
    return out


def identify(tr, parsed):
    """Map the parsed file onto entity ids (by coordinates) -> the shape of the model's save_out,
    or raise ValueError."""
    def node_id(x, y):
        best = None
        for e in tr.ents["node"]:
            if abs(e.xy[0] - x) < 1e-9 and abs(e.xy[1] - y) < 1e-9:
                if best is not None:
                    raise ValueError("two nodes at (%r,%r)" % (x, y))
                best = e.id
        if best is None:
            raise ValueError("saved file has a node at (%r,%r) that the history did not create" % (x, y))
        return best

    def label_id(x, y):
        for e in tr.ents["label"]:
            if abs(e.xy[0] - x) < 1e-9 and abs(e.xy[1] - y) < 1e-9:
                return e.id
        raise ValueError("saved file has a label at (%r,%r) that the history did not create" % (x, y))

    nodes = [(node_id(x, y), w1, w2) for (x, y, w1, w2) in parsed["nodes"]]
    nid = [n[0] for n in nodes]

    def line_id(t, a, b):
        ends = {nid[a], nid[b]}
        for e in tr.ents[t]:
            if set(e.ends) == ends:
                return e.id
        raise ValueError("saved file has a %s between nodes %r that the history did not create" % (t, sorted(ends)))

    segs = [(line_id("seg", a, b), w1, w2) for (a, b, w1, w2) in parsed["segs"]]
    arcs = [(line_id("arc", a, b), w1, w2) for (a, b, w1, w2) in parsed["arcs"]]
    holes = [label_id(x, y) for (x, y) in parsed["holes"]]
    labels = [(label_id(x, y), w1, w2) for (x, y, w1, w2) in parsed["labels"]]
    props = [parsed["props"]["point"], parsed["props"]["bdry"], parsed["props"]["block"], parsed["props"]["circ"]]
    return (props, nodes, segs, arcs, holes, labels)


def canon(v):
    """model value (nested lists/tuples) -> comparable python structure"""
    if isinstance(v, (list, tuple)):
        return [canon(x) for x in v]
    return v


def file_meaning(obs, t, id, second, ph):
    """What an independent reader finds: ('none',) / ('name', n) / ('invalid', w) / ('absent',)"""
    props, nodes, segs, arcs, holes, labels = obs
    kind_list = {"point": props[0], "bdry": props[1], "block": props[2], "circ": props[3]}
    rows = {"node": nodes, "seg": segs, "arc": arcs, "label": labels}[t]
    if t == "label" and id in holes:
        return ("none",)
    for r in rows:
        if r[0] == id:
            w = r[2] if second else r[1]
            if w == 0:
                return ("none",)
            lst = kind_list["circ" if second else K1[t]]
            if 0 < w <= len(lst):
                return ("name", lst[w - 1])
            return ("invalid", w)
    return ("absent",)


# ------------------------------------------------------------------------------------------
# histories
# ------------------------------------------------------------------------------------------
BASE_FULL = [
    ("ent", "node", 0, 0, (0.0, 0.0)), ("ent", "node", 0, 0, (1.0, 0.0)), ("ent", "node", 0, 0, (2.0, 0.0)),
    ("ent", "node", 0, 0, (2.0, 1.0)), ("ent", "node", 0, 0, (1.0, 1.0)), ("ent", "node", 0, 0, (0.0, 1.0)),
    ("ent", "seg", 0, 1), ("ent", "seg", 1, 2), ("ent", "seg", 3, 4), ("ent", "seg", 4, 5), ("ent", "seg", 5, 0),
    ("ent", "seg", 1, 4),
    ("ent", "arc", 2, 3),
    ("ent", "label", 0, 0, (0.5, 0.5)), ("ent", "label", 0, 0, (1.5, 0.5)),
]
FULL_IDS = {"node": [0, 1, 2, 3, 4, 5], "seg": [6, 7, 8, 9, 10, 11], "arc": [12], "label": [13, 14]}


def assign(t, id, op):
    return [("clr",), ("sel", t, id), op, ("clr",)]


def focus_defs(ph):
    """(name, base ops, kind, [entity ids], set-op builder) for the exhaustive enumeration"""
    F = []
    F.append(("label/block", [("ent", "label", 0, 0, (0.0, 0.0)), ("ent", "label", 0, 0, (1.0, 0.0))], "block", "label",
              [0, 1], lambda n: ("setlabel", n, None)))
    F.append(("seg/bdry", [("ent", "node", 0, 0, (0.0, 0.0)), ("ent", "node", 0, 0, (1.0, 0.0)), ("ent", "node", 0, 0, (1.0, 1.0)),
                           ("ent", "seg", 0, 1), ("ent", "seg", 1, 2)], "bdry", "seg", [3, 4], lambda n: ("setseg", n, None)))
    F.append(("node/point", [("ent", "node", 0, 0, (0.0, 0.0)), ("ent", "node", 0, 0, (1.0, 0.0))], "point", "node",
              [0, 1], lambda n: ("setnode", n, None)))
    if ph != "heat":         # there is no hi_setarcsegmentprop
        F.append(("arc/bdry", [("ent", "node", 0, 0, (0.0, 0.0)), ("ent", "node", 0, 0, (1.0, 0.0)), ("ent", "node", 0, 0, (2.0, 0.0)),
                               ("ent", "arc", 0, 1), ("ent", "arc", 1, 2)], "bdry", "arc", [3, 4], lambda n: ("setarc", n, None)))
    if ph != "mag":
        F.append(("node/circ", [("ent", "node", 0, 0, (0.0, 0.0)), ("ent", "node", 0, 0, (1.0, 0.0))], "circ", "node",
                  [0, 1], lambda n: ("setnode", None, n)))
    else:
        F.append(("label/circ", [("ent", "label", 0, 0, (0.0, 0.0)), ("ent", "label", 0, 0, (1.0, 0.0)), ("add", "block", "M")],
                  "circ", "label", [0, 1], lambda n: ("setlabel", "M", n)))
    return F


def exhaustive(ph, focus, length):
    name, base, k, t, ids, mk = focus
    alpha = [
        [("add", k, "A")], [("add", k, "B")], [("del", k, "A")], [("del", k, "B")],
        [("ren", k, "A", "B")], [("ren", k, "B", "A")],
        assign(t, ids[0], mk("A")), assign(t, ids[0], mk("B")), assign(t, ids[0], mk(None)),
        assign(t, ids[1], mk("B")),
        [("save",), ("reopen",)],
    ]
    for word in itertools.product(range(len(alpha)), repeat=length):
        ops = list(base)
        for w in word:
            ops += alpha[w]
            if alpha[w][-1][0] != "reopen":
                ops.append(("save",))
        yield dict(ph=ph, kind="exhaustive:" + name, ops=ops, qs=[(t, i, k == "circ") for i in ids])


def random_history(rng, ph, probe=False):
    """a longer history over the full geometry and the whole command alphabet"""
    names = ["A", "B", "C"]
    ops = list(BASE_FULL)
    kinds = ["block", "bdry"] if probe else list(KINDS)
    types = ["seg", "label", "arc"] if probe else ([t for t in TYPES if not (ph == "heat" and t == "arc")])
    tr = Tracker(ph)
    for o in ops:
        tr.step(o)
    if probe:
        # a reference potential the history never touches keeps the problem well posed
        pre = [("add", "point", "REF"), ("sel", "node", 0), ("setnode", "REF", None), ("clr",)]
        for o in pre:
            tr.step(o)
        ops += pre
    # start from a populated document most of the time
    n = rng.randint(4, 22)
    out = []

    def emit(o):
        out.append(o)
        tr.step(o)

    def rname():
        return rng.choice(names)

    def rarg():
        return rng.choice(names + names + [None])

    if probe or rng.random() < 0.8:
        for k in kinds:
            for nm in rng.sample(names, rng.randint(2 if probe else 1, 3)):
                emit(("add", k, nm))
    if probe:
        for lid in FULL_IDS["label"]:
            for o in assign("label", lid, ("setlabel", rng.choice(tr.names("block")), None)):
                emit(o)
        if rng.random() < 0.4:
            # nothing has been deleted or renamed so far: every written index is in range
            emit(("save",))
            emit(("reopen",))
    for _ in range(n):
        r = rng.random()
        if r < 0.12:
            emit(("add", rng.choice(kinds), rname()))
        elif r < 0.27:
            emit(("del", rng.choice(kinds), rname()))
        elif r < 0.36:
            a, b = rng.sample(names, 2)
            emit(("ren", rng.choice(kinds), a, b))
        elif r < 0.78:
            t = rng.choice(types)
            cands = [e.id for e in tr.ents[t]]
            if not cands:
                continue
            if rng.random() < 0.75:
                emit(("clr",))
            for id in rng.sample(cands, min(len(cands), rng.choice([1, 1, 1, 2]))):
                emit(("sel", t, id))
            c = None if probe else rarg()
            if t == "node":
                emit(("setnode", rarg(), c))
            elif t == "seg":
                emit(("setseg", rarg(), c))
            elif t == "arc":
                emit(("setarc", rarg(), c))
            else:
                emit(("setlabel", rarg(), c))
            if rng.random() < 0.8:
                emit(("clr",))
        elif r < 0.84 and not probe:
            # copy the LAST entity of a list only (translateCopy crashes otherwise, defect D4)
            t = rng.choice(["node", "label", "seg"])
            if t == "label" and tr.reopened:
                continue
            emit(("clr",))
            emit(("sel", t, tr.ents[t][-1].id))
            emit(("copy", t))
        elif r < 0.88 and not probe:
            t = rng.choice(["node", "label"])
            emit(("clr",))
            emit(("sel", t, rng.choice([e.id for e in tr.ents[t]])))
            emit(("move", t))
        elif r < 0.94:
            emit(("save",))
        elif not probe:
            emit(("save",))
            emit(("reopen",))
    emit(("save",))
    qs = []
    for t in TYPES:
        for e in tr.ents[t]:
            for s in (False, True):
                if has_slot(ph, t, s):
                    qs.append((t, e.id, s))
    return dict(ph=ph, kind="probe" if probe else "random", ops=ops + out, qs=qs, probe=probe)


# ------------------------------------------------------------------------------------------
# running femmcli
# ------------------------------------------------------------------------------------------
def femmcli(ctx):
    """private copy of the snapshot's femmcli: a long run must not depend on the shared snapshot
    directory, which is evicted when other checks build other trees"""
    import shutil
    p = os.path.join(ctx.work, "femmcli.bin")
    if not os.path.exists(p):
        shutil.copy2(ctx.snap.tool("femmcli"), p)
    return p


def run_batch(ctx, jobs, tag):
    """jobs: list of (key, [lua lines]); every job is wrapped into a protected call.
    Returns (rc, stdout+stderr)."""
    exe = femmcli(ctx)
    L = []
    for n, (key, lines) in enumerate(jobs):
        L.append("function job%d()\n%s\nend\ncall(job%d,{},\"x\")\n" % (n, "\n".join(lines), n))
    path = os.path.join(ctx.work, "%s.lua" % tag)
    open(path, "w").write("".join(L))
    rc, out, err = vlib.sh([exe, "--lua-script=" + path], timeout=300, cwd=ctx.work)
    return rc, out + err


def execute(ctx, hists, tag):
    """Run every history through femmcli (split into one process stage per re-open).  Fills
    h['obs'] (one entry per Save: the identified file, or None), h['ops'] is truncated when a
    re-open is impossible (the saved file has an out-of-range index) and h['error'] is set on a crash."""
    for n, h in enumerate(hists):
        h["n"] = n
        h["tr"] = Tracker(h["ph"])
        h["pos"] = 0
        h["obs"] = []
        h["saves"] = 0
        h["error"] = None
        h["last_path"] = None
    stage = 0
    alive = list(hists)
    while alive:
        # render the next segment of every live history
        segs = []
        for h in alive:
            tr = h["tr"]
            lines = []
            ops = h["ops"]
            if h["pos"] == 0:
                lines.append("newdocument(%d)" % DOCNUM[h["ph"]])
            else:
                lines.append('open("%s")' % h["last_path"])
            i = h["pos"]
            paths = []
            trackers = []
            while i < len(ops) and ops[i][0] != "reopen":
                op = ops[i]
                sp = None
                if op[0] == "save":
                    sp = os.path.join(ctx.work, "%s_%d_%d%s" % (tag, h["n"], h["saves"], EXT[h["ph"]]))
                    h["saves"] += 1
                    paths.append(sp)
                lines.append(render_op(tr, op, sp))
                tr.step(op)
                if op[0] == "save":
                    trackers.append(snapshot_geometry(tr))
                i += 1
            segs.append((h, lines, paths, trackers, i))
        B = 150
        for s in range(0, len(segs), B):
            part = segs[s:s + B]
            jobs = [(g[0]["n"], g[1]) for g in part]
            rc, out = run_batch(ctx, jobs, "%s_s%d_%d" % (tag, stage, s))
            if rc != 0 and len(part) > 1:
                # a crash loses the rest of the batch: rerun one by one to find the culprit
                for g in part:
                    for p in g[2]:
                        if os.path.exists(p):
                            os.remove(p)
                    rc1, out1 = run_batch(ctx, [(g[0]["n"], g[1])], "%s_single" % tag)
                    if rc1 != 0:
                        g[0]["error"] = "femmcli exit status %d: %s" % (rc1, out1[-300:])
            elif rc != 0:
                part[0][0]["error"] = "femmcli exit status %d: %s" % (rc, out[-300:])
        nxt = []
        for (h, lines, paths, geos, i) in segs:
            ok = True
            for p, geo in zip(paths, geos):
                if not os.path.exists(p):
                    h["obs"].append(None)
                    if not h["error"]:
                        h["error"] = "no file was written by saveas (Lua error or crash)"
                    ok = False
                    continue
                try:
                    parsed = parse_saved(p, h["ph"])
                    h["obs"].append(identify(geo, parsed))
                except (ValueError, IndexError) as e:
                    h["obs"].append(None)
                    h["error"] = "saved file not understood: %s" % e
                    ok = False
                h["last_path"] = p
            if h["error"]:
                ok = False
            if ok and i < len(h["ops"]):
                # a re-open follows: only possible when every written index is in range
                last = h["obs"][-1]
                if last is None or not indices_in_range(last, h["ph"]):
                    h["ops"] = h["ops"][:i]
                    h["truncated"] = True
                else:
                    h["tr"].step(("reopen",))
                    h["pos"] = i + 1
                    nxt.append(h)
        # remove the files of finished histories except the last one needed for re-opening
        alive = nxt
        stage += 1
    for h in hists:
        for k in range(h["saves"]):
            p = os.path.join(ctx.work, "%s_%d_%d%s" % (tag, h["n"], k, EXT[h["ph"]]))
            if os.path.exists(p):
                os.remove(p)


class Geo:
    """frozen copy of the coordinates at a save point (later moves must not disturb identification)"""
    def __init__(self, tr):
        self.ents = {t: [] for t in TYPES}
        for t in TYPES:
            for e in tr.ents[t]:
                g = Ent(e.id, t, e.xy, e.ends)
                self.ents[t].append(g)


def snapshot_geometry(tr):
    return Geo(tr)


def indices_in_range(obs, ph):
    props, nodes, segs, arcs, holes, labels = obs
    n = {"point": len(props[0]), "bdry": len(props[1]), "block": len(props[2]), "circ": len(props[3])}
    for rows, t in ((nodes, "node"), (segs, "seg"), (arcs, "arc"), (labels, "label")):
        for r in rows:
            if not (0 <= r[1] <= n[K1[t]] and 0 <= r[2] <= n["circ"]):
                return False
    return True


# ------------------------------------------------------------------------------------------
# oracle
# ------------------------------------------------------------------------------------------
def classify(ops, ph="elec"):
    """stable key of the mechanism behind a (minimised) violating history"""
    kinds = {o[0] for o in ops}
    if "del" in kinds:
        return "delete-shifts-indices"
    tr = Tracker(ph)
    dangling = False
    stale = set()          # kinds whose name->index map was left stale by a rename
    used_stale = False
    for o in ops:
        if o[0] == "ren" and o[1] == "circ" and "circ" in stale:
            used_stale = True       # conductors/circuits are looked up for renaming through the map
        if o[0] == "ren" and o[1] in ("point", "circ") and o[2] in tr.names(o[1]):
            stale.add(o[1])
        if o[0] == "add":
            stale.discard(o[1])
        if o[0] in ("setnode", "setseg", "setarc", "setlabel"):
            t = {"setnode": "node", "setseg": "seg", "setarc": "arc", "setlabel": "label"}[o[0]]
            if o[1] is not None and K1[t] in stale:
                used_stale = True
            if has_slot(ph, t, True) and o[2] is not None and "circ" in stale:
                used_stale = True
            if o[1] is not None and o[1] not in tr.names(K1[t]):
                dangling = True
            if has_slot(ph, t, True) and o[2] is not None and o[2] not in tr.names("circ"):
                dangling = True
        tr.step(o)
    if used_stale:
        return "rename-leaves-stale-map"
    if dangling:
        return "assign-before-define-dropped"
    if "ren" in kinds:
        return "rename-changes-association"
    if "reopen" in kinds:
        return "reopen-changes-association"
    return "unclassified"


def severity(b):
    """re-targeting to another existing property first, then invalid indices, then lost associations"""
    if "entity" not in b:
        return 3
    if isinstance(b.get("saved"), str) and not b["saved"].startswith("index"):
        return 0
    if b.get("saved") is not None:
        return 1
    return 2


def oracle(h, upto=None):
    """Replay the history in the name-level tracker and compare, at every save, the meaning read
    from the file with the allowed associations.  Returns a list of problem dicts."""
    ph = h["ph"]
    tr = Tracker(ph)
    bad = []
    k = 0
    for idx, op in enumerate(h["ops"]):
        tr.step(op)
        if op[0] != "save":
            continue
        if k >= len(h["obs"]):
            break
        obs = h["obs"][k]
        k += 1
        if obs is None:
            continue
        # property lists: the same names, in the same order, as the name-level document
        want = [tr.names("point"), tr.names("bdry"), tr.names("block"), tr.names("circ")]
        got = obs[0]
        if [sorted(x) for x in want] != [sorted(x) for x in got]:
            bad.append(dict(at=idx, what="property lists in the saved file %r differ from the lists the commands describe %r" % (got, want)))
            continue
        for t in TYPES:
            for e in tr.ents[t]:
                for second in (False, True):
                    if not has_slot(ph, t, second):
                        continue
                    m = file_meaning(obs, t, e.id, second, ph)
                    allowed = tr.allowed(e, second)
                    if m[0] == "absent":
                        bad.append(dict(at=idx, what="%s %d is missing from the saved file" % (t, e.id)))
                    elif m[0] == "invalid":
                        bad.append(dict(at=idx, entity=[t, e.id, second], saved="index %d out of range" % m[1],
                                        allowed=sorted(map(str, allowed)),
                                        what="%s %d is written with property index %d but the file has fewer properties" % (t, e.id, m[1])))
                    else:
                        v = None if m[0] == "none" else m[1]
                        if v not in allowed:
                            kind = "silently re-targeted to a different property" if (v is not None) else "association lost"
                            bad.append(dict(at=idx, entity=[t, e.id, second], saved=v, allowed=sorted(map(str, allowed)),
                                            last_assigned=e.names[1 if second else 0],
                                            what="%s %d (%s reference): saved file says %r, the history allows %s — %s"
                                                 % (t, e.id, "conductor/circuit" if second else K1[t], v,
                                                    sorted(map(str, allowed)), kind)))
    return bad


def strict_assoc(h):
    """the Coq specification's `assoc` at the end of the history, computed here"""
    tr = Tracker(h["ph"])
    for op in h["ops"]:
        tr.step(op)
    out = []
    for (t, id, s) in h["qs"]:
        e = tr.find(t, id)
        out.append(tr.strict(e, s) if e else None)
    return out


def shrink(ctx, h, fails, budget=150, nbase=0):
    """greedy removal of commands while fails(ops) still holds"""
    ops = list(h["ops"])
    i = len(ops) - 1
    k = 0
    while i >= nbase and budget > 0:
        if ops[i][0] in ("save",) and i == len(ops) - 1:
            i -= 1
            continue
        trial = ops[:i] + ops[i + 1:]
        if ops[i][0] == "reopen":
            trial = ops[:i - 1] + ops[i + 1:]        # the save that feeds the re-open goes with it
        elif i + 1 < len(ops) and ops[i][0] == "save" and ops[i + 1][0] == "reopen":
            i -= 1
            continue
        budget -= 1
        if fails(trial, k):
            ops = trial
        k += 1
        i -= 1
    return ops


def still_fails(ctx, ph, ops, sev, k):
    """the saved-file oracle still reports a violation at least as severe"""
    try:
        t = dict(ph=ph, kind="shrink", ops=list(ops), qs=[])
        execute(ctx, [t], "shr%d" % k)
        if t["error"]:
            return False
        return any(severity(b) <= sev for b in oracle(t))
    except Exception:
        return False


def probe_violation(r):
    """what the analysis used is not an allowed association -> message, else None"""
    if not r or r["status"] != "ran":
        return None
    tr = r["tr"]
    for (t, id_), used in sorted(r["used"].items()):
        e = tr.find(t, id_)
        if e is not None and used not in tr.allowed(e, False):
            return ("the analysis ran (no refusal) and used %r for %s %d although the history allows only %s"
                    % (used, t, id_, sorted(map(str, tr.allowed(e, False)))))
    return None


# ------------------------------------------------------------------------------------------
# analysis probe (electrostatics): does the analysis refuse, and what does it use?
# ------------------------------------------------------------------------------------------
def run_probe(ctx, h, n):
    ph = h["ph"]
    tr = Tracker(ph)
    lines = ["newdocument(1)", 'ei_probdef("meters","planar",1e-8,1,30)']
    path = os.path.join(ctx.work, "probe%d.fee" % n)
    for op in h["ops"]:
        if op[0] == "reopen":
            lines.append('open("%s")' % path)
        else:
            lines.append(render_op(tr, op, path))
        tr.step(op)
    lines.append('ei_saveas("%s")' % path)
    lines.append("ok = 0")
    lines.append("function an() ei_analyze() ok = 1 end")
    lines.append('call(an, {}, "x")')
    lines.append('print("@@gate", ok)')
    lines.append("if ok == 1 then")
    lines.append("  ei_loadsolution()")
    q = 0
    for e in tr.ents["label"]:
        lines.append("  function q%d() local V,Dx,Dy,Ex,Ey,ex,ey,nrg = eo_getpointvalues(%s,%s) print(\"@@L\", %d, ex) end call(q%d,{},\"x\")"
                     % (q, num(e.xy[0]), num(e.xy[1]), e.id, q))
        q += 1
    for e in tr.ents["seg"]:
        x, y = tr.pos(e)
        lines.append("  function q%d() local V = eo_getpointvalues(%s,%s) print(\"@@S\", %d, V) end call(q%d,{},\"x\")"
                     % (q, num(x), num(y), e.id, q))
        q += 1
    lines.append("end")
    sp = os.path.join(ctx.work, "probe%d.lua" % n)
    open(sp, "w").write("\n".join(lines) + "\n")
    rc, out, err = vlib.sh([femmcli(ctx), "--lua-script=" + sp], timeout=8, cwd=ctx.work)
    txt = out + "\n" + err
    for f in os.listdir(ctx.work):
        if f.startswith("probe%d." % n):
            os.remove(os.path.join(ctx.work, f))
    m = re.search(r"@@gate\s+(\d)", txt)
    if rc != 0 or not m:
        return dict(status="crash", rc=rc, text=txt[-400:])
    if m.group(1) == "0":
        if ("consistency check failed before meshing" in txt or "Material properties have not" in txt
                or "No block information" in txt):
            return dict(status="refused", tr=tr)
        return dict(status="other-failure", text=txt[-400:], tr=tr)
    used = {}
    for mm in re.finditer(r"@@L\s+(\d+)\s+(\S+)", txt):
        id, v = int(mm.group(1)), mm.group(2)
        if v == "nil":
            used[("label", id)] = None
        else:
            inst = int(round(float(v))) - 2
            nm = [n for (n, val) in tr.props["block"] if val == inst]
            used[("label", id)] = nm[0] if nm else "?instance%d" % inst
    for mm in re.finditer(r"@@S\s+(\d+)\s+(\S+)", txt):
        id, v = int(mm.group(1)), mm.group(2)
        if v == "nil":
            continue            # not part of the meshed region: not observable
        V = float(v)
        hit = [n for (n, val) in tr.props["bdry"] if abs(V - (1000 + 17 * val)) < 1e-6]
        used[("seg", id)] = hit[0] if hit else None
    return dict(status="ran", used=used, tr=tr)


# ------------------------------------------------------------------------------------------
# correspondence
# ------------------------------------------------------------------------------------------
def model_eval(hists, quick):
    exprs = []
    for h in hists:
        qs = "[" + "; ".join("(%s, %d, %s)" % (TCOQ[t], id, "true" if s else "false") for (t, id, s) in h["qs"]) + "]"
        ph = PHCOQ[h["ph"]]
        e = ("let h := %s in let qs := %s in (trace false %s h, trace true %s h, "
             "map (fun q => let '(t, id, s) := q in m_out (of_assoc (assoc %s h t id s))) qs%s)"
             % (coq_history(h["ops"]), qs, ph, ph, ph,
                (", probe_out %s (run false %s h) qs, probe_out %s (run true %s h) qs" % (ph, ph, ph, ph))
                if h.get("probe") else ""))
        exprs.append(e)
    return parallel_eval(exprs, 150 if quick else 400)


def _eval_chunk(chunk):
    return vlib.coq_eval(HEADER, chunk, shard=len(chunk) + 1, timeout=2400)


def parallel_eval(exprs, shard):
    """vm_compute the expressions in several coqc processes (each worker process has its own
    scratch directory in vlib.coq_eval)"""
    import concurrent.futures, multiprocessing
    chunks = [exprs[i:i + shard] for i in range(0, len(exprs), shard)]
    if len(chunks) <= 1:
        return _eval_chunk(exprs) if exprs else []
    workers = max(1, min(6, (os.cpu_count() or 2) // 2, len(chunks)))
    out = []
    with concurrent.futures.ProcessPoolExecutor(max_workers=workers, mp_context=multiprocessing.get_context("fork")) as ex:
        for part in ex.map(_eval_chunk, chunks):
            out.extend(part)
    return out


def from_json_ops(ops):
    return [tuple(tuple(x) if isinstance(x, list) else x for x in o) for o in ops]


def gen_all(ctx):
    rng = ctx.rng
    hists = []
    rp = getattr(ctx, "replay", None)
    if rp and isinstance(rp.get("replay"), dict) and rp["replay"].get("ops"):
        r = rp["replay"]
        ops = from_json_ops(r["ops"])
        tr = Tracker(r.get("physics", "elec"))
        for o in ops:
            if o[0] != "reopen":
                tr.step(o)
        qs = [(t, e.id, s) for t in TYPES for e in tr.ents[t] for s in (False, True) if has_slot(tr.ph, t, s)]
        return [dict(ph=tr.ph, kind="replay", ops=ops, qs=qs, probe=bool(r.get("probe")))]
    cdir = os.path.join(vlib.VERIF, "corpus", "C15")
    if os.path.isdir(cdir):
        for f in sorted(os.listdir(cdir)):
            c = json.load(open(os.path.join(cdir, f)))
            c["ops"] = from_json_ops(c["ops"])
            c["qs"] = [tuple(q) for q in c["qs"]]
            hists.append(c)
    if ctx.quick():
        for ph in ("elec", "mag", "heat"):
            F = focus_defs(ph)
            hists += list(exhaustive(ph, F[0], 2))
            if ph == "elec":
                for f in F[1:]:
                    hists += list(exhaustive(ph, f, 2))
            for _ in range(35):
                hists.append(random_history(rng, ph))
        for _ in range(30):
            hists.append(random_history(rng, "elec", probe=True))
    else:
        for ph in ("elec", "mag", "heat"):
            F = focus_defs(ph)
            for n, f in enumerate(F):
                deep = (ph == "elec" and n in (0, 1, 4)) or (ph == "mag" and n == 0)
                hists += list(exhaustive(ph, f, 4 if deep else 3))
            for _ in range(1200):
                hists.append(random_history(rng, ph))
        for _ in range(400):
            hists.append(random_history(rng, "elec", probe=True))
    return hists


def correspond(ctx):
    hists = gen_all(ctx)
    execute(ctx, hists, "h")
    dis = []
    # ---- crashes / unreadable output
    for h in hists:
        if h["error"]:
            ctx.fail("femmcli failed on a command history: %s" % h["error"], signature="femmcli-crash",
                     physics=h["ph"], lua=lua_text(h["ph"], h["ops"]))
            break
    live = [h for h in hists if not h["error"]]
    # ---- property oracle on the implementation (independent of the Coq model)
    found = {}
    nviol = 0
    for h in live:
        bad = oracle(h)
        if bad:
            nviol += 1
            b = min(bad, key=lambda x: (severity(x), x["at"]))
            sig = classify(h["ops"][:b["at"] + 1], h["ph"])
            key = (severity(b), len(h["ops"]))
            if sig not in found or key < found[sig][0]:
                found[sig] = (key, h, b)
    reported = set()
    for sig0, (key, h, b) in sorted(found.items()):
        cut = dict(h, ops=h["ops"][:b["at"] + 1])
        ph_ = h["ph"]
        ops = shrink(ctx, cut, lambda o, k: still_fails(ctx, ph_, o, key[0], k))
        sig = classify(ops, ph_)
        if sig in reported:
            continue
        reported.add(sig)
        t = dict(ph=h["ph"], kind="min", ops=ops, qs=[])
        execute(ctx, [t], "min")
        bb = sorted(oracle(t), key=severity)
        detail = bb[0] if bb else b
        ctx.fail("saved file does not keep the association the script made: " + detail["what"],
                 signature=sig, physics=h["ph"], history=[coq_op(o) for o in strip_base(ops)],
                 lua=lua_text(h["ph"], ops), detail={k: v for k, v in detail.items() if k != "what"}, ops=ops)
    # ---- analysis probes
    probes = [h for h in live if h.get("probe")]
    pres = {}
    nprobe = nrefused = nran = 0
    pfound = {}
    for n, h in enumerate(probes):
        r = run_probe(ctx, h, n)
        pres[id(h)] = r
        if r is None:
            continue
        nprobe += 1
        if r["status"] == "crash":
            sig = "crash:" + classify(h["ops"], "elec")
            if sig not in pfound or len(h["ops"]) < len(pfound[sig][0]["ops"]):
                pfound[sig] = (h, "femmcli crashed or hung (exit status %s) while analysing a document built by a command "
                                  "history; the analysis did not refuse to run" % r["rc"])
            continue
        if r["status"] == "refused":
            nrefused += 1
        if r["status"] == "ran":
            nran += 1
            msg = probe_violation(r)
            if msg:
                sig = classify(h["ops"], "elec")
                if sig not in pfound or len(h["ops"]) < len(pfound[sig][0]["ops"]):
                    pfound[sig] = (h, msg)
    preported = set()
    for sig0, (h, msg) in sorted(pfound.items()):
        cnt = [0]

        crash = sig0.startswith("crash:")

        def pf(o, k):
            cnt[0] += 1
            r = run_probe(ctx, dict(ph="elec", ops=o), 1000 + cnt[0])
            if crash:
                return bool(r) and r["status"] == "crash" and r["rc"] != 124
            return probe_violation(r) is not None
        ops = shrink(ctx, h, pf, budget=(10 if crash else 20) if ctx.quick() else (25 if crash else 40), nbase=len(BASE_FULL) + 4)
        sig = ("analysis-crash:" if crash else "analysis-uses-other-property:") + classify(ops, "elec") + \
              ("-after-open" if any(o[0] == "reopen" for o in ops) else "")
        if sig in preported:
            continue
        preported.add(sig)
        if not crash:
            msg = probe_violation(run_probe(ctx, dict(ph="elec", ops=ops), 999)) or msg
        ctx.fail(msg, signature=sig, physics="elec", history=[coq_op(o) for o in strip_base(ops)],
                 lua=lua_text("elec", ops), ops=ops, probe=True)
    # ---- the Coq model on the same histories
    model = model_eval(live, ctx.quick())
    agree = {False: 0, True: 0}
    first_dis = {False: None, True: None}
    specdrift = None
    for h, m in zip(live, model):
        want = [canon(o) if o is not None else None for o in h["obs"]]
        for fx, tr in ((False, m[0]), (True, m[1])):
            got = canon(tr)
            ok = len(got) >= len(want) and all(w is None or w == g for w, g in zip(want, got))
            if ok:
                agree[fx] += 1
            elif first_dis[fx] is None or len(h["ops"]) < len(first_dis[fx][0]["ops"]):
                k = next(i for i, (w, g) in enumerate(zip(want, got + [None] * len(want))) if w is not None and w != g)
                first_dis[fx] = (h, k, want[k], got[k] if k < len(got) else None)
        sa = strict_assoc(h)
        ma = [coq_option(x) for x in m[2]]
        if sa != ma and specdrift is None:
            specdrift = (h, sa, ma)
    cands = [fx for fx in (False, True) if agree[fx] == len(live)]
    variant = cands[0] if cands else None
    if variant is None:
        fx = agree[True] > agree[False]
        h, k, w, g = first_dis[fx]
        dis.append(dict(what="saved file differs from both model variants (closest: fx=%s, %d of %d histories agree; "
                             "fx=%s: %d): save #%d, implementation %r, model %r"
                             % (fx, agree[fx], len(live), not fx, agree[not fx], k, w, g),
                        physics=h["ph"], history=[coq_op(o) for o in strip_base(h["ops"])], lua=lua_text(h["ph"], h["ops"])))
    if specdrift:
        h, sa, ma = specdrift
        dis.append(dict(what="the oracle's strict reading and the Coq specification `assoc` differ: %r vs %r" % (sa, ma),
                        history=[coq_op(o) for o in strip_base(h["ops"])]))
    # gate / analysis of the corresponding variant against the probes
    ngate = 0
    if variant is not None:
        for h, m in zip(live, model):
            if not h.get("probe"):
                continue
            r = pres.get(id(h))
            if not r or r["status"] not in ("refused", "ran", "crash"):
                continue
            pm = m[4] if variant else m[3]
            gate_model = bool(pm[0])
            ngate += 1
            if r["status"] == "crash":
                # expected exactly when the gate lets an out-of-range index through
                if not (gate_model and any(mm[0] == 2 for mm in pm[1])):
                    dis.append(dict(what="femmcli crashed during analysis but the model (fx=%s) predicts %s"
                                         % (variant, "a refusal" if not gate_model else "a normal run"),
                                    history=[coq_op(o) for o in strip_base(h["ops"])], lua=lua_text("elec", h["ops"])))
                    break
                continue
            if gate_model != (r["status"] == "ran"):
                dis.append(dict(what="analysis gate: implementation %s, model (fx=%s) %s"
                                     % (r["status"], variant, "accepts" if gate_model else "refuses"),
                                history=[coq_op(o) for o in strip_base(h["ops"])], lua=lua_text("elec", h["ops"])))
                break
            if r["status"] == "ran":
                for q, mm in zip(h["qs"], pm[1]):
                    t, id_, s = q
                    if s or (t, id_) not in r["used"]:
                        continue
                    mv = mm[1] if mm[0] == 1 else None
                    if mm[0] == 2 or mv != r["used"][(t, id_)]:
                        dis.append(dict(what="analysis used %r for %s %d, model (fx=%s) says %r"
                                             % (r["used"][(t, id_)], t, id_, variant, mm),
                                        history=[coq_op(o) for o in strip_base(h["ops"])], lua=lua_text("elec", h["ops"])))
                        break
    # ---- coverage
    cov = ctx.res.cov
    kinds = {}
    nontriv = set()
    for h in hists:
        kinds[h["kind"].split(":")[0] + "/" + h["ph"]] = kinds.get(h["kind"].split(":")[0] + "/" + h["ph"], 0) + 1
        o = {x[0] for x in h["ops"]}
        if o & {"setnode", "setseg", "setarc", "setlabel"} and o & {"del", "ren", "add"}:
            nontriv.add((h["ph"], tuple(h["ops"])))
    cov["evaluations"] = len(hists)
    cov["distinct_nontrivial"] = len(nontriv)
    cov["rule"] = ("command histories over names {A,B,C}: exhaustive words over {add, delete, rename, assign to one of two entities, "
                   "save+re-open} per reference kind (save after every step) and seeded random histories over the whole alphabet "
                   "(all four property kinds, nodes/segments/arcs/labels, multi-selection, copy, move, save, re-open) for the three "
                   "document types; non-trivial = contains an assignment and a property-list change; distinct = distinct command lists")
    cov["input_distribution"] = dict(kinds=kinds, saves_compared=sum(len([o for o in h["obs"] if o is not None]) for h in live),
                                     histories_violating_property=nviol, probes=nprobe, probes_refused=nrefused, probes_ran=nran,
                                     gate_verdicts_compared=ngate,
                                     mean_length=round(sum(len(strip_base(h["ops"])) for h in hists) / max(1, len(hists)), 1))
    cov["model_variant_matching_implementation"] = ("both (no history distinguishes them)" if len(cands) == 2 else
                                                    {None: "neither", False: "fx=false (unrepaired code)", True: "fx=true (repaired code)"}[variant])
    cov["agreement"] = {"fx=false": agree[False], "fx=true": agree[True], "histories": len(live)}
    cov["violation_classes_seen"] = sorted(reported) + sorted(preported)
    ex = [h for h in hists if h["kind"] == "random"][:1] + [h for h in hists if h["kind"].startswith("exhaustive")][200:201]
    cov["samples"] = [lua_text(h["ph"], h["ops"])[:40] for h in ex]
    ctx.res.notes.append("model variant matching the working tree: %s" % cov["model_variant_matching_implementation"])
    return dis


def coq_option(v):
    """(0, "") -> None, (1, n) -> n   (the model's m_out encoding)"""
    return v[1] if v[0] == 1 else None


def strip_base(ops):
    return [o for o in ops if o[0] != "ent"]


def search(ctx, broken):
    """A proof or the correspondence broke: run the property oracle on a larger batch."""
    rng = vlib.Rng(ctx.seed + 7)
    hists = []
    for ph in ("elec", "mag", "heat"):
        for _ in range(300):
            hists.append(random_history(rng, ph))
        hists += list(exhaustive(ph, focus_defs(ph)[0], 3))
    execute(ctx, hists, "srch")
    out = []
    seen = set()
    for h in hists:
        if h["error"]:
            continue
        bad = oracle(h)
        if bad:
            sig = classify(h["ops"][:bad[0]["at"] + 1], h["ph"])
            if sig in seen:
                continue
            seen.add(sig)
            out.append(dict(what="saved file does not keep the association the script made: " + bad[0]["what"], signature=sig,
                            physics=h["ph"], history=[coq_op(o) for o in strip_base(h["ops"])], lua=lua_text(h["ph"], h["ops"])))
    return out
