"""C05 — static and time-harmonic magnetic solutions satisfy the discrete field equations.
Models: coq/theories/AsmM.v (FSolver::Static2D linear path, WriteStatic2D label lines),
AsmMH.v (FSolver::Harmonic2D linear path, WriteHarmonic2D label lines); theorems:
Properties_C05.v.  Correspondence: generated .fem problems (tools/props/c05_gen.py) -> real
fmesher -> harness h_fsolver (real LoadProblemFile / LoadMesh / Cuthill / Static2D or
Harmonic2D) dumps the solver's data, the libm values and the assembled system; the float
reading of the models must reproduce matrix, right-hand side, circuit results, written label
lines and element permeabilities.  Property oracle: an independent SI-unit P1 Galerkin
assembly (numpy) checked on the potentials and circuit lines the REAL fsolver binary writes
to the .ans file."""
import os, math, json, cmath
import numpy as np
import vlib, femgen
from props import c05_gen

# axisymmetric solvers (FSolver::StaticAxisymmetric / HarmonicAxisymmetric): models AsmMAxi.v / AsmMHAxi.v, theorems in
# Properties_C05_axi.v (+ C06 / C10 / C11 parts in their own files), harness h_fsolver_axi.cpp (props/xaxi.py)
EXTENSIONS = ["xaxi"]
EXTRA_PROPERTY_FILES = ["C05_axi", "C05_nl", "C05_prev", "C19_nlaxi"]
LEVEL = "proof"
COQ_MODULES = ["AsmM", "AsmMH"]
ASSUMPTIONS = [
    "theorems are about the real-number reading (pairs of reals for the harmonic model); rounding is not bounded",
    "linear materials only (BHpoints = 0): the Newton branch, air-gap elements, wire-type laminations (LamType >= 3), "
    "small-skin-depth boundaries (BdryFormat 1), polar boundary coordinates, ACSolver = 1 and previous-solution "
    "(incremental / frozen permeability) runs are neither modelled nor generated; axisymmetric problems are out of scope",
    "Triangle, the file readers and Cuthill-McKee renumbering are not modelled: the models start from the solver's "
    "in-memory mesh after LoadMesh+Cuthill (dumped by the harness)",
    "libm values (cos/sin of the magnetisation direction incl. Lua-expression directions, cos(phi*DEG), complex exp and "
    "tanh of the lamination formulas) are inputs of the models, recomputed by the harness with the solver's expressions",
    "the assembled right-hand side is captured by the harness when the linear solver announces itself on stdout, because "
    "Static2D / Harmonic2D overwrite L.b with V*c afterwards",
    "the linear solve itself is C09's subject; here the written potentials are checked against an independent assembly",
]
HEADER = ("From Coq Require Import ZArith List Floats. Import ListNotations. "
          "From XF Require Import Arith Sparse CSparse AsmE AsmM AsmMH.")
MU0 = 4e-7 * math.pi


# ---------------------------------------------------------------------------- dump ----
def parse_dump(path):
    d = dict(nodes=[], elems=[], blocks=[], lines=[], points=[], circs=[], labels=[], pbcs=[], rows={}, fail=None,
             circres=[], wlabels=[], emu=[])
    for line in open(path):
        t = line.split()
        if not t:
            continue
        k = t[0]
        fl = lambda a, b: [float(x) for x in t[a:b]]
        if k == "FAIL":
            d["fail"] = t[1]
        elif k == "PROB":
            d.update(freq=float(t[1]), prec=float(t[2]), unit=int(t[3]), coords=int(t[4]), axi=int(t[5]), bw=int(t[6]),
                     nn=int(t[7]), ne=int(t[8]), nc=int(t[9]), ncorig=int(t[10]), nl=int(t[11]), nage=int(t[12]), acsolver=int(t[13]))
        elif k == "NODE":
            d["nodes"].append((float(t[1]), float(t[2]), int(t[3])))
        elif k == "ELEM":
            d["elems"].append(tuple(int(x) for x in t[1:9]) + tuple(fl(9, 12)))
        elif k == "BLOCK":
            v = fl(1, 11) + [int(t[11]), float(t[12]), int(t[13])] + fl(14, 26)
            d["blocks"].append(dict(mu_x=v[0], mu_y=v[1], H_c=v[2], Jre=v[3], Jim=v[4], Cduct=v[5], Lam_d=v[6], Theta_hn=v[7],
                                    Theta_hx=v[8], Theta_hy=v[9], LamType=v[10], LamFill=v[11], BHpoints=v[12],
                                    ex=(v[13], v[14]), ey=(v[15], v[16]), hx=(v[17], v[18]), hy=(v[19], v[20]),
                                    tx=(v[21], v[22]), ty=(v[23], v[24])))
        elif k == "LINE":
            v = fl(2, 15)
            d["lines"].append(dict(fmt=int(t[1]), A0=v[0], A1=v[1], A2=v[2], phi=v[3], c0=(v[4], v[5]), c1=(v[6], v[7]),
                                   Mu=v[8], Sig=v[9], cosphi=v[10], expphi=(v[11], v[12])))
        elif k == "POINT":
            d["points"].append(tuple(fl(1, 5)))
        elif k == "CIRC":
            d["circs"].append(dict(type=int(t[1]), amps=(float(t[2]), float(t[3])), dvolts=(float(t[4]), float(t[5])), orig=int(t[6])))
        elif k == "LABEL":
            d["labels"].append(dict(blk=int(t[1]), circ=int(t[2]), magdir=float(t[3]), turns=int(t[4]), wound=int(t[5]),
                                    proxmu=(float(t[6]), float(t[7])), fctn=int(t[8])))
        elif k == "CIRCRES":
            d["circres"].append((int(t[1]),) + tuple(fl(2, 6)))
        elif k == "WLABEL":
            d["wlabels"].append((int(t[1]),) + tuple(fl(2, len(t))))
        elif k == "PBC":
            d["pbcs"].append((int(t[1]), int(t[2]), int(t[3])))
        elif k == "SOLVED":
            d["solved"] = int(t[1]); d["captured"] = int(t[2])
        elif k == "ROW":
            i, cnt = int(t[1]), int(t[2])
            d["rows"][i] = t[3:]
        elif k in ("B0", "V", "BFINAL"):
            d[k] = [float(x) for x in t[1:]]
        elif k == "EMU":
            d["emu"].append(tuple(fl(2, 6)))
    d["harmonic"] = d.get("freq", 0) != 0
    return d


def parse_ans(path, harmonic):
    """the [Solution] section the real fsolver wrote: nodes (x, y in length units, A), elements,
    per-label circuit lines, PBCs"""
    L = open(path).read().split("\n")
    i = next(k for k, l in enumerate(L) if l.strip() == "[Solution]") + 1
    nn = int(L[i]); i += 1
    nodes = []
    for k in range(nn):
        t = L[i + k].split()
        if harmonic:
            nodes.append((float(t[0]), float(t[1]), complex(float(t[2]), float(t[3])), int(t[4])))
        else:
            nodes.append((float(t[0]), float(t[1]), float(t[2]), int(t[3])))
    i += nn
    ne = int(L[i]); i += 1
    elems = [tuple(int(x) for x in L[i + k].split()[:7]) for k in range(ne)]     # p0 p1 p2 lbl [e0 e1 e2 [Jprev]]
    i += ne
    nl = int(L[i]); i += 1
    labels = []
    for k in range(nl):
        t = L[i + k].split()
        labels.append((int(t[0]), complex(float(t[1]), float(t[2])) if harmonic else float(t[1])))
    i += nl
    npbc = int(L[i]); i += 1
    pbcs = [tuple(int(x) for x in L[i + k].split()) for k in range(npbc)]
    return dict(nodes=nodes, elems=elems, labels=labels, pbcs=pbcs)


# ------------------------------------------------------------------- Coq expressions ----
def opt(n):
    return "None" if n < 0 else "(Some %d)" % n


def coq_problem(d):
    f = vlib.fhexs
    nodes = "; ".join("mkMNode %s %s %s" % (f(x), f(y), opt(bm)) for (x, y, bm) in d["nodes"])
    elems = "; ".join("mkMElem (%d, %d, %d) (%s, %s, %s) %d %d %s %s"
                      % (e[0], e[1], e[2], opt(e[3]), opt(e[4]), opt(e[5]), e[6], e[7], f(e[9]), f(e[10])) for e in d["elems"])
    blocks = "; ".join("mkMBlock %s %s %s %s %s %s %s %s %s %d %s"
                       % (f(b["mu_x"]), f(b["mu_y"]), f(b["H_c"]), f(b["Jre"]), f(b["Jim"]), f(b["Cduct"]), f(b["Lam_d"]),
                          f(b["Theta_hx"]), f(b["Theta_hy"]), b["LamType"], f(b["LamFill"])) for b in d["blocks"])
    lines = "; ".join("mkMLine %d %s %s %s %s %s %s %s %s %s %s"
                      % (l["fmt"], f(l["A0"]), f(l["A1"]), f(l["A2"]), f(l["c0"][0]), f(l["c0"][1]), f(l["c1"][0]), f(l["c1"][1]),
                         f(l["cosphi"]), f(l["expphi"][0]), f(l["expphi"][1])) for l in d["lines"])
    points = "; ".join("mkMPoint %s %s %s %s" % tuple(f(x) for x in p) for p in d["points"])
    circs = "; ".join("mkMCirc %d %s %s %s %s" % (c["type"], f(c["amps"][0]), f(c["amps"][1]), f(c["dvolts"][0]), f(c["dvolts"][1]))
                      for c in d["circs"])
    labels = "; ".join("mkMLabel %d %s (%d)%%Z" % (l["blk"], opt(l["circ"]), l["turns"]) for l in d["labels"])
    pbcs = "; ".join("(%d, %d, %d)" % p for p in d["pbcs"])
    return "(mkMProb %d [%s] [%s] [%s] [%s] [%s] [%s] [%s] [%s])" % (d["unit"], nodes, elems, blocks, lines, points, circs, labels, pbcs)


def to_coq_static(d):
    f = vlib.fhexs
    V = "[%s]" % "; ".join(f(v) for v in d["V"])
    return ("let P := %s in let r := asmM FA P %d %s in "
            "(dump_rows FA (lM (fst r)) ++ lb (fst r), side_outputs FA P (snd r), written_A FA %s)"
            % (coq_problem(d), d["bw"], f(d["prec"]), V))


def flat_rows(d, cplx):
    out = []
    n = d["nn"] + (d["nc"] if cplx else 0)
    for i in range(n):
        t = d["rows"][i]
        w = 3 if cplx else 2
        out.append(float(len(t) // w))
        out += [float(x) for x in t]
    return out


def impl_static(d):
    sysv = flat_rows(d, False) + d["B0"]
    side = []
    for (case, jre, jim, dvre, dvim) in d["circres"]:
        side += [float(case), jre, dvre]
    for w in d["wlabels"]:
        side += [float(w[0]), w[1]]
    side += [float(l["wound"]) for l in d["labels"]]
    for m in d["emu"]:
        side += [m[0], m[2]]
    return sysv, side, d["BFINAL"]


def cpx(z):
    return "(%s, %s)" % (vlib.fhexs(z[0]), vlib.fhexs(z[1]))


def to_coq_harmonic(d):
    f = vlib.fhexs
    X = "[%s]" % "; ".join("mkHExp %s %s %s %s %s %s" % tuple(cpx(b[k]) for k in ("ex", "ey", "hx", "hy", "tx", "ty"))
                           for b in d["blocks"])
    V = d["V"]
    Vc = "[%s]" % "; ".join(cpx((V[2 * i], V[2 * i + 1])) for i in range(len(V) // 2))
    return ("let P := %s in let X := %s in let fr := %s in let r := asmMH FA P X fr %d %s in "
            "let bf := hwritten FA %d fr %s in "
            "(cdump_rows FA (CSparse.cM (fst r)) ++ flat (cb (fst r)), hside_outputs FA P X fr (snd r) bf, flat bf)"
            % (coq_problem(d), X, f(d["freq"]), d["bw"], f(d["prec"]), d["nn"], Vc))


def impl_harmonic(d):
    sysv = flat_rows(d, True) + d["B0"]
    side = []
    for (case, jre, jim, dvre, dvim) in d["circres"]:
        side += [float(case), jre, jim, dvre, dvim]
    for w in d["wlabels"]:
        side += [float(w[0]), w[1], w[2]]
    side += [float(l["wound"]) for l in d["labels"]]
    for m in d["emu"]:
        side += list(m)
    return sysv, side, d["BFINAL"]


# ---------------------------------------------------- independent SI assembly (oracle) ----
def eff_mu(b, w):
    """textbook effective relative permeabilities (mu_x, mu_y) of a block property dict (file
    quantities): series/parallel lamination mixtures; complex with hysteresis lag and the
    eddy-current lamination formula for w > 0"""
    mux, muy = b.get("mu_x", 1.0), b.get("mu_y", 1.0)
    lt, fill = b.get("lamtype", 0), b.get("lamfill", 1.0)
    par = lambda m: fill * m + (1 - fill)
    ser = lambda m: 1.0 / (fill / m + (1 - fill))
    if w == 0:
        if lt == 0:
            return par(mux), par(muy)
        if lt == 1:
            return par(mux), ser(mux)
        if lt == 2:
            return ser(muy), par(muy)
        return 1.0, 1.0
    if lt != 0:
        return 1.0, 1.0
    out = []
    for m, th in ((mux, b.get("phi_hx", 0.0)), (muy, b.get("phi_hy", 0.0))):
        mc = m * cmath.exp(-1j * math.radians(th))
        d = b.get("d_lam", 0.0) * 1e-3
        sig = b.get("sigma", 0.0) * 1e6
        if d != 0 and sig != 0:
            delta = math.sqrt(2.0 / (w * sig * MU0 * m))
            K = cmath.exp(-0.5j * math.radians(th)) * (1 + 1j) * d / (2 * delta)
            mc = mc * cmath.tanh(K) / K
        out.append(par(mc))
    return tuple(out)


def on_segment(P, Q, X, tol):
    """is point X on the closed straight segment PQ"""
    dx, dy = Q[0] - P[0], Q[1] - P[1]
    L2 = dx * dx + dy * dy
    t = ((X[0] - P[0]) * dx + (X[1] - P[1]) * dy) / L2
    if t < -tol or t > 1 + tol:
        return False
    return abs((X[0] - P[0]) * dy - (X[1] - P[1]) * dx) <= tol * L2 ** 0.5 * max(1.0, L2 ** 0.5)


class Coo:
    """sparse matrix as a list of (row, column, value) contributions"""

    def __init__(self, n):
        self.n, self.r, self.c, self.v = n, [], [], []

    def add(self, i, j, v):
        self.r.append(i); self.c.append(j); self.v.append(v)

    def dot(self, x):
        y = np.zeros(self.n, dtype=complex)
        np.add.at(y, np.array(self.r, dtype=int), np.array(self.v, dtype=complex) * x[np.array(self.c, dtype=int)])
        return y

    def absdot(self, x):
        """|K| x with |K| the entry-wise modulus of the ASSEMBLED matrix"""
        acc = {}
        for i, j, v in zip(self.r, self.c, self.v):
            acc[(i, j)] = acc.get((i, j), 0) + v
        y = np.zeros(self.n)
        for (i, j), v in acc.items():
            y[i] += abs(v) * x[j]
        return y


def si_system(p, ans):
    """Textbook P1 Galerkin system of curl(nu curl A) + j w sigma A = J + curl Hc in SI units from
    the problem description and the mesh / circuit lines of the .ans file.
    Returns dict(K, f, presc (node -> set of admissible values), X, elcur (per element: label,
    area, applied source density, eddy sigma), mag (|K||A|+|f| per node))."""
    harm = p["frequency"] != 0
    w = 2 * math.pi * p["frequency"]
    um = femgen.UNIT_M[p["units"]]
    nn = len(ans["nodes"])
    XY = np.array([(n[0], n[1]) for n in ans["nodes"]])
    X = XY * um
    A = np.array([n[2] for n in ans["nodes"]], dtype=complex)
    K = Coo(nn)
    f = np.zeros(nn, dtype=complex)
    elcur = []
    for e in ans["elems"]:
        n = list(e[0:3]); lbl = e[3]
        lab = p["labels"][lbl]
        b = p["blockprops"][lab["block"] - 1]
        P = X[n]
        gx = np.array([P[1, 1] - P[2, 1], P[2, 1] - P[0, 1], P[0, 1] - P[1, 1]])
        gy = np.array([P[2, 0] - P[1, 0], P[0, 0] - P[2, 0], P[1, 0] - P[0, 0]])
        area = (gx[0] * gy[1] - gx[1] * gy[0]) / 2
        gx = gx / (2 * area); gy = gy / (2 * area)          # grad phi_j = (gx_j, gy_j)
        mux, muy = eff_mu(b, w)
        # energy density  B_x^2/(2 mu_x) + B_y^2/(2 mu_y),  B_x = dA/dy,  B_y = -dA/dx
        Ke = area * (np.outer(gy, gy) / (MU0 * mux) + np.outer(gx, gx) / (MU0 * muy))
        sig = b.get("sigma", 0.0) * 1e6
        wound = abs(lab.get("turns", 1)) > 1 or b.get("lamtype", 0) > 2
        sig_eddy = 0.0 if (not harm or wound or (b.get("lamtype", 0) == 0 and b.get("d_lam", 0.0) > 0)) else sig
        if harm:
            Ke = Ke + 1j * w * sig_eddy * area / 12.0 * (np.ones((3, 3)) + np.eye(3))
        # source current density: block J plus what the written per-label circuit line says
        flag, val = ans["labels"][lbl]
        Jb = complex(b.get("J_re", 0.0), b.get("J_im", 0.0) if harm else 0.0) * 1e6
        # (1, J): flat added density J;  (0, dV): voltage gradient, which drives a current -sigma*dV in solid
        # conductors only — wound regions carry no bulk conduction current (fpproc.cpp:3630 reads the file this way)
        Jc = val * 1e6 if flag == 1 else (0.0 if wound else -val * b.get("sigma", 0.0) * 1e6)
        Js = Jb + Jc
        for a_ in range(3):
            f[n[a_]] += Js * area / 3
            for b_ in range(3):
                K.add(n[a_], n[b_], Ke[a_, b_])
        if not harm and b.get("H_c", 0.0) != 0:
            cx, cy = XY[n].mean(axis=0)
            t = c05_gen.eval_magfctn(lab["magdirfctn"], cx, cy) if lab.get("magdirfctn") else lab.get("magdir", 0.0)
            hx, hy = b["H_c"] * math.cos(math.radians(t)), b["H_c"] * math.sin(math.radians(t))
            for a_ in range(3):
                f[n[a_]] += area * (hx * gy[a_] - hy * gx[a_])           # integral of Hc x grad(phi)
        elcur.append((lbl, area, Js, sig_eddy, n))
    # boundary segments (geometric: an element edge with both end points on a segment that carries a property)
    pts = [(q["x"], q["y"]) for q in p["points"]]
    size = max(max(abs(c) for c in q) for q in pts) + 1.0
    tol = 1e-9
    presc = {}
    bsegs = [(pts[s["n0"]], pts[s["n1"]], p["bdryprops"][s["bdry"] - 1]) for s in p["segments"] if s.get("bdry", 0) > 0]
    for (P0, P1, bp) in bsegs:
        if bp["type"] == 0:
            for i in range(nn):
                if on_segment(P0, P1, XY[i], tol):
                    a = bp.get("A_0", 0.0) + bp.get("A_1", 0.0) * XY[i, 0] + bp.get("A_2", 0.0) * XY[i, 1]
                    ph = math.radians(bp.get("Phi", 0.0))
                    presc.setdefault(i, []).append(a * cmath.exp(1j * ph) if harm else a * math.cos(ph))
    for e in ans["elems"]:
        n = list(e[0:3])
        for j in range(3):
            k = (j + 1) % 3
            for (P0, P1, bp) in bsegs:
                if bp["type"] == 2 and on_segment(P0, P1, XY[n[j]], tol) and on_segment(P0, P1, XY[n[k]], tol):
                    ln = math.hypot(*(X[n[k]] - X[n[j]]))
                    c0 = complex(bp.get("c0", 0.0), bp.get("c0i", 0.0) if harm else 0.0)
                    c1 = complex(bp.get("c1", 0.0), bp.get("c1i", 0.0) if harm else 0.0)
                    m = c0 * ln / 6
                    K.add(n[j], n[j], 2 * m); K.add(n[k], n[k], 2 * m); K.add(n[j], n[k], m); K.add(n[k], n[j], m)
                    f[n[j]] -= c1 * ln / 2; f[n[k]] -= c1 * ln / 2
    # point properties
    for q in p["points"]:
        if q.get("prop", 0) > 0:
            pp = p["pointprops"][q["prop"] - 1]
            i = int(np.argmin(np.hypot(XY[:, 0] - q["x"], XY[:, 1] - q["y"])))
            if math.hypot(XY[i, 0] - q["x"], XY[i, 1] - q["y"]) > 1e-9 * size:
                return dict(error="no mesh node at the input point (%g, %g)" % (q["x"], q["y"]))
            cur = complex(pp.get("I_re", 0.0), pp.get("I_im", 0.0))
            if cur == 0:
                presc.setdefault(i, []).append(complex(pp.get("A_re", 0.0), pp.get("A_im", 0.0) if harm else 0.0))
            else:
                f[i] += cur if harm else cur.real
    mag = K.absdot(np.abs(A)) + np.abs(f)
    return dict(K=K, f=f, presc=presc, A=A, elcur=elcur, mag=mag, harm=harm, w=w)


def oracle(p, ans):
    """None, or (message, signature) describing how the written solution violates C05"""
    S = si_system(p, ans)
    if "error" in S:
        return S["error"], "mesh"
    A, K, f, presc, mag = S["A"], S["K"], S["f"], S["presc"], S["mag"]
    nn = len(A)
    if not np.all(np.isfinite(A)):
        return "non-finite potentials in the solution", "nonfinite"
    scaleA = max(float(np.max(np.abs(A))), 1e-30)
    for i, vals in presc.items():
        if min(abs(A[i] - v) for v in vals) > 1e-6 * max(scaleA, max(abs(v) for v in vals)):
            return ("prescribed A not met at node %d: written %r, prescribed %r" % (i, A[i], vals)), "prescribed-A"
    r = K.dot(A) - f
    tied = {}
    for (i, j, t) in ans["pbcs"]:
        tied[i] = (j, t); tied[j] = (i, t)
    free = [i for i in range(nn) if i not in presc and i not in tied]
    tot = max(float(np.linalg.norm(mag)), 1e-300)
    if free:
        # the solvers stop on a norm over ALL rows (prescribed rows included), so that is the scale
        rel = float(np.linalg.norm(r[free])) / tot
        if rel > 2e-6:
            worst = max(free, key=lambda i: abs(r[i]) / max(mag[i], 1e-300))
            return ("free-node residual of curl(nu curl A) + j w sigma A = J + curl Hc is %.3g (relative); worst node %d "
                    "(|r|/mag = %.3g)" % (rel, worst, abs(r[worst]) / mag[worst])), "residual"
    for (i, j, t) in ans["pbcs"]:
        s = -1.0 if t == 1 else 1.0
        if abs(A[i] - s * A[j]) > 1e-6 * scaleA:
            return "%speriodic pair (%d, %d) has A = %r, %r" % ("anti" if t == 1 else "", i, j, A[i], A[j]), "pbc-values"
        if i not in presc and j not in presc:
            if abs(r[i] + s * r[j]) > 1e-5 * (mag[i] + mag[j]) + 1e-9 * tot:
                return "%speriodic pair (%d, %d): combined residual %.3g" % ("anti" if t == 1 else "", i, j, abs(r[i] + s * r[j])), "pbc-residual"
    # written per-label circuit data: unlabelled-circuit blocks must say "flat density 0"
    for l, lab in enumerate(p["labels"]):
        if lab.get("circuit", 0) == 0 and ans["labels"][l] != (1, 0):
            return "label %d is in no circuit but the solution file says %r" % (l, ans["labels"][l]), "label-line"
    # circuit currents: integral of the total current density over the circuit's blocks
    for c, circ in enumerate(p["circuits"]):
        amps = complex(circ.get("amps_re", 0.0), circ.get("amps_im", 0.0) if S["harm"] else 0.0)
        groups = {}
        for l, lab in enumerate(p["labels"]):
            if lab.get("circuit", 0) == c + 1:
                groups.setdefault(l if circ.get("type", 1) == 1 else -1, []).append(l)
        for key, labs in groups.items():
            want = amps * (p["labels"][key].get("turns", 1) if key >= 0 else 1)
            got = 0.0; sc = abs(want)
            for (lbl, area, Js, sig_eddy, n) in S["elcur"]:
                if lbl in labs:
                    eddy = -1j * S["w"] * sig_eddy * area * (A[n[0]] + A[n[1]] + A[n[2]]) / 3
                    got += Js * area + eddy
                    sc += abs(Js * area) + abs(eddy)
            if abs(got - want) > 2e-6 * sc:
                what = "series circuit '%s', label %d" % (circ["name"], key) if key >= 0 else "parallel circuit '%s'" % circ["name"]
                return ("%s carries %s A instead of the prescribed %s A (total of the applied current density over its blocks)"
                        % (what, fmtc(got), fmtc(want))), "circuit-current"
    return None


def fmtc(z):
    z = complex(z)
    return "%.9g" % z.real if z.imag == 0 else "(%.9g%+.9gj)" % (z.real, z.imag)


# ------------------------------------------------------------------------ run cases ----
def run_case(ctx, name, p):
    """fmesher, harness (keeps the mesh files), then the real fsolver binary; returns (dump, ans, error)"""
    exe = vlib.build_harness(ctx.snap, "h_fsolver", libs=("fsolver", "femm"))
    f = os.path.join(ctx.work, "%s.fem" % name)
    c05_gen.write(p, f)
    rc, out, err = vlib.sh([ctx.snap.tool("fmesher"), f], timeout=120)
    if rc != 0:
        return None, None, "fmesher failed (rc=%d) on a well-formed problem: %s" % (rc, (out + err)[-300:])
    dump = f[:-4] + ".dump"
    rc, out, err = vlib.sh([exe, f[:-4], dump], timeout=600)
    if not os.path.exists(dump):
        return None, None, "harness crashed (rc=%d): %s" % (rc, err[-300:])
    d = parse_dump(dump)
    rc2, out, err = vlib.sh([ctx.snap.tool("fsolver"), f[:-4]], timeout=600)
    ansf = f[:-4] + ".ans"
    if rc2 != 0 or not os.path.exists(ansf):
        return d, None, "fsolver failed (rc=%d) on a well-formed problem: %s" % (rc2, (out + err)[-300:])
    try:
        ans = parse_ans(ansf, p["frequency"] != 0)
    except Exception as e:
        return d, None, "the solution file written by fsolver cannot be parsed: %r" % (e,)
    if d["fail"] or rc != 0 or not d.get("solved"):
        return d, ans, "solver pipeline failed inside the harness: %s rc=%d solved=%s" % (d["fail"], rc, d.get("solved"))
    return d, ans, None


def consistent(d, ans, p):
    """the harness ran the same pipeline as the binary: same mesh numbering, the binary's written
    potentials are the harness's V*c, the written label lines are those the harness derived"""
    cf = [2.54, 0.1, 1., 100., 0.00254, 1.e-04][d["unit"]]
    if femgen.UNITS.index(p["units"]) != d["unit"]:
        return "the solver read length unit %d for '%s'" % (d["unit"], p["units"])
    if len(ans["nodes"]) != d["nn"] or len(ans["elems"]) != d["ne"]:
        return "mesh sizes differ between the harness run and the fsolver run"
    for i, (n, m) in enumerate(zip(ans["nodes"], d["nodes"])):
        if vlib.ulp_diff(n[0], m[0] / cf) > 0 or vlib.ulp_diff(n[1], m[1] / cf) > 0:
            return "node %d coordinates differ between harness and .ans" % i
    harm = d["harmonic"]
    bf = d["BFINAL"]
    for i, n in enumerate(ans["nodes"]):
        a = complex(bf[2 * i], bf[2 * i + 1]) if harm else bf[i]
        if not (n[2] == a or (n[2] != n[2] and a != a)):
            return "potential of node %d written by fsolver (%r) differs from the harness run (%r)" % (i, n[2], a)
    for l, (w, wl) in enumerate(zip(ans["labels"], d["wlabels"])):
        v = complex(wl[1], wl[2]) if harm else wl[1]
        if w[0] != wl[0] or not (w[1] == v or (w[1] != w[1] and v != v)):
            return "circuit line of label %d written by fsolver %r differs from the harness run %r" % (l, w, wl)
    if len(ans["labels"]) != len(d["wlabels"]):
        return "number of label lines differs"
    return None


def compare(impl, model):
    """(bad, compared, bit-identical)"""
    tot = nb = 0
    for name, a, b in zip(["assembled system", "circuit results / written label lines / wound flags / element permeabilities",
                           "written potentials V*c"], impl, model):
        if len(a) != len(b):
            return "%s: different structure (%d vs %d numbers)" % (name, len(a), len(b)), tot, nb
        for idx, (x, y) in enumerate(zip(a, b)):
            tot += 1
            if vlib.ulp_diff(x, float(y)) == 0:
                nb += 1
            elif not vlib.close(x, float(y), 64, 1e-300):
                return "%s differs at flat index %d: implementation %r, model %r" % (name, idx, x, y), tot, nb
    return None, tot, nb


STRATA = {   # k mod 12 -> forced circuit configuration (static for even k, harmonic for odd k)
    2: dict(boxes=["coil", "coil"], coil_mode="parallel", coil_sigma=0.0, coil_J=1.0),     # Case 1 with CircInt3 <> 0
    3: dict(boxes=["coil", "coil"], coil_mode="parallel", coil_sigma=0.0, coil_J=-0.5),
    4: dict(boxes=["coil", "coil"], coil_mode="parallel", coil_sigma=58.0, coil_J=1.0),    # Case 0 with CircInt3 <> 0
    5: dict(boxes=["coil", "jblock"], coil_mode="parallel", coil_sigma=10.0, coil_J=0.5),  # Case 2
    6: dict(boxes=["coil", "coil"], coil_mode="series", coil_sigma=0.0, coil_J=0.5),
    7: dict(boxes=["coil", "coil"], coil_mode="series", coil_sigma=58.0, coil_J=0.0),
}


def gen(rng, quick, k):
    size = rng.choice([20, 30, 45]) if quick else rng.choice([30, 80, 200])
    return c05_gen.gen_problem(rng, harmonic=(k % 2 == 1), size_nodes=size, force=STRATA.get(k % 12))


def correspond(ctx):
    rng = ctx.rng
    count = 24 if ctx.quick() else 96
    limit = 600 if ctx.quick() else 900
    dis, exprs, cases, feats = [], [], [], {}
    sizes = []
    for k in range(count):
        p = gen(rng, ctx.quick(), k)
        for ft in p["features"]:
            feats[ft] = feats.get(ft, 0) + 1
        d, ans, msg = run_case(ctx, "c%d" % k, p)
        if msg:
            ctx.fail("fsolver: " + msg, problem=p, signature="pipeline")
            continue
        msg = consistent(d, ans, p)
        if msg:
            ctx.fail("fsolver: " + msg, problem=p, signature="harness-vs-binary")
            continue
        r = oracle(p, ans)
        if r:
            ctx.fail("fsolver: " + r[0], problem=p, signature=r[1])
        sizes.append(d["nn"])
        if d["nn"] <= limit and d.get("captured"):
            exprs.append(to_coq_harmonic(d) if d["harmonic"] else to_coq_static(d))
            cases.append((p, d))
    # the recorded defects of the unchanged solver, each with a fixed signature
    probes = 0
    for k, (sig, p) in enumerate(c05_gen.probe_problems(ctx.seed)):
        d, ans, msg = run_case(ctx, "p%d" % k, p)
        probes += 1
        if msg:
            ctx.fail("fsolver: " + msg, problem=p, signature=sig)
            continue
        r = consistent(d, ans, p)
        r = (r, "harness-vs-binary") if r else oracle(p, ans)
        if r:
            ctx.fail("fsolver: " + r[0], problem=p, signature=sig)
        if d["nn"] <= limit and d.get("captured") and not (r and r[1] == "nonfinite"):
            exprs.append(to_coq_harmonic(d) if d["harmonic"] else to_coq_static(d))
            cases.append((p, d))
    model = vlib.coq_eval(HEADER, exprs, shard=3, timeout=2400) if exprs else []
    nb = tot = 0
    for (p, d), m in zip(cases, model):
        impl = impl_harmonic(d) if d["harmonic"] else impl_static(d)
        bad, t, n = compare(impl, m)
        tot += t; nb += n
        if bad:
            dis.append(dict(what="fsolver correspondence (%s): %s" % ("Harmonic2D" if d["harmonic"] else "Static2D", bad), problem=p))
    cov = ctx.res.cov
    cov["evaluations"] = count + probes
    cov["distinct_nontrivial"] = len(set(json.dumps(c[0], sort_keys=True) for c in cases))
    cov["rule"] = ("seeded well-formed planar .fem problems (rectangle, optional material interface, up to two inner boxes: coils in "
                   "series / parallel circuits with turns, solid conductors, magnets with constant and Lua-expression directions, "
                   "anisotropic / laminated iron (LamType 0-2, fill factors), source current density; point currents and prescribed-A "
                   "points; boundary types 0 (A0+A1x+A2y, phase), 2 (mixed) and periodic / antiperiodic pairs; all six length units; "
                   "static and harmonic alternate) meshed by the real fmesher, assembled by the real FSolver inside the harness and "
                   "solved / written by the real fsolver binary; non-trivial = meshed, solved and small enough for vm_compute, "
                   "distinct = distinct problem description; plus %d targeted probes of recorded defects" % probes)
    cov["input_distribution"] = feats
    cov["samples"] = [dict(features=c[0]["features"], nodes=c[1]["nn"], elements=c[1]["ne"]) for c in cases[:3]]
    cov["values_compared"] = tot
    cov["bit_identical"] = nb
    cov["bit_identical_fraction"] = (nb / tot) if tot else None
    cov["mesh_sizes"] = sizes
    cov["static_cases"] = sum(1 for c in cases if not c[1]["harmonic"])
    cov["harmonic_cases"] = sum(1 for c in cases if c[1]["harmonic"])
    cov["oracle"] = "numpy SI Galerkin residual, prescribed values, periodic pairs, circuit currents on the .ans written by the real fsolver"
    from props import ext as extmod
    dis += extmod.run(ctx, EXTENSIONS)
    return dis


def search(ctx, broken):
    found = []
    rng = vlib.Rng(ctx.seed + 5)
    for k in range(40):
        p = gen(rng, True, k)
        d, ans, msg = run_case(ctx, "s%d" % k, p)
        if msg:
            found.append(dict(what="fsolver: " + msg, problem=p, signature="pipeline")); break
        r = oracle(p, ans)
        if r:
            found.append(dict(what="fsolver: " + r[0], problem=p, signature=r[1])); break
    return found
