"""C14 — problem files survive load and save unchanged in meaning.

Model:    coq/theories/Schema.v (generic keyed-block reader/writer), gen/Schemas.v (REGENERATED
          on every run by tools/translate_schema.py from the snapshot's fromStream / toStream /
          FemmReader::parse / writeProblemDescription / LoadProblemFile code).
Theorems: Properties_C14.v (generic round trip for all schemas and records, idempotence,
          compatible_except over the regenerated schemas with the committed gap list
          SchemaGaps.v, one refutation per gap, value codecs over R incl. MaxArea).
Tie:      (a) property oracle on the real code: seeded .fem/.fee/.feh files -> femmcli open +
          xx_saveas -> independent Python reader (tools/femfile.py) -> meanings compared,
          second save must be byte-identical, fmesher (and for the repository's own files the
          solver and the post-processor) must accept what was written;
          (b) model vs implementation on token level: random keyed blocks / positional lines
          per class are pushed through the real reader+writer and through the Coq interpreter
          (vm_compute) with the translated schema; the written lines must agree."""
import os, re, json, math, shutil
import vlib
import femfile
import translate_schema
from props import c14_gen
from props import ext, xsol

# the [Solution] part of .ans / .res / .anh files (solver writers vs. post-processor and previous-solution readers):
# translator tools/translate_solution.py -> gen/SolSchemas.v, model SolFile.v, theorems Properties_C14_solution.v (props/xsol.py)
EXTENSIONS = ["xsol"]
EXTRA_PROPERTY_FILES = ["C14_solution"]

LEVEL = "proof"
COQ_MODULES = ["Schema", "gen/Schemas"]
ASSUMPTIONS = [
    "files are modelled on token level (key, already-parsed value): number lexing (std::stod / operator>>) and "
    "%.17g printing are not modelled; quoting is modelled separately (unquote_quote)",
    "the schemas are extracted by regular expressions over the regular reader/writer code (translator trusted; an "
    "unrecognised statement in a walked function aborts the check); fpproc's legacy reader, the [Solution] part "
    "of result files and the order/counts of sections are not translated",
    "the MaxArea codec theorem is about real numbers; in binary64 it holds to a few ulp (checked at run time, 4 ulp)",
    "well-formed input only: every label has a block type (a label with type 0 is read as a hole by xfemm), names are "
    "non-empty and contain no line break, the exterior region is given completely or not at all, property "
    "references are within range",
    "meaning is compared by an independent reader written from the FEMM 4.2 format (tools/femfile.py), which is trusted",
]
HEADER = ("From Coq Require Import String List ZArith Floats. Import ListNotations. "
          "From XF Require Import Arith Schema. From XF.gen Require Import Schemas. "
          "Local Open Scope string_scope. Local Open Scope float_scope.\n"
          "Definition enc (v : @value float) := match v with "
          "| VInt z => (0%Z, z, 0%float, \"\", @nil (float*float)) "
          "| VNum x => (1%Z, 0%Z, x, \"\", @nil (float*float)) "
          "| VStr s => (2%Z, 0%Z, 0%float, s, @nil (float*float)) "
          "| VWord s => (3%Z, 0%Z, 0%float, s, @nil (float*float)) "
          "| VTab l => (4%Z, 0%Z, 0%float, \"\", l) end.\n"
          "Definition run (ps : parse_schema) (pr : print_schema) (b : list (string * @value float)) := "
          "map (fun l => (fst l, enc (snd l))) (print FA pr (parse FA ps b)).\n")

SCHEMAS = {}


# ------------------------------------------------------------------------------- regen ----
def regen(ctx):
    sch = translate_schema.translate(ctx.snap.src)
    txt = translate_schema.emit(sch)
    vlib.write_if_changed(os.path.join(vlib.COQDIR, "theories", "gen", "Schemas.v"), txt)
    SCHEMAS.clear()
    SCHEMAS.update(sch)
    xsol.regen(ctx)


# ------------------------------------------------------------------- running the real code ----
PRE = {"fem": "mi", "fee": "ei", "feh": "hi"}


def femmcli_roundtrip(ctx, path_in, kind, tag):
    """open + saveas, then open the saved file + saveas again.  Returns (rc, out1, out2, log)."""
    d = os.path.dirname(path_in)
    out1 = os.path.join(d, "%s.out1.%s" % (tag, kind))
    out2 = os.path.join(d, "%s.out2.%s" % (tag, kind))
    lua = os.path.join(d, "%s.lua" % tag)
    with open(lua, "w") as f:
        f.write('open("%s")\n%s_saveas("%s")\nopen("%s")\n%s_saveas("%s")\n' % (path_in, PRE[kind], out1, out1, PRE[kind], out2))
    rc, out, err = vlib.sh([ctx.snap.tool("femmcli"), "--lua-script=" + lua], timeout=60, cwd=d)
    return rc, out1, out2, (out + err)[-600:]


def write_case(ctx, kind, text, tag):
    p = os.path.join(ctx.work, "%s.%s" % (tag, kind))
    with open(p, "wb") as f:
        f.write(text.encode("latin-1", "replace"))
    return p


def normalise_meaning(m):
    """Labels without block type (file value 0) are holes to xfemm (CBlockLabel::isHole); FEMM 4.2 would
    keep them as unassigned labels, which no mesher accepts: outside 'well-formed', compared as holes."""
    m = dict(m)
    holes = list(m["holes"])
    labs = []
    for l in m["labels"]:
        if l["type"] == 0:
            holes.append({"x": l["x"], "y": l["y"], "group": l["group"]})
        else:
            labs.append(l)
    m["holes"], m["labels"] = holes, labs
    return m


def signatures(diffs, m_in):
    """Stable signature per difference; subnormal inputs get their own signature."""
    out = {}
    for sig, det in diffs:
        mm = re.search(r": (-?[0-9.e+-]+) -> ", det)
        if mm:
            try:
                a = float(mm.group(1))
                if a != 0 and abs(a) < 2.2250738585072014e-308:
                    sig = "subnormal-value-dropped"
            except ValueError:
                pass
        out.setdefault(sig, det)
    return out


def check_file(ctx, kind, text, tag, accept=True):
    """Round trip one file through femmcli and compare meanings.  Returns dict(sigs, outtext, err)."""
    p = write_case(ctx, kind, text, tag)
    res = {"sigs": {}, "out": None}
    try:
        m_in = normalise_meaning(femfile.meaning(femfile.parse_text(text, kind)))
    except Exception as e:                                   # generator bug, not a finding
        res["generror"] = repr(e)
        return res
    rc, out1, out2, log = femmcli_roundtrip(ctx, p, kind, tag)
    if rc != 0 or not os.path.exists(out1):
        res["sigs"]["rejected-by-femmcli"] = log
        return res
    t1 = open(out1, "rb").read()
    res["out"] = t1.decode("latin-1")
    try:
        m_out = normalise_meaning(femfile.meaning(femfile.parse_text(res["out"], kind)))
    except Exception as e:
        res["sigs"]["written-file-unreadable"] = repr(e)
        return res
    res["sigs"].update(signatures(femfile.compare(m_in, m_out), m_in))
    if not os.path.exists(out2):
        res["sigs"]["own-output-rejected-by-femmcli"] = log
    elif open(out2, "rb").read() != t1:
        res["sigs"]["save-not-idempotent"] = first_diff(t1.decode("latin-1"), open(out2, "rb").read().decode("latin-1"))
    res["path_out"] = out1
    return res


def first_diff(a, b):
    for i, (x, y) in enumerate(zip(a.split("\n"), b.split("\n"))):
        if x != y:
            return "line %d: %r vs %r" % (i + 1, x[:80], y[:80])
    return "length differs"


def mesher_accepts(ctx, path, kind, tag):
    d = os.path.join(ctx.work, "mesh-" + tag)
    os.makedirs(d, exist_ok=True)
    q = os.path.join(d, "m." + kind)
    shutil.copy(path, q)
    rc, out, err = vlib.sh([ctx.snap.tool("fmesher"), q], timeout=120, cwd=d)
    ok = rc == 0 and os.path.exists(os.path.join(d, "m.ele")) and os.path.exists(os.path.join(d, "m.node"))
    return ok, d, q, (out + err)[-400:]


SOLVER = {"fem": "fsolver", "fee": "esolver", "feh": "hsolver"}
ANS = {"fem": "ans", "fee": "res", "feh": "anh"}


def solver_accepts(ctx, d, kind):
    """Solver on the meshed file (base name without extension), then the post-processor through femmcli."""
    rc, out, err = vlib.sh([ctx.snap.tool(SOLVER[kind]), os.path.join(d, "m")], timeout=180, cwd=d)
    ans = os.path.join(d, "m." + ANS[kind])
    if rc != 0 or not os.path.exists(ans):
        return False, "solver rc=%d %s" % (rc, (out + err)[-300:])
    lua = os.path.join(d, "post.lua")
    pre = PRE[kind]
    with open(lua, "w") as f:
        f.write('open("%s")\n%s_loadsolution()\nwrite("LOADED\\n")\n' % (os.path.join(d, "m." + kind), pre))
    rc, out, err = vlib.sh([ctx.snap.tool("femmcli"), "--lua-script=" + lua], timeout=120, cwd=d)
    if rc != 0 or "LOADED" not in out:
        return False, "post-processor rc=%d %s" % (rc, (out + err)[-300:])
    return True, ""


# --------------------------------------------------------------------------- shrinking ----
def shrink_text(ctx, kind, text, sig, budget=40):
    """Smallest variant of the file that still shows signature `sig`: drop entities, then whole
    property sections, then single properties (references are cleared with the properties)."""
    def shows(t, n):
        r = check_file(ctx, kind, t, "shr%d" % n, accept=False)
        return sig in r.get("sigs", {})
    try:
        ff = femfile.parse_text(text, kind)
    except Exception:
        return text
    n = [0]

    def attempt(mod):
        if budget - n[0] <= 0:
            return False
        import copy
        g = copy.deepcopy(cur[0])
        mod(g)
        t = femfile.render(g, "xfemm")
        n[0] += 1
        if shows(t, n[0]):
            cur[0] = g
            return True
        return False
    cur = [ff]
    if not shows(femfile.render(ff, "xfemm"), 0):
        return text
    def drop_geometry(g):
        g.points, g.segments, g.arcs, g.holes, g.labels = [], [], [], [], []
    attempt(drop_geometry)
    if not cur[0].points:
        for sec in ("point", "bdry", "block", "circ"):
            attempt(lambda g, sec=sec: g.props.__setitem__(sec, []))
        for sec in ("point", "bdry", "block", "circ"):
            while len(cur[0].props[sec]) > 1 and attempt(lambda g, sec=sec: g.props[sec].pop()):
                pass
    # header keys that are not needed
    for k, v in list(cur[0].header):
        if k.lower() in ("[format]",):
            continue
        attempt(lambda g, k=k: setattr(g, "header", [(a, b) for a, b in g.header if a != k]))
    return femfile.render(cur[0], "xfemm")


# ----------------------------------------------------------------- model vs implementation ----
def cq(s):
    return '"' + s.replace('"', '""') + '"'


def coq_value(kind, v):
    if kind == "int" or kind == "bool":
        return "VInt (%d)%%Z" % v
    if kind == "num":
        return "VNum %s" % vlib.fhex(float(v))
    if kind == "str":
        return "VStr %s" % cq(v)
    if kind == "word":
        return "VWord %s" % cq(v)
    if kind == "tab":
        return "VTab [%s]" % "; ".join("(%s, %s)" % (vlib.fhex(a), vlib.fhex(b)) for a, b in v)
    raise ValueError(kind)


ASCII_NAMES = ["Air", "1117 Steel", "Coil A", "a \"q\" b", "x", "name with  two spaces", "copper (18 AWG)", "M-19", "Zero 0", "[b]"]


def gen_token_block(rng, P):
    """Random block for a keyed parse schema P (translator's python form): list of
    (key as written, kind, python value); includes unknown keys, repeated keys, any key order, mixed case."""
    ents = [e for e in P if e["kind"] not in ("ignored",)]
    lines = []
    pick = [e for e in ents if rng.random() < 0.8]
    rng.shuffle(pick)
    nt = [e for e in ents if e["kind"] != "tab"]
    if rng.random() < 0.3 and nt:
        pick.append(rng.choice(nt))                 # a key twice: the later one wins (not for tables: rows accumulate)
    for e in pick:
        k = e["kind"]
        key = e["key"]
        r = rng.random()
        if r < 0.3:
            key = key.upper()
        elif r < 0.6:
            key = key[:2].upper() + key[2:]
        if k == "num":
            v = c14_gen.rnum(rng)
            if v != 0 and abs(v) < 2.3e-308:
                v = 0.0
            lines.append((key, "num", float(v)))
        elif k == "int":
            lines.append((key, "int", rng.choice([0, 1, 2, 3, 7, -1, 100])))
        elif k == "bool":
            lines.append((key, "bool", rng.choice([0, 1, 1, 2])))
        elif k == "str":
            lines.append((key, "str", rng.choice(ASCII_NAMES) + rng.choice(["", " 1", " b"])))
        elif k == "tab":
            n = rng.choice([0, 1, 2, 5])
            if e.get("cap") and rng.random() < 0.1:
                n = e["cap"] + 2
            lines.append((key, "tab", [(float(i) + rng.randint(0, 9) / 16.0, rng.randint(1, 999) / 8.0) for i in range(n)]))
        elif k == "enum":
            lines.append((key, "word", rng.choice([w for w, en in e["enum"]])))
    if rng.random() < 0.3:
        lines.insert(rng.randrange(len(lines) + 1), ("<NoSuchKey>", "num", 3.0))
    return lines


def render_token_block(lines, beg, end):
    L = ["  " + beg]
    for key, k, v in lines:
        if k == "num":
            L.append("    %s = %s" % (key, "%.17g" % v))
        elif k in ("int", "bool"):
            L.append("    %s = %d" % (key, v))
        elif k == "str":
            L.append("    %s = \"%s\"" % (key, v))
        elif k == "word":
            L.append("    %s = %s" % (key, v))
        elif k == "tab":
            L.append("    %s = %d" % (key, len(v)))
            for a, b in v:
                L.append("      %.17g\t%.17g" % (a, b))
    L.append("  " + end)
    return L


def decode_written(W, raw_blk):
    """What the implementation wrote for one block, typed by the print schema: [(key, kind, value)]."""
    kinds = {}
    for e in W:
        k = e["kind"]
        if k is None:
            k = "num"
        kinds[e["key"]] = k
    out = []
    for key, raw, tab in raw_blk:
        k = kinds.get(key)
        if k is None:
            out.append((key, "unknown", raw))
        elif k == "num":
            out.append((key, "num", float(raw)))
        elif k in ("int", "bool"):
            out.append((key, "int", int(raw)))
        elif k == "str":
            out.append((key, "str", femfile.unquote(raw)))
        elif k == "enum":
            out.append((key, "word", raw.strip()))
        elif k == "tab":
            out.append((key, "tab", [(float(a), float(b)) for a, b in tab]))
    return out


def decode_model(val):
    """vm_compute output of `run`: [(key, (tag, z, x, s, tab))] -> [(key, kind, value)]."""
    out = []
    for key, enc in val:
        tag, z, x, s, tab = enc
        if tag == 0:
            out.append((key, "int", int(z)))
        elif tag == 1:
            out.append((key, "num", float(x)))
        elif tag == 2:
            out.append((key, "str", s))
        elif tag == 3:
            out.append((key, "word", s))
        else:
            out.append((key, "tab", [(float(a), float(b)) for a, b in tab]))
    return out


def same_lines(impl, model, ignore_keys=()):
    """Compare the written lines; numbers bit-identical up to 4 ulp (MaxArea)."""
    impl = [l for l in impl if l[0] not in ignore_keys]
    model = [l for l in model if l[0] not in ignore_keys]
    if [l[0] for l in impl] != [l[0] for l in model]:
        return "keys written: implementation %r, model %r" % ([l[0] for l in impl], [l[0] for l in model])
    nb = 0
    for (k, ki, vi), (_, km, vm) in zip(impl, model):
        if ki == "num" or km == "num":
            if not femfile.same(float(vi), float(vm), 4):
                return "%s: implementation %r, model %r" % (k, vi, vm)
        elif ki == "tab":
            if not femfile.same(vi, vm, 0):
                return "%s: implementation table %r, model %r" % (k, vi[:3], vm[:3])
        elif vi != vm:
            return "%s: implementation %r, model %r" % (k, vi, vm)
    return None


SECTIONS = [("point", "[PointProps]", "<BeginPoint>", "<EndPoint>"), ("bdry", "[BdryProps]", "<BeginBdry>", "<EndBdry>"),
            ("block", "[BlockProps]", "<BeginBlock>", "<EndBlock>"), ("circ", None, None, None)]
MINIMAL_HEADER = {"fem": ["[Format]      =  4.0", "[Frequency]   =  0"], "fee": ["[Format]      =  1"], "feh": ["[Format]      =  1"]}


def model_correspondence(ctx, rng, nfiles):
    """Token-level tie: per file type a file with several random blocks per property class, a random
    header and random positional lines; the lines written by the implementation vs. the Coq interpreter."""
    dis, stats = [], {"blocks": 0, "values": 0, "classes": {}}
    exprs, expect = [], []
    classes = SCHEMAS["_classes"]
    for fi in range(nfiles):
        kind = ("fem", "fee", "feh")[fi % 3]
        cls = classes[kind]
        blocks = {}
        nper = {}
        for si, sec in enumerate(("point", "bdry", "block", "circ")):
            P, W = SCHEMAS[cls[si]]
            nper[sec] = rng.randint(1, 4)
            blocks[sec] = [gen_token_block(rng, P) for _ in range(nper[sec])]
        # header: random subset of the keyed header entries (never an unknown key: the reader stops there)
        PH, WH = SCHEMAS["Header." + kind]
        hdr = [l for l in gen_token_block(rng, PH) if l[0] != "<NoSuchKey>" and l[0].lower() not in ("[format]",)]
        L = list(MINIMAL_HEADER[kind])
        for key, k, v in hdr:
            if k == "num":
                L.append("%s = %.17g" % (key, v))
            elif k in ("int", "bool"):
                L.append("%s = %d" % (key, v))
            elif k == "str":
                L.append('%s = "%s"' % (key, v))
            elif k == "word":
                L.append("%s = %s" % (key, v))
        tags = {"point": ("[PointProps]", "<BeginPoint>", "<EndPoint>"), "bdry": ("[BdryProps]", "<BeginBdry>", "<EndBdry>"),
                "block": ("[BlockProps]", "<BeginBlock>", "<EndBlock>"),
                "circ": (("[CircuitProps]", "<BeginCircuit>", "<EndCircuit>") if kind == "fem" else
                         ("[ConductorProps]", "<BeginConductor>", "<EndConductor>"))}
        for sec in ("point", "bdry", "block", "circ"):
            key, beg, end = tags[sec]
            L.append("%s = %d" % (key, nper[sec]))
            for b in blocks[sec]:
                L += render_token_block(b, beg, end)
        # positional lines: points / segments / arcs / labels with references inside the property counts
        npt = rng.randint(2, 5)
        pts, segs, arcs, labs = [], [], [], []
        for i in range(npt):
            row = [("num", float(i)), ("num", rng.randint(-8, 8) / 4.0), ("int", rng.randint(0, nper["point"])), ("int", rng.choice([0, 1, 5]))]
            if kind != "fem":
                row.append(("int", rng.randint(0, nper["circ"])))
            pts.append(row)
        for i in range(rng.randint(0, 3)):
            row = [("int", rng.randrange(npt)), ("int", rng.randrange(npt)), ("num", rng.choice([-1.0, -3.5, 0.25, 0.0])),
                   ("int", rng.randint(0, nper["bdry"])), ("bool", rng.choice([0, 1, 2])), ("int", rng.choice([0, 2]))]
            if kind != "fem":
                row.append(("int", rng.randint(0, nper["circ"])))
            segs.append(row)
        for i in range(rng.randint(0, 2)):
            row = [("int", rng.randrange(npt)), ("int", rng.randrange(npt)), ("num", rng.choice([90.0, 180.0, 12.5])), ("num", rng.choice([1.0, 5.0, 2.5])),
                   ("int", rng.randint(0, nper["bdry"])), ("bool", rng.choice([0, 1])), ("int", rng.choice([0, 3]))]
            row.append(("int", rng.randint(0, nper["circ"])) if kind != "fem" else ("num", rng.choice([1.0, 2.5, 7.0])))
            arcs.append(row)
        for i in range(rng.randint(1, 3)):
            d = rng.choice([-1.0, 0.0, 0.5, 1.0 / 3.0, 0.033333333333333333, 7.25, 1e-3, -2.0])
            if kind == "fem":
                row = [("num", i + 0.5), ("num", 0.25), ("int", rng.randint(1, nper["block"])), ("num", d), ("int", rng.randint(0, nper["circ"])),
                       ("num", rng.choice([0.0, 90.0, -45.5])), ("int", rng.choice([0, 4])), ("int", rng.choice([1, 100, -3])), ("int", rng.choice([0, 1, 2, 3, 6]))]
                if rng.random() < 0.4:
                    row.append(("str", rng.choice(["theta", "theta+90", "x*2 + y"])))
            else:
                row = [("num", i + 0.5), ("num", 0.25), ("int", rng.randint(1, nper["block"])), ("num", d), ("int", rng.choice([0, 4])), ("int", rng.choice([0, 1, 2, 3, 7]))]
            labs.append(row)

        def row_text(row):
            return "\t".join(("%.17g" % v) if k == "num" else ('"%s"' % v if k == "str" else str(v)) for k, v in row)
        L.append("[NumPoints] = %d" % len(pts)); L += [row_text(r) for r in pts]
        L.append("[NumSegments] = %d" % len(segs)); L += [row_text(r) for r in segs]
        L.append("[NumArcSegments] = %d" % len(arcs)); L += [row_text(r) for r in arcs]
        L.append("[NumHoles] = 0")
        L.append("[NumBlockLabels] = %d" % len(labs)); L += [row_text(r) for r in labs]
        text = "\n".join(L) + "\n"
        tag = "tok%d" % fi
        p = write_case(ctx, kind, text, tag)
        rc, out1, out2, log = femmcli_roundtrip(ctx, p, kind, tag)
        if rc != 0 or not os.path.exists(out1):
            dis.append(dict(what="token-level file rejected by femmcli: " + log[-200:], file=text.split("\n")))
            continue
        wf = femfile.read(out1, kind)
        # property blocks
        for si, sec in enumerate(("point", "bdry", "block", "circ")):
            P, W = SCHEMAS[cls[si]]
            nm = translate_schema.ident(cls[si])
            for bi, b in enumerate(blocks[sec]):
                exprs.append("run ps_%s pr_%s [%s]" % (nm, nm, "; ".join("(%s, %s)" % (cq(k), coq_value(kd, v)) for k, kd, v in b)))
                impl = decode_written(W, wf.props[sec][bi]) if bi < len(wf.props[sec]) else None
                expect.append((cls[si], impl, b, ()))
        # header (the model omits a written key that the reader ignores; [Format] is a constant)
        nm = translate_schema.ident("Header." + kind)
        exprs.append("run ps_%s pr_%s [%s]" % (nm, nm, "; ".join("(%s, %s)" % (cq(k), coq_value(kd, v)) for k, kd, v in hdr)))
        ign = tuple(e["key"] for e in WH if e["src"][0] == "field" and not any(p["field"] == e["src"][1] for p in PH))
        impl_h = decode_written(WH, [(k, v, None) for k, v in wf.header])
        expect.append(("Header." + kind, impl_h, hdr, ign))
        # positional lines
        def pos(name, rows_in, rows_out):
            P, W = SCHEMAS[name]
            nm2 = translate_schema.ident(name)
            for ri, row in enumerate(rows_in):
                b = [("c%d" % i, k, v) for i, (k, v) in enumerate(row)]
                exprs.append("run ps_%s pr_%s [%s]" % (nm2, nm2, "; ".join("(%s, %s)" % (cq(k), coq_value(kd, v)) for k, kd, v in b)))
                impl = None
                if ri < len(rows_out):
                    line = rows_out[ri]
                    q = line.find('"')
                    toks = (line[:q] if q >= 0 else line).split() + ([line[q:]] if q >= 0 else [])
                    impl = decode_written(W, [("c%d" % i, t, None) for i, t in enumerate(toks)])
                expect.append((name, impl, b, ()))
        pos("Node." + kind, pts, wf.points)
        pos("Segment." + kind, segs, wf.segments)
        pos("Arc." + kind, arcs, wf.arcs)
        pos(cls[4], labs, wf.labels)
    model = vlib.coq_eval(HEADER, exprs, shard=300)
    for (name, impl, b, ign), mv in zip(expect, model):
        stats["blocks"] += 1
        stats["classes"][name] = stats["classes"].get(name, 0) + 1
        m = decode_model(mv)
        stats["values"] += len(m)
        if impl is None:
            dis.append(dict(what="%s: the implementation wrote no block/line for an input block" % name, block=[list(map(str, l)) for l in b]))
            continue
        msg = same_lines(impl, m, ign)
        if msg:
            dis.append(dict(what="%s schema correspondence: %s" % (name, msg), block=[[k, kd, repr(v)] for k, kd, v in b],
                            signature="model-differs:%s:%s" % (name, msg.split(":")[0])))
    return dis, stats


# ------------------------------------------------------------------------ correspondence ----
def run_oracle(ctx, rng, count, tagp, accept_mesh, stats):
    """Generated files through the real load/save; returns {signature: (kind, text, detail, info)}."""
    found = {}
    cases = []
    for k, (kind, text, info) in enumerate(c14_gen.special_cases(ctx.snap.src)):
        cases.append((kind, text, info))
    for i in range(count):
        try:
            cases.append(c14_gen.generate(rng, ctx.snap.src, i))
        except Exception as e:
            stats["generator_errors"] = stats.get("generator_errors", 0) + 1
    texts = set()
    for n, (kind, text, info) in enumerate(cases):
        tag = "%s%d" % (tagp, n)
        r = check_file(ctx, kind, text, tag)
        if "generror" in r:
            stats["generator_errors"] = stats.get("generator_errors", 0) + 1
            continue
        stats["files"] += 1
        stats["kinds"][kind] = stats["kinds"].get(kind, 0) + 1
        stats["mutations"][info.get("mutation", "?")] = stats["mutations"].get(info.get("mutation", "?"), 0) + 1
        stats["styles"][info.get("style", "?")] = stats["styles"].get(info.get("style", "?"), 0) + 1
        for kk in info.get("header_keys", []):
            stats["header_keys_varied"][kk] = stats["header_keys_varied"].get(kk, 0) + 1
        pc = info.get("prop_counts")
        if pc:
            for s, c in pc.items():
                b = "0" if c == 0 else ("1" if c == 1 else ("2-4" if c <= 4 else "5+"))
                stats["prop_counts"].setdefault(s, {}).setdefault(b, 0)
                stats["prop_counts"][s][b] += 1
        if info.get("mutation") not in ("none",) and text not in texts:
            texts.add(text)
        for sig, det in r["sigs"].items():
            if sig not in found or len(text) < len(found[sig][1]):
                found[sig] = (kind, text, det, info)
        # every written file must be accepted by the mesher (geometry-free special cases excepted)
        if accept_mesh and r.get("path_out") and info.get("mutation") not in ("special", "noprops") and \
           "split_seg_err" not in info.get("base", ""):
            ok, d, q, log = mesher_accepts(ctx, r["path_out"], kind, tag)
            stats["meshed"] += 1
            if not ok:
                # is it the written file, or does the mesher reject the input as well?
                ok_in, d2, q2, log2 = mesher_accepts(ctx, write_case(ctx, kind, text, tag + "in"), kind, tag + "in")
                if ok_in:
                    sig = "written-file-rejected-by-fmesher"
                    if sig not in found or len(text) < len(found[sig][1]):
                        found[sig] = (kind, text, log, info)
                else:
                    stats["mesher_rejects_input_too"] = stats.get("mesher_rejects_input_too", 0) + 1
                shutil.rmtree(d2, ignore_errors=True)
            elif info.get("mutation") == "none" and kind in SOLVER and info["base"] in SOLVABLE:
                ok2, msg = solver_accepts(ctx, d, kind)
                stats["solved"] += 1
                if not ok2:
                    found.setdefault("written-file-rejected-by-solver-or-postprocessor", (kind, text, msg, info))
            shutil.rmtree(d, ignore_errors=True)
    stats["distinct"] = stats.get("distinct", 0) + len(texts)
    return found, cases


# repository files that are complete, solvable problems on their own (no previous-solution file needed)
SOLVABLE = ["fmesher/test/Temp.fem", "esolver/test/test.fee", "hsolver/test/Temp0.feh", "femmcli/test/femmcli_epproc.fee",
            "femmcli/test/femmcli_hpproc.feh", "femmcli/test/femmcli_TorqueBenchmark.fem"]


def report(ctx, found, shrink=True):
    for sig in sorted(found):
        kind, text, det, info = found[sig]
        small = text
        if shrink and not sig.startswith("written-file-rejected") and sig != "rejected-by-femmcli":
            try:
                small = shrink_text(ctx, kind, text, sig)
            except Exception:
                small = text
        ctx.fail("load+save through femmcli changes the meaning of a .%s file: %s (%s)" % (kind, sig, det),
                 signature=sig, file_type=kind, base=info.get("base"), detail=det,
                 minimal_file=small.replace("\r", "").split("\n")[:120],
                 replay="write minimal_file to x.%s; femmcli --lua-script with open(\"x.%s\") %s_saveas(\"y.%s\"); compare" % (kind, kind, PRE[kind], kind))


def new_stats():
    return {"files": 0, "kinds": {}, "mutations": {}, "styles": {}, "header_keys_varied": {}, "prop_counts": {}, "meshed": 0, "solved": 0}


def correspond(ctx):
    if not SCHEMAS:
        try:
            regen(ctx)
        except vlib.TranslateError:
            pass                      # already reported by the framework; the file-level oracle still runs
    rng = ctx.rng
    stats = new_stats()
    count = 70 if ctx.quick() else 1200
    found, cases = run_oracle(ctx, rng, count, "f", True, stats)
    report(ctx, found)
    # translator findings that are not about the round trip but about the same code
    for cls, f in SCHEMAS.get("_uninit", []):
        ctx.res.notes.append("%s::%s is read by its key but initialised by no constructor: when the key is absent (as in every "
                             "heat-flow file written by xfemm, see lost-key:[dt]) the solver uses an indeterminate value" % (cls, f))
    if SCHEMAS:
        dis, mstats = model_correspondence(ctx, vlib.Rng(ctx.seed + 7), 9 if ctx.quick() else 90)
    else:
        dis, mstats = [], {"blocks": 0, "values": 0, "classes": {}, "skipped": "translator failed"}
    # one entry per distinct disagreement
    seen, uniq = set(), []
    for d in dis:
        k = d.get("signature", d["what"])
        if k not in seen:
            seen.add(k)
            uniq.append(d)
    dis = uniq
    if ctx.failing_inputs and dis:
        # the framework reports failing inputs in preference to model disagreements; a disagreement must not be
        # lost that way: report it as a finding of its own (the block is the failing input of the tie)
        for d in dis:
            ctx.fail("reader+writer of the implementation and the schema model differ on a block: " + d["what"],
                     signature=d.get("signature", "model-differs"), block=d.get("block"), file=d.get("file"))
        dis = []
    cov = ctx.res.cov
    cov["evaluations"] = stats["files"] + mstats["blocks"]
    cov["distinct_nontrivial"] = stats.get("distinct", 0) + mstats["blocks"]
    cov["rule"] = ("(a) files: the 13 problem files of the repository's tests unchanged, then seeded mutants of them (header keys set/"
                   "dropped, property values and names, extra properties, tables, entity attributes, FEMM 4.2 / xfemm / lower-case "
                   "spelling, CRLF) and 5 fixed minimal files; each loaded and saved twice by femmcli, meanings compared by an "
                   "independent reader, written files fed to fmesher (repository files also to solver + post-processor); "
                   "distinct = distinct mutated file text (unmutated repository files not counted as non-trivial); "
                   "(b) token blocks: random keyed blocks / positional lines per class (random key subset and order, repeated "
                   "and unknown keys, mixed case) through the real reader+writer and through the Coq interpreter with the "
                   "translated schema, every one counted (all non-empty)")
    cov["input_distribution"] = dict(files=stats, token_blocks=mstats)
    cov["samples"] = [dict(info=c[2], head=c[1].replace("\r", "").split("\n")[:14]) for c in cases[13 + 5:13 + 7]]
    cov["schemas"] = {n: dict(parse_keys=[e["key"] for e in v[0]], print_keys=[e["key"] for e in v[1]])
                      for n, v in SCHEMAS.items() if not n.startswith("_") and not n.startswith("Solver")}
    cov["signatures_found"] = sorted(found)
    dis += ext.run(ctx, EXTENSIONS)
    return dis


def search(ctx, broken):
    """A proof or the model correspondence broke without the first oracle pass failing: try harder to exhibit a
    file whose meaning changes (more files, other seed)."""
    stats = new_stats()
    found, _ = run_oracle(ctx, vlib.Rng(ctx.seed + 1), 400, "s", False, stats)
    out = []
    for sig in sorted(found):
        kind, text, det, info = found[sig]
        small = shrink_text(ctx, kind, text, sig)
        out.append(dict(what="load+save through femmcli changes the meaning of a .%s file: %s (%s)" % (kind, sig, det),
                        signature=sig, file_type=kind, minimal_file=small.replace("\r", "").split("\n")[:120]))
    out += ext.search(ctx, EXTENSIONS, broken)
    return out
