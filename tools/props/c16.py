"""C16 — geometry edits keep the drawing a proper planar line graph.
Model: coq/theories/Drawing.v; theorems: Properties_C16.v (proofs in DrawingProofs.v).
Correspondence: op sequences through harness/h_drawing.cpp (the real femm::FemmProblem, driven as
the Lua commands drive it) and through the binary64 reading of the model (vm_compute), compared
after every op.  Property oracle (c16_oracle.py): exact rational checks on the implementation's own
dumps, independent of the Coq model.  Sanitizer replay of copy-heavy sequences (defect D4)."""
import os, math, json, itertools
import vlib
from props import c16_oracle as orc
from props import ext

# arc segments: model DrawingArc.v, theorems Properties_C16_arc.v, harness h_drawing_arc.cpp (props/xarc.py)
EXTENSIONS = ["xarc"]
EXTRA_PROPERTY_FILES = ["C16_arc"]

LEVEL = "proof"
COQ_MODULES = ["Drawing"]
ASSUMPTIONS = [
    "Drawing.v covers nodes, straight segments and block labels; arc segments (addArcSegment, createRadius, the arc "
    "branches of addNode/addSegment/enforcePSLG/copy/move/delete) are modelled by the extension DrawingArc.v, whose "
    "arc-free fragment is proved equal to Drawing.v (C16_arc_free_fragment_is_Drawing)",
    "the combinatorial theorems hold for every instantiation of the geometric oracles (record Geo); the tie of the "
    "oracles to the C++ formulas is the binary64 correspondence run here; rounding error between the binary64 and the "
    "real reading is not bounded",
    "the recursive split of addSegment runs on fuel in the model (termination of the C++ recursion is not proved); the "
    "correspondence reports any case that exhausts the fuel",
    "the copy loops are modelled with the semantics of iterating over the list as it was when the loop started "
    "(what the C++ means; the range-for over a growing vector is undefined behaviour when it reallocates: D4)",
    "magnetics-only label attributes (MagDir) are not modelled; the harness drives an electrostatics document",
    "the model carries a switch fx for deleteSelectedNodes (false: ToggleSelect as the code stands, true: with "
    "findings/C16-F1-fix.diff); the check runs the F1 probe on the implementation first and evaluates the variant the "
    "working tree exhibits",
    "the model is hand-written; its tie to FemmProblem.cpp is the op-sequence correspondence run here",
]
HEADER = ("From Coq Require Import ZArith List Floats. Import ListNotations. "
          "From XF Require Import Arith Drawing. Local Open Scope float_scope.")

MODEL_OPS = {"addnode", "addsegment", "addlabel", "selectnode", "selectsegment", "selectlabel", "selectgroup",
             "setgroup", "clearselected", "setnodeprop", "setsegprop", "setlabelprop", "deleteselected",
             "deleteselectednodes", "deleteselectedsegments", "deleteselectedlabels", "movetranslate", "moverotate",
             "scale", "copytranslate", "copyrotate", "mirror"}
ARC_OPS = {"addarc", "selectarc", "deleteselectedarcs", "createradius"}
COPY_OPS = {"copytranslate", "copyrotate", "mirror"}

SIG_D4 = "C16-D4-copy-loop-iterator-invalidation"
SIG_F1 = "C16-F1-deleteselectednodes-keeps-selected-segment"
SIG_F2 = "C16-F2-addnode-double-split-duplicates-segment"
SIG_F3 = "C16-F3-snap-tolerance-not-inductive"
SIG_F4 = "C16-F4-segment-drawn-over-block-label"
SIG_F5 = "C16-F5-addarc-without-points-crashes"
SIG_F6 = "C16-F6-zero-tolerance-when-all-points-coincide"


# ------------------------------------------------------------------------ rendering ----
def fmt(v):
    if isinstance(v, float):
        return v.hex()
    return str(v)


def to_text(cid, ops):
    L = ["case %d" % cid]
    for o in ops:
        L.append(" ".join([o[0]] + [fmt(v) for v in o[1:]]))
    L.append("end")
    return "\n".join(L) + "\n"


FX = {"value": False}      # which variant of deleteSelectedNodes the working tree is (Drawing.v: fx), see detect_fx


def detect_fx(exe):
    """Run the F1 probe on the implementation: does mi_deleteselectednodes keep an already selected segment
    (code as it stands, fx = false) or remove it (findings/C16-F1-fix.diff applied, fx = true)?"""
    impl, crashes = run_impl(exe, [(0, PROBE_F1)])
    got = impl.get(0)
    if not got or len(got["states"]) != len(PROBE_F1):
        return False
    return len(got["states"][-1]["segs"]) == 0


def to_coq(ops, zs):
    """ops -> Coq list of op; zs[i] = list of (re, im) echoed by the implementation for op i"""
    f = vlib.fhex
    out = []
    for i, o in enumerate(ops):
        k = o[0]
        a = o[1:]
        if k == "addnode":
            out.append("OAddNode %s %s" % (f(a[0]), f(a[1])))
        elif k == "addsegment":
            out.append("OAddSegment %s %s %s %s" % tuple(f(v) for v in a))
        elif k == "addlabel":
            out.append("OAddLabel %s %s" % (f(a[0]), f(a[1])))
        elif k == "selectnode":
            out.append("OSelectNode %s %s" % (f(a[0]), f(a[1])))
        elif k == "selectsegment":
            out.append("OSelectSegment %s %s" % (f(a[0]), f(a[1])))
        elif k == "selectlabel":
            out.append("OSelectLabel %s %s" % (f(a[0]), f(a[1])))
        elif k == "selectgroup":
            out.append("OSelectGroup %d" % a[0])
        elif k == "setgroup":
            out.append("OSetGroup %d" % a[0])
        elif k == "clearselected":
            out.append("OClearSelected")
        elif k == "setnodeprop":
            out.append("OSetNodeProp %d %d" % (a[0], a[1]))
        elif k == "setsegprop":
            out.append("OSetSegProp %d %d" % (a[0], a[1]))
        elif k == "setlabelprop":
            out.append("OSetLabelProp %d %d" % (a[0], a[1]))
        elif k == "deleteselected":
            out.append("ODeleteSelected")
        elif k == "deleteselectednodes":
            out.append("ODeleteSelectedNodes")
        elif k == "deleteselectedsegments":
            out.append("ODeleteSelectedSegments")
        elif k == "deleteselectedlabels":
            out.append("ODeleteSelectedLabels")
        elif k == "movetranslate":
            out.append("OMoveTranslate %s %s %d" % (f(a[0]), f(a[1]), a[2]))
        elif k == "moverotate":
            z = zs[i][0] if zs[i] else (1.0, 0.0)
            out.append("OMoveRotate %s %s %s %s %d" % (f(a[0]), f(a[1]), f(z[0]), f(z[1]), a[3]))
        elif k == "scale":
            out.append("OScale %s %s %s %d" % (f(a[0]), f(a[1]), f(a[2]), a[3]))
        elif k == "copytranslate":
            out.append("OCopyTranslate %s %s %d %d" % (f(a[0]), f(a[1]), max(0, a[2]), a[3]))
        elif k == "copyrotate":
            out.append("OCopyRotate %s %s [%s] %d" % (f(a[0]), f(a[1]),
                       "; ".join("(%s, %s)" % (f(z[0]), f(z[1])) for z in zs[i]), a[4]))
        elif k == "mirror":
            out.append("OMirror %s %s %s %s %d" % (f(a[0]), f(a[1]), f(a[2]), f(a[3]), a[4]))
        else:
            raise ValueError("op %r is not modelled" % (k,))
    return "map dump (trace (geoA FA) %s FUEL [%s] empty)" % ("true" if FX["value"] else "false", "; ".join(out))


# ------------------------------------------------------------------- implementation ----
def parse_out(out):
    """harness output -> {case id: dict(states=[state...], zs=[[(re,im)..]..], halted=bool, notes=[..])}
    state = dict(nodes=[(x,y,sel,grp,prop)], segs=[(n0,n1,sel,grp,prop)], arcs=[...], labels=[...])"""
    res, cur, st = {}, None, None
    for line in out.split("\n"):
        if not line:
            continue
        c = line[0]
        if line.startswith("case "):
            cur = dict(states=[], zs=[], halted=False, notes=[], complete=False)
            res[int(line.split()[1])] = cur
        elif cur is None:
            continue
        elif line.startswith("op "):
            t = line.split()
            zs, note = [], []
            k = 3
            while k < len(t):
                if t[k] == "z" and k + 2 < len(t):
                    zs.append((float(t[k + 1]), float(t[k + 2])))
                    k += 3
                else:
                    note.append(t[k])
                    k += 1
            cur["zs"].append(zs)
            cur["notes"].append(" ".join(note))
            st = dict(nodes=[], segs=[], arcs=[], labels=[], done=False)
            cur["states"].append(st)
        elif line == "end":
            cur["complete"] = True
            cur = None
        elif line == "halted":
            cur["halted"] = True
        elif st is None:
            continue
        elif c == "n":
            t = line.split(None, 5)
            st["nodes"].append((float(t[1]), float(t[2]), int(t[3]), int(t[4]), t[5]))
        elif c == "s":
            t = line.split(None, 5)
            st["segs"].append((int(t[1]), int(t[2]), int(t[3]), int(t[4]), t[5]))
        elif c == "a":
            t = line.split(None, 7)
            st["arcs"].append((int(t[1]), int(t[2]), int(t[3]), int(t[4]), float(t[5]), float(t[6]), t[7]))
        elif c == "l":
            t = line.split(None, 6)
            st["labels"].append((float(t[1]), float(t[2]), int(t[3]), int(t[4]), float(t[5]), t[6]))
        elif line == ".":
            st["done"] = True
    return res


def ensure_exe(exe):
    """other checks running at the same time may evict the snapshot this harness lives in: rebuild it"""
    if os.path.exists(exe):
        return exe
    flavour = "san" if "/harness-san/" in exe else "plain"
    return vlib.build_harness(vlib.snapshot(flavour), "h_drawing")


def run_impl(exe, cases, timeout=600):
    """cases: list of (cid, ops).  The harness may die (a crash is a finding, not an accident): it is
    restarted after the case it died in.  Returns ({cid: parsed}, {cid: dict(rc, op index, stderr)})."""
    results, crashes = {}, {}
    todo = list(cases)
    env = {"ASAN_OPTIONS": "detect_leaks=0:abort_on_error=0", "UBSAN_OPTIONS": "print_stacktrace=1"}
    while todo:
        txt = "".join(to_text(cid, ops) for cid, ops in todo)
        exe = ensure_exe(exe)
        rc, out, err = vlib.sh([exe], inp=txt, timeout=timeout, env=env)
        got = parse_out(out)
        results.update(got)
        last_complete = -1
        for k, (cid, ops) in enumerate(todo):
            if cid in got and got[cid]["complete"]:
                last_complete = k
        if last_complete == len(todo) - 1:
            break
        k = last_complete + 1
        cid, ops = todo[k]
        g = got.get(cid, dict(states=[]))
        n_done = len([s for s in g["states"] if s["done"]])
        crashes[cid] = dict(rc=rc, op_index=n_done, stderr=err[-2500:])
        todo = todo[k + 1:]
    return results, crashes


# --------------------------------------------------------------------- prop encoding ----
def nodeprop_str(k):
    return "np%d|nc%d|%d|%d" % (k, k, k - 1, k - 1) if k else "<None>|<None>|-1|-1"


def segprop_str(k):
    return "%.17g|%d|sp%d|sc%d|%d|%d" % (0.5 * k, k % 2, k, k, k - 1, k - 1) if k else "-1|0|<None>|<None>|-1|-1"


def labelprop_str(k):
    return "bp%d|<None>|%d|-1|0|0" % (k, k - 1) if k else "<No Mesh>|<None>|-1|-1|0|0"


# --------------------------------------------------------------------- correspondence ----
def compare_state(impl, model):
    """impl: parsed dump; model: Coq dump (nodes, segs, labs, oof, dsplit).  Returns (msg, bit-identical, total)."""
    mn, ms, ml, oof, dsplit = model
    if oof:
        return "the model ran out of fuel in the recursive addSegment", 0, 0
    if impl["arcs"]:
        return "implementation has arcs in a sequence without arc ops", 0, 0
    if len(impl["nodes"]) != len(mn) or len(impl["segs"]) != len(ms) or len(impl["labels"]) != len(ml):
        return ("list lengths differ: implementation %d nodes / %d segments / %d labels, model %d / %d / %d"
                % (len(impl["nodes"]), len(impl["segs"]), len(impl["labels"]), len(mn), len(ms), len(ml))), 0, 0
    nb = tot = 0
    for i, (a, b) in enumerate(zip(impl["nodes"], mn)):
        if (a[2], a[3], a[4]) != (int(bool(b[2])), b[3], nodeprop_str(b[4])):
            return "node %d flags/group/properties: implementation %r, model %r" % (i, a[2:], b[2:]), nb, tot
        for u, v in ((a[0], b[0]), (a[1], b[1])):
            tot += 1
            if vlib.ulp_diff(float(u), float(v)) == 0:
                nb += 1
            elif not vlib.close(float(u), float(v), 64, 1e-300):
                return "node %d coordinate: implementation %r, model %r" % (i, u, v), nb, tot
    for i, (a, b) in enumerate(zip(impl["segs"], ms)):
        if (a[0], a[1], a[2], a[3], a[4]) != (b[0], b[1], int(bool(b[2])), b[3], segprop_str(b[4])):
            return "segment %d: implementation %r, model %r" % (i, a, b), nb, tot
    for i, (a, b) in enumerate(zip(impl["labels"], ml)):
        if (a[2], a[3], a[5]) != (int(bool(b[2])), b[3], labelprop_str(b[5])):
            return "label %d flags/group/properties: implementation %r, model %r" % (i, a, b), nb, tot
        for u, v in ((a[0], b[0]), (a[1], b[1]), (a[4], b[4])):
            tot += 1
            if vlib.ulp_diff(float(u), float(v)) == 0:
                nb += 1
            elif not vlib.close(float(u), float(v), 64, 1e-300):
                return "label %d value: implementation %r, model %r" % (i, u, v), nb, tot
    return None, nb, tot


# ------------------------------------------------------------------------ generators ----
LATTICE = [0.0, 1.0, 2.0]


def rcoord(rng, lattice_p=0.75):
    k = rng.random()
    if k < lattice_p:
        return float(rng.choice(LATTICE))
    if k < lattice_p + 0.1:
        return rng.choice(LATTICE) + rng.choice([0.5, 0.25, -0.5])
    return rng.uniform(-0.5, 2.5)


def rmode(rng):
    return rng.choice([0, 0, 1, 1, 2, 4, 4, 3])


def gen_seq(rng, length, arcs=False, lattice_p=0.75):
    """Seeded op sequence: build-up phase biased to nodes/segments, then edits."""
    ops = []
    pts = []

    def pick_pt():
        if pts and rng.random() < 0.8:
            return rng.choice(pts)
        return (rcoord(rng, lattice_p), rcoord(rng, lattice_p))
    for i in range(length):
        build = i < length * 0.45
        k = rng.random()
        if (build and k < 0.45) or (not build and k < 0.12):
            p = (rcoord(rng, lattice_p), rcoord(rng, lattice_p))
            pts.append(p)
            ops.append(("addnode",) + p)
        elif (build and k < 0.85) or (not build and k < 0.22):
            a, b = pick_pt(), pick_pt()
            ops.append(("addsegment",) + a + b)
        elif (build and k < 0.93) or (not build and k < 0.27):
            ops.append(("addlabel", rcoord(rng, 0.3), rcoord(rng, 0.3)))
        elif arcs and k < (0.97 if build else 0.33):
            a, b = pick_pt(), pick_pt()
            ops.append(("addarc",) + a + b + (float(rng.choice([30, 60, 90, 120, 180])), float(rng.choice([1, 5, 10]))))
        else:
            r = rng.random()
            if r < 0.16:
                ops.append(("selectnode",) + pick_pt())
            elif r < 0.30:
                ops.append(("selectsegment", rcoord(rng, 0.4), rcoord(rng, 0.4)))
            elif r < 0.36:
                ops.append(("selectlabel", rcoord(rng, 0.4), rcoord(rng, 0.4)))
            elif r < 0.40:
                ops.append(("selectgroup", rng.choice([0, 1, 2])))
            elif r < 0.44:
                ops.append(("setgroup", rng.choice([1, 2])))
            elif r < 0.46:
                ops.append(("clearselected",))
            elif r < 0.50:
                ops.append((rng.choice(["setnodeprop", "setsegprop", "setlabelprop"]), rng.choice([0, 1, 2, 3]), rng.choice([0, 1, 2])))
            elif r < 0.56:
                ops.append(("deleteselected",))
            elif r < 0.59:
                ops.append(("deleteselectednodes",))
            elif r < 0.62:
                ops.append(("deleteselectedsegments",))
            elif r < 0.64:
                ops.append(("deleteselectedlabels",))
            elif r < 0.72:
                ops.append(("movetranslate", rng.choice([1.0, -1.0, 0.5, 0.0, 2.0, rng.uniform(-1, 1)]),
                            rng.choice([1.0, -1.0, 0.0, 0.0, rng.uniform(-1, 1)]), rmode(rng)))
            elif r < 0.77:
                ops.append(("moverotate", rcoord(rng), rcoord(rng), rng.choice([90.0, 180.0, -90.0, 45.0, rng.uniform(-180, 180)]), rmode(rng)))
            elif r < 0.81:
                ops.append(("scale", rcoord(rng), rcoord(rng), rng.choice([2.0, 0.5, 1.0, -1.0, rng.uniform(0.2, 3)]), rmode(rng)))
            elif r < 0.90:
                ops.append(("copytranslate", rng.choice([1.0, -1.0, 0.5, 2.0, 0.0, rng.uniform(-1, 1)]),
                            rng.choice([1.0, 0.0, 0.0, -1.0, rng.uniform(-1, 1)]), rng.choice([1, 1, 2, 3]), rmode(rng)))
            elif r < 0.94:
                ops.append(("copyrotate", rcoord(rng), rcoord(rng), rng.choice([90.0, 180.0, 45.0, 120.0, rng.uniform(-180, 180)]),
                            rng.choice([1, 2, 3]), rmode(rng)))
            elif r < 0.98 or not arcs:
                ops.append(("mirror", rcoord(rng), rcoord(rng), rcoord(rng), rcoord(rng), rmode(rng)))
            else:
                q = rng.random()
                if q < 0.4:
                    ops.append(("createradius",) + pick_pt() + (rng.choice([0.1, 0.25, 0.5]),))
                elif q < 0.8:
                    ops.append(("selectarc", rcoord(rng, 0.3), rcoord(rng, 0.3)))
                else:
                    ops.append(("deleteselectedarcs",))
    return ops


def gen_props_copy(rng):
    """entities with groups and properties, selected again (by group or one by one), then copied / moved:
    the copies must carry group and properties"""
    ops = []
    pts = []
    while len(pts) < rng.randint(2, 4):
        p = (float(rng.randint(0, 2)), float(rng.randint(0, 2)))
        if p not in pts:
            pts.append(p)
    for p in pts:
        ops.append(("addnode",) + p)
    segs = list(zip(pts, pts[1:])) if rng.random() < 0.7 else []
    for a, b in segs:
        ops.append(("addsegment",) + a + b)
    labs = [(p[0] + 0.25, p[1] + 0.35) for p in pts[:rng.randint(0, 2)]]
    for l in labs:
        ops.append(("addlabel",) + l)
    g = rng.choice([1, 2, 3])
    k = rng.choice([1, 2, 3])
    for p in pts[:rng.randint(1, len(pts))]:
        ops.append(("selectnode",) + p)
    ops.append(("setnodeprop", k, g))
    ops.append(("clearselected",))
    for a, b in segs[:rng.randint(0, len(segs))]:
        ops.append(("selectsegment", (a[0] + b[0]) / 2, (a[1] + b[1]) / 2))
    if segs:
        ops.append(("setsegprop", rng.choice([1, 2, 3]), g))
        ops.append(("clearselected",))
    for l in labs:
        ops.append(("selectlabel",) + l)
    if labs:
        ops.append(("setlabelprop", rng.choice([1, 2, 3]), g))
        ops.append(("clearselected",))
    if rng.random() < 0.6:
        ops.append(("selectgroup", g))
        mode = rng.choice([4, 4, 0, 1, 2])
    else:
        mode = rng.choice([0, 1, 2])
        if mode == 0:
            for p in pts:
                ops.append(("selectnode",) + p)
        elif mode == 1:
            for a, b in segs:
                ops.append(("selectsegment", (a[0] + b[0]) / 2, (a[1] + b[1]) / 2))
        else:
            for l in labs:
                ops.append(("selectlabel",) + l)
    r = rng.random()
    if r < 0.45:
        ops.append(("copytranslate", rng.choice([3.0, 0.5, 1.0]), rng.choice([0.0, 3.0, 1.0]), rng.choice([1, 2]), mode))
    elif r < 0.6:
        ops.append(("copyrotate", 5.0, 5.0, rng.choice([90.0, 30.0]), rng.choice([1, 2]), mode))
    elif r < 0.75:
        ops.append(("mirror", 4.0, 0.0, 4.0, 1.0, mode))
    elif r < 0.9:
        ops.append(("movetranslate", rng.choice([3.0, 1.0]), rng.choice([0.0, 1.0]), mode))
    else:
        ops.append(("scale", 0.0, 0.0, 2.0, mode))
    return ops


def gen_copy_heavy(rng):
    """3-5 entities, everything selected, 4..20 copies: the vectors must reallocate inside the copy loops."""
    ops = []
    n = rng.randint(3, 5)
    pts = []
    while len(pts) < n:
        p = (float(rng.randint(0, 3)), float(rng.randint(0, 3)))
        if p not in pts:
            pts.append(p)
    for p in pts:
        ops.append(("addnode",) + p)
    kind = rng.choice(["nodes", "lines", "labels", "group"])
    if kind in ("lines", "group"):
        for a, b in zip(pts, pts[1:]):
            ops.append(("addsegment",) + a + b)
    if kind in ("labels", "group"):
        for a in pts[:3]:
            ops.append(("addlabel", a[0] + 0.3, a[1] + 0.4))
    nc = rng.randint(4, 20)
    if kind == "group":
        ops.append(("selectgroup", 0))
        mode = 4
    elif kind == "nodes":
        for p in pts:
            ops.append(("selectnode",) + p)
        mode = 0
    elif kind == "lines":
        for a, b in zip(pts, pts[1:]):
            ops.append(("selectsegment", (a[0] + b[0]) / 2, (a[1] + b[1]) / 2))
        mode = 1
    else:
        for a in pts[:3]:
            ops.append(("selectlabel", a[0] + 0.3, a[1] + 0.4))
        mode = 2
    which = rng.choice(["copytranslate", "copytranslate", "copyrotate", "mirror"])
    if which == "copytranslate":
        ops.append(("copytranslate", 5.0, rng.choice([0.0, 5.0]), nc, mode))
    elif which == "copyrotate":
        ops.append(("copyrotate", -3.0, -3.0, 360.0 / (nc + 1), nc, mode))
    else:
        ops.append(("mirror", -1.0, 0.0, -1.0, 1.0, mode))
    return ops


def gen_arc_copy(rng):
    """one or two arcs far from their images, selected in arc mode, then copied / mirrored / moved: the image must be
    the transformed arc (end points and bulge)"""
    ops = []
    arcs = []
    x = 0.0
    for _ in range(rng.randint(1, 2)):
        a = (x, float(rng.choice([0, 1]))); b = (x + float(rng.choice([1, 2])), float(rng.choice([0, 1, 2])))
        ang = float(rng.choice([30, 60, 90, 120, 180]))
        ops += [("addnode",) + a, ("addnode",) + b, ("addarc",) + a + b + (ang, float(rng.choice([1, 5, 10])))]
        arcs.append((a, b, ang))
        x += 4.0
    import math, cmath
    for (a, b, ang) in arcs:
        # a point on the arc: select by its mid point
        a0, a1 = complex(*a), complex(*b)
        d = abs(a1 - a0); t = (a1 - a0) / d; tta = math.radians(ang)
        R = d / (2 * math.sin(tta / 2)); c = a0 + (d / 2 + 1j * math.sqrt(max(R * R - d * d / 4, 0.0))) * t
        m = c + (a0 - c) * cmath.exp(1j * tta / 2)
        ops.append(("selectarc", m.real, m.imag))
    which = rng.choice(["mirror", "mirror", "copytranslate", "copyrotate", "movetranslate", "moverotate", "scale"])
    if which == "mirror":
        ax = rng.choice([(-3.0, -1.0, -3.0, 2.0), (0.0, -4.0, 1.0, -4.0), (-3.0, 0.0, -5.0, 2.0)])
        ops.append(("mirror",) + ax + (3,))
    elif which == "copytranslate":
        ops.append(("copytranslate", 0.0, rng.choice([10.0, -7.5]), rng.randint(1, 3), 3))
    elif which == "copyrotate":
        ops.append(("copyrotate", -20.0, -20.0, rng.choice([25.0, 40.0]), rng.randint(1, 3), 3))
    elif which == "movetranslate":
        ops.append(("movetranslate", rng.choice([3.0, -2.5]), rng.choice([10.0, 0.5]), 3))
    elif which == "moverotate":
        ops.append(("moverotate", -20.0, -20.0, rng.choice([25.0, 90.0]), 3))
    else:
        ops.append(("scale", -10.0, -10.0, rng.choice([0.5, 2.0]), 3))
    return ops


# known defects of the working tree, as deterministic probes (each is reported with its signature)
PROBE_F1 = [("addnode", 0.0, 0.0), ("addnode", 1.0, 0.0), ("addsegment", 0.0, 0.0, 1.0, 0.0),
            ("selectsegment", 0.5, 0.0), ("selectnode", 0.0, 0.0), ("deleteselectednodes",)]
PROBE_F2 = [("addnode", 0.0, 0.0), ("addnode", 1.0, 0.0), ("addnode", 1.0, 2e-5),
            ("addsegment", 0.0, 0.0, 1.0, 0.0), ("addsegment", 0.0, 0.0, 1.0, 2e-5), ("addnode", 0.05, 0.5e-6)]
PROBE_F3 = [("addnode", 0.0, 0.0), ("addnode", 1e-7, 0.0), ("addnode", 1000.0, 0.0)]
PROBE_F4 = [("addnode", 0.0, 0.0), ("addnode", 2.0, 0.0), ("addlabel", 1.0, 0.0), ("addsegment", 0.0, 0.0, 2.0, 0.0)]
PROBE_F6 = [("addnode", 0.0, 0.0), ("addnode", 1.0, 0.0), ("addsegment", 0.0, 0.0, 1.0, 0.0), ("selectnode", 0.0, 0.0),
            ("movetranslate", 1.0, 0.0, 0)]
PROBE_D4 = [("addnode", 0.0, 0.0), ("addnode", 1.0, 0.0), ("addnode", 1.0, 1.0), ("addnode", 0.0, 1.0),
            ("selectnode", 0.0, 0.0), ("copytranslate", 3.0, 0.0, 1, 0)]


def exhaustive_sequences(maxlen):
    """All sequences up to maxlen over a 3x3 lattice for a reduced alphabet (thorough tier)."""
    pts = [(float(x), float(y)) for x in (0, 1, 2) for y in (0, 1, 2)]
    alpha = [("addnode",) + p for p in pts]
    # segments between lattice points: horizontal/vertical/diagonal representatives incl. collinear and crossing
    segs = [((0, 0), (2, 0)), ((0, 0), (2, 2)), ((0, 2), (2, 0)), ((1, 0), (1, 2)), ((0, 0), (1, 0)), ((0, 1), (2, 1))]
    alpha += [("addsegment", float(a[0]), float(a[1]), float(b[0]), float(b[1])) for a, b in segs]
    alpha += [("selectnode", 0.0, 0.0), ("selectnode", 1.0, 1.0), ("selectsegment", 1.0, 0.0),
              ("deleteselected",), ("movetranslate", 1.0, 0.0, 0), ("movetranslate", 0.0, 1.0, 1),
              ("copytranslate", 1.0, 0.0, 1, 0), ("copytranslate", 0.0, 1.0, 1, 1),
              ("mirror", 1.0, 0.0, 1.0, 1.0, 4), ("addlabel", 1.0, 1.0), ("addlabel", 0.5, 0.5)]
    return alpha


# ----------------------------------------------------------------------- the check ----
def classify(msg, ops, k, pre, post):
    """Map an oracle failure at op k to the signature of a known defect pattern (or None)."""
    name = ops[k][0]
    if name == "deleteselectednodes" and pre is not None:
        selnodes = {i for i, n in enumerate(pre["nodes"]) if n[2]}
        if any(s[2] and (s[0] in selnodes or s[1] in selnodes) for s in pre["segs"]) or \
           any(a[2] and (a[0] in selnodes or a[1] in selnodes) for a in pre["arcs"]):
            return SIG_F1
    if "duplicate segment" in msg and pre is not None:
        return SIG_F2 if orc.duplicate_from_split(pre, ops[k], post) else None
    if name in ("addsegment", "addarc") and "block label" in msg and "sits on segment" in msg:
        return SIG_F4
    if "at the same place" in msg and pre is not None and name in orc.ENFORCE and orc.enforce_tolerance(pre, ops[k]) == 0.0:
        return SIG_F6
    return None


MAX_REPORTS_PER_SIGNATURE = 5


def report(ctx, stats, what, **kw):
    """ctx.fail, at most MAX_REPORTS_PER_SIGNATURE times per signature (all occurrences are counted)"""
    sig = kw.get("signature", "?")
    n = stats["signatures"].get(sig, 0) + 1
    stats["signatures"][sig] = n
    if n <= MAX_REPORTS_PER_SIGNATURE:
        ctx.fail(what, **kw)


def check_cases(ctx, exe, cases, stats, sanitized=False, with_model=True):
    """Run cases on the implementation, the oracle on every dump, and (optionally) the model."""
    impl, crashes = run_impl(exe, cases)
    dis = []
    exprs, idx = [], []
    for cid, ops in cases:
        stats["cases"] += 1
        for o in ops:
            stats["kinds"][o[0]] = stats["kinds"].get(o[0], 0) + 1
        got = impl.get(cid)
        if cid in crashes:
            c = crashes[cid]
            k = c["op_index"]
            opname = ops[k][0] if k < len(ops) else "?"
            sig = SIG_D4 if opname in COPY_OPS else "C16-crash-" + opname
            rep = "sanitizer report" if sanitized and ("Sanitizer" in c["stderr"] or "runtime error" in c["stderr"]) else "abnormal termination (rc=%d)" % c["rc"]
            head = [l for l in c["stderr"].split("\n") if "ERROR" in l or "runtime error" in l or "SUMMARY" in l][:3]
            report(ctx, stats, "%s of the real FemmProblem in op %d (%s) of the sequence%s" % (rep, k, opname, ": " + " / ".join(head) if head else ""),
                     ops=[list(o) for o in ops[:k + 1]], signature=sig, flavour="san" if sanitized else "plain",
                     stderr=c["stderr"][-1500:])
            stats["crashes"] += 1
        if got is None:
            continue
        states = [s for s in got["states"] if s["done"]]
        # property oracle on the implementation's own dumps
        bad_at = None
        pre = dict(nodes=[], segs=[], arcs=[], labels=[])
        for k, st in enumerate(states):
            stats["evaluations"] += 1
            if st != pre:
                stats["distinct"].add(hash((repr(pre), ops[k])))
            msg = orc.check_step(pre, ops[k], st)
            if msg:
                sig = classify(msg, ops, k, pre, st) or ("C16-oracle-" + ops[k][0])
                report(ctx, stats, "after op %d (%s): %s" % (k, ops[k][0], msg), ops=[list(o) for o in ops[:k + 1]],
                       signature=sig, flavour="san" if sanitized else "plain")
                stats["oracle_failures"] += 1
                bad_at = k
                break
            pre = st
        nmodel = len(states) if bad_at is None else bad_at
        if with_model and nmodel > 0 and all(o[0] in MODEL_OPS for o in ops[:nmodel]):
            exprs.append(to_coq(ops[:nmodel], got["zs"][:nmodel]))
            idx.append((cid, ops, states[:nmodel]))
    if exprs:
        model = vlib.coq_eval(HEADER, exprs, shard=60 if ctx.quick() else 150)
        for (cid, ops, states), m in zip(idx, model):
            if len(m) != len(states):
                dis.append(dict(what="model produced %d states for %d ops" % (len(m), len(states)), ops=[list(o) for o in ops]))
                continue
            for k, (a, b) in enumerate(zip(states, m)):
                msg, nb, tot = compare_state(a, b)
                stats["bit_identical"] += nb
                stats["values"] += tot
                stats["states_compared"] += 1
                if b[4]:
                    stats["dsplit_flag"] += 1
                if msg:
                    dis.append(dict(what="drawing correspondence after op %d (%s): %s" % (k, ops[k][0], msg),
                                    ops=[list(o) for o in ops[:k + 1]]))
                    break
    return dis


def new_stats():
    return dict(cases=0, evaluations=0, kinds={}, crashes=0, oracle_failures=0, distinct=set(), bit_identical=0,
                values=0, states_compared=0, dsplit_flag=0, signatures={})


def correspond(ctx):
    rng = ctx.rng
    exe = vlib.build_harness(ctx.snap, "h_drawing")
    stats = new_stats()
    dis = []
    cases = []
    FX["value"] = detect_fx(exe)
    ctx.res.cov["model_variant"] = ("fx=true: deleteSelectedNodes as repaired by findings/C16-F1-fix.diff" if FX["value"]
                                    else "fx=false: deleteSelectedNodes as it stands (ToggleSelect)")
    cdir = os.path.join(vlib.VERIF, "corpus", "C16")
    if os.path.isdir(cdir):
        for f in sorted(os.listdir(cdir)):
            cases.append([tuple(o) for o in json.load(open(os.path.join(cdir, f)))["ops"]])
    # deterministic probes of the recorded defect patterns
    cases += [PROBE_F1, PROBE_F2, PROBE_F4, PROBE_F6, PROBE_D4]
    n_rand = 140 if ctx.quick() else 2500
    for k in range(n_rand):
        r = k % 10
        if r < 6:
            cases.append(gen_seq(rng, rng.randint(6, 22)))
        elif r < 8:
            cases.append(gen_seq(rng, rng.randint(8, 26), lattice_p=0.4))
        else:
            cases.append(gen_seq(rng, rng.randint(8, 24), arcs=True))
    cases += [gen_props_copy(rng) for _ in range(24 if ctx.quick() else 400)]
    cases += [gen_arc_copy(rng) for _ in range(16 if ctx.quick() else 200)]
    cases = list(enumerate(cases))
    dis += check_cases(ctx, exe, cases, stats)
    # the naive global snap-tolerance claim (C16_snap_tolerance_global_refuted) replayed on the real code
    probe_f3(ctx, exe, stats)
    probe_f5(ctx, stats)
    if not ctx.quick():
        dis += exhaustive(ctx, exe, stats)
    # sanitizer replay of copy-heavy sequences (D4; also relevant to C08)
    sanitizer_replay(ctx, stats)
    if dis and ctx.failing_inputs:
        # runcheck.py drops correspondence disagreements as soon as a property failure was recorded (even one that
        # is a known finding): report them as failures of the check in their own right
        for d in dis[:3]:
            ctx.fail("model and implementation disagree (the oracle found no property violation in this sequence): "
                     + d["what"], ops=d.get("ops"), signature="C16-correspondence")
    cov = ctx.res.cov
    cov["evaluations"] = stats["evaluations"]
    cov["distinct_nontrivial"] = len(stats["distinct"])
    cov["rule"] = ("seeded op sequences (add node/segment/label/arc, select, group/property assignment, delete, move/rotate/"
                   "scale, translate/rotate/mirror copy, create radius) over a 3x3 lattice plus off-lattice and random real "
                   "coordinates, executed by the real FemmProblem exactly as the Lua commands call it; one evaluation = one op "
                   "whose resulting drawing was checked by the exact-rational oracle; sequences without arc ops are also "
                   "compared state by state with the binary64 reading of the Coq model; non-trivial = the op changed the "
                   "drawing, distinct = distinct (drawing before, op) pairs; the thorough tier also enumerates completely ALL "
                   "sequences of length <= 4 over a 26-op alphabet on the 3x3 lattice ('exhaustive' refers to that finite "
                   "space, see exhaustive_space; the seeded random sequences come on top)")
    cov["input_distribution"] = dict(op_kinds=stats["kinds"], sequences=stats["cases"])
    cov["samples"] = [to_text(cid, ops).split("\n")[:14] for cid, ops in cases[5:7]]
    cov["states_compared_with_model"] = stats["states_compared"]
    cov["values_compared"] = stats["values"]
    cov["bit_identical"] = stats["bit_identical"]
    cov["harness_crashes"] = stats["crashes"]
    cov["oracle_failures"] = stats["oracle_failures"]
    cov["double_split_flag_seen"] = stats["dsplit_flag"]
    cov["failures_by_signature"] = stats["signatures"]
    cov["sanitizer_replay"] = stats.get("san", {})
    if "exhaustive" in stats:
        cov["exhaustive"] = True
        cov["exhaustive_space"] = stats["exhaustive"]
    dis += ext.run(ctx, EXTENSIONS)
    return dis


def probe_f3(ctx, exe, stats):
    impl, crashes = run_impl(exe, [(0, PROBE_F3)])
    got = impl.get(0)
    if not got or len(got["states"]) != 3:
        return
    st = got["states"][-1]
    gap = orc.min_node_gap(st)
    tol = orc.lua_tol(st)
    stats["evaluations"] += 3
    if gap is not None and gap < tol:
        ctx.fail("two points closer than the snap tolerance of the drawing they are in: gap %.3g < tolerance %.3g "
                 "(the tolerance is recomputed from the bounding box by every command and earlier points are never re-checked)"
                 % (gap, tol), ops=[list(o) for o in PROBE_F3], signature=SIG_F3)


def probe_f5(ctx, stats):
    """mi_addarc in a document without points (the harness does not drive this: luaAddArc indexes nodelist[-1])"""
    tool = ctx.snap.tool("femmcli")
    if not os.path.exists(tool):
        return
    lua = os.path.join(ctx.work, "f5.lua")
    script = 'newdocument(0)\nmi_addarc(0,0,1,1,90,5)\nprint("survived")\n'
    open(lua, "w").write(script)
    rc, out, err = vlib.sh([tool, "--lua-script=" + lua], timeout=60, cwd=ctx.work)
    stats["evaluations"] += 1
    if "survived" not in out:
        ctx.fail("femmcli terminates abnormally (rc=%d) on mi_addarc in a document without points: luaAddArc toggles "
                 "nodelist[closestNode(...)] = nodelist[-1]" % rc, lua=script.split("\n"), signature=SIG_F5)


def exhaustive(ctx, exe, stats):
    """ALL sequences of length <= 4 over the 26-op lattice alphabet through the implementation and the oracle;
    those of length <= 3 and those of length 4 that start with two addnode also through the model."""
    alpha = exhaustive_sequences(4)
    dis = []
    cid = 0
    nmodel = 0
    for L in (1, 2, 3, 4):
        batch_m, batch_o = [], []
        for seq in itertools.product(alpha, repeat=L):
            with_model = L <= 3 or (seq[0][0] == "addnode" and seq[1][0] == "addnode")
            (batch_m if with_model else batch_o).append((cid, list(seq)))
            cid += 1
            if len(batch_m) >= 3000:
                dis += check_cases(ctx, exe, batch_m, stats, with_model=True)
                nmodel += len(batch_m)
                batch_m = []
            if len(batch_o) >= 20000:
                dis += check_cases(ctx, exe, batch_o, stats, with_model=False)
                batch_o = []
        if batch_m:
            dis += check_cases(ctx, exe, batch_m, stats, with_model=True)
            nmodel += len(batch_m)
        if batch_o:
            dis += check_cases(ctx, exe, batch_o, stats, with_model=False)
    stats["exhaustive"] = dict(alphabet=[" ".join(fmt(v) for v in o) for o in alpha], max_length=4, sequences=cid,
                               sequences_also_through_model=nmodel)
    return dis


def sanitizer_replay(ctx, stats):
    try:
        snap_san = vlib.snapshot("san")
        exe = vlib.build_harness(snap_san, "h_drawing")
    except vlib.BuildError as e:
        ctx.res.notes.append("sanitizer flavour could not be built: %s" % str(e)[-300:])
        return
    rng = vlib.Rng(ctx.seed + 16)
    cases = [PROBE_D4] + [gen_copy_heavy(rng) for _ in range(24 if ctx.quick() else 200)]
    cases += [gen_seq(rng, rng.randint(8, 20), arcs=(k % 3 == 0)) for k in range(20 if ctx.quick() else 300)]
    st = new_stats()
    check_cases(ctx, exe, list(enumerate(cases)), st, sanitized=True, with_model=False)
    stats["san"] = dict(sequences=st["cases"], ops_checked=st["evaluations"], reports=st["crashes"],
                        failures_by_signature=st["signatures"])
    stats["evaluations"] += st["evaluations"]
    for k, v in st["kinds"].items():
        stats["kinds"][k] = stats["kinds"].get(k, 0) + v


class _Collect:
    """stands in for ctx in check_cases: collects the failures instead of reporting them"""
    def __init__(self, ctx):
        self.failing_inputs = []
        self._quick = ctx.quick()

    def quick(self):
        return self._quick

    def fail(self, what, **kw):
        d = dict(what=what)
        d.update(kw)
        self.failing_inputs.append(d)


def search(ctx, broken):
    """A proof or the correspondence broke: look for a sequence on which the PROPERTY fails on the real code."""
    exe = vlib.build_harness(ctx.snap, "h_drawing")
    rng = vlib.Rng(ctx.seed + 1)
    cases = []
    for b in broken:
        c = b.get("case") or {}
        if c.get("ops"):
            cases.append([tuple(o) for o in c["ops"]])
    cases += [gen_seq(rng, rng.randint(6, 30), arcs=(k % 4 == 0), lattice_p=rng.choice([0.75, 0.4])) for k in range(1500)]
    cases += [gen_props_copy(rng) for _ in range(300)]
    sub = _Collect(ctx)
    check_cases(sub, exe, list(enumerate(cases)), new_stats(), with_model=False)
    known = {SIG_D4, SIG_F1, SIG_F2, SIG_F3, SIG_F4, SIG_F5, SIG_F6}
    fresh = [f for f in sub.failing_inputs if f.get("signature") not in known]
    return (fresh or sub.failing_inputs)[:3]
