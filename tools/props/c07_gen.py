"""Generators of (anti)periodic cells for C07: translational cells (rectangle, optionally both
pairs of sides periodic and sides split into collinear pieces with their own conditions),
rotational sectors (apex node shared by both radial lines, or annular sector), cells whose
partner sides are congruent arcs (translated or rotated copies), different spacings on the two
partners, all three file types; plus INVALID assignments that the mesher must reject.

Every problem carries `pbc_info`: for each periodic condition the two partner entities (as
drawn), the rigid motion taking A onto B *known to the generator* (not taken from the code under
test) and the sign.  Entities: ('seg', index in p['segments']) or ('arc', index in p['arcs'])."""
import math, copy
import femgen
from femgen import Builder

# BdryType numbers of a periodic / antiperiodic condition as each reader defines them
# (CMBoundaryProp / CSBoundaryProp / CHBoundaryProp ::isPeriodic)
PER_TYPE = {"fem": (4, 5), "fee": (3, 4), "feh": (4, 5)}
EXT = {"fee": ".fee", "feh": ".feh", "fem": ".fem"}


def props(B, kind, rng, anti, nper=1):
    """materials (second one carries the source), a Dirichlet condition with value 0 (safe next to
    an antiperiodic side), one with a non-zero value, and `nper` (anti)periodic conditions."""
    ids = {}
    if kind == "fem":
        B.prop("blockprops", name="air", mu_x=1.0, mu_y=1.0)
        B.prop("blockprops", name="coil", mu_x=rng.choice([1.0, 50.0]), mu_y=1.0, J_re=rng.choice([1.0, -2.0, 0.5]))
        ids["zero"] = B.prop("bdryprops", name="zero", type=0)
        ids["fix"] = B.prop("bdryprops", name="fix", type=0, A_0=rng.choice([1e-3, -2e-3]))
    elif kind == "fee":
        B.prop("blockprops", name="air", ex=1.0, ey=1.0, qv=0.0)
        B.prop("blockprops", name="charge", ex=rng.choice([1.0, 3.0]), ey=1.0, qv=rng.choice([1e-3, -2e-3]))
        ids["zero"] = B.prop("bdryprops", name="zero", type=0, V=0.0)
        ids["fix"] = B.prop("bdryprops", name="fix", type=0, V=rng.choice([10.0, -4.0, 2.5]))
    else:
        B.prop("blockprops", name="air", kx=1.0, ky=1.0, qv=0.0)
        B.prop("blockprops", name="heat", kx=rng.choice([1.0, 20.0]), ky=1.0, qv=rng.choice([1e3, -5e2]))
        ids["zero"] = B.prop("bdryprops", name="zero", type=0, Tset=0.0)
        ids["fix"] = B.prop("bdryprops", name="fix", type=0, Tset=rng.choice([300.0, 350.0, -20.0]))
    antis = anti if isinstance(anti, (list, tuple)) else [anti] * nper
    ids["per"] = [B.prop("bdryprops", name="per%d" % i, type=PER_TYPE[kind][1 if antis[i] else 0]) for i in range(nper)]
    return ids


def settings(B, rng, smart=None, freq=0):
    p = B.p
    p["units"] = rng.choice(["millimeters", "centimeters", "meters", "inches"])
    p["depth"] = rng.choice([1.0, 10.0])
    p["minangle"] = rng.choice([20.0, 25.0, 30.0])
    p["dosmartmesh"] = rng.choice([0, 1]) if smart is None else smart
    p["problemtype"] = "planar"
    p["precision"] = 1e-8
    if p["kind"] == "fem":
        p["frequency"] = freq


def dirichlet(ids, anti, rng):
    """a Dirichlet side that meets an antiperiodic side must be at 0 (V = -V at the corners)"""
    return ids["zero"] if anti else rng.choice([ids["zero"], ids["fix"]])


def spacing(rng):
    """(maxside of A, maxside of B): equal, different, or one unspecified"""
    r = rng.random()
    if r < 0.3:
        return -1, -1
    if r < 0.5:
        s = rng.choice([0.5, 0.25, 0.3]); return s, s
    if r < 0.8:
        return rng.choice([0.5, 0.3]), rng.choice([0.2, 0.125, 0.26])
    return (-1, rng.choice([0.4, 0.2])) if rng.random() < 0.5 else (rng.choice([0.4, 0.2]), -1)


# ------------------------------------------------------------------------------------------
def fam_translation(rng, kind, anti, both=False, split=False, smart=None, freq=0):
    """rectangle [x0,x0+W] x [y0,y0+H]; left/right sides (anti)periodic; bottom/top either Dirichlet or a
    second independent (anti)periodic pair sharing the four corner nodes (`both`); `split`: the
    left and right sides are drawn as two collinear pieces each with its own condition (the shared
    mid node is then listed by two conditions -> pruning)."""
    B = Builder(kind)
    nper = (2 if split else 1) + (1 if both else 0)
    # with two independent pairs the second one may carry the opposite sign (consistent at the shared
    # corners: V0 = V1, V3 = -V0, V2 = -V1, V3 = V2)
    mixed = both and rng.random() < 0.5
    anti_tb = (not anti) if mixed else anti
    ids = props(B, kind, rng, [anti] * (nper - 1) + [anti_tb] if both else anti, nper)
    settings(B, rng, smart, freq)
    W = rng.choice([2.0, 3.0, 1.5]); H = rng.choice([1.0, 2.0, 1.25])
    x0 = rng.choice([0.0, -1.0, 0.5]); y0 = rng.choice([0.0, 0.25, -2.0])
    x1, y1 = x0 + W, y0 + H
    a = B.point(x0, y0); b = B.point(x1, y0); c = B.point(x1, y1); d = B.point(x0, y1)
    sa, sb = spacing(rng)
    info = []
    per = list(ids["per"])
    tb = per.pop() if both else None
    dz = dirichlet(ids, anti, rng)
    ib = B.seg(a, b, bdry=tb if both else dz, **({"maxside": rng.choice([-1, 0.5])} if both else {}))
    if split:
        ym = y0 + H * rng.choice([0.5, 0.375])
        e = B.point(x1, ym); f = B.point(x0, ym)
        r1 = B.seg(b, e, bdry=per[0], maxside=sb); r2 = B.seg(e, c, bdry=per[1], maxside=sb)
        it = B.seg(c, d, bdry=tb if both else dz)
        l2 = B.seg(d, f, bdry=per[1], maxside=sa); l1 = B.seg(f, a, bdry=per[0], maxside=sa)
        info.append(dict(bc=per[0], A=("seg", l1), B=("seg", r1), motion=("trans", W, 0.0), anti=anti))
        info.append(dict(bc=per[1], A=("seg", l2), B=("seg", r2), motion=("trans", W, 0.0), anti=anti))
    else:
        r = B.seg(b, c, bdry=per[0], maxside=sb)
        it = B.seg(c, d, bdry=tb if both else dz)
        l = B.seg(d, a, bdry=per[0], maxside=sa)
        info.append(dict(bc=per[0], A=("seg", l), B=("seg", r), motion=("trans", W, 0.0), anti=anti))
    if both:
        info.append(dict(bc=tb, A=("seg", ib), B=("seg", it), motion=("trans", 0.0, H), anti=anti_tb))
    # off-centre inner box carrying the source; with all four sides periodic it also pins the
    # potential (Dirichlet condition on the box) so that the problem is not singular
    bx0, bx1 = x0 + W * 0.25, x0 + W * 0.5
    by0, by1 = y0 + H * 0.25, y0 + H * 0.625
    boxbc = dict(bdry=ids["fix"]) if both else {}
    B.rect(bx0, by0, bx1, by1, {k: boxbc for k in "brtl"})
    d_ = femgen.mesh_diameter(W * H / rng.choice([25, 40, 60]))
    B.label(x0 + W * 0.1, y0 + H * 0.1, 1, maxarea=d_)
    B.label((bx0 + bx1) / 2, (by0 + by1) / 2, 2, maxarea=d_ / 1.5)
    B.p["pbc_info"] = info
    B.p["cell"] = max(W, H)
    B.p["features"] = ["translation", kind, "anti" if anti else "periodic", "both-pairs" if both else "one-pair",
                       "split" if split else "whole", "spacing:%g/%g" % (sa, sb), "smart%d" % B.p["dosmartmesh"]] + \
                      (["harmonic"] if freq else []) + (["mixed-signs"] if mixed else [])
    return B.p


def fam_sector(rng, kind, anti, apex=True, smart=None, freq=0):
    """sector of opening angle th about the origin: two radial lines carry the condition (B is A
    rotated by th); `apex`: the lines meet in the centre node (paired with itself), otherwise an
    annular sector closed by an inner arc; outer (and inner) arcs are Dirichlet."""
    B = Builder(kind)
    ids = props(B, kind, rng, anti, 1)
    settings(B, rng, smart, freq)
    th = rng.choice([30.0, 45.0, 60.0, 90.0, 72.0])
    ro = rng.choice([2.0, 3.0]); ri = 0.0 if apex else ro * rng.choice([0.25, 0.5])
    t = math.radians(th)
    cs, sn = math.cos(t), math.sin(t)
    sa, sb = spacing(rng)
    per = ids["per"][0]
    dz = dirichlet(ids, anti, rng)
    po = B.point(ro, 0.0); qo = B.point(ro * cs, ro * sn)
    if apex:
        o = B.point(0.0, 0.0)
        la = B.seg(o, po, bdry=per, maxside=sa)
        lb = B.seg(qo, o, bdry=per, maxside=sb)
    else:
        pi_ = B.point(ri, 0.0); qi = B.point(ri * cs, ri * sn)
        la = B.seg(pi_, po, bdry=per, maxside=sa)
        lb = B.seg(qo, qi, bdry=per, maxside=sb)
        B.arc(pi_, qi, th, maxseg=rng.choice([5.0, 10.0]), bdry=dz)
    B.arc(po, qo, th, maxseg=rng.choice([5.0, 10.0, 7.5]), bdry=dz if apex else rng.choice([dz, ids["zero"]]))
    # source region: a small quadrilateral inside the sector, off the symmetry line
    rm0, rm1 = ri + (ro - ri) * 0.4, ri + (ro - ri) * 0.7
    t0, t1 = t * 0.2, t * 0.55
    q = [(rm0 * math.cos(t0), rm0 * math.sin(t0)), (rm1 * math.cos(t0), rm1 * math.sin(t0)),
         (rm1 * math.cos(t1), rm1 * math.sin(t1)), (rm0 * math.cos(t1), rm0 * math.sin(t1))]
    idq = [B.point(x, y) for (x, y) in q]
    for i in range(4):
        B.seg(idq[i], idq[(i + 1) % 4])
    area = 0.5 * t * (ro * ro - ri * ri)
    d_ = femgen.mesh_diameter(area / rng.choice([25, 40, 60]))
    rl = ri + (ro - ri) * 0.85
    B.label(rl * math.cos(t * 0.8), rl * math.sin(t * 0.8), 1, maxarea=d_)
    rc, tc = (rm0 + rm1) / 2, (t0 + t1) / 2
    B.label(rc * math.cos(tc), rc * math.sin(tc), 2, maxarea=d_ / 1.5)
    B.p["pbc_info"] = [dict(bc=per, A=("seg", la), B=("seg", lb), motion=("rot", 0.0, 0.0, th), anti=anti)]
    B.p["cell"] = ro
    B.p["features"] = ["sector", kind, "anti" if anti else "periodic", "apex" if apex else "annular", "angle%g" % th,
                       "spacing:%g/%g" % (sa, sb), "smart%d" % B.p["dosmartmesh"]] + (["harmonic"] if freq else [])
    return B.p


def arc_point(p, q, ang):
    """centre of the arc drawn counter-clockwise from p to q spanning `ang` degrees"""
    (x0, y0), (x1, y1) = p, q
    d = math.hypot(x1 - x0, y1 - y0)
    R = d / (2 * math.sin(math.radians(ang) / 2))
    h = math.sqrt(max(R * R - d * d / 4, 0.0))
    mx, my = (x0 + x1) / 2, (y0 + y1) / 2
    ux, uy = (x1 - x0) / d, (y1 - y0) / d
    return (mx - uy * h, my + ux * h), R


def fam_arc_translation(rng, kind, anti, smart=None, freq=0):
    """cell whose left and right sides are congruent arcs (B = A translated by W); bottom and top
    lines are Dirichlet."""
    B = Builder(kind)
    ids = props(B, kind, rng, anti, 1)
    settings(B, rng, smart, freq)
    W = rng.choice([2.0, 3.0]); H = rng.choice([1.0, 1.5])
    ang = rng.choice([40.0, 60.0, 90.0, 25.0])
    ma, mb = rng.choice([(10.0, 10.0), (10.0, 5.0), (4.0, 8.0), (15.0, 15.0)])
    per = ids["per"][0]
    dz = dirichlet(ids, anti, rng)
    a = B.point(0.0, 0.0); b = B.point(0.0, H); c = B.point(W, 0.0); d = B.point(W, H)
    B.seg(a, c, bdry=dz); B.seg(b, d, bdry=dz)
    # both arcs drawn from the lower to the upper point (bulging to the right) or both reversed
    if rng.random() < 0.5:
        B.arc(a, b, ang, maxseg=ma, bdry=per); B.arc(c, d, ang, maxseg=mb, bdry=per)
    else:
        B.arc(b, a, ang, maxseg=ma, bdry=per); B.arc(d, c, ang, maxseg=mb, bdry=per)
    bx0, bx1, by0, by1 = W * 0.45, W * 0.7, H * 0.3, H * 0.6
    B.rect(bx0, by0, bx1, by1)
    d_ = femgen.mesh_diameter(W * H / rng.choice([25, 40]))
    B.label(W * 0.5, H * 0.1, 1, maxarea=d_)
    B.label((bx0 + bx1) / 2, (by0 + by1) / 2, 2, maxarea=d_ / 1.5)
    B.p["pbc_info"] = [dict(bc=per, A=("arc", 0), B=("arc", 1), motion=("trans", W, 0.0), anti=anti)]
    B.p["cell"] = max(W, H)
    B.p["features"] = ["arc-translation", kind, "anti" if anti else "periodic", "arc%g" % ang, "maxseg:%g/%g" % (ma, mb),
                       "smart%d" % B.p["dosmartmesh"]] + (["harmonic"] if freq else [])
    return B.p


def fam_arc_rotation(rng, kind, anti, smart=None, freq=0):
    """curved sector: side A is an arc from (ri,0) to (ro,0), side B its copy rotated by th about the
    origin; closed by Dirichlet arcs of radius ri and ro about the origin."""
    B = Builder(kind)
    ids = props(B, kind, rng, anti, 1)
    settings(B, rng, smart, freq)
    th = rng.choice([45.0, 60.0, 90.0])
    ro = 3.0; ri = rng.choice([1.0, 1.5])
    ang = rng.choice([30.0, 50.0])
    ma, mb = rng.choice([(10.0, 10.0), (10.0, 5.0), (6.0, 12.0)])
    t = math.radians(th); cs, sn = math.cos(t), math.sin(t)
    per = ids["per"][0]
    dz = dirichlet(ids, anti, rng)
    pi_ = B.point(ri, 0.0); po = B.point(ro, 0.0)
    qi = B.point(ri * cs, ri * sn); qo = B.point(ro * cs, ro * sn)
    B.arc(pi_, po, ang, maxseg=ma, bdry=per)      # 0: bulges towards negative y at th=0
    B.arc(qi, qo, ang, maxseg=mb, bdry=per)       # 1: the rotated copy
    B.arc(pi_, qi, th, maxseg=10.0, bdry=dz)
    B.arc(po, qo, th, maxseg=10.0, bdry=dz)
    rm = (ri + ro) / 2
    q = [(rm * 0.85 * math.cos(t * 0.3), rm * 0.85 * math.sin(t * 0.3)), (rm * 1.1 * math.cos(t * 0.3), rm * 1.1 * math.sin(t * 0.3)),
         (rm * 1.1 * math.cos(t * 0.55), rm * 1.1 * math.sin(t * 0.55)), (rm * 0.85 * math.cos(t * 0.55), rm * 0.85 * math.sin(t * 0.55))]
    idq = [B.point(x, y) for (x, y) in q]
    for i in range(4):
        B.seg(idq[i], idq[(i + 1) % 4])
    area = 0.5 * t * (ro * ro - ri * ri)
    d_ = femgen.mesh_diameter(area / rng.choice([25, 40]))
    B.label(rm * math.cos(t * 0.8), rm * math.sin(t * 0.8), 1, maxarea=d_)
    B.label(rm * 0.975 * math.cos(t * 0.425), rm * 0.975 * math.sin(t * 0.425), 2, maxarea=d_ / 1.5)
    B.p["pbc_info"] = [dict(bc=per, A=("arc", 0), B=("arc", 1), motion=("rot", 0.0, 0.0, th), anti=anti)]
    B.p["cell"] = ro
    B.p["features"] = ["arc-rotation", kind, "anti" if anti else "periodic", "angle%g" % th, "arc%g" % ang,
                       "maxseg:%g/%g" % (ma, mb), "smart%d" % B.p["dosmartmesh"]] + (["harmonic"] if freq else [])
    return B.p


# ------------------------------------------------------------------------------------------
# invalid assignments
# ------------------------------------------------------------------------------------------
def fam_invalid(rng, kind, anti, how):
    """how: 'three-lines' | 'line-and-arc' | 'unequal-lines' | 'three-arcs' | 'unequal-arcs'"""
    B = Builder(kind)
    ids = props(B, kind, rng, anti, 1)
    settings(B, rng, 0)
    per = ids["per"][0]; dz = ids["zero"]
    W, H = 2.0, 1.0
    if how == "three-lines":
        B.rect(0.0, 0.0, W, H, dict(b=dict(bdry=per), r=dict(bdry=per), t=dict(bdry=dz), l=dict(bdry=per)))
    elif how == "unequal-lines":
        # a trapezium: left side of length 1, right side of length 1.25
        a = B.point(0.0, 0.0); b = B.point(W, 0.0); c = B.point(W, 1.25); d = B.point(0.0, 1.0)
        B.seg(a, b, bdry=dz); B.seg(b, c, bdry=per); B.seg(c, d, bdry=dz); B.seg(d, a, bdry=per)
    elif how == "line-and-arc":
        a = B.point(0.0, 0.0); b = B.point(W, 0.0); c = B.point(W, H); d = B.point(0.0, H)
        B.seg(a, b, bdry=dz); B.seg(c, d, bdry=dz); B.seg(d, a, bdry=per)
        B.arc(b, c, 30.0, maxseg=10.0, bdry=per)
    elif how == "three-arcs":
        a = B.point(0.0, 0.0); b = B.point(W, 0.0); c = B.point(W, H); d = B.point(0.0, H)
        B.seg(a, b, bdry=dz)
        B.arc(b, c, 30.0, maxseg=10.0, bdry=per); B.arc(c, d, 20.0, maxseg=10.0, bdry=per); B.arc(d, a, 30.0, maxseg=10.0, bdry=per)
    elif how == "unequal-arcs":
        a = B.point(0.0, 0.0); b = B.point(W, 0.0); c = B.point(W, H); d = B.point(0.0, H)
        B.seg(a, b, bdry=dz); B.seg(c, d, bdry=dz)
        B.arc(b, c, 30.0, maxseg=10.0, bdry=per); B.arc(d, a, 40.0, maxseg=10.0, bdry=per)
    B.label(W * 0.5, H * 0.5, 1, maxarea=0.4)
    B.p["pbc_info"] = []
    B.p["invalid"] = how
    B.p["cell"] = W
    B.p["features"] = ["invalid:" + how, kind, "anti" if anti else "periodic"]
    return B.p


INVALID = ["three-lines", "line-and-arc", "unequal-lines", "three-arcs", "unequal-arcs"]
KINDS = ["fem", "fee", "feh"]


FAMILIES = 8


def gen_valid(rng, k, quick=True):
    """k-th problem of the seeded sequence.  Family, file type and sign are cycled so that 24
    consecutive problems cover every (family, file type) once with both signs in every family, and 48
    cover every (family, file type, sign); harmonic magnetics every other magnetics problem."""
    fam = k % FAMILIES
    blk = k // FAMILIES
    kind = KINDS[(blk + fam) % 3]
    anti = (blk + fam) % 2 == 1
    freq = 50 if (kind == "fem" and (blk + fam // 3) % 2 == 1) else 0
    smart = (1 if rng.random() < 0.25 else 0) if quick else None
    if fam == 0:
        return fam_translation(rng, kind, anti, smart=smart, freq=freq)
    if fam == 1:
        return fam_sector(rng, kind, anti, apex=True, smart=smart, freq=freq)
    if fam == 2:
        return fam_translation(rng, kind, anti, both=True, smart=smart, freq=freq)
    if fam == 3:
        return fam_arc_translation(rng, kind, anti, smart=smart, freq=freq)
    if fam == 4:
        return fam_sector(rng, kind, anti, apex=False, smart=smart, freq=freq)
    if fam == 5:
        return fam_translation(rng, kind, anti, split=True, smart=smart, freq=freq)
    if fam == 6:
        return fam_arc_rotation(rng, kind, anti, smart=smart, freq=freq)
    return fam_translation(rng, kind, anti, both=True, split=True, smart=smart, freq=freq)


def first_pass_twin(p):
    """A copy of the problem that the mesher must reject *after* its first Triangle pass (one of the
    (anti)periodic conditions is additionally given to a line that carries no such condition: three
    segments, or a mix of arcs and segments).  Geometry and spacings are untouched, so the mesh
    files that the rejected run leaves behind are those of the first pass of the original problem."""
    q = copy.deepcopy(p)
    pers = set(i["bc"] for i in p["pbc_info"])
    bc = p["pbc_info"][0]["bc"]
    for s in q["segments"]:
        if s.get("bdry", 0) not in pers:
            s["bdry"] = bc
            return q
    return None
