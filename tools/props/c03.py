"""C03 — electrostatic solution satisfies the discrete field equations and Gauss's law.
Model: coq/theories/AsmE.v (ESolver::AnalyzeProblem, ChargeOnConductor); theorems:
Properties_C03.v.  Correspondence: generated .fee problems -> real fmesher -> harness
h_esolver (real LoadProblemFile/LoadMesh/Cuthill/AnalyzeProblem) dumps the solver's data and
the assembled CBigLinProb; the float reading of asmE must reproduce matrix, rhs, flags and
conductor charges.  Property oracle: an independent SI-unit P1 Galerkin assembly (numpy)."""
import os, math, json
import numpy as np
import vlib, femgen

LEVEL = "proof"
COQ_MODULES = ["AsmE"]
ASSUMPTIONS = [
    "theorems are about the real-number reading of the assembly model; rounding is not bounded",
    "Triangle, the file readers and Cuthill-McKee renumbering are not modelled: the model starts from the solver's in-memory mesh after LoadMesh+Cuthill (dumped by the harness)",
    "the linear solve itself is C09's subject; here the written potentials are checked against an independent assembly",
]
HEADER = ("From Coq Require Import ZArith List Floats. Import ListNotations. "
          "From XF Require Import Arith Sparse AsmE.")


# ---------------------------------------------------------------------------- dump ----
def parse_dump(path):
    d = dict(nodes=[], elems=[], blocks=[], lines=[], points=[], circs=[], labels=[], pbcs=[], rows={}, fail=None)
    for line in open(path):
        t = line.split()
        if not t:
            continue
        k = t[0]
        if k == "FAIL":
            d["fail"] = t[1]
        elif k == "PROB":
            d.update(axi=int(t[1]), depth=float(t[2]), unit=int(t[3]), extRo=float(t[4]), extRi=float(t[5]), extZo=float(t[6]),
                     eo=float(t[7]), prec=float(t[8]), bw=int(t[9]), nn=int(t[10]), ne=int(t[11]), nc=int(t[12]))
        elif k == "NODE":
            d["nodes"].append((float(t[1]), float(t[2]), int(t[3]), int(t[4])))
        elif k == "ELEM":
            d["elems"].append(tuple(int(x) for x in t[1:9]))
        elif k == "BLOCK":
            d["blocks"].append(tuple(float(x) for x in t[1:4]))
        elif k == "LINE":
            d["lines"].append((int(t[1]),) + tuple(float(x) for x in t[2:6]))
        elif k == "POINT":
            d["points"].append((float(t[1]), float(t[2])))
        elif k == "CIRC":
            d["circs"].append((int(t[1]), float(t[2]), float(t[3])))
        elif k == "LABEL":
            d["labels"].append(int(t[1]))
        elif k == "PBC":
            d["pbcs"].append((int(t[1]), int(t[2]), int(t[3])))
        elif k == "SOLVED":
            d["solved"] = int(t[1]); d["depth_after"] = float(t[2])
        elif k == "ROW":
            i, cnt = int(t[1]), int(t[2])
            d["rows"][i] = [(int(t[3 + 2 * j]), float(t[4 + 2 * j])) for j in range(cnt)]
        elif k == "B":
            d["b"] = [float(x) for x in t[1:]]
        elif k == "V":
            d["V"] = [float(x) for x in t[1:]]
        elif k == "Q":
            d["Q"] = [int(x) for x in t[1:]]
        elif k == "CHARGE":
            d["charge"] = [float(x) for x in t[1:]]
        elif k == "CHARGEALL":
            d["chargeall"] = [float(x) for x in t[1:]]
    return d


def opt(n):
    return "None" if n < 0 else "(Some %d)" % n


EXTFIX = {"value": "false"}


def flow_variant(ctx):
    """does ESolver::ChargeOnConductor apply the exterior-region scaling of the permittivity?  (read from the source)"""
    src = open(os.path.join(ctx.snap.src, "esolver", "esolver.cpp"), errors="replace").read()
    i = src.find("double ESolver::ChargeOnConductor")
    if i < 0:
        raise vlib.TranslateError("ESolver::ChargeOnConductor not found in esolver.cpp")
    j = src.find("\n}", i)
    return "true" if "IsExternal" in src[i:j if j > 0 else len(src)] else "false"


def to_coq(d):
    f = vlib.fhexs
    nodes = "; ".join("mkENode %s %s %s %s" % (f(x), f(y), opt(bm), opt(c)) for (x, y, bm, c) in d["nodes"])
    elems = "; ".join("mkEElem (%d, %d, %d) (%s, %s, %s) %d %d" % (e[0], e[1], e[2], opt(e[3]), opt(e[4]), opt(e[5]), e[6], e[7])
                      for e in d["elems"])
    blocks = "; ".join("mkEBlock %s %s %s" % tuple(f(x) for x in b) for b in d["blocks"])
    lines = "; ".join("mkELine %d %s %s %s %s" % ((l[0],) + tuple(f(x) for x in l[1:])) for l in d["lines"])
    points = "; ".join("mkEPoint %s %s" % (f(p[0]), f(p[1])) for p in d["points"])
    circs = "; ".join("mkECirc %d %s %s" % (c[0], f(c[1]), f(c[2])) for c in d["circs"])
    labels = "; ".join("true" if l else "false" for l in d["labels"])
    pbcs = "; ".join("(%d, %d, %d)" % p for p in d["pbcs"])
    P = ("(mkEProb %s %s %d %s %s %s %s [%s] [%s] [%s] [%s] [%s] [%s] [%s] [%s])"
         % ("true" if d["axi"] else "false", f(d["depth"]), d["unit"], f(d["extRo"]), f(d["extRi"]), f(d["extZo"]), f(d["eo"]),
            nodes, elems, blocks, lines, points, circs, labels, pbcs))
    V = "[%s]" % "; ".join(f(v) for v in d["V"])
    nc = d["nc"]
    charges = "; ".join("charge_on_conductor FA P %s %s V %d" % (EXTFIX["value"], f(d["depth_after"]), i) for i in range(nc))
    return ("let P := %s in let V := %s in let r := asmE FA P %d %s in "
            "(dump_rows FA (lM (fst (fst r))) ++ lb (fst (fst r)), snd r, [%s])" % (P, V, d["bw"], f(d["prec"]), charges))


def flatten_impl(d):
    out = []
    n = d["nn"] + d["nc"]
    for i in range(n):
        r = d["rows"][i]
        out.append(float(len(r)))
        for c, x in r:
            out += [float(c), x]
    return out + d["b"]


# ---------------------------------------------------- independent SI assembly (oracle) ----
UNIT_MM = [25.4, 1.0, 10.0, 1000.0, 0.0254, 0.001]
EO = 8.85418781762e-12


def si_system(d):
    """Textbook P1 Galerkin system in SI units from the dumped mesh and properties:
    returns (Kstiff, Kmix, f, presc dict node->V, floating dict c->[nodes], fixedcond dict)."""
    nn = d["nn"]
    X = np.array([(x * 1e-3, y * 1e-3) for (x, y, _, _) in d["nodes"]])       # mm -> m
    depth = d["depth"] * UNIT_MM[d["unit"]] * 1e-3
    Ks = np.zeros((nn, nn)); Km = np.zeros((nn, nn)); f = np.zeros(nn)
    presc = {}
    for i, (x, y, bm, c) in enumerate(d["nodes"]):
        if bm >= 0 and d["points"][bm][1] == 0:
            presc[i] = d["points"][bm][0]
        if c >= 0 and d["circs"][c][0] == 1:
            presc[i] = d["circs"][c][1]
    for e in d["elems"]:
        n = e[0:3]
        for j in range(3):
            if e[3 + j] >= 0 and d["lines"][e[3 + j]][0] == 0:
                presc[n[j]] = d["lines"][e[3 + j]][1]
                presc[n[(j + 1) % 3]] = d["lines"][e[3 + j]][1]
    for e in d["elems"]:
        n = e[0:3]
        P = X[list(n)]
        bb = np.array([P[1, 1] - P[2, 1], P[2, 1] - P[0, 1], P[0, 1] - P[1, 1]])
        cc = np.array([P[2, 0] - P[1, 0], P[0, 0] - P[2, 0], P[1, 0] - P[0, 0]])
        area = (bb[0] * cc[1] - bb[1] * cc[0]) / 2
        ex, ey, qv = d["blocks"][e[6]]
        rbar = P[:, 0].mean()
        dep = 2 * math.pi * rbar if d["axi"] else depth
        kl = 1.0
        if d["axi"] and d["labels"][e[7]]:
            u = UNIT_MM[d["unit"]] * 1e-3
            z = P[:, 1].mean() - d["extZo"] * u
            kl = (rbar * rbar + z * z) / (d["extRi"] * u * d["extRo"] * u)
        gx = bb / (2 * area); gy = cc / (2 * area)
        Ke = EO * dep * area * (ex * np.outer(gx, gx) + ey * np.outer(gy, gy)) / kl
        for a_ in range(3):
            f[n[a_]] += qv * dep * area / 3
            for b_ in range(3):
                Ks[n[a_], n[b_]] += Ke[a_, b_]
        for j in range(3):
            if e[3 + j] < 0:
                continue
            k = (j + 1) % 3
            fmt, Vl, c0, c1, qs = d["lines"][e[3 + j]]
            ln = math.hypot(P[k, 0] - P[j, 0], P[k, 1] - P[j, 1])
            dp = math.pi * (P[j, 0] + P[k, 0]) if d["axi"] else depth
            if fmt == 1:
                m = c0 * dp * ln / 6
                Km[n[j], n[j]] += 2 * m; Km[n[k], n[k]] += 2 * m; Km[n[j], n[k]] += m; Km[n[k], n[j]] += m
                f[n[j]] -= c1 * dp * ln / 2; f[n[k]] -= c1 * dp * ln / 2
            if fmt == 2:
                f[n[j]] += qs * dp * ln / 2; f[n[k]] += qs * dp * ln / 2
    for i, (x, y, bm, c) in enumerate(d["nodes"]):
        if bm >= 0 and i not in presc and d["points"][bm][1] != 0:
            dp = 2 * math.pi * x * 1e-3 if d["axi"] else depth
            f[i] += d["points"][bm][1] * dp
    floating = {}
    for i, (x, y, bm, c) in enumerate(d["nodes"]):
        if c >= 0 and d["circs"][c][0] == 0 and i not in presc:
            floating.setdefault(c, []).append(i)
    return Ks, Km, f, presc, floating


def oracle(d):
    nn = d["nn"]
    V = np.array(d["V"][:nn])
    if not np.all(np.isfinite(V)):
        return "non-finite potentials in the solution"
    Ks, Km, f, presc, floating = si_system(d)
    scaleV = max(np.max(np.abs(V)), 1e-30)
    for i, v in presc.items():
        if abs(V[i] - v) > 1e-6 * max(scaleV, abs(v)):
            return "prescribed potential not met at node %d: %.12g vs %.12g" % (i, V[i], v)
    r = (Ks + Km) @ V - f
    mag = np.abs(Ks + Km) @ np.abs(V) + np.abs(f)
    free = [i for i in range(nn) if i not in presc and not any(i in m for m in floating.values())]
    if free:
        rel = np.linalg.norm(r[free]) / max(np.linalg.norm(mag[free]), 1e-300)
        if rel > 2e-6:
            worst = max(free, key=lambda i: abs(r[i]) / max(mag[i], 1e-300))
            return "free-node Galerkin residual %.3g (relative) too large; worst node %d" % (rel, worst)
    tot = np.linalg.norm(mag) or 1.0
    for c, mem in floating.items():
        vc = d["V"][nn + c]
        for i in mem:
            if abs(V[i] - vc) > 1e-6 * scaleV:
                return "floating conductor %d not equipotential at node %d (%.12g vs %.12g)" % (c, i, V[i], vc)
        # the conductor's charge is measured as the flux the potentials imply, i.e. the
        # stiffness reaction of its nodes (this is also what ChargeOnConductor reports)
        q = sum((Ks @ V)[i] for i in mem)
        want = d["circs"][c][2]
        if abs(q - want) > 2e-6 * max(sum(mag[i] for i in mem), abs(want)):
            return "floating conductor %d carries %.6g C instead of the prescribed %.6g C" % (c, q, want)
    # reported charges = stiffness reaction of the conductor's nodes
    for c in range(d["nc"]):
        mem = [i for i, nd in enumerate(d["nodes"]) if nd[3] == c]
        if not mem:
            continue
        react = sum((Ks @ V)[i] for i in mem)
        rep = d["chargeall"][c]
        sc = sum((np.abs(Ks) @ np.abs(V))[i] for i in mem)
        if abs(react - rep) > 1e-9 * max(sc, 1e-300):
            return "charge reported for conductor %d (%.9g) differs from the flux the potentials imply (%.9g)" % (c, rep, react)
        if d["circs"][c][0] == 1 and abs(d["charge"][c] - rep) > 1e-12 * max(abs(rep), 1e-300):
            return "charge stored for fixed-voltage conductor %d differs from ChargeOnConductor" % c
    # charge balance: the stiffness part has vanishing column sums
    s = float(np.sum(Ks @ V))
    if abs(s) > 1e-9 * float(np.sum(np.abs(Ks) @ np.abs(V)) or 1.0):
        return "charges do not balance: sum of all nodal stiffness reactions = %.3g" % s
    return None


# ------------------------------------------------------------------------ run cases ----
def run_case(ctx, k, p):
    exe = vlib.build_harness(ctx.snap, "h_esolver", libs=("esolver", "femm"))
    f = os.path.join(ctx.work, "c%d.fee" % k)
    femgen.write(p, f)
    rc, out, err = vlib.sh([ctx.snap.tool("fmesher"), f], timeout=120)
    if rc != 0:
        return None, "fmesher failed (rc=%d) on a well-formed problem: %s" % (rc, (out + err)[-300:])
    dump = f[:-4] + ".dump"
    rc, out, err = vlib.sh([exe, f[:-4], dump], timeout=300)
    if not os.path.exists(dump):
        return None, "harness crashed (rc=%d): %s" % (rc, err[-300:])
    d = parse_dump(dump)
    if d["fail"] or rc != 0:
        return None, "solver pipeline failed on a well-formed problem: %s rc=%d %s" % (d["fail"], rc, err[-200:])
    return d, None


def gen_problem(rng, quick, k=None):
    box = None if k is None else [None, "cfloat", "cfix", "twofloat", "material", "cfloat", "hole-fix", "twofloat"][k % 8]
    # k % 5 == 2: axisymmetric with an exterior region for certain (the interior / exterior elements interleave in the solver's
    # element order when the two regions are neighbours; the exterior label is the first, the last or any label)
    forced = k is not None and k % 5 == 2
    p = femgen.gen_scalar_problem(rng, "fee", axi=(True if forced else None),
                                  size_nodes=rng.choice([25, 40, 60]) if quick else rng.choice([40, 100, 250]), box=box)
    p["dosmartmesh"] = 0 if rng.random() < 0.8 else 1
    if p.get("problemtype") == "axisymmetric" and (forced or rng.random() < 0.6):
        # one region is declared part of the conformally mapped exterior region (Kelvin transformation): its
        # permittivity is divided by (r^2+z^2)/(extRi*extRo) in the assembly
        ys = [q["y"] for q in p["points"]]
        p.update(extRo=rng.choice([3.0, 5.0]), extRi=rng.choice([2.0, 2.5]), extZo=min(ys) - rng.choice([0.5, 1.0]))
        p["labels"][rng.randrange(len(p["labels"]))]["external"] = 1
        p["features"].append("external")
    return p


def correspond(ctx):
    rng = ctx.rng
    EXTFIX["value"] = flow_variant(ctx)
    ctx.res.cov["conductor_charge_variant"] = ("ChargeOnConductor applies the exterior-region scaling" if EXTFIX["value"] == "true"
                                               else "ChargeOnConductor ignores the exterior-region scaling")
    count = 16 if ctx.quick() else 96
    dis = []
    exprs, cases = [], []
    feats = {}
    precision_limited = 0
    for k in range(count):
        p = gen_problem(rng, ctx.quick(), k)
        for ft in p["features"]:
            feats[ft] = feats.get(ft, 0) + 1
        d, msg = run_case(ctx, k, p)
        if msg:
            ctx.fail(msg, problem=p)
            continue
        msg = oracle(d)
        if msg and p.get("precision", 1e-8) > 1e-10:
            # the oracle's tolerances assume a converged solve; PCG stops at a RELATIVE residual of Precision, which on
            # ill-scaled rows (conductor ties) leaves errors above them.  A deviation that disappears when the same
            # problem is solved with a tighter Precision is the solver's stopping tolerance, not a wrong equation.
            p2 = dict(p, precision=1e-11)
            d2, msg2 = run_case(ctx, 10000 + k, p2)
            if not msg2 and not oracle(d2):
                precision_limited += 1
                msg = None
        if msg:
            ctx.fail("esolver: " + msg, problem=p)
        if d["nn"] <= (700 if ctx.quick() else 1500):
            exprs.append(to_coq(d))
            cases.append((p, d))
    model = vlib.coq_eval(HEADER, exprs, shard=4, timeout=1800) if exprs else []
    nb = tot = 0
    for (p, d), m in zip(cases, model):
        sysm, Qm, chm = m[0], m[1], m[2]
        impl = flatten_impl(d)
        bad = None
        if len(sysm) != len(impl):
            bad = "assembled system has a different sparsity structure (%d vs %d numbers)" % (len(impl), len(sysm))
        else:
            for idx, (a, b) in enumerate(zip(impl, sysm)):
                tot += 1
                if vlib.ulp_diff(a, float(b)) == 0:
                    nb += 1
                elif not vlib.close(a, float(b), 64, 1e-300):
                    bad = "assembled system differs at flat index %d: implementation %r, model %r" % (idx, a, b)
                    break
        if not bad and [int(q) for q in Qm] != d["Q"]:
            bad = "node flags Q differ"
        if not bad:
            for c, (a, b) in enumerate(zip(d["chargeall"], chm)):
                tot += 1
                if vlib.ulp_diff(a, float(b)) == 0:
                    nb += 1
                elif not vlib.close(a, float(b), 64, 1e-300):
                    bad = "ChargeOnConductor(%d): implementation %r, model %r" % (c, a, b)
        if bad:
            dis.append(dict(what="esolver correspondence: " + bad, problem=p))
    cov = ctx.res.cov
    cov["evaluations"] = count
    cov["distinct_nontrivial"] = len(set(json.dumps(c[0], sort_keys=True) for c in cases))
    cov["rule"] = ("seeded well-formed .fee problems (rectangle, optional material interface, inner box as fixed/floating "
                   "conductor, hole with fixed boundary or third material, point property; all boundary-condition types, "
                   "planar/axisymmetric, all six units) meshed by the real fmesher and assembled by the real ESolver; "
                   "non-trivial = meshed and solved, distinct = distinct problem description")
    cov["input_distribution"] = feats
    cov["samples"] = [dict(features=c[0]["features"], nodes=c[1]["nn"], elements=c[1]["ne"]) for c in cases[:3]]
    cov["values_compared"] = tot
    cov["bit_identical"] = nb
    cov["oracle_deviations_gone_with_precision_1e-11"] = precision_limited
    cov["mesh_sizes"] = [c[1]["nn"] for c in cases]
    return dis


def search(ctx, broken):
    found = []
    rng = vlib.Rng(ctx.seed + 3)
    for k in range(40):
        p = gen_problem(rng, True)
        d, msg = run_case(ctx, 1000 + k, p)
        if msg:
            found.append(dict(what=msg, problem=p)); break
        msg = oracle(d)
        if msg:
            found.append(dict(what="esolver: " + msg, problem=p)); break
    return found
