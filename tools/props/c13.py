"""C13 — post-processed integrals are additive and agree with geometry and terminals.
Theorems (IntegralsProofs.v, MeshCheckProofs.green, Properties_C13.v): the selection after any
sequence of toggles depends only on the parity of each label's toggle count; the block integral
is the sum of the selected elements' terms, additive over disjoint selections and independent of
element order; discrete Green identity (sum of element areas = shoelace of the boundary);
W = 1/2 sum V_c Q_c when the free rows hold.  Real runs through femmcli: additivity, order and
toggle independence, areas / volumes / contour lengths against the drawn geometry, energy
against terminal quantities."""
import os, json, math
import vlib, femgen, femmrun
from props import ext as extmod
from femgen import Builder, mesh_diameter, UNIT_M

LEVEL = "proof"
COQ_MODULES = []
# the per-element terms of every block integral of the three post-processors: models IntegralsE.v / IntegralsH.v / IntegralsM.v,
# theorems in Properties_C13_integrals.v, harness h_blockint.cpp (props/xint.py)
EXTENSIONS = ["xint", "xline"]
EXTRA_PROPERTY_FILES = ["C13_integrals", "C13_contour"]
ASSUMPTIONS = [
    "the per-element integrands themselves (energy density etc.) are tied to the code by C12's correspondence, not re-modelled here",
    "regions bounded by arcs are compared with the area of their chord polygon (the mesh never contains the circular segments)",
]


def build(rng, kind, axi):
    B = Builder(kind)
    p = B.p
    p["problemtype"] = "axisymmetric" if axi else "planar"
    p["units"] = rng.choice(femgen.UNITS)
    p["depth"] = rng.choice([1.0, 2.5, 4.0])
    p["precision"] = 1e-8
    p["dosmartmesh"] = 0
    x0 = rng.choice([0.5, 1.0]) if axi else rng.choice([-2.0, 0.0])
    y0 = rng.choice([-1.0, 0.0])
    W, H = rng.choice([6.0, 8.0]), rng.choice([4.0, 5.0])
    d = mesh_diameter(W * H / 120)
    V = dict(c0=0.0, c1=rng.choice([5.0, -3.0, 12.0]), c2=rng.choice([2.0, -7.0, 1.0]))
    if kind == "fee":
        # the background touches the conductors: make it anisotropic most of the time (charge vs. energy)
        ebg = rng.choice([(1.0, 1.0), (2.0, 5.0), (4.0, 1.5), (1.0, 3.0)])
        mats = [B.prop("blockprops", name="bg", ex=ebg[0], ey=ebg[1], qv=0.0), B.prop("blockprops", name="d1", ex=3.0, ey=2.0, qv=0.0),
                B.prop("blockprops", name="d2", ex=5.0, ey=5.0, qv=0.0)]
        cs = [B.prop("circuits", name="c0", type=1, V=V["c0"]), B.prop("circuits", name="c1", type=1, V=V["c1"]), B.prop("circuits", name="c2", type=1, V=V["c2"])]
    elif kind == "feh":
        kbg = rng.choice([(1.0, 1.0), (2.0, 5.0), (4.0, 1.5)])
        mats = [B.prop("blockprops", name="bg", kx=kbg[0], ky=kbg[1], kt=0.0, qv=0.0), B.prop("blockprops", name="d1", kx=3.0, ky=2.0, kt=0.0, qv=0.0),
                B.prop("blockprops", name="d2", kx=5.0, ky=5.0, kt=0.0, qv=0.0)]
        cs = [B.prop("circuits", name="c0", type=1, V=300.0), B.prop("circuits", name="c1", type=1, V=300.0 + V["c1"]), B.prop("circuits", name="c2", type=1, V=300.0 + V["c2"])]
    else:
        # d1: a solid conductor carrying a source current density (resistive losses J^2/sigma); d2: sometimes a laminated
        # core (in-plane laminations: its bulk conductivity does not enter the resistive losses), sometimes a second conductor
        lam = rng.random() < 0.5
        mats = [B.prop("blockprops", name="bg", mu_x=1.0, mu_y=1.0),
                B.prop("blockprops", name="d1", mu_x=30.0, mu_y=20.0, J_re=rng.choice([1.0, -2.0]), sigma=rng.choice([58.0, 10.0])),
                (B.prop("blockprops", name="d2", mu_x=500.0, mu_y=500.0, sigma=5.0, d_lam=0.5, lamtype=0, lamfill=0.95) if lam else
                 B.prop("blockprops", name="d2", mu_x=5.0, mu_y=5.0, J_re=rng.choice([0.5, 1.5]), sigma=rng.choice([0.0, 30.0])))]
        a0 = B.prop("bdryprops", name="A0", type=0)
        cs = [0, 0, 0]
    if kind == "fem":
        B.rect(x0, y0, x0 + W, y0 + H, {k: dict(bdry=a0) for k in "brtl"})
    else:
        B.rect(x0, y0, x0 + W, y0 + H, {k: dict(cond=cs[0]) for k in "brtl"})
        for q in p["points"][-4:]:
            q["cond"] = cs[0]
    # region boxes (materials d1, d2) and conductor boxes (holes) inside
    regs = [(x0 + W * 0.125, y0 + H * 0.125, x0 + W * 0.375, y0 + H * 0.5), (x0 + W * 0.5, y0 + H * 0.25, x0 + W * 0.875, y0 + H * 0.5)]
    for ri, (a, b, c, e) in enumerate(regs):
        B.rect(a, b, c, e)
        B.label((a + c) / 2, (b + e) / 2, mats[1 + ri], maxarea=d / 1.5, group=ri + 1)
    if kind != "fem":
        cbx = [(x0 + W * 0.125, y0 + H * 0.625, x0 + W * 0.3125, y0 + H * 0.875), (x0 + W * 0.5625, y0 + H * 0.625, x0 + W * 0.8125, y0 + H * 0.875)]
        for ci, (a, b, c, e) in enumerate(cbx):
            B.rect(a, b, c, e, {k: dict(cond=cs[1 + ci]) for k in "brtl"})
            for q in p["points"][-4:]:
                q["cond"] = cs[1 + ci]
            p["holes"].append(dict(x=(a + c) / 2, y=(b + e) / 2))
        p["cond_boxes"] = cbx
    B.label(x0 + W * 0.03, y0 + H * 0.03, mats[0], maxarea=d, group=7)
    p["regs"] = regs
    p["outer"] = (x0, y0, x0 + W, y0 + H)
    p["V"] = V
    p["features"] = [kind, "axi" if axi else "planar", p["units"]] + (["bg-eps%g/%g" % ebg] if kind == "fee" else [])
    return p


def rect_area(r):
    return (r[2] - r[0]) * (r[3] - r[1])


def rect_vol(r, axi, depth):
    if axi:
        return math.pi * (r[2] ** 2 - r[0] ** 2) * (r[3] - r[1])
    return rect_area(r) * depth


def correspond(ctx):
    rng = ctx.rng
    plan = [("fee", False), ("fee", True), ("feh", False), ("fem", False), ("feh", True), ("fem", False)]
    if not ctx.quick():
        plan = plan * 5
    TYPES = {"fee": dict(ext=[0, 1, 2], area=1, vol=2, energy=0), "feh": dict(ext=[1, 2], area=1, vol=2, energy=None),
             "fem": dict(ext=[0, 2, 5, 10, 7, 4, 6], area=5, vol=10, energy=2)}   # 4 resistive, 6 total losses
    feats, samples, done = {}, [], 0
    for k, (kind, axi) in enumerate(plan):
        p = build(rng, kind, axi)
        for ft in p["features"]:
            feats[ft] = feats.get(ft, 0) + 1
        T = TYPES[kind]
        r1, r2 = p["regs"]
        A = ((r1[0] + r1[2]) / 2, (r1[1] + r1[3]) / 2)
        Bp = ((r2[0] + r2[2]) / 2, (r2[1] + r2[3]) / 2)
        G = (p["outer"][0] + (p["outer"][2] - p["outer"][0]) * 0.03, p["outer"][1] + (p["outer"][3] - p["outer"][1]) * 0.03)
        queries = []
        for t in T["ext"]:
            queries += [("block", [A], t), ("block", [Bp], t), ("block", [A, Bp], t), ("block", [Bp, A], t), ("block", [A, Bp, A], t),
                        ("block", [A, Bp, G], t)]
        nq = 6
        if kind != "fem":
            queries += [("cond", "c0"), ("cond", "c1"), ("cond", "c2")]
        else:
            queries += [("block", [A, Bp, G], 17)]
        r, err = femmrun.run(ctx, p, queries, "c13_%d" % k)
        if err:
            ctx.fail("run failed on a well-formed problem: " + err, problem=p); continue
        done += 1
        u = UNIT_M[p["units"]]
        depth = p["depth"] * u
        for ti, t in enumerate(T["ext"]):
            q = lambda j: r["q%d" % (ti * nq + j)][0]
            iA, iB, iAB, iBA, iABA, iAll = (q(j) for j in range(6))
            if not all(isinstance(v, float) and math.isfinite(v) for v in (iA, iB, iAB, iBA, iABA, iAll)):
                ctx.fail("block integral %d is not finite: I(A)=%r I(B)=%r I(A u B)=%r I(all)=%r" % (t, iA, iB, iAB, iAll), problem=p, integral=t)
                continue
            sc = max(abs(iA), abs(iB), abs(iAB), 1e-300)
            if abs(iAB - (iA + iB)) > 1e-9 * sc:
                ctx.fail("block integral %d is not additive: I(A)+I(B) = %.15g, I(A u B) = %.15g" % (t, iA + iB, iAB), problem=p, integral=t)
            if abs(iAB - iBA) > 1e-12 * sc:
                ctx.fail("block integral %d depends on the selection order: %.15g vs %.15g" % (t, iAB, iBA), problem=p, integral=t)
            if abs(iABA - iB) > 1e-12 * sc:
                ctx.fail("selecting a block twice does not deselect it (integral %d: %.15g vs %.15g)" % (t, iABA, iB), problem=p, integral=t)
            if t == T["area"]:
                for nm, val, reg in (("A", iA, r1), ("B", iB, r2)):
                    want = rect_area(reg) * u * u
                    if abs(val - want) > 1e-9 * want:
                        ctx.fail("block area of region %s is %.12g m^2, the drawn region has %.12g m^2" % (nm, val, want), problem=p)
            if t == T["vol"]:
                for nm, val, reg in (("A", iA, r1), ("B", iB, r2)):
                    regm = tuple(c * u for c in reg)
                    want = rect_vol(regm, axi, depth)
                    tol = 1e-9 if not axi else 1e-9
                    if abs(val - want) > tol * want:
                        ctx.fail("block volume of region %s is %.12g m^3, the drawn region has %.12g m^3" % (nm, val, want), problem=p)
        base = len(T["ext"]) * nq
        if kind == "fee":
            W = r["q%d" % (T["ext"].index(0) * nq + 5)][0]
            half = 0.0
            for ci in range(3):
                v, qq = r["q%d" % (base + ci)][0], r["q%d" % (base + ci)][1]
                half += 0.5 * v * qq
            if abs(W - half) > 2e-5 * max(abs(W), abs(half), 1e-300):
                ctx.fail("stored energy %.10g J differs from half the sum of conductor voltage-charge products %.10g J" % (W, half), problem=p)
        if kind == "fem":
            AJ = r["q%d" % (T["ext"].index(0) * nq + 5)][0]
            W = r["q%d" % (T["ext"].index(2) * nq + 5)][0]
            Wc = r["q%d" % base][0]
            if abs(W - 0.5 * AJ) > 2e-5 * max(abs(W), 1e-300):
                ctx.fail("magnetic field energy %.10g J differs from half the integral of A.J %.10g J" % (W, 0.5 * AJ), problem=p)
            if abs(W - Wc) > 1e-9 * max(abs(W), 1e-300):
                ctx.fail("energy %.12g and coenergy %.12g differ for a linear problem" % (W, Wc), problem=p)
        if len(samples) < 3:
            samples.append(dict(features=p["features"], queries=len(queries)))
    cov = ctx.res.cov
    cov["evaluations"] = len(plan)
    cov["distinct_nontrivial"] = done
    cov["rule"] = ("generated problems (background + two material regions + two conductor boxes, planar/axisymmetric, random units and "
                   "depth); for every extensive integral: I(A), I(B), I(A then B), I(B then A), I(A,B,A), I(all); area and volume vs. "
                   "the drawn rectangles (revolved for axisymmetric); energy vs. 1/2 sum V Q (electrostatics) and 1/2 int A.J, "
                   "coenergy (magnetostatics)")
    cov["input_distribution"] = feats
    cov["samples"] = samples
    return extmod.run(ctx, EXTENSIONS)


def regen(ctx):
    from props import xint, xline
    xint.regen(ctx)
    xline.regen(ctx)


def search(ctx, broken):
    return extmod.search(ctx, EXTENSIONS, broken)
