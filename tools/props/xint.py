"""XINT (temporary id; part of C13) — the per-element terms of the post-processors' block integrals.
Models: coq/theories/IntegralsE.v / IntegralsH.v / IntegralsM.v (ElectrostaticsPostProcessor /
HPProc / FPProc ::blockIntegral with getElementD, E(), AECF, Ctr, ElmArea, GetJA, PlnInt, AxiInt
...), theorems: Properties_XINT.v.  Correspondence: generated problems of the three physics ->
real femmcli (mesh + solve) -> harness h_blockint (the REAL post-processor classes open the
solution, select label subsets through the real selection code and evaluate every block integral)
-> the float reading of the model must reproduce every integral and the per-element field values
bit for bit.  Oracles on the implementation's own outputs: additivity over disjoint unions,
stored energy = 1/2 V^T K V of an independent assembly = 1/2 sum V_c Q_c + non-conductor terms,
W = 1/2 int A.J, areas / volumes against the mesh polygon."""
import os, math, json
import numpy as np
import vlib, femgen, femmrun
from props import c03, c13

LEVEL = "proof"
COQ_MODULES = ["IntegralsE", "IntegralsH"]
ASSUMPTIONS = [
    "theorems are about the real-number reading of the post-processor models; rounding is not bounded",
    "the file readers are not modelled: the models start from what the post-processor holds after OpenDocument (dumped by the harness)",
    "weighted-stress-tensor force/torque integrals (need the mask of makeMask) are not modelled",
]
HEADER = ("From Coq Require Import ZArith List Floats. Import ListNotations. "
          "From XF Require Import Arith Sparse AsmE KT Integrals IntegralsE IntegralsH.")
EXE = {}


# --------------------------------------------------------------------------- harness ----
def harness(ctx):
    if "exe" not in EXE:
        EXE["exe"] = vlib.build_harness(ctx.snap, "h_blockint", libs=("epproc", "hpproc", "fpproc", "femm"))
    return EXE["exe"]


def solve(ctx, p, name, writer=None):
    """write + mesh + solve through the real femmcli; returns (solution file, error)"""
    kind = p["kind"]
    f = os.path.join(ctx.work, name + femmrun.EXT[kind])
    (writer or femgen.write)(p, f)
    r, err = femmrun.run_file(ctx, kind, f, [("nodes",)])
    if err:
        return None, err
    sol = f[:-4] + {"fee": ".res", "feh": ".anh", "fem": ".ans"}[kind]
    if not os.path.exists(sol):
        return None, "no solution file written"
    return sol, None


def run_harness(ctx, kind, sol, cmds):
    rc, out, err = vlib.sh([harness(ctx), {"fee": "e", "feh": "h", "fem": "m"}[kind], sol], inp="\n".join(cmds) + "\n", timeout=300)
    d = dict(nodes=[], elems=[], labels=[], mats=[], circs=[], out=[], ok=False)
    for line in out.split("\n"):
        t = line.split()
        if not t:
            continue
        k = t[0]
        if k == "O":
            d["ok"] = t[1] == "1"
        elif k == "P":
            d["P"] = [float(x) for x in t[1:]]
        elif k == "n":
            d["nodes"].append([float(x) for x in t[1:]])
        elif k == "e":
            d["elems"].append([int(x) for x in t[1:6]] + [float(x) for x in t[6:]])
        elif k == "l":
            d["labels"].append([float(x) for x in t[1:]])
        elif k == "m":
            d["mats"].append([float(x) for x in t[1:]])
        elif k == "c" and len(t) > 1:
            d["circs"].append([float(x) for x in t[1:]])
        elif k in ("S", "i", "s", "k", "?"):
            d["out"].append(t)
    if rc != 0 or not d["ok"] or "P" not in d:
        return None, "h_blockint failed (rc=%d): %s" % (rc, (out[-300:] + err[-300:]))
    return d, None


def subsets(rng, nlab, groups, count):
    """label-toggle sequences: singletons, a disjoint pair and its union, everything, a sequence with a repeated
    label (toggle twice = deselect), a group toggle"""
    labs = list(range(nlab))
    seqs = [("all", [("s", l) for l in labs])]
    if nlab >= 2:
        a, b = rng.sample(labs, 2)
        seqs += [("A", [("s", a)]), ("B", [("s", b)]), ("AB", [("s", a), ("s", b)]), ("BA", [("s", b), ("s", a)]),
                 ("ABA", [("s", a), ("s", b), ("s", a)])]
    else:
        seqs += [("A", [("s", 0)])]
    gs = sorted(set(g for g in groups if g))
    if gs:
        seqs.append(("grp", [("g", rng.choice(gs))]))
    while len(seqs) < count:
        k = rng.randint(1, max(1, nlab))
        seqs.append(("rnd", [("s", rng.choice(labs)) for _ in range(k)]))
    return seqs[:count]


def commands(seqs, types):
    cmds = []
    for _, sq in seqs:
        cmds.append("c")
        for (c, l) in sq:
            cmds.append("%s %d" % (c, l))
        cmds.append("S")
        for t in types:
            cmds.append("i %d" % t)
    return cmds


def split_results(out, seqs, types):
    """-> list of (flags, {type: (re, im)}) per sequence; None if the output is short"""
    res = []
    it = iter([t for t in out if t[0] in ("S", "i")])
    try:
        for _ in seqs:
            s = next(it)
            flags = [int(x) for x in s[1:]]
            vals = {}
            for t in types:
                r = next(it)
                vals[int(r[1])] = (float(r[2]), float(r[3]))
            res.append((flags, vals))
    except StopIteration:
        return None
    return res


def model_flags(nlab, groups, sq):
    """Integrals.toggles re-done in Python (the Coq model of the selection is exercised by C13's theorems; here the
    flags the real selection code produced are fed to the integral model and checked against this)"""
    f = [0] * nlab
    for (c, l) in sq:
        if c == "s":
            f[l] ^= 1
        else:
            for i, g in enumerate(groups):
                if l == 0 or g == l:
                    f[i] ^= 1
    return f


class Tally:
    def __init__(self):
        self.tot = self.bit = 0
        self.worst = 0

    def cmp(self, a, b):
        """True if within 64 ulp"""
        self.tot += 1
        u = vlib.ulp_diff(a, float(b))
        if u == 0:
            self.bit += 1
            return True
        self.worst = max(self.worst, min(u, 1 << 40))
        return vlib.close(a, float(b), 64, 1e-300)


def blist(fl):
    return "[%s]" % "; ".join("true" if x else "false" for x in fl)


def compare_scalar(tally, d, seqs, res, m, types):
    """model output (depth, [(ctr, aecf)], [(D, E)], [[integral]]) against the harness' dump and results"""
    depth_m, ctrs, DE, ints = m
    bad = None
    if not tally.cmp(d["P"][2], depth_m):
        bad = "Depth after OpenDocument: implementation %r, model %r" % (d["P"][2], depth_m)
    if len(ctrs) != len(d["elems"]) or len(DE) != len(d["elems"]) or len(ints) != len(res):
        return "model returned %d/%d elements, %d selections" % (len(ctrs), len(DE), len(ints))
    # Coq prints ((a, b), c) as (a, b, c)
    for i, (e, (c0, c1, ae), (D0, D1, E)) in enumerate(zip(d["elems"], ctrs, DE)):
        impl = e[5:12]
        mod = [c0, c1, D0, D1, E[0], E[1], ae]
        for nm, a, b in zip(("ctr.re", "ctr.im", "D.re", "D.im", "E.re", "E.im", "AECF"), impl, mod):
            if not tally.cmp(a, b) and not bad:
                bad = "element %d %s: implementation %r, model %r" % (i, nm, a, b)
    for (nm, sq), (fl, vals), mi in zip(seqs, res, ints):
        for t, mv in zip(types, mi):
            for part in (0, 1):
                if not tally.cmp(vals[t][part], mv[part]) and not bad:
                    bad = "blockIntegral(%d) %s part after %r: implementation %r, model %r" % (t, "re" if part == 0 else "im", sq, vals[t][part], mv[part])
    return bad


# --------------------------------------------------------------------- electrostatics ----
E_TYPES = [0, 1, 2, 3, 4]


def e_to_coq(d, depth_file, sels):
    f = vlib.fhexs
    axi, lc, depth, zo, ro, ri, eo = d["P"][:7]
    nodes = "; ".join("mkIENode %s %s %s (%d)%%Z" % (f(n[0]), f(n[1]), f(n[2]), int(n[3])) for n in d["nodes"])
    elems = "; ".join("mkIEElem (%d, %d, %d) %d %d" % tuple(e[:5]) for e in d["elems"])
    ext = blist([l[3] for l in d["labels"]])
    mats = "; ".join("(%s, %s)" % (f(m[0]), f(m[1])) for m in d["mats"])
    P = "(mkIEProb %s %s %s %s %s %s %s [%s] [%s] %s [%s])" % ("true" if axi else "false", f(lc), f(depth_file), f(zo), f(ro), f(ri),
                                                           f(eo), nodes, elems, ext, mats)
    ints = "; ".join("[%s]" % "; ".join("ie_block_integral FA P Ds %s %d" % (blist(s), t) for t in E_TYPES) for s in sels)
    return ("let P := %s in let Ds := ie_Ds FA P in "
            "(ie_depth FA P, map (fun el => (ie_ctr FA P el, ie_aecf FA P el)) (ie_elems P), "
            "map (fun eD => (snd eD, ie_E FA P (fst eD) (snd eD))) (combine (ie_elems P) Ds), [%s])" % (P, ints))


def e_stiffness(d):
    """independent SI P1 Galerkin stiffness (numpy) from the post-processor's mesh: K, element areas, volumes"""
    axi, lc, depth, zo, ro, ri, eo = d["P"][:7]
    X = np.array([(n[0] * lc, n[1] * lc) for n in d["nodes"]])
    nn = len(X)
    K = np.zeros((nn, nn))
    for e in d["elems"]:
        n = e[0:3]
        Pn = X[list(n)]
        bb = np.array([Pn[1, 1] - Pn[2, 1], Pn[2, 1] - Pn[0, 1], Pn[0, 1] - Pn[1, 1]])
        cc = np.array([Pn[2, 0] - Pn[1, 0], Pn[0, 0] - Pn[2, 0], Pn[1, 0] - Pn[0, 0]])
        area = (bb[0] * cc[1] - bb[1] * cc[0]) / 2
        ex, ey = d["mats"][e[4]][:2]
        rbar = Pn[:, 0].mean()
        dep = 2 * math.pi * rbar if axi else depth
        kl = 1.0
        if axi and d["labels"][e[3]][3]:
            z = Pn[:, 1].mean() - zo * lc
            kl = (rbar * rbar + z * z) / (ri * lc * ro * lc)
        gx = bb / (2 * area); gy = cc / (2 * area)
        Ke = eo * dep * area * (ex * np.outer(gx, gx) + ey * np.outer(gy, gy)) / kl
        for a_ in range(3):
            for b_ in range(3):
                K[n[a_], n[b_]] += Ke[a_, b_]
    return K


def mesh_measures(d, flags):
    """area and volume of the selected elements straight from the mesh (SI)"""
    axi, lc, depth = d["P"][0], d["P"][1], d["P"][2]
    A = Vv = 0.0
    for e in d["elems"]:
        if not flags[e[3]]:
            continue
        (x0, y0), (x1, y1), (x2, y2) = [(d["nodes"][k][0] * lc, d["nodes"][k][1] * lc) for k in e[0:3]]
        a = ((x1 - x0) * (y2 - y0) - (x2 - x0) * (y1 - y0)) / 2
        A += a
        Vv += a * (2 * math.pi * (x0 + x1 + x2) / 3 if axi else depth)
    return A, Vv


def e_problems(rng, quick):
    n = 5 if quick else 24
    ps = []
    for k in range(n):
        p = c03.gen_problem(rng, True, k)
        ps.append(("c03", p))
    for k in range(3 if quick else 12):
        p = c13.build(rng, "fee", axi=(k % 2 == 1))
        ps.append(("c13", p))
    return ps


def additivity(ctx, what, p, seqs, res, types, complex_types=()):
    """I(A)+I(B) = I(AB) = I(BA); I(ABA) = I(B) on the implementation's outputs"""
    byname = {nm: r for (nm, _), r in zip(seqs, res)}
    if not all(k in byname for k in ("A", "B", "AB", "BA", "ABA")):
        return
    for t in types:
        for part in (0, 1):
            if part == 1 and t not in complex_types:
                continue
            iA, iB, iAB, iBA, iABA = (byname[k][1][t][part] for k in ("A", "B", "AB", "BA", "ABA"))
            sc = max(abs(iA), abs(iB), abs(iAB), 1e-300)
            if not all(math.isfinite(v) for v in (iA, iB, iAB)):
                ctx.fail("%s block integral %d is not finite" % (what, t), problem=p, integral=t); continue
            if abs(iAB - (iA + iB)) > 1e-9 * sc:
                ctx.fail("%s block integral %d is not additive: I(A)+I(B) = %.15g, I(A u B) = %.15g" % (what, t, iA + iB, iAB), problem=p, integral=t)
            if abs(iAB - iBA) > 1e-12 * sc:
                ctx.fail("%s block integral %d depends on the selection order: %.15g vs %.15g" % (what, t, iAB, iBA), problem=p, integral=t)
            if abs(iABA - iB) > 1e-12 * sc:
                ctx.fail("%s: selecting a block twice does not deselect it (integral %d)" % (what, t), problem=p, integral=t)


def run_e(ctx, rng, tally, dis, feats, samples):
    exprs, cases = [], []
    done = 0
    for k, (fam, p) in enumerate(e_problems(rng, ctx.quick())):
        for ft in p["features"]:
            feats["E:" + str(ft)] = feats.get("E:" + str(ft), 0) + 1
        sol, err = solve(ctx, p, "xe%d" % k)
        if err:
            ctx.fail("electrostatics run failed on a well-formed problem: " + err, problem=p); continue
        nlab = len(p["labels"])
        groups = [l.get("group", 0) for l in p["labels"]]
        seqs = subsets(rng, nlab, groups, 8 if ctx.quick() else 12)
        d, err = run_harness(ctx, "fee", sol, commands(seqs, E_TYPES))
        if err:
            ctx.fail(err, problem=p); continue
        res = split_results(d["out"], seqs, E_TYPES)
        if res is None or any(t[0] == "s" and t[1] != "1" for t in d["out"]):
            ctx.fail("h_blockint: a label could not be selected through its element centroid", problem=p); continue
        done += 1
        # selection flags produced by the real selection code
        for (nm, sq), (fl, _) in zip(seqs, res):
            if fl != model_flags(nlab, groups, sq):
                ctx.fail("selection flags after %r are %r, toggling gives %r" % (sq, fl, model_flags(nlab, groups, sq)), problem=p)
        # ---- oracles on the implementation's own numbers
        additivity(ctx, "electrostatics", p, seqs, res, [0, 1, 2])
        for (nm, sq), (fl, vals) in zip(seqs, res):
            A, Vv = mesh_measures(d, fl)
            if abs(vals[1][0] - A) > 1e-10 * max(abs(A), 1e-300) or abs(vals[2][0] - Vv) > 1e-10 * max(abs(Vv), 1e-300):
                ctx.fail("electrostatics: block area/volume %.15g / %.15g differ from the selected mesh polygon's %.15g / %.15g"
                         % (vals[1][0], vals[2][0], A, Vv), problem=p, selection=sq)
        W = dict(zip([s[0] for s in seqs], res))["all"][1][0][0]
        K = e_stiffness(d)
        V = np.array([n[2] for n in d["nodes"]])
        R = K @ V
        Wq = 0.5 * float(V @ R)
        mag = 0.5 * float(np.abs(V) @ (np.abs(K) @ np.abs(V)))
        if abs(W - Wq) > 1e-10 * max(mag, 1e-300):
            ctx.fail("electrostatics: stored energy over all blocks %.15g J differs from 1/2 V^T K V = %.15g J" % (W, Wq), problem=p)
        # conductors: Q_c (as stored in the solution file) is the stiffness reaction of the conductor's nodes, hence
        # W = 1/2 sum_c V_c Q_c + 1/2 sum over the nodes on no conductor of V_i R_i
        Q = [int(n[3]) for n in d["nodes"]]
        rest = 0.5 * sum(V[i] * R[i] for i in range(len(V)) if Q[i] < 0)
        half = 0.0
        slack = 1e-9 * mag
        absKV = np.abs(K) @ np.abs(V)
        vmax = max(float(np.max(np.abs(V))), 1e-300)
        ext_any = d["P"][0] and any(l[3] for l in d["labels"])
        all_equi = True
        for c, (Vc, qc) in enumerate(d["circs"]):
            mem = [i for i in range(len(V)) if Q[i] == c]
            if not mem:
                continue
            if any(abs(V[i] - Vc) > 1e-12 * vmax for i in mem):
                # a node shared with a fixed-potential boundary keeps the boundary's value (input-level ambiguity):
                # the conductor-level identity has an unmet hypothesis; use the node-level terms
                half += 0.5 * sum(V[i] * R[i] for i in mem)
                all_equi = False
                feats["E:conductor shares a node with a fixed boundary"] = feats.get("E:conductor shares a node with a fixed boundary", 0) + 1
                continue
            react = sum(R[i] for i in mem)
            sc = sum(absKV[i] for i in mem)
            # fixed-voltage conductors: q is ChargeOnConductor of the final potentials (rounding only); floating
            # conductors: q is the PRESCRIBED charge, met to the solver's stopping tolerance
            fixed = p["circuits"][c].get("type", 1) == 1
            tol = (1e-8 if fixed else 2e-4) * max(sc, abs(qc), 1e-300)
            if abs(react - qc) > tol:
                if not (ext_any and c03.EXTFIX["value"] == "false"):
                    ctx.fail("electrostatics: charge of conductor %d in the solution (%.12g C) differs from the flux its potentials imply (%.12g C)"
                             % (c, qc, react), problem=p)
                tol = abs(react - qc)
            slack += 0.5 * abs(Vc) * tol
            half += 0.5 * Vc * qc
        if abs(W - (half + rest)) > slack:
            ctx.fail("electrostatics: stored energy %.12g J differs from 1/2 sum V_c Q_c + non-conductor node terms = %.12g J" % (W, half + rest), problem=p)
        if fam == "c13" and all_equi and abs(W - half) > 2e-5 * max(abs(W), abs(half), 1e-300):
            ctx.fail("electrostatics: stored energy %.10g J differs from half the sum of conductor voltage-charge products %.10g J" % (W, half), problem=p)
        if len(d["nodes"]) <= (1500 if ctx.quick() else 4000):
            exprs.append(e_to_coq(d, p.get("depth", 1), [fl for fl, _ in res]))
            cases.append((p, d, seqs, res))
        if len(samples) < 6:
            samples.append(dict(physics="electrostatics", features=p["features"], nodes=len(d["nodes"]), elements=len(d["elems"]),
                                selections=[s[0] for s in seqs]))
    model = vlib.coq_eval(HEADER, exprs, shard=2, timeout=1800, name="xe") if exprs else []
    for (p, d, seqs, res), m in zip(cases, model):
        bad = compare_scalar(tally, d, seqs, res, m, E_TYPES)
        if bad:
            dis.append(dict(what="epproc correspondence: " + bad, problem=p))
    return done, len(cases)


# ------------------------------------------------------------------------- heat flow ----
H_TYPES = [0, 1, 2, 3, 4]


def h_to_coq(d, depth_file, sels):
    f = vlib.fhexs
    axi, lc, depth, zo, ro, ri = d["P"][:6]
    nodes = "; ".join("mkIENode %s %s %s (%d)%%Z" % (f(n[0]), f(n[1]), f(n[2]), int(n[3])) for n in d["nodes"])
    elems = "; ".join("mkIEElem (%d, %d, %d) %d %d" % tuple(e[:5]) for e in d["elems"])
    ext = blist([l[3] for l in d["labels"]])
    mats = "; ".join("mkIHMat %s %s [%s]" % (f(m[0]), f(m[1]), "; ".join("(%s, %s)" % (f(m[3 + 2 * i]), f(m[4 + 2 * i])) for i in range(int(m[2]))))
                     for m in d["mats"])
    P = "(mkIHProb %s %s %s %s %s %s [%s] [%s] %s [%s])" % ("true" if axi else "false", f(lc), f(depth_file), f(zo), f(ro), f(ri),
                                                        nodes, elems, ext, mats)
    ints = "; ".join("[%s]" % "; ".join("ih_block_integral FA P Ds %s %d" % (blist(s), t) for t in H_TYPES) for s in sels)
    return ("let P := %s in let Ds := ih_Ds FA P in "
            "(ie_depth FA (ih_view FA P), map (fun el => (ie_ctr FA (ih_view FA P) el, ih_aecf FA P el)) (ih_elems P), "
            "map (fun eD => (snd eD, ih_E FA P (fst eD) (snd eD))) (combine (ih_elems P) Ds), [%s])" % (P, ints))


def getk_py(m, t):
    """CHMaterialProp::GetK re-done independently: (kx, ky) at temperature t"""
    n = int(m[2])
    if n == 0:
        return m[0], m[1]
    tab = [(m[3 + 2 * i], m[4 + 2 * i]) for i in range(n)]
    if n == 1 or t <= tab[0][0]:
        return tab[0][1], tab[0][1]
    if t >= tab[-1][0]:
        return tab[-1][1], tab[-1][1]
    for (t0, k0), (t1, k1) in zip(tab, tab[1:]):
        if t0 <= t <= t1:
            k = k0 + (k1 - k0) * (t - t0) / (t1 - t0)
            return k, k
    return m[0], m[1]


def h_reference(d, flags):
    """independent evaluation of the five heat block integrals from the dumped mesh (numpy-free, SI)"""
    axi, lc, depth, zo, ro, ri = d["P"][:6]
    vol = area = 0.0
    sT = 0.0
    sF = [0.0, 0.0]
    sG = [0.0, 0.0]
    aF = aG = 0.0
    for e in d["elems"]:
        if not flags[e[3]]:
            continue
        pts = [(d["nodes"][k][0] * lc, d["nodes"][k][1] * lc) for k in e[0:3]]
        T = [d["nodes"][k][2] for k in e[0:3]]
        (x0, y0), (x1, y1), (x2, y2) = pts
        a = ((x1 - x0) * (y2 - y0) - (x2 - x0) * (y1 - y0)) / 2
        rbar = (x0 + x1 + x2) / 3
        v = a * (2 * math.pi * rbar if axi else depth)
        gx = (T[0] * (y1 - y2) + T[1] * (y2 - y0) + T[2] * (y0 - y1)) / (2 * a)
        gy = (T[0] * (x2 - x1) + T[1] * (x0 - x2) + T[2] * (x1 - x0)) / (2 * a)
        ks = [getk_py(d["mats"][e[4]], t) for t in T]
        kx = sum(k[0] for k in ks) / 3; ky = sum(k[1] for k in ks) / 3
        kl = 1.0
        if axi and d["labels"][e[3]][3]:
            z = (y0 + y1 + y2) / 3 - zo * lc
            kl = (rbar * rbar + z * z) / (ri * lc * ro * lc)
        area += a; vol += v
        sT += v * sum(T) / 3
        sF[0] += v * (-kx * gx / kl); sF[1] += v * (-ky * gy / kl)
        sG[0] += v * (-gx); sG[1] += v * (-gy)
        aF += abs(v) * (abs(kx * gx / kl) + abs(ky * gy / kl)); aG += abs(v) * (abs(gx) + abs(gy))
    if vol == 0:
        return None
    return {0: (sT / vol, 0.0), 1: (area, 0.0), 2: (vol, 0.0), 3: (sF[0] / vol, sF[1] / vol), 4: (sG[0] / vol, sG[1] / vol),
            "scale": {0: abs(sT / vol), 1: abs(area), 2: abs(vol), 3: aF / abs(vol), 4: aG / abs(vol)}}


def h_problems(rng, quick):
    ps = []
    for k in range(4 if quick else 20):
        box = [None, "cfloat", "cfix", "material", "hole-fix"][k % 5]
        p = femgen.gen_scalar_problem(rng, "feh", size_nodes=rng.choice([25, 40, 60]) if quick else rng.choice([40, 100, 250]), box=box)
        p["dosmartmesh"] = 0
        if rng.random() < 0.6:
            # temperature-dependent conductivity in one material (nonlinear solve; the post-processor interpolates the table)
            b = rng.choice(p["blockprops"])
            b["tk"] = [(200.0, rng.choice([1.0, 2.0])), (300.0, rng.choice([2.5, 4.0])), (350.0, 5.0), (500.0, rng.choice([5.0, 8.0]))]
            p["features"].append("T-k table")
        if p.get("problemtype") == "axisymmetric" and rng.random() < 0.7:
            ys = [q["y"] for q in p["points"]]
            p.update(extRo=rng.choice([3.0, 5.0]), extRi=rng.choice([2.0, 2.5]), extZo=min(ys) - rng.choice([0.5, 1.0]))
            lab = p["labels"][rng.randrange(len(p["labels"]))]
            lab["external"] = 1
            b = p["blockprops"][lab["block"] - 1]
            b["ky"] = b["kx"]                 # hsolver: only isotropic materials are allowed in the exterior region
            p["features"].append("external")
        ps.append(("gen", p))
    for k in range(2 if quick else 10):
        ps.append(("c13", c13.build(rng, "feh", axi=(k % 2 == 0))))
    return ps


def run_h(ctx, rng, tally, dis, feats, samples):
    exprs, cases = [], []
    done = 0
    for k, (fam, p) in enumerate(h_problems(rng, ctx.quick())):
        for ft in p["features"]:
            feats["H:" + str(ft)] = feats.get("H:" + str(ft), 0) + 1
        sol, err = solve(ctx, p, "xh%d" % k)
        if err:
            ctx.fail("heat-flow run failed on a well-formed problem: " + err, problem=p); continue
        nlab = len(p["labels"])
        groups = [l.get("group", 0) for l in p["labels"]]
        seqs = subsets(rng, nlab, groups, 8 if ctx.quick() else 12)
        d, err = run_harness(ctx, "feh", sol, commands(seqs, H_TYPES))
        if err:
            ctx.fail(err, problem=p); continue
        res = split_results(d["out"], seqs, H_TYPES)
        if res is None or any(t[0] == "s" and t[1] != "1" for t in d["out"]):
            ctx.fail("h_blockint: a label could not be selected through its element centroid", problem=p); continue
        done += 1
        for (nm, sq), (fl, _) in zip(seqs, res):
            if fl != model_flags(nlab, groups, sq):
                ctx.fail("selection flags after %r are %r, toggling gives %r" % (sq, fl, model_flags(nlab, groups, sq)), problem=p)
        additivity(ctx, "heat flow", p, seqs, res, [1, 2])
        # averages: volume-weighted additivity
        byname = {nm: r for (nm, _), r in zip(seqs, res)}
        if all(kk in byname for kk in ("A", "B", "AB")):
            vA, vB, vAB = (byname[kk][1][2][0] for kk in ("A", "B", "AB"))
            for t in (0, 3, 4):
                for part in (0, 1):
                    lhs = byname["AB"][1][t][part] * vAB
                    rhs = byname["A"][1][t][part] * vA + byname["B"][1][t][part] * vB
                    sc = (abs(byname["A"][1][t][0]) + abs(byname["A"][1][t][1])) * abs(vA) + (abs(byname["B"][1][t][0]) + abs(byname["B"][1][t][1])) * abs(vB)
                    if abs(lhs - rhs) > 1e-7 * max(sc, 1e-300):
                        ctx.fail("heat flow: average %d over A u B times its volume (%.15g) differs from the sum over the parts (%.15g)" % (t, lhs, rhs),
                                 problem=p, integral=t)
        for (nm, sq), (fl, vals) in zip(seqs, res):
            ref = h_reference(d, fl)
            if ref is None:
                continue
            for t in H_TYPES:
                for part in (0, 1):
                    sc = max(ref["scale"][t], 1e-300)
                    if abs(vals[t][part] - ref[t][part]) > 1e-9 * sc:
                        ctx.fail("heat flow: block integral %d = %.15g, an independent evaluation on the same mesh gives %.15g" % (t, vals[t][part], ref[t][part]),
                                 problem=p, selection=sq, integral=t)
        if len(d["nodes"]) <= (1500 if ctx.quick() else 4000):
            exprs.append(h_to_coq(d, p.get("depth", 1), [fl for fl, _ in res]))
            cases.append((p, d, seqs, res))
        if len(samples) < 12 and k < 3:
            samples.append(dict(physics="heat flow", features=p["features"], nodes=len(d["nodes"]), elements=len(d["elems"]),
                                selections=[s[0] for s in seqs]))
    model = vlib.coq_eval(HEADER, exprs, shard=2, timeout=1800, name="xh") if exprs else []
    for (p, d, seqs, res), m in zip(cases, model):
        bad = compare_scalar(tally, d, seqs, res, m, H_TYPES)
        if bad:
            dis.append(dict(what="hpproc correspondence: " + bad, problem=p))
    return done, len(cases)


def correspond(ctx):
    rng = ctx.rng
    c03.EXTFIX["value"] = c03.flow_variant(ctx)
    tally = Tally()
    dis, feats, samples = [], {}, []
    de, ce = run_e(ctx, rng, tally, dis, feats, samples)
    dh, ch = run_h(ctx, rng, tally, dis, feats, samples)
    cov = ctx.res.cov
    cov["evaluations"] = de + dh
    cov["distinct_nontrivial"] = ce + ch
    cov["per_physics"] = dict(electrostatics=ce, heat=ch)
    cov["rule"] = ("generated solved problems (C03's and C13's generators: rectangle with interface / inner conductor box / "
                   "holes / exterior region, planar and axisymmetric, all six length units, anisotropic materials); per problem "
                   "8-12 label-toggle sequences through the real selection code; every block-integral type evaluated by the real "
                   "post-processor and by the model on the dumped data; non-trivial = solved, opened and compared")
    cov["input_distribution"] = feats
    cov["samples"] = samples
    cov["values_compared"] = tally.tot
    cov["bit_identical"] = tally.bit
    cov["bit_identical_fraction"] = round(tally.bit / max(tally.tot, 1), 6)
    cov["worst_ulp"] = tally.worst
    return dis
