"""XINT (extension of C13, run by props/c13.py through props/ext.py) — the per-element terms of the post-processors' block integrals.
Models: coq/theories/IntegralsE.v / IntegralsH.v / IntegralsM.v (ElectrostaticsPostProcessor /
HPProc / FPProc ::blockIntegral with getElementD, E(), AECF, Ctr, ElmArea, GetJA, PlnInt, AxiInt
...), theorems: Properties_C13_integrals.v.  Correspondence: generated problems of the three physics ->
real femmcli (mesh + solve) -> harness h_blockint (the REAL post-processor classes open the
solution, select label subsets through the real selection code and evaluate every block integral)
-> the float reading of the model must reproduce every integral and the per-element field values
bit for bit.  Oracles on the implementation's own outputs: additivity over disjoint unions,
stored energy = 1/2 V^T K V of an independent assembly = 1/2 sum V_c Q_c + non-conductor terms,
W = 1/2 int A.J, areas / volumes against the mesh polygon."""
import os, math, json
import numpy as np
import vlib, femgen, femmrun
from props import c03, c13, c05_gen
from femgen import Builder, mesh_diameter

LEVEL = "proof"
COQ_MODULES = ["IntegralsE", "IntegralsH", "IntegralsM"]
ASSUMPTIONS = [
    "theorems are about the real-number reading of the post-processor models; rounding is not bounded",
    "the file readers are not modelled: the models start from what the post-processor holds after OpenDocument (dumped by the harness)",
    "weighted-stress-tensor force/torque integrals (need the mask of makeMask) are not modelled",
]
HEADER = ("From Coq Require Import ZArith List Floats. Import ListNotations. "
          "From XF Require Import Arith Sparse AsmE KT Integrals IntegralsE IntegralsH IntegralsM.")
EXE = {}


# ----------------------------------------------------------------- anchors / variants ----
ANCHORS = [
    ("epproc/epproc.cpp", "double a=ElmArea(i)*sqr(LengthConv[problem->LengthUnits]);"),
    ("epproc/epproc.cpp", "result+=a*Re(elem->D*conj(E(elem)))/2.;"),
    ("epproc/epproc.cpp", "if((inttype==3) || (inttype==4)) result/=blockIntegral(2);"),
    ("epproc/epproc.cpp", "return (elem->D.re/mat->ex + I*elem->D.im/mat->ey)/eo * AECF(elem);"),
    ("epproc/epproc.cpp", "E-=node->V*(b[i]+I*c[i])/(da*LengthConv[problem->LengthUnits]);"),
    ("epproc/epproc.cpp", "elem->D = eo*(E.re*mat->ex + I*E.im*mat->ey)/AECF(elem);"),
    ("libfemm/PostProcessor.cpp", "return (r*r)/(problem->extRo*problem->extRi);"),
    ("libfemm/PostProcessor.cpp", "return (b0*c1-b1*c0)/2.;"),
    ("libfemm/PostProcessor.cpp", "CComplex p(meshnodes[ p_j ]->x/3., meshnodes[ p_j ]->y/3.);"),
    ("hpproc/hpproc.cpp", "a=ElmArea(i)*pow(LengthConv[problem->LengthUnits],2.);"),
    ("hpproc/hpproc.cpp", "T+=getMeshNode(meshelems[i]->p[k])->T/3.;"),
    ("hpproc/hpproc.cpp", "z+=a*T;"),
    ("hpproc/hpproc.cpp", "if((inttype==0) || (inttype==3) || (inttype==4)) z/=blockIntegral(2);"),
    ("hpproc/hpproc.cpp", "elem->D=(E.re*kn.re + I*E.im*kn.im)/AECF(elem);"),
    ("hpproc/hpproc.cpp", "return (elem->D.re/Re(kn) + I*elem->D.im/Im(kn)) * AECF(elem);"),
    ("fpproc/fpproc.cpp", "elm.B1 += meshnode[n[i]].A * c[i] / (da * LengthConv[LengthUnits]);"),
    ("fpproc/fpproc.cpp", "elm.B1=-(c[1]*dp+c[2]*dq)/da;"),
    ("fpproc/fpproc.cpp", "dp=(-v[0] + v[2] + 4.*v[3] - 4.*v[5])/3.;"),
    ("fpproc/fpproc.cpp", "else A[i]=(meshnode[meshelem[k].p[i]].A)/(2.*PI*rn);"),
    ("fpproc/fpproc.cpp", "J[i]-=c*blocklist[lbl].dVolts;"),
    ("fpproc/fpproc.cpp", "return a*x/12.;"),
    ("fpproc/fpproc.cpp", "return PI*a*x/30.;"),
    ("fpproc/fpproc.cpp", "a=ElmArea(i)*std::pow(LengthConv[LengthUnits],2.);"),
    ("fpproc/fpproc.cpp", "y=PlnInt(a,A,V)*Depth;"),
    ("fpproc/fpproc.cpp", "for(k=0,y=0; k<3; k++) y+=a*Depth*A[k]/3.;"),
    ("fpproc/fpproc.cpp", "y = a*0.5*muo*(mu1.re*H1.re*H1.re + mu2.re*H2.re*H2.re);"),
    ("fpproc/fpproc.cpp", "else y=a*blockproplist[meshelem[i].blk].DoEnergy(B1.re,B2.re);"),
    ("fpproc/fpproc.cpp", "return (r*r*extRi)/(extRo*extRo*extRo);"),
    ("fpproc/fpproc.cpp", "y=2.*PI*R*a*J*conj(J)/sig;"),
    ("fpproc/fpproc.cpp", "FluxLinkage/=conj(circproplist[circnum].Amps);"),
    ("libfemm/CMaterialProp.cpp", "return ((h1*b1+h2*b2)/2.);"),
    ("libfemm/CMaterialProp.cpp", "h1=b1/((1.+LamFill*(mu_x-1.))*muo);"),
]
LAMFIX = {"value": "false"}


def squeeze(t):
    return "".join(t.split())


def regen(ctx):
    """no generated Coq text: the models are transcriptions; check that the statements they transcribe are still in the
    sources, and read which text CMMaterialProp::DoEnergy has for laminations on edge"""
    cache = {}
    for f, snip in ANCHORS:
        if f not in cache:
            cache[f] = squeeze(open(os.path.join(ctx.snap.src, f), errors="replace").read())
        if squeeze(snip) not in cache[f]:
            raise vlib.TranslateError("%s no longer contains `%s`: the block-integral model (IntegralsE/H/M.v) transcribes it" % (f, snip))
    src = cache["libfemm/CMaterialProp.cpp"]
    i = src.find(squeeze("double CMMaterialProp::DoEnergy(const double b1, const double b2)"))
    j = src.find(squeeze("return ((h1*b1+h2*b2)/2.);"), i)
    body = src[i:j]
    k1 = body.find(squeeze("if(LamType==1){"))
    k2 = body.find(squeeze("if(LamType==2){"))
    k3 = body.find(squeeze("if(LamType>2){"))
    if not (0 <= k1 < k2 < k3):
        raise vlib.TranslateError("CMMaterialProp::DoEnergy: the LamType 1 / 2 / >2 blocks of the linear branch were not found")
    blk1, blk2 = body[k1:k2], body[k2:k3]
    asis1 = squeeze("h2=b1*(LamFill/(mu_y*muo) + (1. - LamFill)/muo);") in blk1
    fix1 = squeeze("h2=b2*(LamFill/(mu_y*muo) + (1. - LamFill)/muo);") in blk1
    asis2 = squeeze("h2=b1/((1.+LamFill*(mu_y-1.))*muo);") in blk2
    fix2 = squeeze("h2=b2/((1.+LamFill*(mu_y-1.))*muo);") in blk2
    if asis1 and asis2 and not fix1 and not fix2:
        LAMFIX["value"] = "false"
    elif fix1 and fix2 and not asis1 and not asis2:
        LAMFIX["value"] = "true"
    else:
        raise vlib.TranslateError("CMMaterialProp::DoEnergy: the LamType 1/2 lines match neither the shipped nor the repaired text")


# --------------------------------------------------------------------------- harness ----
def harness(ctx):
    if "exe" not in EXE:
        EXE["exe"] = vlib.build_harness(ctx.snap, "h_blockint", libs=("epproc", "hpproc", "fpproc", "femm"))
    return EXE["exe"]


def solve(ctx, p, name, writer=None):
    """write + mesh + solve through the real femmcli; returns (solution file, error)"""
    kind = p["kind"]
    f = os.path.join(ctx.work, name + femmrun.EXT[kind])
    (writer or femgen.write)(p, f)
    r, err = femmrun.run_file(ctx, kind, f, [("nodes",)])
    if err:
        return None, err
    sol = f[:-4] + {"fee": ".res", "feh": ".anh", "fem": ".ans"}[kind]
    if not os.path.exists(sol):
        return None, "no solution file written"
    return sol, None


def run_harness(ctx, kind, sol, cmds):
    rc, out, err = vlib.sh([harness(ctx), {"fee": "e", "feh": "h", "fem": "m"}[kind], sol], inp="\n".join(cmds) + "\n", timeout=300)
    d = dict(nodes=[], elems=[], labels=[], mats=[], circs=[], out=[], ok=False)
    for line in out.split("\n"):
        t = line.split()
        if not t:
            continue
        k = t[0]
        if k == "O":
            d["ok"] = t[1] == "1"
        elif k == "P":
            d["P"] = [float(x) for x in t[1:]]
        elif k == "n":
            d["nodes"].append([float(x) for x in t[1:]])
        elif k == "e":
            d["elems"].append([int(x) for x in t[1:6]] + [float(x) for x in t[6:]])
        elif k == "l":
            d["labels"].append([float(x) for x in t[1:]])
        elif k == "m":
            d["mats"].append([float(x) for x in t[1:]])
        elif k == "c" and len(t) > 1:
            d["circs"].append([float(x) for x in t[1:]])
        elif k in ("S", "i", "s", "k", "?"):
            d["out"].append(t)
    if rc != 0 or not d["ok"] or "P" not in d:
        return None, "h_blockint failed (rc=%d): %s" % (rc, (out[-300:] + err[-300:]))
    return d, None


def subsets(rng, nlab, groups, count):
    """label-toggle sequences: singletons, a disjoint pair and its union, everything, a sequence with a repeated
    label (toggle twice = deselect), a group toggle"""
    labs = list(range(nlab))
    seqs = [("all", [("s", l) for l in labs])]
    if nlab >= 2:
        a, b = rng.sample(labs, 2)
        seqs += [("A", [("s", a)]), ("B", [("s", b)]), ("AB", [("s", a), ("s", b)]), ("BA", [("s", b), ("s", a)]),
                 ("ABA", [("s", a), ("s", b), ("s", a)])]
    else:
        seqs += [("A", [("s", 0)])]
    gs = sorted(set(g for g in groups if g))
    if gs:
        seqs.append(("grp", [("g", rng.choice(gs))]))
    while len(seqs) < count:
        k = rng.randint(1, max(1, nlab))
        seqs.append(("rnd", [("s", rng.choice(labs)) for _ in range(k)]))
    return seqs[:count]


def commands(seqs, types):
    cmds = []
    for _, sq in seqs:
        cmds.append("c")
        for (c, l) in sq:
            cmds.append("%s %d" % (c, l))
        cmds.append("S")
        for t in types:
            cmds.append("i %d" % t)
    return cmds


def split_results(out, seqs, types):
    """-> list of (flags, {type: (re, im)}) per sequence; None if the output is short"""
    res = []
    it = iter([t for t in out if t[0] in ("S", "i")])
    try:
        for _ in seqs:
            s = next(it)
            flags = [int(x) for x in s[1:]]
            vals = {}
            for t in types:
                r = next(it)
                vals[int(r[1])] = (float(r[2]), float(r[3]))
            res.append((flags, vals))
    except StopIteration:
        return None
    return res


def model_flags(nlab, groups, sq):
    """Integrals.toggles re-done in Python (the Coq model of the selection is exercised by C13's theorems; here the
    flags the real selection code produced are fed to the integral model and checked against this)"""
    f = [0] * nlab
    for (c, l) in sq:
        if c == "s":
            f[l] ^= 1
        else:
            for i, g in enumerate(groups):
                if l == 0 or g == l:
                    f[i] ^= 1
    return f


class Tally:
    def __init__(self):
        self.tot = self.bit = 0
        self.worst = 0
        self.off = []          # the first values that are not bit-identical: (what, implementation, model, ulps)

    def cmp(self, a, b, tag=""):
        """True if within 64 ulp"""
        self.tot += 1
        u = vlib.ulp_diff(a, float(b))
        if u == 0:
            self.bit += 1
            return True
        self.worst = max(self.worst, min(u, 1 << 40))
        if len(self.off) < 12:
            self.off.append((tag, a, float(b), min(u, 1 << 40)))
        return vlib.close(a, float(b), 64, 1e-300)


def blist(fl):
    return "[%s]" % "; ".join("true" if x else "false" for x in fl)


def compare_scalar(tally, d, seqs, res, m, types):
    """model output (depth, [(ctr, aecf)], [(D, E)], [[integral]]) against the harness' dump and results"""
    depth_m, ctrs, DE, ints, lcm = m
    bad = None
    if not tally.cmp(d["P"][2], depth_m):
        bad = "Depth after OpenDocument: implementation %r, model %r" % (d["P"][2], depth_m)
    if not tally.cmp(d["P"][1], lcm, "LengthConv"):
        bad = "LengthConv[%d]: implementation %r, model %r" % (int(d["P"][7]), d["P"][1], lcm)
    if len(ctrs) != len(d["elems"]) or len(DE) != len(d["elems"]) or len(ints) != len(res):
        return "model returned %d/%d elements, %d selections" % (len(ctrs), len(DE), len(ints))
    # Coq prints ((a, b), c) as (a, b, c)
    for i, (e, (c0, c1, ae), (D0, D1, E)) in enumerate(zip(d["elems"], ctrs, DE)):
        impl = e[5:12]
        mod = [c0, c1, D0, D1, E[0], E[1], ae]
        for nm, a, b in zip(("ctr.re", "ctr.im", "D.re", "D.im", "E.re", "E.im", "AECF"), impl, mod):
            if not tally.cmp(a, b) and not bad:
                bad = "element %d %s: implementation %r, model %r" % (i, nm, a, b)
    for (nm, sq), (fl, vals), mi in zip(seqs, res, ints):
        for t, mv in zip(types, mi):
            for part in (0, 1):
                if not tally.cmp(vals[t][part], mv[part]) and not bad:
                    bad = "blockIntegral(%d) %s part after %r: implementation %r, model %r" % (t, "re" if part == 0 else "im", sq, vals[t][part], mv[part])
    return bad


# --------------------------------------------------------------------- electrostatics ----
E_TYPES = [0, 1, 2, 3, 4]


def e_to_coq(d, depth_file, sels):
    f = vlib.fhexs
    axi, lc, depth, zo, ro, ri, eo = d["P"][:7]
    nodes = "; ".join("mkIENode %s %s %s (%d)%%Z" % (f(n[0]), f(n[1]), f(n[2]), int(n[3])) for n in d["nodes"])
    elems = "; ".join("mkIEElem (%d, %d, %d) %d %d" % tuple(e[:5]) for e in d["elems"])
    ext = blist([l[3] for l in d["labels"]])
    mats = "; ".join("(%s, %s)" % (f(m[0]), f(m[1])) for m in d["mats"])
    P = "(mkIEProb %s %s %s %s %s %s %s [%s] [%s] %s [%s])" % ("true" if axi else "false", f(lc), f(depth_file), f(zo), f(ro), f(ri),
                                                           f(eo), nodes, elems, ext, mats)
    ints = "; ".join("[%s]" % "; ".join("ie_block_integral FA P Ds %s %d" % (blist(s), t) for t in E_TYPES) for s in sels)
    return ("let P := %s in let Ds := ie_Ds FA P in "
            "(ie_depth FA P, map (fun el => (ie_ctr FA P el, ie_aecf FA P el)) (ie_elems P), "
            "map (fun eD => (snd eD, ie_E FA P (fst eD) (snd eD))) (combine (ie_elems P) Ds), [%s], nth %d (pp_length_conv FA) (aone FA))"
            % (P, ints, int(d["P"][7])))


def e_stiffness(d):
    """independent SI P1 Galerkin stiffness (numpy) from the post-processor's mesh: K, element areas, volumes"""
    axi, lc, depth, zo, ro, ri, eo = d["P"][:7]
    X = np.array([(n[0] * lc, n[1] * lc) for n in d["nodes"]])
    nn = len(X)
    K = np.zeros((nn, nn))
    for e in d["elems"]:
        n = e[0:3]
        Pn = X[list(n)]
        bb = np.array([Pn[1, 1] - Pn[2, 1], Pn[2, 1] - Pn[0, 1], Pn[0, 1] - Pn[1, 1]])
        cc = np.array([Pn[2, 0] - Pn[1, 0], Pn[0, 0] - Pn[2, 0], Pn[1, 0] - Pn[0, 0]])
        area = (bb[0] * cc[1] - bb[1] * cc[0]) / 2
        ex, ey = d["mats"][e[4]][:2]
        rbar = Pn[:, 0].mean()
        dep = 2 * math.pi * rbar if axi else depth
        kl = 1.0
        if axi and d["labels"][e[3]][3]:
            z = Pn[:, 1].mean() - zo * lc
            kl = (rbar * rbar + z * z) / (ri * lc * ro * lc)
        gx = bb / (2 * area); gy = cc / (2 * area)
        Ke = eo * dep * area * (ex * np.outer(gx, gx) + ey * np.outer(gy, gy)) / kl
        for a_ in range(3):
            for b_ in range(3):
                K[n[a_], n[b_]] += Ke[a_, b_]
    return K


def mesh_measures(d, flags):
    """area and volume of the selected elements straight from the mesh (SI)"""
    axi, lc, depth = d["P"][0], d["P"][1], d["P"][2]
    A = Vv = 0.0
    for e in d["elems"]:
        if not flags[e[3]]:
            continue
        (x0, y0), (x1, y1), (x2, y2) = [(d["nodes"][k][0] * lc, d["nodes"][k][1] * lc) for k in e[0:3]]
        a = ((x1 - x0) * (y2 - y0) - (x2 - x0) * (y1 - y0)) / 2
        A += a
        Vv += a * (2 * math.pi * (x0 + x1 + x2) / 3 if axi else depth)
    return A, Vv


def e_problems(rng, quick):
    n = 5 if quick else 24
    ps = []
    for k in range(n):
        p = c03.gen_problem(rng, True, k)
        if all(l.get("external") for l in p["labels"]):
            # every block in the exterior region: ElectrostaticsPostProcessor::OpenDocument (epproc.cpp:205) dereferences
            # getMeshElement(<number of exterior elements>) = nullptr and crashes; keep such inputs out of this check
            for l in p["labels"]:
                l["external"] = 0
            p["features"] = [f for f in p["features"] if f != "external"]
        for l in p["labels"]:
            if l.get("external"):
                b = p["blockprops"][l["block"] - 1]
                b["ey"] = b["ex"]             # femmcli refuses anisotropic materials in the exterior region
        ps.append(("c03", p))
    for k in range(3 if quick else 12):
        p = c13.build(rng, "fee", axi=(k % 2 == 1))
        ps.append(("c13", p))
    return ps


def additivity(ctx, what, p, seqs, res, types, complex_types=(), floor=None):
    """I(A)+I(B) = I(AB) = I(BA); I(ABA) = I(B) on the implementation's outputs.  floor(t, flagsA, flagsB): absolute
    rounding floor for integrals whose element terms cancel (e.g. the integral of B over a block)"""
    byname = {nm: r for (nm, _), r in zip(seqs, res)}
    if not all(k in byname for k in ("A", "B", "AB", "BA", "ABA")):
        return
    for t in types:
        for part in (0, 1):
            if part == 1 and t not in complex_types:
                continue
            iA, iB, iAB, iBA, iABA = (byname[k][1][t][part] for k in ("A", "B", "AB", "BA", "ABA"))
            sc = max(abs(iA), abs(iB), abs(iAB), 1e-300)
            if not all(math.isfinite(v) for v in (iA, iB, iAB)):
                ctx.fail("%s block integral %d is not finite" % (what, t), problem=p, integral=t); continue
            fl = floor(t, byname["A"][0], byname["B"][0]) if floor else 0.0
            if abs(iAB - (iA + iB)) > 1e-9 * sc + fl:
                ctx.fail("%s block integral %d is not additive: I(A)+I(B) = %.15g, I(A u B) = %.15g" % (what, t, iA + iB, iAB), problem=p, integral=t)
            if abs(iAB - iBA) > 1e-12 * sc:
                ctx.fail("%s block integral %d depends on the selection order: %.15g vs %.15g" % (what, t, iAB, iBA), problem=p, integral=t)
            if abs(iABA - iB) > 1e-12 * sc:
                ctx.fail("%s: selecting a block twice does not deselect it (integral %d)" % (what, t), problem=p, integral=t)


def run_e(ctx, rng, tally, dis, feats, samples, model=True):
    exprs, cases = [], []
    done = 0
    for k, (fam, p) in enumerate(e_problems(rng, ctx.quick())):
        for ft in p["features"]:
            feats["E:" + str(ft)] = feats.get("E:" + str(ft), 0) + 1
        sol, err = solve(ctx, p, "xe%d" % k)
        if err:
            ctx.fail("electrostatics run failed on a well-formed problem: " + err, problem=p); continue
        nlab = len(p["labels"])
        groups = [l.get("group", 0) for l in p["labels"]]
        seqs = subsets(rng, nlab, groups, 8 if ctx.quick() else 12)
        d, err = run_harness(ctx, "fee", sol, commands(seqs, E_TYPES))
        if err:
            ctx.fail(err, problem=p); continue
        res = split_results(d["out"], seqs, E_TYPES)
        if res is None or any(t[0] == "s" and t[1] != "1" for t in d["out"]):
            ctx.fail("h_blockint: a label could not be selected through its element centroid", problem=p); continue
        done += 1
        # selection flags produced by the real selection code
        for (nm, sq), (fl, _) in zip(seqs, res):
            if fl != model_flags(nlab, groups, sq):
                ctx.fail("selection flags after %r are %r, toggling gives %r" % (sq, fl, model_flags(nlab, groups, sq)), problem=p)
        # ---- oracles on the implementation's own numbers
        additivity(ctx, "electrostatics", p, seqs, res, [0, 1, 2])
        for (nm, sq), (fl, vals) in zip(seqs, res):
            A, Vv = mesh_measures(d, fl)
            if abs(vals[1][0] - A) > 1e-10 * max(abs(A), 1e-300) or abs(vals[2][0] - Vv) > 1e-10 * max(abs(Vv), 1e-300):
                ctx.fail("electrostatics: block area/volume %.15g / %.15g differ from the selected mesh polygon's %.15g / %.15g"
                         % (vals[1][0], vals[2][0], A, Vv), problem=p, selection=sq)
        W = dict(zip([s[0] for s in seqs], res))["all"][1][0][0]
        K = e_stiffness(d)
        V = np.array([n[2] for n in d["nodes"]])
        R = K @ V
        Wq = 0.5 * float(V @ R)
        mag = 0.5 * float(np.abs(V) @ (np.abs(K) @ np.abs(V)))
        if abs(W - Wq) > 1e-10 * max(mag, 1e-300):
            ctx.fail("electrostatics: stored energy over all blocks %.15g J differs from 1/2 V^T K V = %.15g J" % (W, Wq), problem=p)
        # conductors: Q_c (as stored in the solution file) is the stiffness reaction of the conductor's nodes, hence
        # W = 1/2 sum_c V_c Q_c + 1/2 sum over the nodes on no conductor of V_i R_i
        Q = [int(n[3]) for n in d["nodes"]]
        rest = 0.5 * sum(V[i] * R[i] for i in range(len(V)) if Q[i] < 0)
        half = 0.0
        slack = 1e-9 * mag
        absKV = np.abs(K) @ np.abs(V)
        vmax = max(float(np.max(np.abs(V))), 1e-300)
        ext_any = d["P"][0] and any(l[3] for l in d["labels"])
        all_equi = True
        for c, (Vc, qc) in enumerate(d["circs"]):
            mem = [i for i in range(len(V)) if Q[i] == c]
            if not mem:
                continue
            if any(abs(V[i] - Vc) > 1e-12 * vmax for i in mem):
                # a node shared with a fixed-potential boundary keeps the boundary's value (input-level ambiguity):
                # the conductor-level identity has an unmet hypothesis; use the node-level terms
                half += 0.5 * sum(V[i] * R[i] for i in mem)
                all_equi = False
                feats["E:conductor shares a node with a fixed boundary"] = feats.get("E:conductor shares a node with a fixed boundary", 0) + 1
                continue
            react = sum(R[i] for i in mem)
            sc = sum(absKV[i] for i in mem)
            # fixed-voltage conductors: q is ChargeOnConductor of the final potentials (rounding only); floating
            # conductors: q is the PRESCRIBED charge, met to the solver's stopping tolerance
            fixed = p["circuits"][c].get("type", 1) == 1
            tol = (1e-8 if fixed else 2e-4) * max(sc, abs(qc), 1e-300)
            if abs(react - qc) > tol:
                if not (ext_any and c03.EXTFIX["value"] == "false"):
                    ctx.fail("electrostatics: charge of conductor %d in the solution (%.12g C) differs from the flux its potentials imply (%.12g C)"
                             % (c, qc, react), problem=p)
                tol = abs(react - qc)
            slack += 0.5 * abs(Vc) * tol
            half += 0.5 * Vc * qc
        if abs(W - (half + rest)) > slack:
            ctx.fail("electrostatics: stored energy %.12g J differs from 1/2 sum V_c Q_c + non-conductor node terms = %.12g J" % (W, half + rest), problem=p)
        if fam == "c13" and all_equi and abs(W - half) > 2e-5 * max(abs(W), abs(half), 1e-300):
            ctx.fail("electrostatics: stored energy %.10g J differs from half the sum of conductor voltage-charge products %.10g J" % (W, half), problem=p)
        if len(d["nodes"]) <= (1500 if ctx.quick() else 4000):
            exprs.append(e_to_coq(d, p.get("depth", 1), [fl for fl, _ in res]))
            cases.append((p, d, seqs, res))
        if len(samples) < 6:
            samples.append(dict(physics="electrostatics", features=p["features"], nodes=len(d["nodes"]), elements=len(d["elems"]),
                                selections=[s[0] for s in seqs]))
    model = vlib.coq_eval(HEADER, exprs, shard=2, timeout=1800, name="xe") if exprs and model else []
    for (p, d, seqs, res), m in zip(cases, model):
        bad = compare_scalar(tally, d, seqs, res, m, E_TYPES)
        if bad:
            dis.append(dict(what="epproc correspondence: " + bad, problem=p))
    return done, len(cases)


# ------------------------------------------------------------------------- heat flow ----
H_TYPES = [0, 1, 2, 3, 4]


def h_to_coq(d, depth_file, sels):
    f = vlib.fhexs
    axi, lc, depth, zo, ro, ri = d["P"][:6]
    nodes = "; ".join("mkIENode %s %s %s (%d)%%Z" % (f(n[0]), f(n[1]), f(n[2]), int(n[3])) for n in d["nodes"])
    elems = "; ".join("mkIEElem (%d, %d, %d) %d %d" % tuple(e[:5]) for e in d["elems"])
    ext = blist([l[3] for l in d["labels"]])
    mats = "; ".join("mkIHMat %s %s [%s]" % (f(m[0]), f(m[1]), "; ".join("(%s, %s)" % (f(m[3 + 2 * i]), f(m[4 + 2 * i])) for i in range(int(m[2]))))
                     for m in d["mats"])
    P = "(mkIHProb %s %s %s %s %s %s [%s] [%s] %s [%s])" % ("true" if axi else "false", f(lc), f(depth_file), f(zo), f(ro), f(ri),
                                                        nodes, elems, ext, mats)
    ints = "; ".join("[%s]" % "; ".join("ih_block_integral FA P Ds %s %d" % (blist(s), t) for t in H_TYPES) for s in sels)
    return ("let P := %s in let Ds := ih_Ds FA P in "
            "(ie_depth FA (ih_view FA P), map (fun el => (ie_ctr FA (ih_view FA P) el, ih_aecf FA P el)) (ih_elems P), "
            "map (fun eD => (snd eD, ih_E FA P (fst eD) (snd eD))) (combine (ih_elems P) Ds), [%s], nth %d (pp_length_conv FA) (aone FA))"
            % (P, ints, int(d["P"][7])))


def getk_py(m, t):
    """CHMaterialProp::GetK re-done independently: (kx, ky) at temperature t"""
    n = int(m[2])
    if n == 0:
        return m[0], m[1]
    tab = [(m[3 + 2 * i], m[4 + 2 * i]) for i in range(n)]
    if n == 1 or t <= tab[0][0]:
        return tab[0][1], tab[0][1]
    if t >= tab[-1][0]:
        return tab[-1][1], tab[-1][1]
    for (t0, k0), (t1, k1) in zip(tab, tab[1:]):
        if t0 <= t <= t1:
            k = k0 + (k1 - k0) * (t - t0) / (t1 - t0)
            return k, k
    return m[0], m[1]


def h_reference(d, flags):
    """independent evaluation of the five heat block integrals from the dumped mesh (numpy-free, SI)"""
    axi, lc, depth, zo, ro, ri = d["P"][:6]
    vol = area = 0.0
    sT = 0.0
    sF = [0.0, 0.0]
    sG = [0.0, 0.0]
    aF = aG = 0.0
    for e in d["elems"]:
        if not flags[e[3]]:
            continue
        pts = [(d["nodes"][k][0] * lc, d["nodes"][k][1] * lc) for k in e[0:3]]
        T = [d["nodes"][k][2] for k in e[0:3]]
        (x0, y0), (x1, y1), (x2, y2) = pts
        a = ((x1 - x0) * (y2 - y0) - (x2 - x0) * (y1 - y0)) / 2
        rbar = (x0 + x1 + x2) / 3
        v = a * (2 * math.pi * rbar if axi else depth)
        gx = (T[0] * (y1 - y2) + T[1] * (y2 - y0) + T[2] * (y0 - y1)) / (2 * a)
        gy = (T[0] * (x2 - x1) + T[1] * (x0 - x2) + T[2] * (x1 - x0)) / (2 * a)
        ks = [getk_py(d["mats"][e[4]], t) for t in T]
        kx = sum(k[0] for k in ks) / 3; ky = sum(k[1] for k in ks) / 3
        kl = 1.0
        if axi and d["labels"][e[3]][3]:
            z = (y0 + y1 + y2) / 3 - zo * lc
            kl = (rbar * rbar + z * z) / (ri * lc * ro * lc)
        area += a; vol += v
        sT += v * sum(T) / 3
        sF[0] += v * (-kx * gx / kl); sF[1] += v * (-ky * gy / kl)
        sG[0] += v * (-gx); sG[1] += v * (-gy)
        # scale of the rounding error of the gradient: the products T_i b_i cancel when T varies little over the element
        sgx = (abs(T[0] * (y1 - y2)) + abs(T[1] * (y2 - y0)) + abs(T[2] * (y0 - y1))) / abs(2 * a)
        sgy = (abs(T[0] * (x2 - x1)) + abs(T[1] * (x0 - x2)) + abs(T[2] * (x1 - x0))) / abs(2 * a)
        aF += abs(v) * (abs(kx / kl) * sgx + abs(ky / kl) * sgy); aG += abs(v) * (sgx + sgy)
    if vol == 0:
        return None
    return {0: (sT / vol, 0.0), 1: (area, 0.0), 2: (vol, 0.0), 3: (sF[0] / vol, sF[1] / vol), 4: (sG[0] / vol, sG[1] / vol),
            "scale": {0: abs(sT / vol), 1: abs(area), 2: abs(vol), 3: aF / abs(vol), 4: aG / abs(vol)}}


def h_problems(rng, quick):
    ps = []
    for k in range(4 if quick else 20):
        box = [None, "cfloat", "cfix", "material", "hole-fix"][k % 5]
        p = femgen.gen_scalar_problem(rng, "feh", size_nodes=rng.choice([25, 40, 60]) if quick else rng.choice([40, 100, 250]), box=box)
        p["dosmartmesh"] = 0
        if rng.random() < 0.6:
            # temperature-dependent conductivity in one material (nonlinear solve; the post-processor interpolates the table)
            b = rng.choice(p["blockprops"])
            b["tk"] = [(200.0, rng.choice([1.0, 2.0])), (300.0, rng.choice([2.5, 4.0])), (350.0, 5.0), (500.0, rng.choice([5.0, 8.0]))]
            p["features"].append("T-k table")
        if p.get("problemtype") == "axisymmetric" and len(p["labels"]) >= 2 and rng.random() < 0.7:
            ys = [q["y"] for q in p["points"]]
            p.update(extRo=rng.choice([3.0, 5.0]), extRi=rng.choice([2.0, 2.5]), extZo=min(ys) - rng.choice([0.5, 1.0]))
            lab = p["labels"][rng.randrange(len(p["labels"]))]
            lab["external"] = 1
            b = p["blockprops"][lab["block"] - 1]
            b["ky"] = b["kx"]                 # hsolver: only isotropic materials are allowed in the exterior region
            p["features"].append("external")
        ps.append(("gen", p))
    for k in range(2 if quick else 10):
        ps.append(("c13", c13.build(rng, "feh", axi=(k % 2 == 0))))
    return ps


def run_h(ctx, rng, tally, dis, feats, samples, model=True):
    exprs, cases = [], []
    done = 0
    for k, (fam, p) in enumerate(h_problems(rng, ctx.quick())):
        for ft in p["features"]:
            feats["H:" + str(ft)] = feats.get("H:" + str(ft), 0) + 1
        sol, err = solve(ctx, p, "xh%d" % k)
        if err:
            ctx.fail("heat-flow run failed on a well-formed problem: " + err, problem=p); continue
        nlab = len(p["labels"])
        groups = [l.get("group", 0) for l in p["labels"]]
        seqs = subsets(rng, nlab, groups, 8 if ctx.quick() else 12)
        d, err = run_harness(ctx, "feh", sol, commands(seqs, H_TYPES))
        if err:
            ctx.fail(err, problem=p); continue
        res = split_results(d["out"], seqs, H_TYPES)
        if res is None or any(t[0] == "s" and t[1] != "1" for t in d["out"]):
            ctx.fail("h_blockint: a label could not be selected through its element centroid", problem=p); continue
        done += 1
        for (nm, sq), (fl, _) in zip(seqs, res):
            if fl != model_flags(nlab, groups, sq):
                ctx.fail("selection flags after %r are %r, toggling gives %r" % (sq, fl, model_flags(nlab, groups, sq)), problem=p)
        additivity(ctx, "heat flow", p, seqs, res, [1, 2])
        # averages: volume-weighted additivity
        byname = {nm: r for (nm, _), r in zip(seqs, res)}
        if all(kk in byname for kk in ("A", "B", "AB")):
            vA, vB, vAB = (byname[kk][1][2][0] for kk in ("A", "B", "AB"))
            for t in (0, 3, 4):
                for part in (0, 1):
                    lhs = byname["AB"][1][t][part] * vAB
                    rhs = byname["A"][1][t][part] * vA + byname["B"][1][t][part] * vB
                    sc = (abs(byname["A"][1][t][0]) + abs(byname["A"][1][t][1])) * abs(vA) + (abs(byname["B"][1][t][0]) + abs(byname["B"][1][t][1])) * abs(vB)
                    if abs(lhs - rhs) > 1e-7 * max(sc, 1e-300):
                        ctx.fail("heat flow: average %d over A u B times its volume (%.15g) differs from the sum over the parts (%.15g)" % (t, lhs, rhs),
                                 problem=p, integral=t)
        for (nm, sq), (fl, vals) in zip(seqs, res):
            ref = h_reference(d, fl)
            if ref is None:
                continue
            for t in H_TYPES:
                for part in (0, 1):
                    sc = max(ref["scale"][t], 1e-300)
                    if abs(vals[t][part] - ref[t][part]) > 1e-11 * sc:
                        ctx.fail("heat flow: block integral %d = %.15g, an independent evaluation on the same mesh gives %.15g" % (t, vals[t][part], ref[t][part]),
                                 problem=p, selection=sq, integral=t)
        if len(d["nodes"]) <= (1500 if ctx.quick() else 4000):
            exprs.append(h_to_coq(d, p.get("depth", 1), [fl for fl, _ in res]))
            cases.append((p, d, seqs, res))
        if len(samples) < 12 and k < 3:
            samples.append(dict(physics="heat flow", features=p["features"], nodes=len(d["nodes"]), elements=len(d["elems"]),
                                selections=[s[0] for s in seqs]))
    model = vlib.coq_eval(HEADER, exprs, shard=2, timeout=1800, name="xh") if exprs and model else []
    for (p, d, seqs, res), m in zip(cases, model):
        bad = compare_scalar(tally, d, seqs, res, m, H_TYPES)
        if bad:
            dis.append(dict(what="hpproc correspondence: " + bad, problem=p))
    return done, len(cases)


# ------------------------------------------------------------------------- magnetics ----
M_TYPES = [0, 1, 2, 4, 5, 6, 7, 8, 9, 10, 11, 12, 15, 17, 24]
M_COMPLEX = M_TYPES


def cpx(f, re, im):
    return "(%s, %s)" % (f(re), f(im))


def m_to_coq(d, depth_file, sels, circs):
    f = vlib.fhexs
    axi, lc, depth, zo, ro, ri, mu0 = d["P"][:7]
    nodes = "; ".join("mkIMNode %s %s %s" % (f(n[0]), f(n[1]), cpx(f, n[2], n[3])) for n in d["nodes"])
    elems = "; ".join("mkIMElem (%d, %d, %d) %d %d %s" % (e[0], e[1], e[2], e[3], e[4], cpx(f, e[11], e[12])) for e in d["elems"])
    labels = "; ".join("mkIMLabel %s %d %s %s %s %s %s" % (("(Some %d)" % int(l[5])) if l[5] >= 0 else "None", int(l[6]), cpx(f, l[7], l[8]),
                                                        cpx(f, l[9], l[10]), f(l[11]), "true" if l[3] else "false", cpx(f, l[12], l[13]))
                       for l in d["labels"])
    mats = "; ".join("mkIMMat %s %s %s %s %s %s %d %s" % (f(m[0]), f(m[1]), f(m[2]), cpx(f, m[3], m[4]), f(m[5]), f(m[6]), int(m[7]), f(m[8]))
                     for m in d["mats"])
    amps = "; ".join(cpx(f, c[0], c[1]) for c in d["circs"])
    P = "(mkIMProb %s %s %s %s %s %s %s [%s] [%s] [%s] [%s] [%s] %s)" % ("true" if axi else "false", f(lc), f(depth_file), f(zo), f(ro), f(ri),
                                                                     f(mu0), nodes, elems, labels, mats, amps, LAMFIX["value"])
    ints = "; ".join("[%s]" % "; ".join("im_block_integral FA P Bs %s %d" % (blist(s), t) for t in M_TYPES) for s in sels)
    fl = "; ".join("im_flux_linkage FA P %d" % c for c in circs)
    return ("let P := %s in let Bs := im_Bs FA P in "
            "(im_depth FA P, map (fun el => (im_ctr FA P el, im_aecf FA P el)) (im_elems P), Bs, [%s], [%s], nth %d (pp_length_conv FA) (aone FA))"
            % (P, ints, fl, int(d["P"][7])))


# 7-point Gauss rule on the triangle (degree 5): barycentric points and weights
_G7 = [((1 / 3, 1 / 3, 1 / 3), 0.225)] + \
      [(pt, 0.13239415278850618) for pt in ((0.05971587178976982, 0.47014206410511509, 0.47014206410511509),
                                            (0.47014206410511509, 0.05971587178976982, 0.47014206410511509),
                                            (0.47014206410511509, 0.47014206410511509, 0.05971587178976982))] + \
      [(pt, 0.12593918054482715) for pt in ((0.79742698535308732, 0.10128650732345634, 0.10128650732345634),
                                            (0.10128650732345634, 0.79742698535308732, 0.10128650732345634),
                                            (0.10128650732345634, 0.10128650732345634, 0.79742698535308732))]


def m_reference(d, flags):
    """independent evaluation (Gauss quadrature of the P1 fields, GetJA's rules re-done from the dumped label / material data) of
    the magnetics block integrals 0 (A.J), 1 (A), 7 (current), and in planar problems 8, 9 (B) and, without magnets and with
    LamType 0 only, 2 (energy): {type: (value, scale)}; real parts (static problems)"""
    axi, lc, depth, zo, ro, ri, mu0 = d["P"][:7]
    out = {0: [0.0, 0.0], 1: [0.0, 0.0], 7: [0.0, 0.0], 8: [0.0, 0.0], 9: [0.0, 0.0], 2: [0.0, 0.0]}
    energy_ok = not axi
    for e in d["elems"]:
        if not flags[e[3]]:
            continue
        lab, mat = d["labels"][e[3]], d["mats"][e[4]]
        xs = [d["nodes"][k][0] * lc for k in e[0:3]]; ys = [d["nodes"][k][1] * lc for k in e[0:3]]
        Ar = [d["nodes"][k][2] for k in e[0:3]]
        a = ((xs[1] - xs[0]) * (ys[2] - ys[0]) - (xs[2] - xs[0]) * (ys[1] - ys[0])) / 2
        # current density at the nodes, MA/m^2 (GetJA)
        c = mat[5]
        if mat[6] != 0 and int(mat[7]) == 0:
            c = 0.0
        if lab[11] > 0:
            c = 0.0
        rc = sum(d["nodes"][k][0] for k in e[0:3]) / 3 * lc
        Jn = [mat[3]] * 3
        Javg = mat[3]
        if lab[5] >= 0:
            if int(lab[6]) == 0:
                if not axi:
                    Jn = [mat[3] - c * lab[7]] * 3; Javg = mat[3] - c * lab[7]
                else:
                    Jn = [mat[3] - c * lab[7] / (rc if abs(d["nodes"][k][0]) < 1e-6 else d["nodes"][k][0] * lc) for k in e[0:3]]
                    Javg = mat[3] - c * lab[7] / rc
            else:
                Jn = [mat[3] + lab[9]] * 3; Javg = mat[3] + lab[9]
        Jn = [j * 1e6 for j in Jn]; Javg *= 1e6
        if not axi:
            An = Ar
        else:
            An = [0.0 if abs(d["nodes"][k][0]) < 1e-6 else d["nodes"][k][2] / (2 * math.pi * d["nodes"][k][0] * lc) for k in e[0:3]]
        iAJ = iA = sAJ = sA = 0.0
        for (l0, l1, l2), w in _G7:
            Aq = l0 * An[0] + l1 * An[1] + l2 * An[2]
            Jq = l0 * Jn[0] + l1 * Jn[1] + l2 * Jn[2]
            wq = w * abs(a) * ((2 * math.pi * (l0 * xs[0] + l1 * xs[1] + l2 * xs[2])) if axi else depth) * (1 if a > 0 else -1)
            iAJ += wq * Aq * Jq; iA += wq * Aq
            sAJ += abs(wq * Aq * Jq); sA += abs(wq * Aq)
        out[0][0] += iAJ; out[0][1] += sAJ
        out[1][0] += iA; out[1][1] += sA
        out[7][0] += a * Javg; out[7][1] += abs(a * Javg)
        if not axi:
            b = [ys[1] - ys[2], ys[2] - ys[0], ys[0] - ys[1]]; cc = [xs[2] - xs[1], xs[0] - xs[2], xs[1] - xs[0]]
            B1 = sum(Ar[i] * cc[i] for i in range(3)) / (2 * a); B2 = -sum(Ar[i] * b[i] for i in range(3)) / (2 * a)
            sB1 = sum(abs(Ar[i] * cc[i]) for i in range(3)) / abs(2 * a); sB2 = sum(abs(Ar[i] * b[i]) for i in range(3)) / abs(2 * a)
            v = a * depth
            out[8][0] += v * B1; out[8][1] += abs(v) * sB1
            out[9][0] += v * B2; out[9][1] += abs(v) * sB2
            if mat[2] != 0 or int(mat[7]) != 0 or int(mat[9]) != 0:
                energy_ok = False
            else:
                t = mat[8]
                w_ = (B1 * B1 / ((1 + t * (mat[0] - 1)) * mu0) + B2 * B2 / ((1 + t * (mat[1] - 1)) * mu0)) / 2
                out[2][0] += v * w_
                out[2][1] += abs(v) * (sB1 * sB1 / abs((1 + t * (mat[0] - 1)) * mu0) + sB2 * sB2 / abs((1 + t * (mat[1] - 1)) * mu0)) / 2
    if not energy_ok:
        del out[2]
    if axi:
        del out[8], out[9]
    return out


def m_axi_problem(rng, quick):
    """axisymmetric magnetostatic problem touching the axis r = 0: air (optionally with an exterior region), a coil
    (stranded or solid, in a circuit) or a block with J, and a linear core (laminated or not, or a magnet)"""
    B = Builder("fem")
    p = B.p
    p["problemtype"] = "axisymmetric"
    p["units"] = rng.choice(femgen.UNITS)
    p["depth"] = 1.0
    p["precision"] = 1e-8
    p["dosmartmesh"] = 0
    p["frequency"] = 0.0
    W, H = rng.choice([3.0, 4.0]), rng.choice([3.0, 4.0])
    y0 = rng.choice([-1.5, 0.0])
    a0 = B.prop("bdryprops", name="A0", type=0)
    air = B.prop("blockprops", name="air", mu_x=1.0, mu_y=1.0)
    d = mesh_diameter(W * H / (60 if quick else 200))
    B.rect(0.0, y0, W, y0 + H, {"b": dict(bdry=a0), "r": dict(bdry=a0), "t": dict(bdry=a0)})
    feats = ["axi", p["units"]]
    ext = rng.random() < 0.5
    if ext:
        # a strip of air at the top declared part of the exterior region
        ys = y0 + H * 0.8
        a = B.point(0.0, ys); b = B.point(W, ys)
        segs = p["segments"]
        bot, right, top, left = segs[0], segs[1], segs[2], segs[3]
        p["segments"] = [bot, dict(right, n1=b), dict(right, n0=b), top, dict(left, n1=a), dict(left, n0=a)]
        B.seg(a, b)
        B.label(W * 0.5, y0 + H * 0.9, air, maxarea=d, external=1, group=5)
        p.update(extRo=rng.choice([6.0, 8.0]), extRi=rng.choice([4.0, 5.0]), extZo=y0 + H * 0.4)
        feats.append("external")
    B.label(W * 0.9, y0 + H * 0.05, air, maxarea=d, group=7)
    # core touching the axis
    kind = rng.choice(["iron", "iron-lam0", "iron-lam1", "magnet", "iron-aniso"])
    if kind == "magnet":
        core = B.prop("blockprops", name="core", mu_x=1.05, mu_y=1.05, H_c=rng.choice([1e5, 5e4]))
    elif kind == "iron-lam0":
        core = B.prop("blockprops", name="core", mu_x=500.0, mu_y=500.0, lamtype=0, lamfill=rng.choice([0.9, 0.5]), d_lam=0.5, sigma=5.0)
    elif kind == "iron-lam1":
        core = B.prop("blockprops", name="core", mu_x=200.0, mu_y=200.0, lamtype=rng.choice([1, 2]), lamfill=rng.choice([0.9, 0.5]))
    elif kind == "iron-aniso":
        core = B.prop("blockprops", name="core", mu_x=50.0, mu_y=5.0)
    else:
        core = B.prop("blockprops", name="core", mu_x=rng.choice([100.0, 1000.0]), mu_y=rng.choice([100.0, 1000.0]))
    feats.append("core:" + kind)
    B.rect(0.0, y0 + H * 0.25, W * 0.25, y0 + H * 0.6)
    B.label(W * 0.12, y0 + H * 0.4, core, maxarea=d / 1.5, group=1, magdir=90.0 if kind == "magnet" else 0.0)
    # coil
    ck = rng.choice(["stranded", "solid", "jblock", "parallel"])
    feats.append("coil:" + ck)
    amps = rng.choice([1.0, 10.0, -3.0])
    if ck == "stranded":
        cu = B.prop("blockprops", name="cu", mu_x=1.0, mu_y=1.0, sigma=58.0)
        c = B.prop("circuits", name="coil", type=1, amps_re=amps)
        lab = dict(circuit=c, turns=rng.choice([10, 100]))
    elif ck == "solid":
        cu = B.prop("blockprops", name="cu", mu_x=1.0, mu_y=1.0, sigma=rng.choice([58.0, 10.0]))
        c = B.prop("circuits", name="coil", type=1, amps_re=amps)
        lab = dict(circuit=c, turns=1)
    elif ck == "parallel":
        cu = B.prop("blockprops", name="cu", mu_x=1.0, mu_y=1.0, sigma=rng.choice([58.0, 0.0]))
        c = B.prop("circuits", name="coil", type=0, amps_re=amps)
        lab = dict(circuit=c, turns=1)
    else:
        cu = B.prop("blockprops", name="cu", mu_x=1.0, mu_y=1.0, J_re=rng.choice([1.0, -2.0]), sigma=rng.choice([0.0, 58.0]))
        lab = {}
    B.rect(W * 0.375, y0 + H * 0.25, W * 0.625, y0 + H * 0.6)
    B.label(W * 0.5, y0 + H * 0.4, cu, maxarea=d / 1.5, group=2, **lab)
    p["features"] = feats
    return p


def m_problems(rng, quick):
    ps = []
    for k in range(5 if quick else 24):
        force = {}
        if k % 5 == 1:
            force = dict(main_iron=True)
        p = c05_gen.gen_problem(rng, harmonic=False, size_nodes=rng.choice([25, 40, 60]) if quick else rng.choice([40, 100, 250]), force=force)
        ps.append(("c05", p))
    for k in range(1 if quick else 6):
        ps.append(("c13", c13.build(rng, "fem", axi=False)))
    for k in range(4 if quick else 16):
        ps.append(("axi", m_axi_problem(rng, quick)))
    return ps


def run_m(ctx, rng, tally, dis, feats, samples, notes, model=True):
    exprs, cases = [], []
    done = 0
    gaps = []
    for k, (fam, p) in enumerate(m_problems(rng, ctx.quick())):
        for ft in p["features"]:
            feats["M:" + str(ft)] = feats.get("M:" + str(ft), 0) + 1
        sol, err = solve(ctx, p, "xm%d" % k, writer=c05_gen.write)
        if err:
            ctx.fail("magnetics run failed on a well-formed problem: " + err, problem=p); continue
        nlab = len(p["labels"])
        groups = [l.get("group", 0) for l in p["labels"]]
        seqs = subsets(rng, nlab, groups, 8 if ctx.quick() else 12)
        ncirc = len(p["circuits"])
        live = [c for c in range(ncirc) if (p["circuits"][c].get("amps_re", 0) or p["circuits"][c].get("amps_im", 0))
                and any(l.get("circuit", 0) == c + 1 for l in p["labels"])]
        d, err = run_harness(ctx, "fem", sol, commands(seqs, M_TYPES) + ["k %d" % c for c in live])
        if err:
            ctx.fail(err, problem=p); continue
        res = split_results(d["out"], seqs, M_TYPES)
        kres = {int(t[1]): [float(x) for x in t[2:]] for t in d["out"] if t[0] == "k"}
        if res is None or any(t[0] == "s" and t[1] != "1" for t in d["out"]):
            ctx.fail("h_blockint: a label could not be selected through its element centroid", problem=p); continue
        if d["P"][8] != 0 or any(m[9] != 0 or m[7] > 2 for m in d["mats"]):
            continue            # outside the modelled class (never generated)
        done += 1
        for (nm, sq), (fl, _) in zip(seqs, res):
            if fl != model_flags(nlab, groups, sq):
                ctx.fail("selection flags after %r are %r, toggling gives %r" % (sq, fl, model_flags(nlab, groups, sq)), problem=p)
        # ---- oracles on the implementation's own numbers
        def m_floor(t, fa, fb, d=d):
            # integrals of A (1) and of B (8, 9) over a block are sums of terms of both signs that can cancel completely
            if t not in (1, 8, 9):
                return 0.0
            axi_, lc_, depth_ = d["P"][0], d["P"][1], d["P"][2]
            tot = 0.0
            for e in d["elems"]:
                if not (fa[e[3]] or fb[e[3]]):
                    continue
                (x0, y0), (x1, y1), (x2, y2) = [(d["nodes"][k][0] * lc_, d["nodes"][k][1] * lc_) for k in e[0:3]]
                a_ = abs((x1 - x0) * (y2 - y0) - (x2 - x0) * (y1 - y0)) / 2
                v_ = a_ * (2 * math.pi * abs(x0 + x1 + x2) / 3 if axi_ else depth_)
                if t == 1:
                    w = max(abs(d["nodes"][k][2]) for k in e[0:3])
                    if axi_:
                        w /= max(2 * math.pi * min(abs(c) for c in (x0, x1, x2) if c != 0), 1e-300) if any((x0, x1, x2)) else 1.0
                else:
                    w = math.hypot(e[7], e[8]) if t == 8 else math.hypot(e[9], e[10])
                tot += v_ * w
            return 1e-11 * tot
        additivity(ctx, "magnetics", p, seqs, res, M_TYPES, complex_types=M_COMPLEX, floor=m_floor)
        axi, lc, depth = d["P"][0], d["P"][1], d["P"][2]
        for (nm, sq), (fl, vals) in zip(seqs, res):
            dd = dict(d); dd["P"] = d["P"]
            A, Vv = mesh_measures(d, fl)
            if abs(vals[5][0] - A) > 1e-10 * max(abs(A), 1e-300) or abs(vals[10][0] - Vv) > 1e-10 * max(abs(Vv), 1e-300):
                ctx.fail("magnetics: block area/volume %.15g / %.15g differ from the selected mesh polygon's %.15g / %.15g"
                         % (vals[5][0], vals[10][0], A, Vv), problem=p, selection=sq)
            if all(n[3] == 0 for n in d["nodes"]) and all(m[4] == 0 for m in d["mats"]):
                for t, (rv, rs) in m_reference(d, fl).items():
                    if abs(vals[t][0] - rv) > 1e-9 * max(rs, 1e-300):
                        ctx.fail("magnetics: block integral %d = %.15g, an independent evaluation on the same mesh gives %.15g" % (t, vals[t][0], rv),
                                 problem=p, selection=sq, integral=t)
        allv = dict(zip([s_[0] for s_ in seqs], res))["all"][1]
        W, AJ, Wc = allv[2][0], allv[0][0], allv[17][0]
        has_pm = any(m[2] != 0 for m in d["mats"])
        lam12 = any(m[7] in (1, 2) and any(e[4] == bi for e in d["elems"]) for bi, m in enumerate(d["mats"]))
        # sources other than J / circuits: prescribed non-zero A, mixed boundary with c1, point currents / point A
        homog = all(all(bp.get(kk, 0.0) == 0 for kk in ("A_0", "A_1", "A_2", "c1")) and bp.get("type", 0) in (0, 4, 5) for bp in p["bdryprops"]) \
            and not p["pointprops"]
        if not has_pm and not lam12 and abs(W - Wc) > 1e-12 * max(abs(W), 1e-300):
            ctx.fail("magnetics: energy %.15g and coenergy %.15g differ for a linear problem" % (W, Wc), problem=p)
        if homog and not has_pm:
            rel = abs(W - 0.5 * AJ) / max(abs(W), 1e-300)
            if lam12 and LAMFIX["value"] == "false":
                notes.append(dict(what="linear problem with an on-edge laminated block (LamType 1/2): W = %.12g J, 1/2 int A.J = %.12g J (relative gap %.3g)"
                                       % (W, 0.5 * AJ, rel), features=p["features"]))
            elif not axi and rel > 2e-5:
                ctx.fail("magnetics: field energy %.10g J differs from half the integral of A.J %.10g J" % (W, 0.5 * AJ), problem=p)
            elif axi:
                # axisymmetric: B comes from the mid-side-node rule of GetElementB while A.J is integrated exactly; the two agree to
                # O(h^2) only (gap ~ 1/nodes, confirmed by refinement: 1.7% at 80 nodes, 0.45% at 280, 0.10% at 1090)
                gaps.append(rel * len(d["nodes"]))
                if rel > 5.0 / len(d["nodes"]):
                    ctx.fail("magnetics (axisymmetric): field energy %.10g J differs from half the integral of A.J %.10g J by more than the "
                             "discretisation gap 5/nodes" % (W, 0.5 * AJ), problem=p)
        # circuits: sum over live circuits of conj(I) * flux linkage = int A.J over the circuits' blocks
        for c in live:
            flags = [1 if l[5] == c else 0 for l in d["labels"]]
            # the integral of A.J over the labels of circuit c is not among the queried selections: use the identity on the model side;
            # here: flux linkage times conj(I) must be finite and its imaginary part vanish in a static problem
            lam = kres.get(c)
            if lam is None or not all(math.isfinite(x) for x in lam):
                ctx.fail("magnetics: flux linkage of circuit %d is not finite" % c, problem=p)
        if len(d["nodes"]) <= (1500 if ctx.quick() else 4000):
            exprs.append(m_to_coq(d, p.get("depth", 1), [fl for fl, _ in res], live))
            cases.append((p, d, seqs, res, live, kres))
        if k < 3 or fam == "axi" and len(samples) < 24:
            samples.append(dict(physics="magnetics", features=p["features"], nodes=len(d["nodes"]), elements=len(d["elems"]),
                                selections=[s_[0] for s_ in seqs]))
    if gaps:
        notes.append(dict(what="axisymmetric magnetics: |W - 1/2 int A.J| / W times the number of nodes, per problem", values=[round(g, 3) for g in gaps]))
    model = vlib.coq_eval(HEADER, exprs, shard=2, timeout=1800, name="xm") if exprs and model else []
    for (p, d, seqs, res, live, kres), m in zip(cases, model):
        depth_m, ctrs, Bs, ints, fls, lcm = m
        bad = None
        if not tally.cmp(d["P"][2], depth_m):
            bad = "Depth after OpenDocument: implementation %r, model %r" % (d["P"][2], depth_m)
        if not tally.cmp(d["P"][1], lcm, "LengthConv"):
            bad = "LengthConv[%d]: implementation %r, model %r" % (int(d["P"][7]), d["P"][1], lcm)
        if len(ctrs) != len(d["elems"]) or len(Bs) != len(d["elems"]) or len(ints) != len(res):
            bad = "model returned %d/%d elements, %d selections" % (len(ctrs), len(Bs), len(ints))
        else:
            # Coq prints ((a, b), c) as (a, b, c) and ((a, b), (c, d)) as (a, b, (c, d))
            for i, (e, (c0, c1, ae), (b10, b11, B2)) in enumerate(zip(d["elems"], ctrs, Bs)):
                impl = [e[5], e[6], e[7], e[8], e[9], e[10], e[13]]
                mod = [c0, c1, b10, b11, B2[0], B2[1], ae]
                for nm, a, b in zip(("ctr.re", "ctr.im", "B1.re", "B1.im", "B2.re", "B2.im", "AECF"), impl, mod):
                    if not tally.cmp(a, b, "fpproc " + nm) and not bad:
                        bad = "element %d %s: implementation %r, model %r" % (i, nm, a, b)
            for (nm, sq), (fl, vals), mi in zip(seqs, res, ints):
                for t, mv in zip(M_TYPES, mi):
                    for part in (0, 1):
                        if not tally.cmp(vals[t][part], mv[part], "fpproc BlockIntegral(%d).%s %s" % (t, "re" if part == 0 else "im", p["features"][0])) and not bad:
                            bad = "BlockIntegral(%d) %s part after %r: implementation %r, model %r" % (t, "re" if part == 0 else "im", sq, vals[t][part], mv[part])
            for c, mv in zip(live, fls):
                for part in (0, 1):
                    if not tally.cmp(kres[c][part], mv[part], "fpproc GetFluxLinkage") and not bad:
                        bad = "GetFluxLinkage(%d) %s part: implementation %r, model %r" % (c, "re" if part == 0 else "im", kres[c][part], mv[part])
        if bad:
            dis.append(dict(what="fpproc correspondence: " + bad, problem=p))
    return done, len(cases)


def correspond(ctx):
    rng = ctx.rng
    c03.EXTFIX["value"] = c03.flow_variant(ctx)
    tally = Tally()
    dis, feats, samples = [], {}, []
    de, ce = run_e(ctx, rng, tally, dis, feats, samples)
    dh, ch = run_h(ctx, rng, tally, dis, feats, samples)
    notes = []
    dm, cm = run_m(ctx, rng, tally, dis, feats, samples, notes)
    cov = ctx.res.cov
    cov["evaluations"] = de + dh + dm
    cov["distinct_nontrivial"] = ce + ch + cm
    cov["per_physics"] = dict(electrostatics=ce, heat=ch, magnetics=cm)
    cov["observations"] = notes
    cov["do_energy_variant"] = ("CMMaterialProp::DoEnergy uses b2 in the hard-direction term of LamType 1/2" if LAMFIX["value"] == "true"
                                else "CMMaterialProp::DoEnergy uses b1 in the hard-direction term of LamType 1/2 (as shipped)")
    cov["rule"] = ("generated solved problems of the three physics: electrostatics (C03's generator: rectangle, material interface, inner "
                   "conductor box fixed / floating / two floating, hole, point charges, exterior region; C13's multi-block layout), heat flow "
                   "(the same family with T-k tables and exterior regions), magnetostatics (C05's planar generator: coils in series / parallel "
                   "circuits, solid conductors, magnets with constant and Lua directions, laminated iron LamType 0-2, all boundary types; an "
                   "axisymmetric family touching the axis with exterior region, stranded / solid / parallel coils, magnets, laminated cores); "
                   "planar and axisymmetric, all six length units; meshed and solved by the real femmcli; per problem 8-12 label-toggle "
                   "sequences through the real selection code (singletons, disjoint pair and union in both orders, repeated label, group "
                   "toggle, random); every modelled block-integral type (E 0-4, H 0-4, M 0 1 2 4 5 6 7 8 9 10 11 12 15 17 24) and the flux "
                   "linkage of every live circuit evaluated by the real post-processor and by the float reading of the model on the dumped "
                   "data, plus per element centroid, AECF, D / E (F / G, B1 / B2); non-trivial = solved, opened and compared")
    cov["input_distribution"] = feats
    cov["samples"] = samples
    cov["values_compared"] = tally.tot
    cov["bit_identical"] = tally.bit
    cov["bit_identical_fraction"] = round(tally.bit / max(tally.tot, 1), 6)
    cov["worst_ulp"] = tally.worst
    cov["not_bit_identical"] = [dict(what=w, implementation=a, model=b, ulps=u) for (w, a, b, u) in tally.off]
    return dis


def search(ctx, broken):
    """a proof or the correspondence broke: look for an input on which the property itself fails against the real code
    (the oracles on the implementation's own outputs, without the model)"""
    before = len(ctx.failing_inputs)
    rng = vlib.Rng(ctx.seed + 7)
    tally = Tally()
    saved = ctx.tier
    ctx.tier = "quick"
    try:
        for k in range(3):
            run_e(ctx, rng, tally, [], {}, [], model=False)
            run_h(ctx, rng, tally, [], {}, [], model=False)
            run_m(ctx, rng, tally, [], {}, [], [], model=False)
            if len(ctx.failing_inputs) > before:
                break
    finally:
        ctx.tier = saved
    found = ctx.failing_inputs[before:]
    del ctx.failing_inputs[before:]
    return found
