"""C19 — nonlinear material curves are consistent and reduce to the linear case.
Model: coq/theories/BH.v; theorems: Properties_C19.v (proofs in BHProofs.v).
Correspondence: seeded monotone B-H tables through harness/h_bh.cpp (real CMSolverMaterialProp:
GetSlopes(0), GetH, GetdHdB, GetEnergy, GetCoEnergy, GetBHProps) and through the binary64 reading
of the model (vm_compute), compared bit for bit (tolerance 64 ulp).
Property oracle on the implementation's own outputs (independent of the Coq model): continuity
of H across knots, H non-decreasing on a grid, dH/dB against a centred 5-point difference of H,
energy against Simpson quadrature of H (scipy), H(-b)=H(b), coenergy identity, slopes against an
independent natural-spline solve, the smoothing repair against a reference 3-point average, the
straight-line table against the linear material, bounded construction time."""
import math, os, json
import numpy as np
import vlib

LEVEL = "proof"
EXTENSIONS = ["xnl", "xnlaxi"]                     # the Newton loop of FSolver::Static2D (AsmMNL.v, props/xnl.py)
EXTRA_PROPERTY_FILES = ["C19_energy", "C19_nl", "C19_nlaxi"]   # CMMaterialProp::DoEnergy / DoCoEnergy of nonlinear materials (BHEnergy.v)
COQ_MODULES = ["BH", "BHEnergy"]
ASSUMPTIONS = [
    "theorems about the stored slopes (spline equations, straight-line table => constant slopes) are conditional on GaussSolve's own success flag; that flag is evaluated by the float model on every generated table and a False is reported as a violation",
    "theorems are about the real-number reading of the model; rounding error between the float and real readings is not bounded (the float reading is compared with the C++ bit for bit on the generated tables)",
    "termination of the smoothing repair loop of GetSlopes is not proved: the model loop is fuelled, the check reports any table that needs more than 10^4 passes or whose GetSlopes call does not return within the time limit",
    "the model is hand-written; its tie to CMaterialProp.cpp/fullmatrix.cpp/femmcomplex.cpp is the table correspondence run here (omega = 0 only; the harmonic re-sampling of the curve and LaminatedBH are not modelled)",
    "termination of the Newton iteration of Static2D and the equality of the solver result for a straight-line table with the linear-material result are observed on paired solver runs, not proved",
]
HEADER = ("From Coq Require Import ZArith List Floats. Import ListNotations. "
          "From XF Require Import Arith BH. Local Open Scope float_scope.")
MUO = 1.2566370614359173e-6
FUEL = "(100*100)%nat"
MAXPASSES = 10000
TIME_LIMIT = 10          # seconds per GetSlopes call in the harness
MAX_TIMEOUTS = 3         # after that many non-returning tables the rest of the batch is skipped


# --------------------------------------------------------------------- table generator ----
def uneven_knots(rng, n, bmax, ratio):
    """n strictly increasing abscissae from 0 to bmax with step ratios up to `ratio`."""
    w = [math.exp(rng.uniform(0, math.log(ratio))) for _ in range(n - 1)]
    s = sum(w)
    B = [0.0]
    for x in w:
        B.append(B[-1] + x / s * bmax)
    B[-1] = bmax
    for i in range(1, n):
        if not B[i] > B[i - 1]:
            B[i] = math.nextafter(B[i - 1], math.inf)
    return B


def gen_table(rng, kind=None, nmax=40):
    kinds = ["line", "line-exact", "steel", "knee", "sat-tail", "random", "near-collinear", "few", "uneven", "plateau"]
    kind = kind or rng.choice(kinds)
    n = rng.randint(2, nmax)
    lamtype, lamfill = 0, 1.0
    if kind == "few":
        n = rng.randint(2, 3)
    bmax = rng.choice([1.0, 1.5, 2.0, 2.3, 3.0, 0.2, 10.0])
    if kind == "line":
        mu = math.exp(rng.uniform(0, math.log(1e5)))
        k = 1.0 / (mu * MUO)
        B = uneven_knots(rng, n, bmax, rng.choice([1.0, 3.0, 100.0]))
        H = [k * b for b in B]
    elif kind == "line-exact":
        # dyadic abscissae and an integer slope: every product is exact
        k = float(rng.randint(1, 4000))
        steps = [rng.randint(1, 64) for _ in range(n - 1)]
        B = [0.0]
        for s in steps:
            B.append(B[-1] + s / 64.0)
        H = [k * b for b in B]
    elif kind == "near-collinear":
        k = math.exp(rng.uniform(math.log(10), math.log(1e6)))
        B = uneven_knots(rng, n, bmax, rng.choice([1.0, 5.0]))
        eps = rng.choice([1e-15, 1e-12, 1e-9, 1e-6])
        H = [0.0] + [k * b * (1 + eps * rng.uniform(-1, 1)) for b in B[1:]]
    elif kind == "steel":
        B = uneven_knots(rng, n, bmax, rng.choice([1.0, 2.0, 10.0]))
        a = math.exp(rng.uniform(math.log(20), math.log(2000)))
        p = rng.uniform(3, 14)
        c = math.exp(rng.uniform(math.log(1), math.log(1e4)))
        H = [a * b + c * (b / bmax * 2.0) ** p for b in B]
    elif kind == "knee":
        B = uneven_knots(rng, n, bmax, rng.choice([1.0, 4.0]))
        kb = rng.uniform(0.3, 0.9) * bmax
        s1 = math.exp(rng.uniform(math.log(10), math.log(1e3)))
        s2 = s1 * math.exp(rng.uniform(math.log(10), math.log(1e4)))
        H = [s1 * b if b <= kb else s1 * kb + s2 * (b - kb) for b in B]
    elif kind == "sat-tail":
        B = uneven_knots(rng, n, bmax, rng.choice([1.0, 3.0]))
        bs = rng.uniform(0.5, 0.95) * bmax
        mu = math.exp(rng.uniform(math.log(100), math.log(2e4)))
        H = []
        for b in B:
            # soft approach to saturation, then the slope of free space
            x = b / bs
            H.append(b / (mu * MUO) * (1 + x ** 8) if b <= bs else 2 * bs / (mu * MUO) + (b - bs) / MUO)
    elif kind == "uneven":
        B = uneven_knots(rng, n, bmax, 1e4)
        inc = [math.exp(rng.uniform(0, math.log(1e3))) for _ in range(n - 1)]
        H = [0.0]
        for (b0, b1, w) in zip(B, B[1:], inc):
            H.append(H[-1] + w * (b1 - b0) * 100)
    elif kind == "plateau":
        B = uneven_knots(rng, n, bmax, 3.0)
        H = [0.0]
        for i in range(1, n):
            H.append(H[-1] + (0.0 if rng.random() < 0.3 and i > 1 else rng.uniform(10, 1000)))
    else:   # random
        B = uneven_knots(rng, n, bmax, rng.choice([1.0, 10.0, 1e3]))
        H = [0.0]
        for i in range(1, n):
            H.append(H[-1] + math.exp(rng.uniform(math.log(1e-2), math.log(1e5))))
    # make H monotone in floating point as well
    for i in range(1, n):
        if H[i] < H[i - 1]:
            H[i] = H[i - 1]
    if H[1] == 0.0:
        H[1] = 1.0 if n == 2 or H[2] > 1.0 else H[2] / 2
        for i in range(2, n):
            H[i] = max(H[i], H[i - 1])
    if rng.random() < 0.2:
        lamfill = rng.choice([0.5, 0.9, 0.95, 0.98, rng.uniform(0.3, 0.999)])
        lamtype = 0 if rng.random() < 0.8 else rng.choice([1, 2])
    return dict(kind=kind, B=[float(b) for b in B], H=[float(h) for h in H], lamtype=lamtype, lamfill=float(lamfill))


def gen_tables(rng, count, nmax=40):
    kinds = ["line", "line-exact", "steel", "knee", "sat-tail", "random", "near-collinear", "few", "uneven", "plateau"]
    out = []
    for k in range(count):
        t = gen_table(rng, kinds[k % len(kinds)], nmax)
        t["id"] = k
        out.append(t)
    return out


# ---------------------------------------------------------------------------- harness ----
def case_text(t, samples):
    hx = lambda l: " ".join(float(x).hex() for x in l)
    L = ["case %d" % t["id"], "lam %d %s" % (t["lamtype"], float(t["lamfill"]).hex()),
         "B " + hx(t["B"]), "H " + hx(t["H"])]
    for i in range(0, len(samples), 64):
        L.append("sample " + hx(samples[i:i + 64]))
    L.append("end")
    return "\n".join(L) + "\n"


# ------------------------------------------------------- post-processor energy densities ----
HEADER_E = ("From Coq Require Import ZArith List Floats. Import ListNotations. "
            "From XF Require Import Arith BH BHEnergy. Local Open Scope float_scope.")


def post_energy(ctx, tables):
    """CMMaterialProp::DoEnergy / DoCoEnergy(double,double) of nonlinear materials (what fpproc evaluates for the point value E and
    the block integrals of energy and coenergy): every table, lamination types 0, 1, 2 with its fill factor (fill < 1 forced for
    a third of the tables), flux densities inside and beyond the table in several directions.  (1) model BHEnergy.v bit for bit;
    (2) oracle independent of the routine's mixing code: LamType 0 -> exactly GetEnergy(|b|) of the same object (axis-parallel
    b: |b| is exact), LamType 1/2 -> fill*GetEnergy(biron) + (1-fill)*bair^2/(2 mu0) with GetEnergy(biron) sampled separately"""
    rng = vlib.Rng(ctx.seed + 1919)
    st = dict(cases=0, values=0, bit=0, oracle_values=0, by_lamtype={0: 0, 1: 0, 2: 0}, fill_below_one=0)
    dis, todo = [], []
    exe = vlib.build_harness(ensure_snap(ctx), "h_bh")
    for t in tables:
        if len(t["B"]) < 2:
            continue
        u = dict(t)
        q = rng.random()
        if q < 0.35:
            u["lamtype"] = rng.choice([0, 0, 1, 2])
            u["lamfill"] = float(rng.choice([0.5, 0.9, 0.95, 0.98, rng.uniform(0.3, 0.999)]))
        bmax = u["B"][-1]
        pairs = []
        for x in [bmax * f for f in (0.05, 0.37, 0.81, 1.0, 1.3, 2.5)]:
            pairs += [(x, 0.0), (0.0, x), (0.6 * x, 0.8 * x), (-0.28 * x, 0.96 * x)]
        f, muo = u["lamfill"], MUO
        irons = []
        for (b1, b2) in pairs:
            if u["lamtype"] == 1:
                irons.append((math.sqrt((b1 / f) * (b1 / f) + b2 * b2), b2))
            elif u["lamtype"] == 2:
                irons.append((math.sqrt((b2 / f) * (b2 / f) + b1 * b1), b1))
            else:
                irons.append((math.sqrt(b1 * b1 + b2 * b2), 0.0))
        todo.append((u, pairs, irons))
    txt = ""
    for (u, pairs, irons) in todo:
        hx = lambda l: " ".join(float(x).hex() for x in l)
        txt += "\n".join(["case %d" % u["id"], "lam %d %s" % (u["lamtype"], float(u["lamfill"]).hex()), "B " + hx(u["B"]),
                          "H " + hx(u["H"]), "sample " + hx([i[0] for i in irons]),
                          "dsample " + hx([v for pr in pairs for v in pr]), "end"]) + "\n"
    rc, out, err = vlib.sh([exe, str(TIME_LIMIT)], inp=txt, timeout=120 + len(todo))
    res, cur = {}, None
    for line in out.split("\n"):
        tk = line.split()
        if not tk:
            continue
        if tk[0] == "case":
            cur = dict(s=[], d=[], done=False); res[int(tk[1])] = cur
        elif cur is not None and tk[0] in ("s", "d"):
            cur[tk[0]].append([float(x) for x in tk[1:]])
        elif cur is not None and tk[0] == "end":
            cur["done"] = True
    exprs, keep = [], []
    for (u, pairs, irons) in todo:
        r = res.get(u["id"])
        if not r or not r["done"] or len(r["d"]) != len(pairs):
            continue            # GetSlopes did not finish in time: reported by the main evaluation
        fh = vlib.fhex
        exprs.append("run_case_e FA %s %d%%nat %s %s [%s] [%s] [%s]" % (
            FUEL, u["lamtype"], fh(u["lamfill"]), fh(MUO), "; ".join(fh(b) for b in u["B"]),
            "; ".join("(%s, 0)" % fh(h) for h in u["H"]), "; ".join("(%s, %s)" % (fh(a), fh(b)) for a, b in pairs)))
        keep.append((u, pairs, irons, r))
    vals = vlib.coq_eval(HEADER_E, exprs) if exprs else []
    for (u, pairs, irons, r), mv in zip(keep, vals):
        st["cases"] += 1
        st["by_lamtype"][u["lamtype"]] += 1
        st["fill_below_one"] += 1 if u["lamfill"] < 1 else 0
        done, mvals = mv
        f = u["lamfill"]
        for k, ((b1, b2), (biron, bair), d, s) in enumerate(zip(pairs, irons, r["d"], r["s"])):
            # oracle: s[4] = GetEnergy(biron), s[5] = GetCoEnergy(biron) of the same object
            for nm, got, raw in (("DoEnergy", d[0], s[4]), ("DoCoEnergy", d[1], s[5])):
                want = raw if u["lamtype"] == 0 else f * raw + (1 - f) * bair * bair / (2. * MUO)
                st["oracle_values"] += 1
                exact_mag = u["lamtype"] != 0 or b1 == 0.0 or b2 == 0.0
                tol = 1e-12 if exact_mag else 1e-9
                if abs(got - want) > tol * max(abs(want), abs(raw), 1e-300):
                    ctx.fail("post-processor energy density: %s(%.17g, %.17g) = %.17g for LamType %d, fill %.6g, but the "
                             "integral of the reported H dB of the iron share mixed with the air share is %.17g"
                             % (nm, b1, b2, got, u["lamtype"], f, want), table=dict(u), signature="C19-post-energy")
                    break
            if done:
                for nm, x, y in (("DoEnergy", d[0], mvals[k][0]), ("DoCoEnergy", d[1], mvals[k][1])):
                    st["values"] += 1
                    if vlib.ulp_diff(float(x), float(y)) == 0:
                        st["bit"] += 1
                    elif not vlib.close(float(x), float(y), 64, 1e-300):
                        dis.append(dict(what="%s(%r, %r) of table %d (LamType %d, fill %r): implementation %r, model BHEnergy.v %r"
                                        % (nm, b1, b2, u["id"], u["lamtype"], f, x, y), table=dict(u)))
                        break
    return dis[:5], st


def regen(ctx):
    from props import xnl
    xnl.regen(ctx)            # the statements of static2d.cpp the Newton-loop model (AsmMNL.v) transcribes


def ensure_snap(ctx):
    """Other checks running concurrently prune old snapshots; re-acquire ours (this also refreshes
    its time stamp) before every use."""
    ctx.snap = vlib.snapshot()
    return ctx.snap


def run_impl(ctx, tables, samples):
    """samples: dict id -> list of floats (or None).  Returns (rc, dict id -> result, stderr)."""
    exe = vlib.build_harness(ensure_snap(ctx), "h_bh")
    txt = "".join(case_text(t, (samples or {}).get(t["id"], [])) for t in tables)
    rc, out, err = vlib.sh([exe, str(TIME_LIMIT)], inp=txt, timeout=60 + TIME_LIMIT * 4 + len(tables))
    res, cur = {}, None
    for line in out.split("\n"):
        tk = line.split()
        if not tk:
            continue
        if tk[0] == "case":
            cur = dict(S=[], s=[], done=False)
            res[int(tk[1])] = cur
        elif cur is None:
            continue
        elif tk[0] == "TIMEOUT":
            cur["timeout"] = True
        elif tk[0] == "B":
            cur["B"] = [float(x) for x in tk[1:]]
        elif tk[0] in ("H", "S"):
            v = [float(x) for x in tk[1:]]
            cur[tk[0]] = list(zip(v[0::2], v[1::2]))
        elif tk[0] == "mux":
            cur["mux"] = float(tk[1])
        elif tk[0] == "s":
            cur["s"].append([float(x) for x in tk[1:]])
        elif tk[0] == "d":
            cur.setdefault("d", []).append([float(x) for x in tk[1:]])
        elif tk[0] == "end":
            cur["done"] = True
    return rc, res, err


def sample_points(Bf, rng):
    """Evaluation points for a table whose FINAL knots are Bf: per segment a 9-point uniform
    grid (knots shared), 8 points beyond the table, both float neighbours of every knot, a few
    mirrored (negative) points.  Returns (xs, layout)."""
    xs, idx = [], {}

    def add(x):
        x = float(x)
        if x not in idx:
            idx[x] = len(xs)
            xs.append(x)
        return idx[x]
    n = len(Bf)
    segs = []
    for i in range(n - 1):
        l = Bf[i + 1] - Bf[i]
        g = [Bf[i]] + [Bf[i] + l * j / 8.0 for j in range(1, 8)] + [Bf[i + 1]]
        ok = all(g[j] < g[j + 1] for j in range(8))
        segs.append(([add(x) for x in g], ok))
    span = (Bf[-1] - Bf[0]) * 0.5 if Bf[-1] > Bf[0] else 1.0
    beyond = [add(Bf[-1])] + [add(Bf[-1] + span * j / 8.0) for j in range(1, 9)]
    far = add(Bf[-1] * 10.0 + 1.0)
    knots = []
    for i in range(n):
        lo = math.nextafter(Bf[i], -math.inf)
        hi = math.nextafter(Bf[i], math.inf)
        knots.append((add(lo) if lo >= Bf[0] else None, add(Bf[i]), add(hi)))
    mirrored = []
    for _ in range(3):
        x = rng.uniform(Bf[0], Bf[-1] * 1.5)
        mirrored.append((add(x), add(-x)))
    return xs, dict(segs=segs, beyond=beyond, far=far, knots=knots, mirrored=mirrored)


# -------------------------------------------------------------------- property oracle ----
def ref_slopes(B, H):
    """Independent natural-spline slopes: the C1 cubic Hermite interpolant with continuous second
    derivative at interior knots and zero second derivative at both ends."""
    from scipy.linalg import solve_banded
    n = len(B)
    ab = np.zeros((3, n))
    rhs = np.zeros(n)
    l = np.diff(np.array(B, dtype=float))
    d = np.diff(np.array(H, dtype=float))
    ab[1, 0] = 2.0; ab[0, 1] = 1.0; rhs[0] = 3.0 * d[0] / l[0]
    ab[1, n - 1] = 2.0; ab[2, n - 2] = 1.0; rhs[n - 1] = 3.0 * d[-1] / l[-1]
    for i in range(1, n - 1):
        ab[2, i - 1] = 1.0 / l[i - 1]
        ab[1, i] = 2.0 * (1.0 / l[i - 1] + 1.0 / l[i])
        ab[0, i + 1] = 1.0 / l[i]
        rhs[i] = 3.0 * (d[i - 1] / l[i - 1] ** 2 + d[i] / l[i] ** 2)
    return solve_banded((1, 1), ab, rhs)


def ref_bad(B, H, S):
    """Reference statement of the acceptance test: dH/dB of some segment has a real root in
    the closed segment (checked from the derivative's Bernstein/monomial form)."""
    for i in range(len(B) - 1):
        L = B[i + 1] - B[i]
        d0, d1, u0, u1 = S[i], S[i + 1], H[i], H[i + 1]
        c0 = d0
        c1 = -(2.0 * (2.0 * d0 * L + d1 * L + 3.0 * u0 - 3.0 * u1)) / (L * L)
        c2 = (3.0 * (d0 * L + d1 * L + 2.0 * u0 - 2.0 * u1)) / (L * L * L)
        roots = []
        if c2 == 0:
            if c1 != 0:
                roots.append(-c0 / c1)
        else:
            disc = c1 * c1 - 4.0 * c0 * c2
            if disc > 0:
                r = math.sqrt(disc)
                roots += [-(c1 + r) / (2.0 * c2), (-c1 + r) / (2.0 * c2)]
        if any(0.0 <= x <= L for x in roots):
            return True
    return False


def smooth_ref(v):
    return [v[0]] + [(v[i - 1] + v[i] + v[i + 1]) / 3.0 for i in range(1, len(v) - 1)] + [v[-1]]


def ref_getslopes(t, maxpass=MAXPASSES):
    """Reference construction (double precision, independent linear solve): smooth with the
    3-point average until no segment's derivative has a root, apply the fill-factor mixing once."""
    B, H = list(t["B"]), list(t["H"])
    passes, processed = 0, False
    while True:
        S = list(ref_slopes(B, H))
        if ref_bad(B, H, S):
            B, H = smooth_ref(B), smooth_ref(H)
            passes += 1
            if passes > maxpass:
                return None
            continue
        if not processed and t["lamtype"] == 0 and t["lamfill"] != 1.0:
            f = t["lamfill"]
            for i in range(1, len(B)):
                mu = f * B[i] / H[i] + (1.0 - f) * MUO
                B[i] = abs(mu * H[i])
                H[i] = B[i] / mu
            processed = True
            continue
        return B, H, S, passes


def relclose(a, b, tol, floor=0.0):
    return abs(a - b) <= tol * max(abs(a), abs(b)) + floor


def oracle(t, r, xs, lay):
    """Property-level checks on what the implementation returned for table t.
    Returns None or a message."""
    Bf, Hf, Sf = r["B"], [h[0] for h in r["H"]], [s[0] for s in r["S"]]
    n = len(Bf)
    if len(Sf) != n or len(Hf) != n:
        return "GetSlopes left %d slopes / %d H for %d points" % (len(Sf), len(Hf), n)
    if any(h[1] != 0 for h in r["H"]) or any(s[1] != 0 for s in r["S"]):
        return "magnetostatic curve acquired an imaginary part"
    if not all(math.isfinite(x) for x in Bf + Hf + Sf):
        return "non-finite table or slopes after GetSlopes"
    if any(Bf[i + 1] <= Bf[i] for i in range(n - 1)):
        return "final table abscissae are not strictly increasing"
    if Bf[0] != t["B"][0] or Bf[-1] != t["B"][-1] and t["lamfill"] == 1.0:
        return "end points moved by the smoothing"
    val = r["s"]
    Hx = lambda k: val[k][0]
    Dx = lambda k: val[k][2]
    Ex = lambda k: val[k][4]
    if any(v[1] != 0 or v[3] != 0 for v in val):
        return "GetH/GetdHdB returned a nonzero imaginary part for a real magnetostatic table"
    # (a) interpolation and continuity at knots
    for i, (klo, k, khi) in enumerate(lay["knots"]):
        sc = abs(Hf[i]) + (abs(Hf[i + 1]) if i + 1 < n else 0) + (abs(Hf[i - 1]) if i else 0)
        lmax = max(Bf[min(i + 1, n - 1)] - Bf[i], Bf[i] - Bf[max(i - 1, 0)])
        sc += lmax * (abs(Sf[i]) + abs(Sf[min(i + 1, n - 1)]) + abs(Sf[max(i - 1, 0)]))
        tol = 1e-9 * sc + 1e-300
        if abs(Hx(k) - Hf[i]) > tol:
            return "GetH(B[%d]) = %r differs from the table value %r" % (i, Hx(k), Hf[i])
        for kk, side in ((klo, "left"), (khi, "right")):
            if kk is not None and abs(Hx(kk) - Hx(k)) > tol:
                return "H jumps at knot %d (%s neighbour): %r vs %r" % (i, side, Hx(kk), Hx(k))
            if kk is not None and abs(Ex(kk) - Ex(k)) > 1e-9 * (abs(Ex(k)) + sc * lmax) + 1e-300:
                return "energy jumps at knot %d (%s neighbour): %r vs %r" % (i, side, Ex(kk), Ex(k))
    # (b) non-decreasing on the grid (all sample points with x >= 0, sorted)
    pts = sorted((x, k) for k, x in enumerate(xs) if x >= Bf[0])
    hmax = max(abs(Hx(k)) for _, k in pts) or 1.0
    for (x0, k0), (x1, k1) in zip(pts, pts[1:]):
        if Hx(k1) < Hx(k0) - 1e-10 * max(abs(Hx(k0)), abs(Hx(k1))) - 1e-300:
            return "H decreases between B=%r and B=%r: %r -> %r" % (x0, x1, Hx(k0), Hx(k1))
        if Dx(k0) < -1e-9 * hmax / max(Bf[-1] - Bf[0], 1e-300):
            return "reported dH/dB is negative at B=%r: %r" % (x0, Dx(k0))
    # (c),(d) slope = derivative (5-point centred difference, exact for cubics) and
    # energy = integral (Simpson, exact for cubics), segment by segment and beyond the table
    from scipy.integrate import simpson
    if Ex(lay["knots"][0][1]) != 0.0 and Bf[0] == 0.0:
        return "GetEnergy(0) = %r" % Ex(lay["knots"][0][1])
    groups = [(g, ok, i) for i, (g, ok) in enumerate(lay["segs"])] + [(lay["beyond"], True, n - 1)]
    for g, ok, i in groups:
        if not ok:
            continue
        x = [xs[k] for k in g]
        h = [Hx(k) for k in g]
        l = x[-1] - x[0]
        j = min(i + 1, n - 1)
        sc = abs(Hf[i]) + abs(Hf[j]) + l * (abs(Sf[i]) + abs(Sf[j])) + max(abs(v) for v in h)
        dl = l / 8.0
        for c in range(2, 7):
            fd = (-h[c + 2] + 8 * h[c + 1] - 8 * h[c - 1] + h[c - 2]) / (12 * dl)
            if abs(fd - Dx(g[c])) > 1e-7 * sc / l:
                return "GetdHdB(%r) = %r but the centred difference of GetH is %r" % (x[c], Dx(g[c]), fd)
        for c in (2, 4, 8):
            q = simpson(h[:c + 1], x=x[:c + 1])
            de = Ex(g[c]) - Ex(g[0])
            if abs(q - de) > 1e-8 * (sc * l + abs(Ex(g[c])) * 1e-4) + 1e-300:
                return ("GetEnergy(%r)-GetEnergy(%r) = %r but the quadrature of GetH over that interval is %r"
                        % (x[c], x[0], de, q))
    # extrapolation is affine with the last slope
    kf = lay["far"]
    want = Hf[-1] + Sf[-1] * (xs[kf] - Bf[-1])
    if not relclose(Hx(kf), want, 1e-12) or Dx(kf) != Sf[-1]:
        return "extrapolation beyond the table is not affine with the last slope"
    # evenness, coenergy, v = H/b
    for (kp, km) in lay["mirrored"]:
        if val[kp][:5] != val[km][:5]:
            return "H/dHdB/energy differ between B=%r and B=%r" % (xs[kp], xs[km])
    for k, x in enumerate(xs):
        if x > 0:
            # (GetCoEnergy goes through 1/B, which overflows for subnormal B: not sampled below 1e-290)
            if x > 1e-290 and not relclose(val[k][5], x * Hx(k) - Ex(k), 1e-12, 1e-12 * abs(x * Hx(k))):
                return "GetCoEnergy(%r) = %r is not B*H - energy = %r" % (x, val[k][5], x * Hx(k) - Ex(k))
            if not relclose(val[k][6] * x, Hx(k), 1e-12):
                return "GetBHProps(%r): v*B = %r but H = %r" % (x, val[k][6] * x, Hx(k))
    # slopes are the natural-spline slopes of the final table
    rs = ref_slopes(Bf, Hf)
    smax = max(abs(s) for s in rs) or 1.0
    for i in range(n):
        if abs(rs[i] - Sf[i]) > 1e-7 * smax:
            return "slope[%d] = %r but the natural spline through the final table has %r" % (i, Sf[i], float(rs[i]))
    # construction: reference smoothing repair
    ref = ref_getslopes(t)
    if ref is None:
        return "reference construction needs more than %d smoothing passes" % MAXPASSES
    rB, rH, rS, passes = ref
    r["ref_passes"] = passes
    bs = max(abs(b) for b in rB)
    hs = max(abs(h) for h in rH)
    if any(abs(a - b) > 1e-9 * bs for a, b in zip(rB, Bf)) or any(abs(a - b) > 1e-9 * hs for a, b in zip(rH, Hf)):
        return ("final table differs from the reference construction (3-point average repeated until no "
                "segment derivative has a root; %d passes in the reference)" % passes)
    # reduction to the linear case
    if t["kind"] in ("line", "line-exact") and t["lamfill"] == 1.0:
        k = t["H"][-1] / t["B"][-1]
        if Bf != t["B"] or Hf != t["H"]:
            return "a straight-line table was modified by the smoothing repair"
        for i in range(n):
            if not relclose(Sf[i], k, 1e-9):
                return "straight-line table: slope[%d] = %r, line slope %r" % (i, Sf[i], k)
        for kx, x in enumerate(xs):
            ax = abs(x)
            if not relclose(Hx(kx), k * ax, 1e-9, 1e-300):
                return "straight-line table: GetH(%r) = %r, linear material gives %r" % (x, Hx(kx), k * ax)
            if not relclose(Ex(kx), k * ax * ax / 2, 1e-9, 1e-300):
                return "straight-line table: GetEnergy(%r) = %r, linear material gives %r" % (x, Ex(kx), k * ax * ax / 2)
            if ax > 1e-100 and (not relclose(val[kx][6], k, 1e-9) or abs(val[kx][7]) > 1e-7 * k / (ax * ax)):
                return "straight-line table: GetBHProps(%r) = (%r,%r), linear material gives (%r,0)" % (x, val[kx][6], val[kx][7], k)
    return None


# --------------------------------------------------------------------- correspondence ----
def to_coq(t, xs):
    f = vlib.fhex
    return "run_case FA %s %s %s %s [%s] [%s] [%s]" % (
        FUEL, "true" if t["lamtype"] == 0 else "false", f(t["lamfill"]), f(MUO),
        "; ".join(f(b) for b in t["B"]), "; ".join("(%s, 0)" % f(h) for h in t["H"]),
        "; ".join(f(x) for x in xs))


def compare(t, r, m):
    """Implementation result r against model value m.  Returns (msg, bit_identical, total)."""
    (passes, gok, done, tbl, mux, samples) = m
    mB, mH, mS = tbl
    if not done:
        return "model: smoothing loop not finished after %d passes" % passes, 0, 0
    nb = tot = 0
    pairs = []
    pairs += [("B[%d]" % i, a, b) for i, (a, b) in enumerate(zip(r["B"], mB))]
    for nm, ri, mi in (("H", r["H"], mH), ("slope", r["S"], mS)):
        if len(ri) != len(mi):
            return "%s: implementation has %d entries, model %d" % (nm, len(ri), len(mi)), nb, tot
        for i, (a, b) in enumerate(zip(ri, mi)):
            pairs.append(("%s[%d].re" % (nm, i), a[0], b[0]))
            pairs.append(("%s[%d].im" % (nm, i), a[1], b[1]))
    pairs.append(("mu_x", r["mux"], mux))
    if len(r["s"]) != len(samples):
        return "implementation printed %d samples, model %d" % (len(r["s"]), len(samples)), nb, tot
    names = ["H.re", "H.im", "dHdB.re", "dHdB.im", "energy", "coenergy", "v", "dv"]
    for k, (a, b) in enumerate(zip(r["s"], samples)):
        for nm, x, y in zip(names, a, b):
            pairs.append(("sample %d %s" % (k, nm), x, y))
    worst = None
    for nm, x, y in pairs:
        tot += 1
        x, y = float(x), float(y)
        if vlib.ulp_diff(x, y) == 0:
            nb += 1
        elif not vlib.close(x, y, 64, 1e-300):
            if worst is None:
                worst = "%s: implementation %r, model %r" % (nm, x, y)
    return worst, nb, tot


def evaluate(ctx, tables, with_model=True, timeouts=0):
    """Two harness passes (final knots, then samples), oracle, optional model comparison.
    Returns (failures, disagreements, stats)."""
    fails, dis = [], []
    stats = dict(values=0, bit=0, passes={}, kinds={}, nontrivial=set(), samples=0)
    rc, res0, err = run_impl(ctx, tables, None)
    live = []
    for t in tables:
        r = res0.get(t["id"])
        if r is None or r.get("timeout") or not r.get("done"):
            fails.append(dict(what="GetSlopes(0) did not return within %d s (or crashed, rc=%d) for a monotone table"
                              % (TIME_LIMIT, rc), table=t, stderr=err[-400:]))
            # the harness stops at the first time-out: run the remaining tables separately
            rest = [u for u in tables if u["id"] > t["id"]]
            if rest and r is not None and timeouts + 1 < MAX_TIMEOUTS:
                f2, d2, s2 = evaluate(ctx, rest, with_model, timeouts + 1)
                fails += f2; dis += d2
                for k in ("values", "bit", "samples"):
                    stats[k] += s2[k]
            break
        live.append(t)
    if not live:
        return fails, dis, stats
    samples, layouts = {}, {}
    for t in live:
        xs, lay = sample_points(res0[t["id"]]["B"], vlib.Rng(ctx.seed * 1000 + t["id"]))
        samples[t["id"]], layouts[t["id"]] = xs, lay
    rc, res, err = run_impl(ctx, live, samples)
    for t in live:
        r = res.get(t["id"])
        stats["kinds"][t["kind"]] = stats["kinds"].get(t["kind"], 0) + 1
        if r is None or not r.get("done") or len(r["s"]) != len(samples[t["id"]]):
            fails.append(dict(what="harness produced no complete output for table (rc=%d)" % rc, table=t, stderr=err[-400:]))
            continue
        stats["samples"] += len(r["s"])
        if len(t["B"]) >= 3:
            stats["nontrivial"].add(json.dumps([t["B"], t["H"], t["lamtype"], t["lamfill"]]))
        msg = oracle(t, r, samples[t["id"]], layouts[t["id"]])
        if msg:
            fails.append(dict(what=msg, table=t, final_B=r["B"], final_H=[h[0] for h in r["H"]],
                              slopes=[s[0] for s in r["S"]]))
    if with_model:
        todo = [t for t in live if res.get(t["id"]) and res[t["id"]].get("done")]
        exprs = [to_coq(t, samples[t["id"]]) for t in todo]
        model = vlib.coq_eval(HEADER, exprs, shard=25, timeout=2400)
        for t, m in zip(todo, model):
            msg, nb, tot = compare(t, res[t["id"]], m)
            stats["values"] += tot
            stats["bit"] += nb
            p = m[0]
            stats["passes"][p] = stats["passes"].get(p, 0) + 1
            if m[0] > MAXPASSES or not m[2]:
                fails.append(dict(what="GetSlopes needs more than %d smoothing passes for a monotone table" % MAXPASSES, table=t))
            if not m[1]:
                # the theorems about the slopes are conditional on GaussSolve's own success flag
                fails.append(dict(what="GaussSolve reports a singular spline system for a monotone table (return value ignored by GetSlopes)", table=t))
            if msg:
                dis.append(dict(what="BH correspondence (%s table, %d points): %s" % (t["kind"], len(t["B"]), msg), table=t))
    return fails, dis, stats


def correspond(ctx):
    rng = ctx.rng
    tables = []
    if ctx.replay and isinstance(ctx.replay.get("replay"), dict) and "table" in ctx.replay["replay"]:
        tables.append(dict(ctx.replay["replay"]["table"]))
    cdir = os.path.join(vlib.VERIF, "corpus", "C19")
    if os.path.isdir(cdir):
        for f in sorted(os.listdir(cdir)):
            tables.append(json.load(open(os.path.join(cdir, f))))
    tables += gen_tables(rng, 60 if ctx.quick() else 1200, 24 if ctx.quick() else 40)
    if ctx.quick():
        tables += gen_tables(rng, 10, 40)
    for k, t in enumerate(tables):
        t["id"] = k
    fails, dis, st = evaluate(ctx, tables)
    report_failures(ctx, fails)
    edis, est = post_energy(ctx, tables)
    dis = list(dis) + edis
    sres = solver_pairs(ctx)
    cov = ctx.res.cov
    cov["post_processor_energy_densities"] = est
    cov["evaluations"] = len(tables) + sres["runs"]
    cov["distinct_nontrivial"] = len(st["nontrivial"])
    cov["rule"] = ("seeded monotone B-H tables (2..40 points; straight lines through the origin, exactly representable "
                   "lines, steel-like power laws, sharp knees, saturating tails with the slope of free space, random "
                   "log-uniform increments, nearly collinear, 2-3 points, step ratios up to 1e4, plateaus; 20% with a "
                   "lamination fill factor) pushed through GetSlopes(0) and sampled (per segment a 9-point grid, both float "
                   "neighbours of every knot, 9 points beyond the table, mirrored points); non-trivial = at least 3 points, "
                   "distinct = distinct (B,H,LamType,LamFill); plus paired fmesher/fsolver runs (straight-line table vs "
                   "linear material)")
    cov["input_distribution"] = dict(kinds=st["kinds"], smoothing_passes_histogram={str(k): v for k, v in sorted(st["passes"].items())},
                                     points=[len(t["B"]) for t in tables][:200])
    cov["samples"] = [dict(kind=t["kind"], B=t["B"], H=t["H"], lamtype=t["lamtype"], lamfill=t["lamfill"]) for t in tables[:3]]
    cov["sample_points_evaluated"] = st["samples"]
    cov["values_compared"] = st["values"]
    cov["bit_identical"] = st["bit"]
    cov["solver_pairs"] = sres
    from props import ext as extmod
    return list(dis) + extmod.run(ctx, EXTENSIONS)


def report_failures(ctx, fails, cap=5):
    """The smallest failing tables first, at most `cap` replay files."""
    fails = sorted(fails, key=lambda f: len(f["table"]["B"]))
    ctx.res.cov["failing_tables"] = len(fails)
    for f in fails[:cap]:
        f = dict(f)
        ctx.fail(f.pop("what"), **f)


def search(ctx, broken):
    """A proof or the correspondence broke: look for a table on which the PROPERTY fails on the
    real code (oracle only, more and nastier tables)."""
    found = []
    tables = []
    for b in broken:
        c = b.get("case") or {}
        if "table" in c:
            tables.append(dict(c["table"]))
    tables += gen_tables(vlib.Rng(ctx.seed + 1), 300, 40)
    for k, t in enumerate(tables):
        t["id"] = k
    fails, _, _ = evaluate(ctx, tables, with_model=False)
    for f in sorted(fails, key=lambda f: len(f["table"]["B"]))[:3]:
        found.append(f)
    return found


# ------------------------------------------------------ paired solver runs (linear case) ----
FEM_HEAD = """[Format]      =  4.0
[Frequency]   =  0
[Precision]   =  1e-08
[MinAngle]    =  30
[Depth]       =  %(depth).17g
[LengthUnits] =  centimeters
[ProblemType] =  planar
[Coordinates] =  cartesian
[ACSolver]    =  0
[PrevSoln]    = ""
[PrevType]    =  0
[Comment]     =  "C19 paired run"
[PointProps]  =  0
[BdryProps]   = 1
  <BeginBdry>
    <BdryName> = "zero"
    <BdryType> = 0
    <A_0> = 0
    <A_1> = 0
    <A_2> = 0
    <Phi> = 0
    <c0> = 0
    <c0i> = 0
    <c1> = 0
    <c1i> = 0
    <Mu_ssd> = 0
    <Sigma_ssd> = 0
    <innerangle> = 0
    <outerangle> = 0
  <EndBdry>
[BlockProps]  = 3
"""


def fem_block(name, mu, J, bh=(), lamfill=1.0):
    L = ["  <BeginBlock>", '    <BlockName> = "%s"' % name, "    <Mu_x> = %.17g" % mu, "    <Mu_y> = %.17g" % mu,
         "    <H_c> = 0", "    <H_cAngle> = 0", "    <J_re> = %.17g" % J, "    <J_im> = 0", "    <Sigma> = 0",
         "    <d_lam> = 0", "    <Phi_h> = 0", "    <Phi_hx> = 0", "    <Phi_hy> = 0", "    <LamType> = 0",
         "    <LamFill> = %.17g" % lamfill, "    <NStrands> = 0", "    <WireD> = 0", "    <BHPoints> = %d" % len(bh)]
    for b, h in bh:
        L.append("      %.17g\t%.17g" % (b, h))
    L.append("  <EndBlock>")
    return "\n".join(L) + "\n"


def fem_text(g, mu, bh):
    """Outer air box with A=0, an iron rectangle (linear mu, or the B-H table bh), a coil rectangle."""
    pts = []
    segs = []

    def rect(x0, y0, x1, y1, bdry):
        k = len(pts)
        pts.extend([(x0, y0), (x1, y0), (x1, y1), (x0, y1)])
        for a in range(4):
            segs.append((k + a, k + (a + 1) % 4, bdry))
    rect(-g["box"], -g["box"], g["box"], g["box"], 1)
    rect(*g["iron"], 0)
    rect(*g["coil"], 0)
    t = FEM_HEAD % dict(depth=g["depth"])
    t += fem_block("air", 1, 0) + fem_block("coil", 1, g["J"]) + fem_block("iron", mu, 0, bh)
    t += "[CircuitProps]  = 0\n[NumPoints] = %d\n" % len(pts)
    t += "".join("%.17g\t%.17g\t0\t0\n" % p for p in pts)
    t += "[NumSegments] = %d\n" % len(segs)
    t += "".join("%d\t%d\t%s\t%d\t0\t0\n" % (a, b, g["mesh"] if bd == 0 else "-1", bd) for a, b, bd in segs)
    t += "[NumArcSegments] = 0\n[NumHoles] = 0\n[NumBlockLabels] = 3\n"
    ix, iy = (g["iron"][0] + g["iron"][2]) / 2, (g["iron"][1] + g["iron"][3]) / 2
    cx, cy = (g["coil"][0] + g["coil"][2]) / 2, (g["coil"][1] + g["coil"][3]) / 2
    t += "%.17g\t%.17g\t1\t-1\t0\t0\t0\t1\t0\n" % (0.0, g["box"] - 0.3)
    t += "%.17g\t%.17g\t2\t-1\t0\t0\t0\t1\t0\n" % (cx, cy)
    t += "%.17g\t%.17g\t3\t%s\t0\t0\t0\t1\t0\n" % (ix, iy, g["mesh"])
    return t


def read_ans(path):
    L = open(path, errors="replace").read().replace("\r", "").split("\n")
    k = L.index("[Solution]")
    nn = int(L[k + 1])
    nodes = np.array([[float(v) for v in L[k + 2 + i].split()[:3]] for i in range(nn)])
    ne = int(L[k + 2 + nn])
    els = np.array([[int(v) for v in L[k + 3 + nn + i].split()[:4]] for i in range(ne)])
    return nodes, els


def element_B(nodes, els):
    """P1 flux density per element (planar, lengths in cm -> T) and element areas in m^2."""
    x, y, A = nodes[:, 0] * 0.01, nodes[:, 1] * 0.01, nodes[:, 2]
    n0, n1, n2 = els[:, 0], els[:, 1], els[:, 2]
    b = np.stack([y[n1] - y[n2], y[n2] - y[n0], y[n0] - y[n1]], 1)
    c = np.stack([x[n2] - x[n1], x[n0] - x[n2], x[n1] - x[n0]], 1)
    da = (b[:, 0] * c[:, 1] - b[:, 1] * c[:, 0])       # 2*area
    Av = np.stack([A[n0], A[n1], A[n2]], 1)
    dAdx = (Av * b).sum(1) / da
    dAdy = (Av * c).sum(1) / da
    return np.hypot(dAdy, dAdx), np.abs(da) / 2


def run_solver(ctx, d, name, text):
    open(os.path.join(d, name + ".fem"), "w").write(text)
    ensure_snap(ctx)
    rc, out, err = vlib.sh([ctx.snap.tool("fmesher"), name + ".fem"], cwd=d, timeout=120)
    if rc != 0:
        return None, "fmesher failed (rc=%d)" % rc, 0
    rc, out, err = vlib.sh([ctx.snap.tool("fsolver"), name], cwd=d, timeout=180)
    its = out.count("Newton Iteration")
    if rc == 124:
        return None, "fsolver did not terminate within 180 s (%d Newton iterations printed)" % its, its
    if rc != 0 or not os.path.exists(os.path.join(d, name + ".ans")):
        return None, "fsolver failed (rc=%d): %s" % (rc, (out + err)[-300:]), its
    return read_ans(os.path.join(d, name + ".ans")), None, its


def solver_pairs(ctx):
    """Property, end to end: a magnetostatic problem whose B-H table is a straight line through the
    origin gives the same solution and energy as the linear material of that permeability, and the
    Newton iteration terminates.  Runs fmesher+fsolver from the snapshot on generated problems."""
    rng = vlib.Rng(ctx.seed + 77)
    npairs = 2 if ctx.quick() else 8
    st = dict(runs=0, pairs=[], max_rel_dA=0.0, max_rel_dW=0.0, newton_iterations=[])
    for k in range(npairs):
        mu = rng.choice([50.0, 1000.0, 4000.0, float(rng.randint(2, 20000))])
        n = rng.randint(2, 12)
        B = uneven_knots(rng, n, rng.choice([0.5, 2.0, 4.0]), rng.choice([1.0, 20.0]))
        kk = 1.0 / (mu * MUO)
        bh = [(b, kk * b) for b in B]
        g = dict(box=6.0, iron=(-2.0 - rng.random(), -3.0, 1.0, 2.0 + rng.random()),
                 coil=(2.0, -2.0, 4.0 - rng.random(), 2.0), J=rng.choice([0.5, 2.0, 10.0, -3.0]),
                 depth=rng.choice([1.0, 2.5]), mesh=rng.choice(["0.5", "0.3", "-1"]))
        d = os.path.join(ctx.work, "pair%d" % k)
        os.makedirs(d, exist_ok=True)
        replay = dict(geometry=g, mu=mu, table=dict(kind="line", B=[b for b, _ in bh], H=[h for _, h in bh], lamtype=0, lamfill=1.0))
        lin, msg, _ = run_solver(ctx, d, "lin", fem_text(g, mu, ()))
        st["runs"] += 1
        if msg:
            ctx.fail("paired run, linear material: " + msg, **replay)
            continue
        tab, msg, its = run_solver(ctx, d, "tab", fem_text(g, mu, bh))
        st["runs"] += 1
        st["newton_iterations"].append(its)
        if msg:
            ctx.fail("paired run, straight-line B-H table: " + msg, **replay)
            continue
        (n1, e1), (n2, e2) = lin, tab
        if n1.shape != n2.shape or e1.shape != e2.shape or not np.array_equal(n1[:, :2], n2[:, :2]):
            ctx.fail("paired run: the two problems were meshed differently", **replay)
            continue
        amax = np.abs(n1[:, 2]).max()
        dA = float(np.abs(n1[:, 2] - n2[:, 2]).max() / amax)
        st["max_rel_dA"] = max(st["max_rel_dA"], dA)
        if not dA <= 1e-5:
            ctx.fail("straight-line B-H table and linear material of the same permeability give different solutions "
                     "(max |dA|/max|A| = %.3g)" % dA, **replay)
            continue
        # energy of the iron block: linear law on the linear solution, the implementation's
        # GetEnergy (through the harness, after GetSlopes) on the table solution
        iron = e1[:, 3] == 2
        B1, ar = element_B(n1, e1)
        B2, _ = element_B(n2, e2)
        vol = ar[iron] * g["depth"] * 0.01
        W1 = float((vol * B1[iron] ** 2 / (2 * mu * MUO)).sum())
        t = dict(replay["table"], id=0)
        rc, res, err = run_impl(ctx, [t], {0: [float(b) for b in B2[iron]]})
        if 0 not in res or not res[0].get("done"):
            ctx.fail("harness failed on the table of a paired run", **replay)
            continue
        W2 = float((vol * np.array([v[4] for v in res[0]["s"]])).sum())
        dW = abs(W1 - W2) / abs(W1)
        st["max_rel_dW"] = max(st["max_rel_dW"], dW)
        if not dW <= 1e-5:
            ctx.fail("stored energy in the iron differs between the straight-line table (%r J) and the linear "
                     "material (%r J)" % (W2, W1), **replay)
        if its > 25:
            ctx.fail("Newton iteration needed %d passes on a straight-line table" % its, **replay)
        st["pairs"].append(dict(mu=mu, points=n, nodes=int(n1.shape[0]), newton=its, rel_dA=dA, rel_dW=dW))
    return st
