def correspond(ctx):
    return [], dict(scripts=0, distinct=0, values=0, bit_identical=0)
def search(ctx, broken):
    return []
