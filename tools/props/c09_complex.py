"""C09, complex part: CBigComplexLinProb (cspars.cpp) vs. coq/theories/CSparse.v."""
import math, os
from fractions import Fraction
import vlib
from props import c09

HEADER = c09.HEADER
FUEL = 3000


def cz(rng, s=1.0):
    return (c09.rnd(rng, s), c09.rnd(rng, s))


def gen_script(rng, k):
    n = rng.randint(2, 11)
    extra = rng.choice([0, 0, 1, 2]) if n > 4 else 0      # circuit-like unknowns beyond NumNodes
    nodes = n - extra
    edges = [(i, j) for (i, j) in c09.fe_pattern(rng, nodes)]
    ops = []
    omega = rng.choice([0.0, 0.5, 2.0, 50.0])
    contrib = []
    for (i, j) in edges:
        w = abs(c09.rnd(rng)) + 0.1
        m = (abs(c09.rnd(rng)) + 0.05) * omega
        # stiffness + j*omega*sigma*consistent mass, as harmonic2d assembles
        contrib += [("addto", (w, 2 * m), i, i), ("addto", (w, 2 * m), j, j), ("addto", (-w, m), i, j)]
    for i in range(nodes):
        if rng.random() < 0.5 or i == 0:
            contrib.append(("addto", (abs(c09.rnd(rng)) + 0.05, 0.0), i, i))
    for e in range(nodes, n):
        contrib.append(("addto", (abs(c09.rnd(rng)) + 1.0, abs(c09.rnd(rng))), e, e))
        for _ in range(rng.randint(1, 3)):
            contrib.append(("addto", cz(rng, 0.2), rng.randrange(nodes), e))
    rng.shuffle(contrib)
    ops += contrib
    truebw = max([j - i for (i, j) in edges] + [0])
    bw = rng.choice([0, truebw + 1, truebw + 2, n])
    zero_rhs = rng.random() < 0.12
    for i in range(n):
        if rng.random() < 0.8 and not zero_rhs:
            ops.append(("setb", i, cz(rng)))
    cons = []
    used = set()
    for _ in range(rng.randint(0, 3)):
        r = rng.random()
        if r < 0.45:
            i = rng.randrange(nodes)
            if i not in used:
                used.add(i)
                cons.append(("setvalue", i, cz(rng)))
        elif nodes >= 3:
            i, j = rng.sample(range(nodes), 2)
            if rng.random() < 0.2:
                j = i              # self tie (centre of a rotational cell)
            if i not in used and j not in used:
                used.update((i, j))
                cons.append(("periodic" if r < 0.75 else "antiperiodic", i, j))
    cons.sort(key=lambda o: 0 if o[0] == "setvalue" else 1)
    ops += cons
    ops.append(("dump",))
    for _ in range(rng.randint(1, 4)):
        ops.append(("get", rng.randrange(n), rng.randrange(n)))
    x = [cz(rng) for _ in range(n)]
    ops.append(("multa", x))
    ops.append(("multpc", x))
    ops.append(("solve", 0))
    if rng.random() < 0.4:
        ops.append(("setb", rng.randrange(n), cz(rng)))
        ops.append(("solve", 1))
    return dict(kind="complex", id=k, n=n, bw=bw, nodes=nodes, prec=rng.choice([1e-8, 1e-6]), lam=1.5, ops=ops)


def hx(z):
    return "%s %s" % (float(z[0]).hex(), float(z[1]).hex())


def to_text(s):
    L = ["case %d" % s["id"], "create %d %d %d %s %s" % (s["n"], s["bw"], s["nodes"], float(s["prec"]).hex(), float(s["lam"]).hex())]
    for o in s["ops"]:
        k = o[0]
        if k in ("put", "addto"):
            L.append("%s %s %d %d" % (k, hx(o[1]), o[2], o[3]))
        elif k in ("get", "periodic", "antiperiodic"):
            L.append("%s %d %d" % (k, o[1], o[2]))
        elif k in ("setb", "setvalue"):
            L.append("%s %d %s" % (k, o[1], hx(o[2])))
        elif k in ("multa", "multpc"):
            L.append(k + " " + " ".join(hx(z) for z in o[1]))
        elif k == "solve":
            L.append("solve %d" % o[1])
        else:
            L.append(k)
    L.append("end")
    return "\n".join(L) + "\n"


def cq(z):
    return "(%s, %s)" % (vlib.fhex(z[0]), vlib.fhex(z[1]))


def to_coq(s):
    ops = []
    for o in s["ops"]:
        k = o[0]
        if k == "put":
            ops.append("CPut %s %d %d" % (cq(o[1]), o[2], o[3]))
        elif k == "addto":
            ops.append("CAddTo %s %d %d" % (cq(o[1]), o[2], o[3]))
        elif k == "get":
            ops.append("CGet %d %d" % (o[1], o[2]))
        elif k == "setb":
            ops.append("CSetB %d %s" % (o[1], cq(o[2])))
        elif k == "setvalue":
            ops.append("CSetValue %d %s" % (o[1], cq(o[2])))
        elif k == "periodic":
            ops.append("CPeriodic %d %d" % (o[1], o[2]))
        elif k == "antiperiodic":
            ops.append("CAntiPeriodic %d %d" % (o[1], o[2]))
        elif k == "multa":
            ops.append("CMultA [%s]" % "; ".join(cq(z) for z in o[1]))
        elif k == "multpc":
            ops.append("CMultPC [%s]" % "; ".join(cq(z) for z in o[1]))
        elif k == "solve":
            ops.append("CSolve %s %d" % ("true" if o[1] else "false", FUEL))
        elif k == "dump":
            ops.append("CDump")
    return "crun FA (ccreate FA %d %d %d %s %s) [%s]" % (s["n"], s["bw"], s["nodes"], vlib.fhex(s["prec"]), vlib.fhex(s["lam"]), "; ".join(ops))


def run_impl(ctx, scripts, solvelog=None):
    exe = vlib.build_harness(ctx.snap, "h_cspars")
    txt = "".join(to_text(s) for s in scripts)
    env = {"XFEMM_VERIF_SOLVELOG": solvelog} if solvelog else {}
    rc, out, err = vlib.sh([exe], inp=txt, timeout=180, env=env)
    res, cur = {}, None
    for line in out.split("\n"):
        if line.startswith("case "):
            cur = []
            res[int(line.split()[1])] = cur
        elif line.startswith("r") and cur is not None:
            cur.append([float(t) for t in line.split()[1:]])
    return rc, res, err


def parse_dump(n, dump):
    b = [complex(dump[-2 * n + 2 * i], dump[-2 * n + 2 * i + 1]) for i in range(n)]
    ent = dump[:-2 * n]
    rows, k = [], 0
    while k < len(ent):
        cnt = int(ent[k]); k += 1
        rows.append([(int(ent[k + 3 * t]), complex(ent[k + 3 * t + 1], ent[k + 3 * t + 2])) for t in range(cnt)])
        k += 3 * cnt
    return rows, b


def oracle(s, outs):
    """dense complex solve (numpy) of the dumped system vs. the BiCG result; residual."""
    import numpy as np
    n = s["n"]
    A = None
    for o, out in zip(s["ops"], outs):
        if o[0] == "dump":
            rows, b = parse_dump(n, out)
            if len(rows) != n:
                return "row structure broken"
            A = np.zeros((n, n), dtype=complex)
            for i, r in enumerate(rows):
                cols = [c for c, _ in r]
                if cols[0] != i or any(cols[t] >= cols[t + 1] for t in range(len(cols) - 1)):
                    return "row %d is not (diagonal, strictly increasing columns): %r" % (i, cols)
                for c, x in r:
                    A[i, c] = x
                    A[c, i] = x
            bv = np.array(b)
        elif o[0] == "setb" and A is not None:
            bv = bv.copy()
            bv[o[1]] = complex(*o[2])
        elif o[0] == "solve" and A is not None:
            st = out[0]
            V = np.array([complex(out[1 + 2 * i], out[2 + 2 * i]) for i in range(n)])
            if st != 1:
                return "complex solver reported the singular flag on a regular system"
            if not np.all(np.isfinite(V)):
                return "complex solver returned non-finite values"
            nb = np.linalg.norm(bv)
            if nb == 0:
                continue
            rr = np.linalg.norm(bv - A @ V) / nb
            if rr > 10 * s["prec"]:
                return "true relative residual %.3g exceeds 10*Precision" % rr
            try:
                x = np.linalg.solve(A, bv)
            except np.linalg.LinAlgError:
                continue
            cond = np.linalg.cond(A)
            if np.linalg.norm(V - x) > 10 * s["prec"] * cond * max(np.linalg.norm(x), 1e-300):
                return "solution differs from the dense direct solve by %.3g (cond %.3g)" % (np.linalg.norm(V - x), cond)
    return None


def correspond(ctx):
    rng = vlib.Rng(ctx.seed + 7)
    count = 25 if ctx.quick() else 500
    scripts = [gen_script(rng, k) for k in range(count)]
    solvelog = os.path.join(ctx.work, "csolvelog")
    rc, impl, err = run_impl(ctx, scripts, solvelog)
    stat = dict(scripts=len(scripts), distinct=len(set(to_text(s) for s in scripts)), values=0, bit_identical=0, solve_log=0)
    dis = []
    if rc != 0 or len(impl) != len(scripts):
        ctx.fail("harness driving CBigComplexLinProb terminated abnormally (rc=%d): non-termination or crash" % rc,
                 stderr=err[-500:], script=scripts[max(len(impl) - 1, 0)])
        return dis, stat
    for s in scripts:
        msg = oracle(s, impl[s["id"]])
        if msg:
            ctx.fail("cspars: " + msg, script=dict(s, text=to_text(s).split("\n")))
    if os.path.exists(solvelog):
        for line in open(solvelog):
            t = line.split()
            if len(t) == 5 and t[0] == "complex":
                stat["solve_log"] += 1
                if not (float(t[2]) <= 10 * float(t[3])):
                    ctx.fail("solve-log hook (complex): true relative residual %s > 10*Precision" % t[2], logline=line)
    model = vlib.coq_eval(HEADER, [to_coq(s) for s in scripts], shard=50)
    for s, m in zip(scripts, model):
        outs = impl[s["id"]]
        for o, a, mm in zip(s["ops"], outs, m):
            if o[0] == "solve":
                if mm[0] == 2:
                    dis.append(dict(what="cspars correspondence: model out of fuel", script=s)); break
                mm = [mm[0]] + mm[2:]
            if len(a) != len(mm):
                dis.append(dict(what="cspars correspondence: op %r output length %d vs %d" % (o[0], len(a), len(mm)), script=s)); break
            bad = False
            for x, y in zip(a, mm):
                stat["values"] += 1
                if vlib.ulp_diff(float(x), float(y)) == 0:
                    stat["bit_identical"] += 1
                elif not vlib.close(float(x), float(y), 64, 1e-300):
                    dis.append(dict(what="cspars correspondence: op %r: implementation %r, model %r" % (o[:1], x, y), script=s))
                    bad = True
                    break
            if bad:
                break
    return dis, stat


def search(ctx, broken):
    rng = vlib.Rng(ctx.seed + 11)
    scripts = [gen_script(rng, k) for k in range(300)]
    rc, impl, err = run_impl(ctx, scripts)
    for s in scripts:
        if s["id"] not in impl:
            return [dict(what="cspars harness produced no output (crash / non-termination)", script=s)]
        msg = oracle(s, impl[s["id"]])
        if msg:
            return [dict(what="cspars: " + msg, script=dict(s, text=to_text(s).split("\n")))]
    return []
